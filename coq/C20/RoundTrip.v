(** C20 -- history requests through the round trip TOUGH2 -> AUTOUGH2 -> TOUGH2
    (convert_history_to_short followed by convert_short_to_history), and a second
    conversion to TOUGH2 of an already converted model. *)
From Coq Require Import Ascii String List Bool Arith ZArith Lia.
From PTBase Require Import Exn PyStr.
From P Require Import Lang Convert SectionLemmas ConvertLemmas ConvertLemmas2 Examples.
From Gen Require Import GenConvert.
Import ListNotations.

Lemma from_opt_some_if_nonempty {A} (l : list A) : from_opt (some_if_nonempty l) [] = l.
Proof. destruct l; reflexivity. Qed.

(** what convert_history_to_short keeps: block / connection objects, and bare names that
    resolve to objects of the grid (now held as objects) *)
Definition resolved_blocks (d : data) : list item := filter is_block (map (resolve_block d) (hist_block d)).
Definition resolved_conns (d : data) : list item := filter is_conn (map (resolve_conn d) (hist_conn d)).
Definition history_round_trip_spec (d d'' : data) : Prop :=
  hist_block d'' = resolved_blocks d /\ hist_conn d'' = resolved_conns d /\
  (forall it, In it (hist_gen d'') ->
     exists n id, In n (flat_map item_names (hist_gen d)) /\ In id (genlist d) /\ g_block (hget id (heap d)) = n /\
                  it = block_item (grid_blocks d) n) /\
  short_output d'' = short_empty /\ grid_blocks d'' = grid_blocks d /\ grid_conns d'' = grid_conns d.

Lemma smem_In s l : smem s l = true -> In s l.
Proof.
  unfold smem. intro H. apply existsb_exists in H. destruct H as (x & I & E). apply str_eqb_eq in E. subst x. exact I.
Qed.

Lemma In_from_some_if_nonempty {A} (x : A) l l' : some_if_nonempty l = Some l' -> In x l' -> In x l.
Proof. destruct l; cbn; [discriminate|]. intro H. injection H as <-. exact (fun I => I). Qed.

Theorem history_round_trip_lemma mp mp' sim eos d d' :
  convert_to_AUTOUGH2 mp sim eos d = Ok d' ->
  exists d'', convert_to_TOUGH2 mp' d' = Ok d'' /\ history_round_trip_spec d d''.
Proof.
  intro H. pose proof (to_autough2_mirror_lemma _ _ _ _ _ H) as M.
  destruct M as (_ & _ & _ & Hb & Hc & Hg & _ & _ & _ & _ & _ & _ & _ & _ & _ & _ & (t & Ht & _) & Gb & Gc & _ & Hh & Hl & _ & Hs & _).
  assert (L : lineq_ok d') by (right; exists t; exact Ht).
  destruct (to_tough2_total_lemma mp' d' L) as [d'' E]. exists d''. split; [exact E|].
  pose proof (to_tough2_preserves_lemma _ _ _ E) as P.
  destruct P as (Pb & Pc & _ & Pgl & _ & _ & Phb & Phc & Phg & _).
  pose proof (to_tough2_clean_lemma _ _ _ E) as C. destruct C as (_ & _ & _ & Cs & _).
  rewrite Hs in Phb, Phc, Phg. rewrite Hb in Phb. rewrite Hc in Phc.
  unfold au_short in Phb, Phc, Phg. cbn [so_block so_conn so_gen] in Phb, Phc, Phg.
  unfold history_blocks_to_short in Phb. unfold history_conns_to_short in Phc.
  rewrite from_opt_some_if_nonempty in Phb, Phc.
  unfold history_round_trip_spec, resolved_blocks, resolved_conns.
  split; [exact Phb|]. split; [exact Phc|]. split.
  - intros it I. destruct (history_gens_to_short d) as [l|] eqn:G.
    + apply Phg in I. destruct I as (id & Il & _ & Eit).
      unfold history_gens_to_short in G.
      apply (In_from_some_if_nonempty _ _ _ G) in Il. apply in_map_iff in Il. destruct Il as (id' & Eid & If).
      injection Eid as ->. apply filter_In in If. destruct If as [Ig Sm]. apply smem_In in Sm.
      exists (g_block (hget id (heap d))), id. rewrite Gb, Hh in Eit.
      split; [exact Sm|]. split; [exact Ig|]. split; [reflexivity|exact Eit].
    + rewrite Phg, Hg in I. destruct I.
  - split; [exact Cs|]. split; [rewrite Pb; exact Gb|rewrite Pc; exact Gc].
Qed.

(** requests held as objects of the grid come back unchanged *)
Lemma resolve_filter_blocks d l : Forall (fun it => is_block it = true) l -> filter is_block (map (resolve_block d) l) = l.
Proof.
  induction 1 as [|x l Hx _ IH]; [reflexivity|]. destruct x; try discriminate Hx. cbn. f_equal. exact IH.
Qed.
Lemma resolve_filter_conns d l : Forall (fun it => is_conn it = true) l -> filter is_conn (map (resolve_conn d) l) = l.
Proof.
  induction 1 as [|x l Hx _ IH]; [reflexivity|]. destruct x; try discriminate Hx. cbn. f_equal. exact IH.
Qed.

Theorem history_objects_round_trip_lemma mp mp' sim eos d d' d'' :
  convert_to_AUTOUGH2 mp sim eos d = Ok d' -> convert_to_TOUGH2 mp' d' = Ok d'' ->
  Forall (fun it => is_block it = true) (hist_block d) -> Forall (fun it => is_conn it = true) (hist_conn d) ->
  hist_block d'' = hist_block d /\ hist_conn d'' = hist_conn d.
Proof.
  intros H E Fb Fc. destruct (history_round_trip_lemma mp mp' sim eos d d' H) as (d2 & E2 & S).
  rewrite E in E2. apply Ok_inj in E2. subst d2. destruct S as (Sb & Sc & _).
  rewrite Sb, Sc. unfold resolved_blocks, resolved_conns. split; [apply resolve_filter_blocks|apply resolve_filter_conns]; assumption.
Qed.

(** bare names of blocks that are in the grid come back as objects, names outside the grid are dropped:
    the example model has one of each *)
Lemma ex_history_round_trip_lemma :
  on_ok (convert_to_AUTOUGH2 false (s2l default_simulator) (s2l default_eos) ex_t2) (fun d' =>
    on_ok (convert_to_TOUGH2 false d') (fun d'' =>
      match hist_block d'', hist_conn d'' with
      | [IBlock a; IBlock b], [IConn _ _] => str_eqb a (s2l "  a 1") && str_eqb b (s2l "  b 1")
      | _, _ => false
      end)) = true.
Proof. vm_compute. reflexivity. Qed.

(** * a second conversion to TOUGH2 finds nothing left to convert or delete *)
Lemma assoc_str_key {A} k (l : list (string * A)) v : assoc_str k l = Some v -> exists k', In k' (map fst l) /\ k = s2l k'.
Proof.
  induction l as [|[k' v'] l IH]; cbn [assoc_str]; [discriminate|]. destruct (str_eqb k (s2l k')) eqn:E.
  - intros _. exists k'. split; [left; reflexivity|apply str_eqb_eq; exact E].
  - intro H. destruct (IH H) as (k2 & I & Ek). exists k2. split; [right; exact I|exact Ek].
Qed.
Lemma conv_sources_not_tough2 : forallb (fun k => negb (tough2_type (s2l k))) (map fst gen_convert) = true.
Proof. vm_compute. reflexivity. Qed.
Lemma tough2_type_not_converted t : tough2_type t = true -> conv_lookup t = None.
Proof.
  intro T. unfold conv_lookup. destruct (assoc_str t gen_convert) as [v|] eqn:E; [|reflexivity].
  apply assoc_str_key in E. destruct E as (k & I & ->).
  pose proof conv_sources_not_tough2 as F. rewrite forallb_forall in F. specialize (F k I). rewrite T in F. discriminate F.
Qed.
Lemma filter_all {A} (f : A -> bool) l : (forall x, In x l -> f x = true) -> filter f l = l.
Proof.
  induction l as [|x l IH]; intro H; [reflexivity|]. cbn. rewrite (H x (or_introl eq_refl)). f_equal. apply IH. intros y I. apply H. right. exact I.
Qed.
Lemma filter_none {A} (f : A -> bool) l : (forall x, In x l -> f x = true) -> filter (fun x => negb (f x)) l = [].
Proof.
  induction l as [|x l IH]; intro H; [reflexivity|]. cbn. rewrite (H x (or_introl eq_refl)). cbn. apply IH. intros y I. apply H. right. exact I.
Qed.

Definition second_conversion_spec (d' d'' : data) : Prop :=
  snd (gens_to_tough2 d') = [] /\ genlist d'' = genlist d' /\ (forall id, hget id (heap d'') = hget id (heap d')) /\
  hist_block d'' = hist_block d' /\ hist_conn d'' = hist_conn d' /\ hist_gen d'' = hist_gen d' /\
  grid_blocks d'' = grid_blocks d' /\ grid_conns d'' = grid_conns d' /\ solver d'' = solver d' /\ tough2_clean d''.

Theorem to_tough2_twice_lemma mp mp' d d' : convert_to_TOUGH2 mp d = Ok d' ->
  exists d'', convert_to_TOUGH2 mp' d' = Ok d'' /\ second_conversion_spec d' d''.
Proof.
  intro H. pose proof (to_tough2_clean_lemma _ _ _ H) as C.
  destruct C as (_ & _ & Cl & Cs & _ & _ & _ & _ & Cg & _).
  assert (L : lineq_ok d') by (left; exact Cl).
  destruct (to_tough2_total_lemma mp' d' L) as [d'' E]. exists d''. split; [exact E|].
  pose proof (to_tough2_preserves_lemma _ _ _ E) as P.
  destruct P as (Pb & Pc & _ & Pgl & Ph1 & Ph2 & Phb & Phc & Phg & Psv & _).
  rewrite Cs in Phb, Phc, Phg. cbn in Phb, Phc, Phg.
  assert (K : forall id, In id (genlist d') -> keepable (g_type (hget id (heap d'))) = true).
  { intros id I. unfold keepable. rewrite (tough2_type_not_converted _ (Cg id I)). exact (Cg id I). }
  unfold second_conversion_spec. split.
  - rewrite reported_deleted_lemma. rewrite (filter_none (fun id => keepable (g_type (hget id (heap d')))) _ K). reflexivity.
  - split; [rewrite Pgl; apply filter_all; exact K|]. split.
    + intro id. destruct (in_dec Nat.eq_dec id (genlist d')) as [I|N].
      * rewrite (Ph1 id I). unfold convg. rewrite (tough2_type_not_converted _ (Cg id I)). reflexivity.
      * exact (Ph2 id N).
    + repeat (split; [assumption|]). exact (to_tough2_clean_lemma _ _ _ E).
Qed.

(** * short output through AUTOUGH2 -> TOUGH2 -> AUTOUGH2 *)
Lemma resolve_block_ext d1 d2 it : grid_blocks d1 = grid_blocks d2 -> resolve_block d1 it = resolve_block d2 it.
Proof. intro G. destruct it; try reflexivity. cbn. unfold grid_has_block. rewrite G. reflexivity. Qed.
Lemma resolve_conn_ext d1 d2 it : grid_conns d1 = grid_conns d2 -> resolve_conn d1 it = resolve_conn d2 it.
Proof. intro G. destruct it; try reflexivity. cbn. unfold grid_has_conn. rewrite G. reflexivity. Qed.

(** the block / connection requests a TOUGH2 conversion files under FOFT / COFT *)
Definition requested_blocks (d : data) : list item := from_opt (so_block (short_output d)) (hist_block d).
Definition requested_conns (d : data) : list item := from_opt (so_conn (short_output d)) (hist_conn d).
Definition short_round_trip_spec (d d'' : data) : Prop :=
  so_block (short_output d'') = some_if_nonempty (filter is_block (map (resolve_block d) (requested_blocks d))) /\
  so_conn (short_output d'') = some_if_nonempty (filter is_conn (map (resolve_conn d) (requested_conns d))) /\
  so_freq (short_output d'') = None /\
  (forall l it, so_gen (short_output d'') = Some l -> In it l ->
     exists id, it = IGen id /\ In id (genlist d'') /\ keepable (g_type (hget id (heap d))) = true) /\
  genlist d'' = filter (fun id => keepable (g_type (hget id (heap d)))) (genlist d) /\
  hist_block d'' = [] /\ hist_conn d'' = [] /\ hist_gen d'' = [] /\
  grid_blocks d'' = grid_blocks d /\ grid_conns d'' = grid_conns d.

Theorem short_round_trip_lemma mp mp' sim eos d d' d'' :
  convert_to_TOUGH2 mp d = Ok d' -> convert_to_AUTOUGH2 mp' sim eos d' = Ok d'' -> short_round_trip_spec d d''.
Proof.
  intros E H. pose proof (to_tough2_preserves_lemma _ _ _ E) as P.
  destruct P as (Pb & Pc & _ & Pgl & _ & _ & Phb & Phc & _).
  pose proof (to_autough2_mirror_lemma _ _ _ _ _ H) as M.
  destruct M as (_ & _ & _ & Hb & Hc & Hg & _ & _ & _ & _ & _ & _ & _ & _ & _ & _ & _ & Gb & Gc & _ & Hh & Hl & _ & Hs & _).
  unfold short_round_trip_spec, requested_blocks, requested_conns. rewrite Hs, Hl, Gb, Gc.
  unfold au_short. cbn [so_freq so_block so_conn so_gen].
  unfold history_blocks_to_short, history_conns_to_short. rewrite Phb, Phc.
  split. { f_equal. f_equal. apply map_ext. intro it. apply resolve_block_ext. exact Pb. }
  split. { f_equal. f_equal. apply map_ext. intro it. apply resolve_conn_ext. exact Pc. }
  split; [reflexivity|]. split.
  - intros l it G I. unfold history_gens_to_short in G.
    apply (In_from_some_if_nonempty _ _ _ G) in I. apply in_map_iff in I. destruct I as (id & <- & If).
    apply filter_In in If. destruct If as [Ig _]. exists id. split; [reflexivity|]. split; [exact Ig|].
    rewrite Pgl in Ig. apply filter_In in Ig. exact (proj2 Ig).
  - split; [exact Pgl|]. repeat (split; [assumption|]). exact Pc.
Qed.

(** non-empty requests held as objects of the grid come back as the same short-output lists; the conversion back
    exists whenever SOLVR (which convert_to_TOUGH2 does not touch) has no non-integer type *)
Theorem short_objects_round_trip_lemma mp mp' sim eos d d' lb lc :
  convert_to_TOUGH2 mp d = Ok d' -> solver_ok d ->
  so_block (short_output d) = Some lb -> so_conn (short_output d) = Some lc -> lb <> [] -> lc <> [] ->
  Forall (fun it => is_block it = true) lb -> Forall (fun it => is_conn it = true) lc ->
  exists d'', convert_to_AUTOUGH2 mp' sim eos d' = Ok d'' /\
    so_block (short_output d'') = Some lb /\ so_conn (short_output d'') = Some lc.
Proof.
  intros E S Sb Sc Nb Nc Fb Fc.
  assert (S' : solver_ok d').
  { pose proof (to_tough2_preserves_lemma _ _ _ E) as P. destruct P as (_ & _ & _ & _ & _ & _ & _ & _ & _ & Psv & _).
    unfold solver_ok. rewrite Psv. exact S. }
  destruct (to_autough2_total_lemma mp' sim eos d' S') as [d'' H]. exists d''. split; [exact H|].
  destruct (short_round_trip_lemma _ _ _ _ _ _ _ E H) as (Rb & Rc & _).
  unfold requested_blocks in Rb. unfold requested_conns in Rc. rewrite Sb in Rb. rewrite Sc in Rc. cbn [from_opt] in Rb, Rc.
  rewrite (resolve_filter_blocks d lb Fb) in Rb. rewrite (resolve_filter_conns d lc Fc) in Rc.
  split; [rewrite Rb; destruct lb; [contradiction|reflexivity]|rewrite Rc; destruct lc; [contradiction|reflexivity]].
Qed.

(** the example AUTOUGH2 model makes the round trip: its one short-output block comes back, the frequency does not *)
Lemma ex_short_round_trip_lemma :
  on_ok (convert_to_TOUGH2 false ex_au) (fun d' =>
    on_ok (convert_to_AUTOUGH2 false (s2l default_simulator) (s2l default_eos) d') (fun d'' =>
      match so_block (short_output d''), so_freq (short_output d''), so_freq (short_output ex_au) with
      | Some [IBlock a], None, Some _ => str_eqb a (s2l "  a 1")
      | _, _, _ => false
      end)) = true.
Proof. vm_compute. reflexivity. Qed.

(** * convert_to_AUTOUGH2 on an already converted model: the short output is rebuilt from the (now empty)
    history lists, so its block / connection lists are gone -- the reason the [type] setter does nothing
    when the type is unchanged *)
Theorem to_autough2_twice_lemma mp mp' sim eos sim' eos' d d' d'' :
  convert_to_AUTOUGH2 mp sim eos d = Ok d' -> convert_to_AUTOUGH2 mp' sim' eos' d' = Ok d'' ->
  so_block (short_output d'') = None /\ so_conn (short_output d'') = None /\ so_freq (short_output d'') = None.
Proof.
  intros H H2. pose proof (to_autough2_mirror_lemma _ _ _ _ _ H) as M.
  destruct M as (_ & _ & _ & Hb & Hc & _).
  pose proof (to_autough2_mirror_lemma _ _ _ _ _ H2) as M2.
  destruct M2 as (_ & _ & _ & _ & _ & _ & _ & _ & _ & _ & _ & _ & _ & _ & _ & _ & _ & _ & _ & _ & _ & _ & _ & Hs & _).
  rewrite Hs. unfold au_short. cbn [so_freq so_block so_conn].
  unfold history_blocks_to_short, history_conns_to_short. rewrite Hb, Hc. cbn. repeat split.
Qed.
