(** C20 -- export, second part: the geometry's block order (all three orders), initial conditions per cell,
    and the faces of the boundary blocks. *)
From Coq Require Import Ascii String List Bool Arith ZArith Lia Permutation.
From PTBase Require Import Exn PyStr.
From P Require Import Lang Convert SectionLemmas ConvertLemmas WaiweraJson JsonLemmas.
From Gen Require Import GenConvert.
Import ListNotations.

(** * block order *)
Lemma filter_partition_perm {A} (p : A -> bool) l : Permutation (filter p l ++ filter (fun a => negb (p a)) l) l.
Proof.
  induction l as [|a l IH]; [constructor|]. cbn [filter]. destruct (p a); cbn [negb app].
  - constructor. exact IH.
  - apply Permutation_sym. apply Permutation_cons_app. apply Permutation_sym. exact IH.
Qed.
Lemma dmplex_perm u l : dmplex_list u = Ok l -> Permutation l (map fst u).
Proof.
  unfold dmplex_list. destruct (forallb _ u) eqn:F; [|discriminate]. intro H. apply Ok_inj in H. subst l.
  rewrite <- map_app. apply Permutation_map.
  assert (E : filter (nodes_are 6) u = filter (fun a => negb (nodes_are 8 a)) u).
  { apply filter_ext_in. intros a I. rewrite forallb_forall in F. specialize (F a I). unfold nodes_are in *.
    destruct (Nat.eqb (snd a) 8) eqn:E8; cbn [negb].
    - apply Nat.eqb_eq in E8. rewrite E8. reflexivity.
    - rewrite orb_false_r in F. exact F. }
  rewrite E. apply filter_partition_perm.
Qed.
Definition block_order_spec (g : geom) (l : list str) : Prop :=
  exists u, l = gm_atm g ++ u /\ Permutation u (map fst (gm_under g)) /\
            (gm_order g <> BODmplex -> u = map fst (gm_under g)).
Theorem block_order_lemma g l : block_name_list g = Ok l -> block_order_spec g l.
Proof.
  unfold block_name_list, block_order_spec. destruct (gm_order g) eqn:O.
  - intro H. apply Ok_inj in H. exists (map fst (gm_under g)). split; [symmetry; exact H|split; [apply Permutation_refl|reflexivity]].
  - intro H. apply Ok_inj in H. exists (map fst (gm_under g)). split; [symmetry; exact H|split; [apply Permutation_refl|reflexivity]].
  - destruct (dmplex_list (gm_under g)) as [u|] eqn:D; [|discriminate]. cbn [bind]. intro H. apply Ok_inj in H.
    exists u. split; [symmetry; exact H|split; [apply (dmplex_perm _ _ D)|intro N; congruence]].
Qed.

Lemma last_index_nodup n l i : NoDup l -> nth_error l i = Some n -> last_index n l = Some i.
Proof.
  intros ND N. assert (I : In n l) by (eapply nth_error_In; exact N). destruct (last_index_In _ _ I) as [j E]. rewrite E. f_equal.
  pose proof (last_index_spec _ _ _ E) as Nj. eapply NoDup_nth_error; [exact ND| |congruence].
  apply nth_error_Some. rewrite Nj. discriminate.
Qed.
Lemma cell_index_nodup x n i : NoDup (x_geo x) -> nth_error (x_geo x) i = Some n -> cell_index x n = Some (Z.of_nat i - x_natm x)%Z.
Proof. intros ND N. unfold cell_index, geo_index. rewrite (last_index_nodup _ _ _ ND N). reflexivity. Qed.
(** for each of the three block orders: the atmosphere blocks have the negative cell indices -natm .. -1, the
    underground blocks the indices 0 .. in the order of the list (layer/column, or 8-node then 6-node blocks) *)
Theorem cell_index_all_orders_lemma g l x :
  block_name_list g = Ok l -> x_geo x = l -> x_natm x = Z.of_nat (length (gm_atm g)) -> NoDup l ->
  exists u, l = gm_atm g ++ u /\ Permutation u (map fst (gm_under g)) /\
    (gm_order g <> BODmplex -> u = map fst (gm_under g)) /\
    (forall i n, nth_error (gm_atm g) i = Some n -> cell_index x n = Some (Z.of_nat i - Z.of_nat (length (gm_atm g)))%Z) /\
    (forall j n, nth_error u j = Some n -> cell_index x n = Some (Z.of_nat j)).
Proof.
  intros H G Na ND. destruct (block_order_lemma _ _ H) as [u [E [P O]]]. exists u. split; [exact E|split; [exact P|split; [exact O|]]].
  rewrite <- G in ND. split.
  - intros i n N. rewrite <- Na. apply cell_index_nodup; [exact ND|]. rewrite G, E. rewrite nth_error_app1; [exact N|].
    apply nth_error_Some. rewrite N. discriminate.
  - intros j n N. replace (Z.of_nat j) with (Z.of_nat (length (gm_atm g) + j) - x_natm x)%Z by lia.
    apply cell_index_nodup; [exact ND|]. rewrite G, E. rewrite nth_error_app2 by lia.
    replace (length (gm_atm g) + j - length (gm_atm g)) with j by lia. exact N.
Qed.

(** * initial conditions *)
Lemma nth_error_skipn_json {B} n (l : list B) j : nth_error (skipn n l) j = nth_error l (n + j).
Proof. revert l. induction n as [|n IH]; intros [|y r]; cbn [skipn nth_error plus]; try reflexivity; [destruct j; reflexivity|apply IH]. Qed.
Lemma lookup_all_spec x l : forall r, lookup_all x l = Ok r -> map Some r = map (eff_incon x) l.
Proof.
  induction l as [|n l IH]; intros r H; cbn [lookup_all] in H.
  - apply Ok_inj in H. subst r. reflexivity.
  - destruct (eff_incon x n) as [v|] eqn:E; [|discriminate]. destruct (lookup_all x l) as [rest|]; [|discriminate].
    cbn [bind] in H. apply Ok_inj in H. subst r. cbn [map]. rewrite E. f_equal. apply IH. reflexivity.
Qed.
Definition cell_value (x : xin) (n : str) : option Z := if uniform_incons x then Some (x_default x) else eff_incon x n.
Lemma initial_cells_spec x l : initial_cells x = Ok l -> map Some l = map (cell_value x) (underground x).
Proof.
  unfold initial_cells, cell_value. destruct (uniform_incons x).
  - intro H. apply Ok_inj in H. subst l. rewrite map_map. reflexivity.
  - apply lookup_all_spec.
Qed.
(** one entry per underground block; the entry at cell index c is the effective initial condition of the block whose
    cell index is c: its INCON entry, else the INDOM entry of its rock type, else the PARAM default *)
Theorem initial_per_cell_lemma x l : initial_cells x = Ok l -> (0 <= x_natm x)%Z ->
  length l = length (x_geo x) - nat_of_z (x_natm x) /\
  (NoDup (x_geo x) -> forall n c, In n (x_geo x) -> cell_index x n = Some c -> (0 <= c)%Z ->
     option_map Some (nth_error l (Z.to_nat c)) = Some (cell_value x n)).
Proof.
  intros H Nn. pose proof (initial_cells_spec _ _ H) as S. split.
  - rewrite <- (map_length Some l), S, map_length. unfold underground. apply skipn_length.
  - intros ND n c I C Pc. destruct (cell_index_spec _ _ _ C) as [i [N E]].
    assert (Q : nth_error (map Some l) (Z.to_nat c) = nth_error (map (cell_value x) (underground x)) (Z.to_nat c)) by (rewrite S; reflexivity).
    rewrite !nth_error_map in Q. unfold underground in Q. rewrite nth_error_skipn_json in Q.
    replace (nat_of_z (x_natm x) + Z.to_nat c) with i in Q by (unfold nat_of_z; lia). rewrite N in Q. cbn [option_map] in Q.
    destruct (nth_error l (Z.to_nat c)); cbn [option_map] in *; [inversion Q; reflexivity|discriminate].
Qed.

(** * boundary faces *)
Definition joins_interior (x : xin) (bn : str) (c : str * str) (ci : Z) : Prop :=
  exists o b, other_end bn c = Some o /\ grid_lookup x o = Some b /\ nonbdy x b = true /\ cell_index x o = Some ci.
Definition counts_face (x : xin) (bn : str) (c : str * str) : bool :=
  match other_end bn c with
  | Some o => match is_interior x o with Some true => true | _ => false end
  | None => false
  end.
Lemma face_cells_spec x bn cs : forall l, face_cells x bn cs = Ok l ->
  length l = length (filter (counts_face x bn) cs) /\
  forall ci, In ci l <-> exists c, In c cs /\ joins_interior x bn c ci.
Proof.
  induction cs as [|c r IH]; intros l H; cbn [face_cells] in H.
  - apply Ok_inj in H. subst l. split; [reflexivity|]. intro ci. split; [intros []|intros [c [[] _]]].
  - cbn [filter]. unfold counts_face at 1. destruct (other_end bn c) as [o|] eqn:O.
    + unfold is_interior in *. destruct (grid_lookup x o) as [b|] eqn:G; cbn [option_map] in *; [|discriminate].
      destruct (nonbdy x b) eqn:N.
      * destruct (cell_index x o) as [ci0|] eqn:C; [|discriminate]. destruct (face_cells x bn r) as [rest|] eqn:R; [|discriminate].
        cbn [bind] in H. apply Ok_inj in H. subst l. destruct (IH _ eq_refl) as [L S]. split; [cbn [length]; rewrite L; reflexivity|].
        intro ci. cbn [In]. rewrite S. split.
        -- intros [E|[c' [I J]]]; [subst ci0; exists c; split; [left; reflexivity|exists o, b; auto]|exists c'; split; [right; exact I|exact J]].
        -- intros [c' [[E|I] J]]; [subst c'; left; destruct J as [o' [b' [O' [G' [_ C']]]]]; rewrite O in O'; inversion O'; subst o'; congruence|right; exists c'; auto].
      * destruct (IH _ H) as [L S]. split; [exact L|]. intro ci. rewrite S. split.
        -- intros [c' [I J]]. exists c'. split; [right; exact I|exact J].
        -- intros [c' [[E|I] J]]; [subst c'; destruct J as [o' [b' [O' [G' [N' _]]]]]; rewrite O in O'; inversion O'; subst o'; rewrite G in G'; inversion G'; subst b'; congruence|exists c'; auto].
    + destruct (IH _ H) as [L S]. split; [exact L|]. intro ci. rewrite S. split.
      * intros [c' [I J]]. exists c'. split; [right; exact I|exact J].
      * intros [c' [[E|I] J]]; [subst c'; destruct J as [o' [b' [O' _]]]; congruence|exists c'; auto].
Qed.
Definition boundary_spec (x : xin) (l : list (str * (Z * list Z))) : Prop :=
  forall bn v cells, In (bn, (v, cells)) l ->
    (exists b, In b (grid_blocks (x_d x)) /\ b_name b = bn /\ nonbdy x b = false) /\
    cells <> [] /\ bdy_value x bn = Ok v /\
    length cells = length (filter (counts_face x bn) (grid_conns (x_d x))) /\
    forall ci, In ci cells <-> exists c, In c (grid_conns (x_d x)) /\ joins_interior x bn c ci.
Lemma boundary_loop_spec x bl : forall l, boundary_loop x bl = Ok l ->
  (forall bn v cells, In (bn, (v, cells)) l ->
     (exists b, In b bl /\ b_name b = bn /\ nonbdy x b = false) /\ cells <> [] /\ bdy_value x bn = Ok v /\
     face_cells x bn (grid_conns (x_d x)) = Ok cells) /\
  (forall b, In b bl -> nonbdy x b = false -> forall cells, face_cells x (b_name b) (grid_conns (x_d x)) = Ok cells -> cells <> [] ->
     exists v, In (b_name b, (v, cells)) l).
Proof.
  induction bl as [|b r IH]; intros l H; cbn [boundary_loop] in H.
  - apply Ok_inj in H. subst l. split; [intros bn v cells []|intros b []].
  - destruct (nonbdy x b) eqn:N.
    + destruct (IH _ H) as [A B]. split.
      * intros bn v cells I. destruct (A _ _ _ I) as [[b' [Ib E]] R]. split; [exists b'; split; [right; exact Ib|exact E]|exact R].
      * intros b' [E|Ib] N' cells F NE; [subst b'; congruence|apply (B b' Ib N' cells F NE)].
    + destruct (bdy_value x (b_name b)) as [v|] eqn:V; [|discriminate]. cbn [bind] in H.
      destruct (face_cells x (b_name b) (grid_conns (x_d x))) as [cells|] eqn:F; [|discriminate]. cbn [bind] in H.
      destruct (boundary_loop x r) as [rest|] eqn:R; [|discriminate]. cbn [bind] in H. apply Ok_inj in H.
      destruct (IH _ eq_refl) as [A B]. split.
      * intros bn v' cells' I. subst l. destruct cells as [|c0 cr].
        -- destruct (A _ _ _ I) as [[b' [Ib E]] Q]. split; [exists b'; split; [right; exact Ib|exact E]|exact Q].
        -- destruct I as [I|I].
           ++ inversion I. subst bn v' cells'. split; [exists b; split; [left; reflexivity|split; [reflexivity|exact N]]|].
              split; [discriminate|split; [exact V|exact F]].
           ++ destruct (A _ _ _ I) as [[b' [Ib E]] Q]. split; [exists b'; split; [right; exact Ib|exact E]|exact Q].
      * intros b' [E|Ib] N' cells' F' NE.
        -- subst b'. rewrite F in F'. apply Ok_inj in F'. subst cells'. exists v. subst l. destruct cells; [contradiction|left; reflexivity].
        -- destruct (B b' Ib N' cells' F' NE) as [v' I]. exists v'. subst l. destruct cells; [exact I|right; exact I].
Qed.
(** every listed boundary is a boundary block of the grid (volume 0 or >= atmos_volume) with at least one face, carries
    that block's own effective initial condition, and has exactly one face per connection joining it to an interior
    block, with that block's cell index; every boundary block with such a connection is listed *)
Theorem boundary_faces_lemma x l : boundary_faces x = Ok l ->
  boundary_spec x l /\
  (forall b, In b (grid_blocks (x_d x)) -> nonbdy x b = false ->
     forall cells, face_cells x (b_name b) (grid_conns (x_d x)) = Ok cells -> cells <> [] -> exists v, In (b_name b, (v, cells)) l).
Proof.
  intro H. destruct (boundary_loop_spec _ _ _ H) as [A B]. split; [|exact B].
  intros bn v cells I. destruct (A _ _ _ I) as (E & NE & V & F). destruct (face_cells_spec _ _ _ _ F) as [L S].
  split; [exact E|split; [exact NE|split; [exact V|split; [exact L|exact S]]]].
Qed.
(** interior blocks have no boundary entry; blocks between two interior or two boundary blocks give no face *)
Theorem no_face_without_interior_lemma x bn c : counts_face x bn c = true ->
  exists o b, other_end bn c = Some o /\ grid_lookup x o = Some b /\ nonbdy x b = true.
Proof.
  unfold counts_face, is_interior. destruct (other_end bn c) as [o|]; [|discriminate].
  destruct (grid_lookup x o) as [b|] eqn:G; cbn [option_map]; [|discriminate]. destruct (nonbdy x b) eqn:N; [|discriminate].
  intros _. exists o, b. auto.
Qed.

(** * rock cell lists: in geometry order (strictly increasing cell indices), for each of the block orders *)
From Coq Require Import Sorted.
Definition rock_cell_of (x : xin) (r : nat) (n : str) : list Z :=
  if in_rock x r n then match cell_index x n with Some c => [c] | None => [] end else [].
Lemma cells_sorted_gen x r : NoDup (x_geo x) -> forall l pre, x_geo x = pre ++ l ->
  StronglySorted Z.lt (flat_map (rock_cell_of x r) l) /\
  Forall (fun c => (Z.of_nat (length pre) - x_natm x <= c)%Z) (flat_map (rock_cell_of x r) l).
Proof.
  intro ND. induction l as [|n l IH]; intros pre E; cbn [flat_map]; [split; constructor|].
  assert (E' : x_geo x = (pre ++ [n]) ++ l) by (rewrite <- app_assoc; exact E).
  destruct (IH _ E') as [S F]. rewrite app_length in F. cbn [length] in F.
  assert (C : cell_index x n = Some (Z.of_nat (length pre) - x_natm x)%Z).
  { apply cell_index_nodup; [exact ND|]. rewrite E. rewrite nth_error_app2 by lia. rewrite Nat.sub_diag. reflexivity. }
  assert (W : Forall (fun c => (Z.of_nat (length pre) - x_natm x <= c)%Z) (flat_map (rock_cell_of x r) l)).
  { eapply Forall_impl; [|exact F]. cbn beta. intros c Hc. lia. }
  unfold rock_cell_of at 1 3. destruct (in_rock x r n); [|split; [exact S|exact W]]. rewrite C. cbn [app]. split.
  - constructor; [exact S|]. eapply Forall_impl; [|exact F]. cbn beta. intros c Hc. lia.
  - constructor; [lia|exact W].
Qed.
Theorem rock_cells_sorted_lemma x r : NoDup (x_geo x) -> StronglySorted Z.lt (cells_of_rock x r).
Proof. intro ND. apply (proj1 (cells_sorted_gen x r ND (x_geo x) [] eq_refl)). Qed.

(** the cell lists against the geometry's block order: the j-th underground block of the order (layer/column, or
    dmplex) that is not a boundary block has cell j in the list of its rock type and in no other *)
Theorem rock_cells_all_orders_lemma g l x cl :
  block_name_list g = Ok l -> x_geo x = l -> x_natm x = Z.of_nat (length (gm_atm g)) -> NoDup l -> rocks_cells x = Ok cl ->
  exists u, l = gm_atm g ++ u /\ Permutation u (map fst (gm_under g)) /\
    forall j n, nth_error u j = Some n -> exists b, grid_lookup x n = Some b /\
      (nonbdy x b = true -> exists r, r < length cl /\ In (Z.of_nat j) (nth r cl []) /\ forall r', In (Z.of_nat j) (nth r' cl []) -> r' = r) /\
      (nonbdy x b = false -> forall r', ~ In (Z.of_nat j) (nth r' cl [])).
Proof.
  intros H G Na ND R. destruct (cell_index_all_orders_lemma _ _ _ H G Na ND) as [u [E [P [_ [_ U]]]]].
  exists u. split; [exact E|split; [exact P|]]. intros j n N.
  destruct (rock_cells_partition_lemma _ _ R) as [_ [_ Part]].
  assert (I : In n (x_geo x)) by (rewrite G, E; apply in_or_app; right; eapply nth_error_In; exact N).
  destruct (Part n I) as [b [c [Gl [C [A B]]]]]. rewrite (U _ _ N) in C. inversion C. subst c.
  exists b. split; [exact Gl|split; [exact A|exact B]].
Qed.
