(** C20 -- property theorems only.  Each is closed by [exact] of a lemma proved in the other files
    of this directory and followed by Print Assumptions.
    Model: Convert.v (flavour conversions of t2data, generic in the tables and MOP programs of
    Gen/GenConvert.v, regenerated from t2data.py on every run), WaiweraJson.v (the pieces of json()
    the statement names).  All statements are over EVERY model object [d] (no size bound). *)
From Coq Require Import Ascii String List Bool Arith ZArith Permutation Sorted.
From PTBase Require Import Exn PyStr.
From P Require Import Lang Convert SectionLemmas SectionOrder MopLemmas ConvertLemmas ConvertLemmas2 WaiweraJson JsonLemmas JsonLemmas2 SourceJson Examples RoundTrip.
From Gen Require Import GenConvert.
Import ListNotations.
Open Scope list_scope.

(** ** AUTOUGH2 -> TOUGH2 *)
(** the result declares itself TOUGH2; no simulator, LINEQ, short output (neither as data nor among the
    sections write() emits); no EOS name in MULTI; every generator in the list AND every entry of the lookup
    has a type TOUGH2 has, and the lookup is exactly over the list *)
Theorem to_tough2_clean : forall mp d d', convert_to_TOUGH2 mp d = Ok d' -> tough2_clean d'.
Proof. exact to_tough2_clean_lemma. Qed.
Print Assumptions to_tough2_clean.
Theorem to_tough2_sections : forall mp d d', convert_to_TOUGH2 mp d = Ok d' -> NoDup (sections d) ->
  ~ In kw_simul (sections d') /\ ~ In kw_lineq (sections d') /\
  (forall k, k <> kw_simul -> k <> kw_lineq -> (In k (sections d') <-> In k (sections d))).
Proof. exact to_tough2_sections_lemma. Qed.
Print Assumptions to_tough2_sections.
(** grid unchanged; rock types rescaled a uniform number (at most 2) of times and otherwise unchanged; the
    generator list is the old list without the generators TOUGH2 lacks, order kept; each listed generator
    object keeps block, name and data and gets the converted type; objects not listed are untouched; history
    lists become the short-output lists where those exist (generators by their blocks) and are unchanged
    otherwise; SOLVR and every option digit the MOP program does not assign are unchanged *)
Theorem to_tough2_preserves : forall mp d d', convert_to_TOUGH2 mp d = Ok d' -> t2_preserved d d'.
Proof. exact to_tough2_preserves_lemma. Qed.
Print Assumptions to_tough2_preserves.
Theorem to_tough2_reports_what_it_deletes : forall d,
  snd (gens_to_tough2 d) =
  map (fun id => gkey (hget id (heap d))) (filter (fun id => negb (keepable (g_type (hget id (heap d))))) (genlist d)).
Proof. exact reported_deleted_lemma. Qed.
Print Assumptions to_tough2_reports_what_it_deletes.
(** totality, for every option array whatever its digits, MP or not *)
Theorem to_tough2_total : forall mp d, lineq_ok d -> exists d', convert_to_TOUGH2 mp d = Ok d'.
Proof. exact to_tough2_total_lemma. Qed.
Print Assumptions to_tough2_total.
Theorem to_tough2_digits : forall mp d d', convert_to_TOUGH2 mp d = Ok d' -> Forall digit (options d) -> Forall digit (options d').
Proof. exact to_tough2_digits_lemma. Qed.
Print Assumptions to_tough2_digits.
Theorem ex_to_tough2 : exists d', convert_to_TOUGH2 false ex_au = Ok d' /\ lineq_ok ex_au /\ NoDup (sections ex_au).
Proof. exact ex_au_converts. Qed.
Print Assumptions ex_to_tough2.

(** ** TOUGH2 -> AUTOUGH2: the mirror image *)
Theorem to_autough2_mirror : forall mp sim eos d d', convert_to_AUTOUGH2 mp sim eos d = Ok d' -> autough2_mirror sim eos d d'.
Proof. exact to_autough2_mirror_lemma. Qed.
Print Assumptions to_autough2_mirror.
Theorem to_autough2_total : forall mp sim eos d, solver_ok d -> exists d', convert_to_AUTOUGH2 mp sim eos d = Ok d'.
Proof. exact to_autough2_total_lemma. Qed.
Print Assumptions to_autough2_total.
Theorem to_autough2_digits : forall mp sim eos d d', convert_to_AUTOUGH2 mp sim eos d = Ok d' -> Forall digit (options d) -> Forall digit (options d').
Proof. exact to_autough2_digits_lemma. Qed.
Print Assumptions to_autough2_digits.
Theorem ex_to_autough2 : exists d', convert_to_AUTOUGH2 false (s2l default_simulator) (s2l default_eos) ex_t2 = Ok d' /\ solver_ok ex_t2.
Proof. exact ex_t2_converts. Qed.
Print Assumptions ex_to_autough2.

(** ** the [type] setter *)
Theorem type_setter : forall f d d', set_type (type_name f) d = Ok d' -> get_type d' = f.
Proof. exact set_type_lemma. Qed.
Print Assumptions type_setter.
Theorem type_setter_rejects : forall v d, v <> s2l type_autough2 -> v <> s2l type_tough2 -> set_type v d = Raise PlainException.
Proof. exact set_type_other_lemma. Qed.
Print Assumptions type_setter_rejects.

(** ** every MOP digit 0..9 in every position, MP on/off, with and without a solver section: both
       conversions succeed, leave digits, and the flavour-specific solver data are gone (finite domain,
       evaluated in full) *)
Theorem mop_digit_sweep : forall k v mp ws, k < 25 -> (0 <= v <= 9)%Z -> sweep_case k v mp ws = true.
Proof. exact mop_digit_sweep_lemma. Qed.
Print Assumptions mop_digit_sweep.

(** ** what write() emits (update_sections): exactly the keywords with data behind them *)
Theorem written_sections_have_data : forall d k, In k (written_sections d) -> In k all_sections /\ data_present d k = true.
Proof. exact written_sections_present. Qed.
Print Assumptions written_sections_have_data.
Theorem sections_with_data_are_written : forall d k, In k all_sections -> data_present d k = true -> In k (written_sections d).
Proof. exact present_is_written. Qed.
Print Assumptions sections_with_data_are_written.

(** ** Waiwera export *)
(** every block of the geometry has a cell index; a non-boundary block's index is in the cell list of exactly
    one rock type (its own); a boundary block's index is in none; nothing else is in any list *)
Theorem rock_cells_partition : forall x cl, rocks_cells x = Ok cl -> rock_cells_spec x cl.
Proof. exact rock_cells_partition_lemma. Qed.
Print Assumptions rock_cells_partition.
Theorem rock_cells_no_repeats : forall x r, NoDup (x_geo x) -> NoDup (cells_of_rock x r).
Proof. exact rock_cells_nodup_lemma. Qed.
Print Assumptions rock_cells_no_repeats.
Theorem cell_index_is_position : forall x n c, cell_index x n = Some c ->
  exists i, nth_error (x_geo x) i = Some n /\ c = (Z.of_nat i - x_natm x)%Z.
Proof. exact cell_index_spec. Qed.
Print Assumptions cell_index_is_position.
(** the sources are, in order, the non-group generators of the list, each with the cell of its block *)
Theorem source_cell_index : forall x l, sources x = Ok l ->
  map snd l = map (fun id => source_cell x (hget id (heap (x_d x)))) (filter (nongroup x) (genlist (x_d x))) /\
  length l = length (filter (nongroup x) (genlist (x_d x))).
Proof. exact sources_lemma. Qed.
Print Assumptions source_cell_index.
Theorem one_source_per_generator : forall x l, sources x = Ok l -> length l = length (filter (nongroup x) (genlist (x_d x))).
Proof. exact (fun x l H => proj2 (sources_lemma x l H)). Qed.
Print Assumptions one_source_per_generator.
Theorem source_cell_is_block_cell : forall x g c, source_cell x g = Some c <-> cell_index x (g_block g) = Some c /\ (0 <= c)%Z.
Proof. exact source_cell_spec. Qed.
Print Assumptions source_cell_is_block_cell.
(** EOS recognition *)
Theorem eos_detected_from_entry : forall x, x_eos x = EANone -> multi_entry_ok (x_d x) -> multi_eos_entry (x_d x) <> [] ->
  aut2eosname x = Ok (multi_eos_entry (x_d x)).
Proof. exact eos_name_from_entry_lemma. Qed.
Print Assumptions eos_detected_from_entry.
Theorem eos_detected_from_simulator : forall x, x_eos x = EANone -> multi_entry_ok (x_d x) -> multi_eos_entry (x_d x) = [] ->
  simulator (x_d x) <> [] ->
  aut2eosname x = Ok (last_suffix_match (strip (simulator (x_d x))) (map fst supported_eos) []).
Proof. exact eos_name_from_simulator_lemma. Qed.
Print Assumptions eos_detected_from_simulator.
Theorem eos_longest_suffix : forall s k, In k (map fst supported_eos) -> suffix (s2l k) s = true ->
  (forall k', In k' (map fst supported_eos) -> suffix (s2l k') s = true -> length (s2l k') <= length (s2l k)) ->
  last_suffix_match s (map fst supported_eos) [] = s2l k.
Proof. exact eos_longest_suffix_lemma. Qed.
Print Assumptions eos_longest_suffix.
Theorem eos_json_detects : forall x a w, aut2eosname x = Ok a -> a <> [] -> assoc_str a supported_eos = Some w -> eos_guards x a w ->
  eos_json x = Ok (s2l w, existsb (fun t => str_eqb a (s2l t)) tracer_eos).
Proof. exact eos_json_detects_lemma. Qed.
Print Assumptions eos_json_detects.
Theorem eos_json_sound : forall x wn tr, eos_json x = Ok (wn, tr) ->
  exists a w, aut2eosname x = Ok a /\ a <> [] /\ assoc_str a supported_eos = Some w /\ wn = s2l w /\
              tr = existsb (fun t => str_eqb a (s2l t)) tracer_eos.
Proof. exact eos_json_sound_lemma. Qed.
Print Assumptions eos_json_sound.
Theorem ex_export :
  on_ok (eos_json ex_xin) (fun r => str_eqb (fst r) (s2l "we") && negb (snd r)) = true /\
  on_ok (rocks_cells ex_xin) (fun cl => match cl with [[c0]; [c1]] => Z.eqb c0 0 && Z.eqb c1 1 | _ => false end) = true /\
  NoDup (x_geo ex_xin).
Proof. exact ex_export_ok. Qed.
Print Assumptions ex_export.

(** ** section placement: the order of the sections written, for any initial section order *)
(** insert_section (through section_insertion_index) keeps, for EVERY rank n and every reference list without
    repetitions, the keywords of rank <= n in reference order -- wherever the keywords of higher rank are *)
Theorem insert_section_keeps_order : forall A, NoDup A -> forall n s secs, ~ In s secs -> prefix_sorted A n secs ->
  prefix_sorted A n (insert_at (sec_insertion_index A s secs) s secs).
Proof. exact insert_keeps_order. Qed.
Print Assumptions insert_section_keeps_order.
Theorem update_sections_keeps_order : forall n d, sorted_upto n (sections d) -> sorted_upto n (written_sections d).
Proof. exact update_sections_keeps_order_lemma. Qed.
Print Assumptions update_sections_keeps_order.
Theorem to_autough2_keeps_order : forall n mp sim eos d d', convert_to_AUTOUGH2 mp sim eos d = Ok d' ->
  sorted_upto n (sections d) -> sorted_upto n (sections d') /\ sorted_upto n (written_sections d').
Proof. exact to_autough2_keeps_order_lemma. Qed.
Print Assumptions to_autough2_keeps_order.
Theorem to_tough2_keeps_order : forall n mp d d', convert_to_TOUGH2 mp d = Ok d' ->
  sorted_upto n (sections d) -> sorted_upto n (sections d') /\ sorted_upto n (written_sections d').
Proof. exact to_tough2_keeps_order_lemma. Qed.
Print Assumptions to_tough2_keeps_order.
(** what the reader needs: SHORT (read against grid and generators) is written after ELEME, CONNE, GENER ... *)
Theorem short_written_after_grid : forall mp sim eos d d' x, convert_to_AUTOUGH2 mp sim eos d = Ok d' ->
  sorted_upto (rk kw_short) (sections d) -> In x grid_keywords ->
  In x (written_sections d') -> In kw_short (written_sections d') -> before x kw_short (written_sections d').
Proof. exact short_written_after_grid_lemma. Qed.
Print Assumptions short_written_after_grid.
(** ... and so are FOFT / COFT / GOFT after a conversion to TOUGH2 *)
Theorem history_written_after_grid : forall mp d d' x h, convert_to_TOUGH2 mp d = Ok d' ->
  sorted_upto (rk kw_goft) (sections d) -> In x grid_keywords -> In h history_keywords ->
  In x (written_sections d') -> In h (written_sections d') -> before x h (written_sections d').
Proof. exact history_written_after_grid_lemma. Qed.
Print Assumptions history_written_after_grid.
(** the hypothesis is met by a section list whose history sections precede ELEME (and the stronger one is not) *)
Theorem ex_history_first : sorted_upto (rk kw_short) (sections ex_hist_first) /\ ~ sorted_upto (rk kw_goft) (sections ex_hist_first).
Proof. exact ex_hist_first_sorted. Qed.
Print Assumptions ex_history_first.

(** ** the MULKOM compatibility rescaling of MOP(23) *)
(** once the source clears the simulator string AFTER the parameter conversion, convert_to_TOUGH2 rescales and
    rewrites the options exactly as convert_AUTOUGH2_parameters_to_TOUGH2 does on the unconverted model *)
Theorem to_tough2_rescales_as_parameters : t2_clears_simulator_first = false ->
  forall mp d d', convert_to_TOUGH2 mp d = Ok d' ->
  exists dp, params_to_tough2 mp d = Ok dp /\ rocks d' = rocks dp /\ options d' = options dp.
Proof. exact to_tough2_rescales_as_parameters_lemma. Qed.
Print Assumptions to_tough2_rescales_as_parameters.
(** while it clears it BEFORE: the documented rescaling is lost (witness: a MULKOM model with MOP(23) = 1) *)
Theorem mulkom_rescaling_lost_refuted : t2_clears_simulator_first = true ->
  on_ok (convert_to_TOUGH2 false ex_mulkom) (fun d' => forallb (fun r => Nat.eqb (r_scaled r) 0) (rocks d')) = true /\
  on_ok (params_to_tough2 false ex_mulkom) (fun d' => forallb (fun r => Nat.eqb (r_scaled r) 1) (rocks d')) = true.
Proof. exact mulkom_rescaling_lost_lemma. Qed.
Print Assumptions mulkom_rescaling_lost_refuted.
Theorem mulkom_rescaling_kept : t2_clears_simulator_first = false ->
  on_ok (convert_to_TOUGH2 false ex_mulkom) (fun d' => forallb (fun r => Nat.eqb (r_scaled r) 1) (rocks d')) = true.
Proof. exact mulkom_rescaling_kept_lemma. Qed.
Print Assumptions mulkom_rescaling_kept.

(** ** export, second part *)
(** the geometry's block list, for each of the three block orders: atmosphere blocks first, then a permutation of the
    underground blocks (the layer/column list itself unless dmplex) *)
Theorem block_order : forall g l, block_name_list g = Ok l -> block_order_spec g l.
Proof. exact block_order_lemma. Qed.
Print Assumptions block_order.
Theorem cell_index_all_orders : forall g l x,
  block_name_list g = Ok l -> x_geo x = l -> x_natm x = Z.of_nat (length (gm_atm g)) -> NoDup l ->
  exists u, l = gm_atm g ++ u /\ Permutation u (map fst (gm_under g)) /\
    (gm_order g <> BODmplex -> u = map fst (gm_under g)) /\
    (forall i n, nth_error (gm_atm g) i = Some n -> cell_index x n = Some (Z.of_nat i - Z.of_nat (length (gm_atm g)))%Z) /\
    (forall j n, nth_error u j = Some n -> cell_index x n = Some (Z.of_nat j)).
Proof. exact cell_index_all_orders_lemma. Qed.
Print Assumptions cell_index_all_orders.
Theorem initial_per_cell : forall x l, initial_cells x = Ok l -> (0 <= x_natm x)%Z ->
  length l = length (x_geo x) - nat_of_z (x_natm x) /\
  (NoDup (x_geo x) -> forall n c, In n (x_geo x) -> cell_index x n = Some c -> (0 <= c)%Z ->
     option_map Some (nth_error l (Z.to_nat c)) = Some (cell_value x n)).
Proof. exact initial_per_cell_lemma. Qed.
Print Assumptions initial_per_cell.
Theorem boundary_faces_on_interior_connections : forall x l, boundary_faces x = Ok l ->
  boundary_spec x l /\
  (forall b, In b (grid_blocks (x_d x)) -> nonbdy x b = false ->
     forall cells, face_cells x (b_name b) (grid_conns (x_d x)) = Ok cells -> cells <> [] -> exists v, In (b_name b, (v, cells)) l).
Proof. exact boundary_faces_lemma. Qed.
Print Assumptions boundary_faces_on_interior_connections.
Theorem no_face_without_interior : forall x bn c, counts_face x bn c = true ->
  exists o b, other_end bn c = Some o /\ grid_lookup x o = Some b /\ nonbdy x b = true.
Proof. exact no_face_without_interior_lemma. Qed.
Print Assumptions no_face_without_interior.
Theorem ex_orders_initial_boundary :
  on_ok (block_name_list (ex_geom BODmplex)) (fun l => str_list_eqb l (map s2l ["atm 0"; "  a 1"; "  c 1"; "  b 1"]%string)) = true /\
  on_ok (initial_cells ex_xin) (fun l => z_list_eqb l [7; 5; 5]%Z) = true.
Proof. exact (conj (proj1 ex_block_orders) (proj1 ex_initial_boundary)). Qed.
Print Assumptions ex_orders_initial_boundary.

(** ** export, third part: the values of the sources, rock cell lists in geometry order *)
(** one source per non-group generator, in list order, each made from its OWN generator (type, GX, EX, FG, HG, LTAB,
    tables) and the name handed to it, by the table-driven generator_json of SourceJson.v *)
Theorem source_per_generator_with_own_values : forall s l, sources_full s = Ok l ->
  Forall2 (made_from s) (filter (nongroup (s_x s)) (genlist (x_d (s_x s)))) l /\
  length l = length (filter (nongroup (s_x s)) (genlist (x_d (s_x s)))).
Proof. exact sources_full_lemma. Qed.
Print Assumptions source_per_generator_with_own_values.
Theorem source_name_cell : forall s g v nm o, gen_source s g v nm = Ok o ->
  jget "name" o = Some (JName nm) /\ jget "cell" o = Some (cell_jv (source_cell (s_x s) g)).
Proof. exact source_name_cell_lemma. Qed.
Print Assumptions source_name_cell.
Theorem specified_rate_is_gx : forall s g v o, tracer_type s (g_type g) = false -> jget "rate" (specified_injection s g v o) = Some (JNum (v_gx v)).
Proof. exact specified_rate_lemma. Qed.
Print Assumptions specified_rate_is_gx.
Theorem delv_direction : forall g v o o', delv g v o = Ok o' ->
  jget "direction" o' = Some (JStr (if qneg (v_gx v) then "injection" else "production")) /\
  (if qneg (v_gx v) then jget "enthalpy" o' = Some (JNum (v_fg v)) else jget "separator" o' = Some (separator (Some (v_fg v)))).
Proof. exact delv_direction_lemma. Qed.
Print Assumptions delv_direction.
Theorem table_flags : forall s g v o, jget "interpolation" (table_part s g v o) = Some (JStr (fst (interp_names s))) /\
                                      jget "averaging" (table_part s g v o) = Some (JStr (snd (interp_names s))).
Proof. exact table_flags_lemma. Qed.
Print Assumptions table_flags.
(** what the code guarantees about a cell list: geometry order, i.e. strictly increasing cell indices (hence no repeats) *)
Theorem rock_cells_sorted : forall x r, NoDup (x_geo x) -> StronglySorted Z.lt (cells_of_rock x r).
Proof. exact rock_cells_sorted_lemma. Qed.
Print Assumptions rock_cells_sorted.
Theorem rock_cells_all_orders : forall g l x cl,
  block_name_list g = Ok l -> x_geo x = l -> x_natm x = Z.of_nat (length (gm_atm g)) -> NoDup l -> rocks_cells x = Ok cl ->
  exists u, l = gm_atm g ++ u /\ Permutation u (map fst (gm_under g)) /\
    forall j n, nth_error u j = Some n -> exists b, grid_lookup x n = Some b /\
      (nonbdy x b = true -> exists r, r < length cl /\ In (Z.of_nat j) (nth r cl []) /\ forall r', In (Z.of_nat j) (nth r' cl []) -> r' = r) /\
      (nonbdy x b = false -> forall r', ~ In (Z.of_nat j) (nth r' cl [])).
Proof. exact rock_cells_all_orders_lemma. Qed.
Print Assumptions rock_cells_all_orders.

(** ** round 6: history requests through TOUGH2 -> AUTOUGH2 -> TOUGH2, and a second conversion to TOUGH2 *)
(** the converted model can always be converted back, and then holds exactly the block / connection requests that were
    objects of the grid or bare names resolving to such objects (now objects), in order; every generator-history block comes
    from a requested name that is the block of a listed generator; the short output is empty again; the grid is the same *)
Theorem history_round_trip : forall mp mp' sim eos d d', convert_to_AUTOUGH2 mp sim eos d = Ok d' ->
  exists d'', convert_to_TOUGH2 mp' d' = Ok d'' /\ history_round_trip_spec d d''.
Proof. exact history_round_trip_lemma. Qed.
Print Assumptions history_round_trip.
(** requests held as block / connection objects come back unchanged *)
Theorem history_objects_round_trip : forall mp mp' sim eos d d' d'',
  convert_to_AUTOUGH2 mp sim eos d = Ok d' -> convert_to_TOUGH2 mp' d' = Ok d'' ->
  Forall (fun it => is_block it = true) (hist_block d) -> Forall (fun it => is_conn it = true) (hist_conn d) ->
  hist_block d'' = hist_block d /\ hist_conn d'' = hist_conn d.
Proof. exact history_objects_round_trip_lemma. Qed.
Print Assumptions history_objects_round_trip.
(** the example TOUGH2 model (an object, a bare name in the grid, a name outside it; two bare connection pairs of which one is
    in the grid) makes the round trip and comes back with two block objects and one connection object *)
Theorem ex_history_round_trip :
  on_ok (convert_to_AUTOUGH2 false (s2l default_simulator) (s2l default_eos) ex_t2) (fun d' =>
    on_ok (convert_to_TOUGH2 false d') (fun d'' =>
      match hist_block d'', hist_conn d'' with
      | [IBlock a; IBlock b], [IConn _ _] => str_eqb a (s2l "  a 1") && str_eqb b (s2l "  b 1")
      | _, _ => false
      end)) = true.
Proof. exact ex_history_round_trip_lemma. Qed.
Print Assumptions ex_history_round_trip.
(** a model that came out of convert_to_TOUGH2 can always be converted again, and the second conversion reports no generator
    for deletion, keeps the generator list, every generator object, the history lists, grid and SOLVR, and is clean again *)
Theorem to_tough2_twice : forall mp mp' d d', convert_to_TOUGH2 mp d = Ok d' ->
  exists d'', convert_to_TOUGH2 mp' d' = Ok d'' /\ second_conversion_spec d' d''.
Proof. exact to_tough2_twice_lemma. Qed.
Print Assumptions to_tough2_twice.

(** ** round 6b: short output through AUTOUGH2 -> TOUGH2 -> AUTOUGH2 *)
(** after converting to TOUGH2 and back, the short output holds exactly, in order, the block / connection requests the TOUGH2
    conversion filed under FOFT / COFT (the short-output lists where present, else the history lists) that are grid objects or
    bare names resolving to them; the frequency is not carried; every generator it names is in the generator list and was
    of a supported / convertible type; the generator list is the old one filtered; history lists empty; grid the same *)
Theorem short_round_trip : forall mp mp' sim eos d d' d'',
  convert_to_TOUGH2 mp d = Ok d' -> convert_to_AUTOUGH2 mp' sim eos d' = Ok d'' -> short_round_trip_spec d d''.
Proof. exact short_round_trip_lemma. Qed.
Print Assumptions short_round_trip.
(** non-empty short-output lists of grid objects come back unchanged, and the conversion back exists whenever SOLVR is well typed *)
Theorem short_objects_round_trip : forall mp mp' sim eos d d' lb lc,
  convert_to_TOUGH2 mp d = Ok d' -> solver_ok d ->
  so_block (short_output d) = Some lb -> so_conn (short_output d) = Some lc -> lb <> [] -> lc <> [] ->
  Forall (fun it => is_block it = true) lb -> Forall (fun it => is_conn it = true) lc ->
  exists d'', convert_to_AUTOUGH2 mp' sim eos d' = Ok d'' /\
    so_block (short_output d'') = Some lb /\ so_conn (short_output d'') = Some lc.
Proof. exact short_objects_round_trip_lemma. Qed.
Print Assumptions short_objects_round_trip.
(** the example AUTOUGH2 model makes the round trip: its short-output block comes back, its frequency does not *)
Theorem ex_short_round_trip :
  on_ok (convert_to_TOUGH2 false ex_au) (fun d' =>
    on_ok (convert_to_AUTOUGH2 false (s2l default_simulator) (s2l default_eos) d') (fun d'' =>
      match so_block (short_output d''), so_freq (short_output d''), so_freq (short_output ex_au) with
      | Some [IBlock a], None, Some _ => str_eqb a (s2l "  a 1")
      | _, _, _ => false
      end)) = true.
Proof. exact ex_short_round_trip_lemma. Qed.
Print Assumptions ex_short_round_trip.

(** ** round 6c: convert_to_AUTOUGH2 applied to its own result rebuilds the short output from the emptied history lists:
    block / connection lists and frequency are gone (why the [type] setter is a no-op when the type is unchanged) *)
Theorem to_autough2_twice : forall mp mp' sim eos sim' eos' d d' d'',
  convert_to_AUTOUGH2 mp sim eos d = Ok d' -> convert_to_AUTOUGH2 mp' sim' eos' d' = Ok d'' ->
  so_block (short_output d'') = None /\ so_conn (short_output d'') = None /\ so_freq (short_output d'') = None.
Proof. exact to_autough2_twice_lemma. Qed.
Print Assumptions to_autough2_twice.
