(** C20 -- the property statements about the flavour conversions, proved from the closed forms. *)
From Coq Require Import Ascii String List Bool Arith ZArith Lia.
From PTBase Require Import Exn PyStr.
From P Require Import Lang Convert SectionLemmas SectionOrder MopLemmas ConvertLemmas.
From Gen Require Import GenConvert.
Import ListNotations.

(** keywords of the sections the statement names; the mapping keyword -> attribute is that of
    [Convert.data_present] (checked against get_present_sections by the translator) *)
Definition kw_simul := s2l "SIMUL".   Definition kw_lineq := s2l "LINEQ".   Definition kw_short := s2l "SHORT".
Definition kw_solvr := s2l "SOLVR".   Definition kw_foft := s2l "FOFT".     Definition kw_coft := s2l "COFT".
Definition kw_goft := s2l "GOFT".

Lemma keyword_facts :
  s2l simul_section = kw_simul /\ s2l t2_lineq_section = kw_lineq /\ s2l au_lineq_section = kw_lineq /\
  smem kw_simul all_sections = true /\ smem kw_lineq all_sections = true /\
  str_eqb (s2l multi_eos_key) (s2l t2_multi_del_key) = true /\
  str_eqb (s2l multi_eos_key) (s2l t2_multi_none_key) = false /\
  str_eqb (s2l multi_eos_key) (s2l au_multi_none_key) = false /\
  str_eqb (s2l eos_multi_key) (s2l multi_eos_key) = true /\
  str_eqb (s2l au_lineq_type_key) (s2l t2_lineq_type_key) = true /\
  str_eqb (s2l type_autough2) (s2l type_tough2) = false /\
  Nat.ltb 0 sim_width = true.
Proof. vm_compute. repeat split; reflexivity. Qed.

Lemma present_simul d : data_present d kw_simul = nonempty (simulator d).   Proof. reflexivity. Qed.
Lemma present_lineq d : data_present d kw_lineq = dtruthy (lineq d).         Proof. reflexivity. Qed.
Lemma present_short d : data_present d kw_short = short_nonempty (short_output d).   Proof. reflexivity. Qed.
Lemma present_solvr d : data_present d kw_solvr = dtruthy (solver d).        Proof. reflexivity. Qed.
Lemma present_foft d : data_present d kw_foft = nonempty (hist_block d).     Proof. reflexivity. Qed.
Lemma present_coft d : data_present d kw_coft = nonempty (hist_conn d).      Proof. reflexivity. Qed.
Lemma present_goft d : data_present d kw_goft = nonempty (hist_gen d).       Proof. reflexivity. Qed.

Lemma not_written d k : data_present d k = false -> ~ In k (written_sections d).
Proof. intros P I. apply written_sections_present in I. destruct I as [_ I]. rewrite P in I. discriminate. Qed.

(** * AUTOUGH2 -> TOUGH2 *)
Definition tough2_clean (d' : data) : Prop :=
  get_type d' = TOUGH2 /\ simulator d' = [] /\ lineq d' = [] /\ short_output d' = short_empty /\
  dget (s2l multi_eos_key) (multi d') = None /\
  ~ In kw_simul (written_sections d') /\ ~ In kw_lineq (written_sections d') /\ ~ In kw_short (written_sections d') /\
  (forall id, In id (genlist d') -> tough2_type (g_type (hget id (heap d'))) = true) /\
  (forall k id, In (k, id) (gendict d') ->
     In id (genlist d') /\ k = gkey (hget id (heap d')) /\ tough2_type (g_type (hget id (heap d'))) = true).

Definition unwritten_options (p : list ostmt) (d d' : data) : Prop :=
  length (options d') = length (options d) /\
  forall k, ~ In k (writes p) -> opt_get k (options d') = opt_get k (options d).

Definition t2_preserved (d d' : data) : Prop :=
  grid_blocks d' = grid_blocks d /\ grid_conns d' = grid_conns d /\
  (exists n, n <= 2 /\ rocks d' = map (rescale_by n) (rocks d)) /\
  genlist d' = filter (fun id => keepable (g_type (hget id (heap d)))) (genlist d) /\
  (forall id, In id (genlist d) -> hget id (heap d') = convg (hget id (heap d))) /\
  (forall id, ~ In id (genlist d) -> hget id (heap d') = hget id (heap d)) /\
  hist_block d' = from_opt (so_block (short_output d)) (hist_block d) /\
  hist_conn d' = from_opt (so_conn (short_output d)) (hist_conn d) /\
  match so_gen (short_output d) with
  | None => hist_gen d' = hist_gen d
  | Some l => forall it, In it (hist_gen d') <->
                exists id, In (IGen id) l /\ In id (genlist d') /\ it = block_item (grid_blocks d) (g_block (hget id (heap d)))
  end /\
  solver d' = solver d /\ other_present d' = other_present d /\
  unwritten_options mop_prog_t2 d d'.

(** shape of a successful conversion *)
Lemma to_tough2_inv mp d d' : convert_to_TOUGH2 mp d = Ok d' ->
  exists st hg, solver_type_t2 d = Ok st /\
    t2_hist_gen d (fst (gens_loop (genlist d) (heap d))) (snd (snd (gens_loop (genlist d) (heap d)))) = Ok hg /\
    let r := run_prog (t2_ctx mp st (t2_sim d)) mop_prog_t2 (options d, 0) in
    let gl := gens_loop (genlist d) (heap d) in
    d' = {| simulator := []; filename := if mp then s2l mp_filename else filename d;
            sections := t2_sections (sections d);
            other_present := other_present d; multi := multi_to_tough2 (multi d); lineq := []; solver := solver d;
            options := fst r; heap := fst gl; genlist := snd (snd gl); gendict := dict_of_gens (fst gl) (snd (snd gl));
            short_output := short_empty;
            hist_block := from_opt (so_block (short_output d)) (hist_block d);
            hist_conn := from_opt (so_conn (short_output d)) (hist_conn d);
            hist_gen := from_opt hg (hist_gen d);
            rocks := map (rescale_by (snd r)) (rocks d); grid_blocks := grid_blocks d; grid_conns := grid_conns d |}.
Proof.
  rewrite to_tough2_unfold. destruct (solver_type_t2 d) as [st|e]; [|discriminate]. cbn [bind]. cbv zeta.
  destruct (t2_hist_gen d _ _) as [hg|e]; [|discriminate]. cbn [bind]. intro H. apply Ok_inj in H. exists st, hg.
  split; [reflexivity|]. split; [reflexivity|]. symmetry. exact H.
Qed.

Lemma multi_to_tough2_no_eos m : dget (s2l multi_eos_key) (multi_to_tough2 m) = None.
Proof.
  destruct keyword_facts as (_ & _ & _ & _ & _ & Kd & Kn & _).
  apply str_eqb_eq in Kd. unfold multi_to_tough2. destruct (dtruthy m) eqn:T.
  - rewrite dget_dset_other by exact Kn. rewrite <- Kd.
    destruct (dhas (s2l multi_eos_key) m) eqn:Hh; [apply dget_ddel|].
    unfold dhas in Hh. destruct (dget (s2l multi_eos_key) m); [discriminate|reflexivity].
  - destruct m; [reflexivity|discriminate].
Qed.

Lemma keep_item_IGen keep l it : In it (filter (keep_item keep) l) <-> exists id, it = IGen id /\ In (IGen id) l /\ In id keep.
Proof.
  rewrite filter_In. split.
  - intros [I K]. destruct it; cbn [keep_item] in K; try discriminate. exists id. repeat split; [exact I|apply nmem_In; exact K].
  - intros [id [-> [I K]]]. split; [exact I|]. cbn [keep_item]. apply nmem_In. exact K.
Qed.

Theorem to_tough2_clean_lemma mp d d' : convert_to_TOUGH2 mp d = Ok d' -> tough2_clean d'.
Proof.
  intro H. destruct (to_tough2_inv _ _ _ H) as (st & hg & _ & _ & E). cbv zeta in E.
  destruct (gens_loop_spec (genlist d) (heap d)) as (Hk & _ & _ & Hh).
  assert (G : forall id, In id (genlist d') -> tough2_type (g_type (hget id (heap d'))) = true).
  { subst d'. fld. intros id I. rewrite Hk in I. apply filter_In in I as [I K]. rewrite Hh.
    rewrite (proj2 (nmem_In _ _) I). rewrite convg_type. apply keepable_conv_type. exact K. }
  assert (GD : forall k id, In (k, id) (gendict d') ->
     In id (genlist d') /\ k = gkey (hget id (heap d')) /\ tough2_type (g_type (hget id (heap d'))) = true).
  { intros k id I. assert (I' : In id (genlist d') /\ k = gkey (hget id (heap d'))).
    { subst d'. revert I. fld. apply In_dict_of_gens. }
    destruct I' as [I1 I2]. split; [exact I1|split; [exact I2|apply G; exact I1]]. }
  unfold tough2_clean. split; [|split; [|split; [|split; [|split; [|split; [|split; [|split; [|split]]]]]]]].
  - subst d'. reflexivity.
  - subst d'. reflexivity.
  - subst d'. reflexivity.
  - subst d'. reflexivity.
  - subst d'. fld. apply multi_to_tough2_no_eos.
  - apply not_written. rewrite present_simul. subst d'. reflexivity.
  - apply not_written. rewrite present_lineq. subst d'. reflexivity.
  - apply not_written. rewrite present_short. subst d'. reflexivity.
  - exact G.
  - exact GD.
Qed.

(** with a duplicate-free section list the keywords are gone from the internal list as well *)
Lemma remove_two a b secs : NoDup secs ->
  ~ In a (remove_first b (remove_first a secs)) /\ ~ In b (remove_first b (remove_first a secs)) /\
  (forall k, k <> a -> k <> b -> (In k (remove_first b (remove_first a secs)) <-> In k secs)).
Proof.
  intro ND. split; [|split].
  - intro I. apply In_remove_first in I. revert I. apply remove_first_nodup. exact ND.
  - apply remove_first_nodup. apply remove_first_NoDup. exact ND.
  - intros k N1 N2. split.
    + intro I. apply In_remove_first in I. apply In_remove_first in I. exact I.
    + intro I. apply remove_first_other; [exact N2|]. apply remove_first_other; [exact N1|exact I].
Qed.
Lemma t2_sections_spec secs : NoDup secs ->
  ~ In kw_simul (t2_sections secs) /\ ~ In kw_lineq (t2_sections secs) /\
  (forall k, k <> kw_simul -> k <> kw_lineq -> (In k (t2_sections secs) <-> In k secs)).
Proof.
  intro ND. destruct keyword_facts as (Ks & Kl & _). unfold t2_sections. rewrite Ks, Kl.
  destruct t2_clears_simulator_first.
  - apply remove_two. exact ND.
  - destruct (remove_two kw_lineq kw_simul secs ND) as (A & B & C). split; [exact B|split; [exact A|]].
    intros k N1 N2. apply C; assumption.
Qed.
Theorem to_tough2_sections_lemma mp d d' : convert_to_TOUGH2 mp d = Ok d' -> NoDup (sections d) ->
  ~ In kw_simul (sections d') /\ ~ In kw_lineq (sections d') /\
  (forall k, k <> kw_simul -> k <> kw_lineq -> (In k (sections d') <-> In k (sections d))).
Proof.
  intros H ND. destruct (to_tough2_inv _ _ _ H) as (st & hg & _ & _ & E). cbv zeta in E.
  subst d'. fld. apply t2_sections_spec. exact ND.
Qed.

Theorem to_tough2_preserves_lemma mp d d' : convert_to_TOUGH2 mp d = Ok d' -> t2_preserved d d'.
Proof.
  intro H. destruct (to_tough2_inv _ _ _ H) as (st & hg & _ & Hg & E). cbv zeta in E.
  destruct (gens_loop_spec (genlist d) (heap d)) as (Hk & _ & _ & Hh).
  unfold t2_preserved. subst d'. fld. repeat split.
  - exists (snd (run_prog (t2_ctx mp st (t2_sim d)) mop_prog_t2 (options d, 0))). split; [|reflexivity].
    pose proof (run_prog_resc (t2_ctx mp st (t2_sim d)) mop_prog_t2 (options d, 0)) as R. cbn [snd] in R.
    pose proof t2_rescales_at_most_twice. lia.
  - exact Hk.
  - intros id I. rewrite Hh. rewrite (proj2 (nmem_In _ _) I). reflexivity.
  - intros id I. rewrite Hh. destruct (nmem id (genlist d)) eqn:M; [|reflexivity]. apply nmem_In in M. contradiction.
  - unfold t2_hist_gen in Hg. destruct (so_gen (short_output d)) as [l|].
    + destruct (short_gen_blocks _ _ _ _) as [b|] eqn:S; [|discriminate]. cbn [bind] in Hg. inversion Hg. subst hg. cbn [from_opt].
      destruct (short_gen_blocks_spec _ _ _ _ _ S) as [_ Sp]. intro it. rewrite Sp. split.
      * intros [[]|[id [I Ei]]]. apply keep_item_IGen in I as [id' [Eq [I K]]]. inversion Eq. subst id'.
        exists id. repeat split; [exact I|exact K|]. subst it. f_equal. rewrite Hh.
        rewrite Hk in K. apply filter_In in K as [K _]. rewrite (proj2 (nmem_In _ _) K). first [apply (proj1 (convg_rest _))|symmetry; apply (proj1 (convg_rest _))].
      * intros [id [I [K Ei]]]. right. exists id. split; [apply keep_item_IGen; exists id; repeat split; assumption|].
        subst it. f_equal. rewrite Hh. rewrite Hk in K. apply filter_In in K as [K _]. rewrite (proj2 (nmem_In _ _) K). first [apply (proj1 (convg_rest _))|symmetry; apply (proj1 (convg_rest _))].
    + inversion Hg. reflexivity.
  - apply run_prog_length.
  - intros k N. apply (run_prog_unwritten (t2_ctx mp st (t2_sim d)) k mop_prog_t2 (options d, 0) N).
Qed.

(** option digits stay digits: every constant the regenerated program stores is a digit, and so is the solver type
    derived from LINEQ *)
Theorem to_tough2_digits_lemma mp d d' : convert_to_TOUGH2 mp d = Ok d' -> Forall digit (options d) -> Forall digit (options d').
Proof.
  intros H D. destruct (to_tough2_inv _ _ _ H) as (st & hg & Hs & _ & E). cbv zeta in E. subst d'. fld.
  apply (run_prog_digits _ true); [intros _|apply prog_consts_are_digits|exact D]. cbn [t2_ctx c_solver].
  unfold solver_type_t2 in Hs. destruct (dtruthy (lineq d)).
  - destruct (dget _ (lineq d)) as [[|z|s|]|]; try discriminate. inversion Hs.
    assert (F : digitb t2_solver_le = true /\ digitb t2_solver_gt = true) by (vm_compute; split; reflexivity).
    destruct (z <=? t2_lineq_threshold)%Z; apply digitb_digit; apply F.
  - inversion Hs. apply digitb_digit. vm_compute. reflexivity.
Qed.

(** totality: the only way the conversion to TOUGH2 can raise is a LINEQ dict without an integer 'type' *)
Definition lineq_ok (d : data) : Prop := lineq d = [] \/ exists z, dget (s2l t2_lineq_type_key) (lineq d) = Some (MInt z).
Lemma filter_keep_gen_only keep l : gen_items_only (filter (keep_item keep) l).
Proof. intros it I. apply keep_item_IGen in I as [id [E _]]. exists id. exact E. Qed.
Theorem to_tough2_total_lemma mp d : lineq_ok d -> exists d', convert_to_TOUGH2 mp d = Ok d'.
Proof.
  intro L. rewrite to_tough2_unfold.
  assert (S : exists st, solver_type_t2 d = Ok st).
  { unfold solver_type_t2. destruct L as [L|[z L]]; [rewrite L; cbn [dtruthy]; eexists; reflexivity|].
    rewrite L. destruct (dtruthy (lineq d)); eexists; reflexivity. }
  destruct S as [st S]. rewrite S. cbn [bind]. cbv zeta.
  assert (G : exists hg, t2_hist_gen d (fst (gens_loop (genlist d) (heap d))) (snd (snd (gens_loop (genlist d) (heap d)))) = Ok hg).
  { unfold t2_hist_gen. destruct (so_gen (short_output d)) as [l|]; [|eexists; reflexivity].
    destruct (short_gen_blocks_total (grid_blocks d) (fst (gens_loop (genlist d) (heap d))) _ (filter_keep_gen_only (snd (snd (gens_loop (genlist d) (heap d)))) l) []) as [b B].
    rewrite B. cbn [bind]. eexists; reflexivity. }
  destruct G as [hg G]. rewrite G. cbn [bind]. eexists; reflexivity.
Qed.

(** * TOUGH2 -> AUTOUGH2 *)
Definition au_short (d : data) : short :=
  {| so_freq := None; so_block := history_blocks_to_short d; so_conn := history_conns_to_short d; so_gen := history_gens_to_short d |}.
Definition au_simstr (sim eos : str) : str := ljust sim_width sim ++ eos.
Lemma to_autough2_unfold mp sim eos d :
  convert_to_AUTOUGH2 mp sim eos d =
  (do st <- solver_type_au mp d;
   let r := run_prog {| c_mp := mp; c_solver := st; c_sim := au_simstr sim eos |} mop_prog_au (options d, 0) in
   Ok {| simulator := au_simstr sim eos; filename := fix_filename (filename d);
         sections := ins_sec (s2l au_lineq_section) (ins_sec (s2l simul_section) (sections d));
         other_present := other_present d; multi := multi_to_autough2 (multi_set_eos eos (multi d));
         lineq := (s2l au_lineq_type_key, MInt (lineq_type_of st)) :: map (fun k => (s2l k, MNone)) au_lineq_none_keys;
         solver := []; options := fst r; heap := heap d; genlist := genlist d; gendict := gendict d;
         short_output := au_short d; hist_block := []; hist_conn := []; hist_gen := [];
         rocks := map (rescale_by (snd r)) (rocks d); grid_blocks := grid_blocks d; grid_conns := grid_conns d |}).
Proof.
  destruct d as [simu fn secs oth mu lq sv opts hp gl gd so hb hc hgn rk gb gc].
  unfold convert_to_AUTOUGH2, params_to_autough2, au_simstr, insert_section. fld.
  unfold solver_type_au. fld. destruct mp; cbn [bind].
  - reflexivity.
  - destruct (dget (s2l au_solver_type_key) sv) as [[|z|s|]|]; cbn [bind]; reflexivity.
Qed.

Definition autough2_mirror (sim eos : str) (d d' : data) : Prop :=
  get_type d' = AUTOUGH2 /\ simulator d' = au_simstr sim eos /\
  solver d' = [] /\ hist_block d' = [] /\ hist_conn d' = [] /\ hist_gen d' = [] /\
  ~ In kw_solvr (written_sections d') /\ ~ In kw_foft (written_sections d') /\
  ~ In kw_coft (written_sections d') /\ ~ In kw_goft (written_sections d') /\
  In kw_simul (sections d') /\ In kw_lineq (sections d') /\
  In kw_simul (written_sections d') /\ In kw_lineq (written_sections d') /\
  (multi d = [] -> multi d' = []) /\
  (multi d <> [] -> dget (s2l multi_eos_key) (multi d') = Some (MStr eos)) /\
  (exists t, dget (s2l t2_lineq_type_key) (lineq d') = Some (MInt t) /\ (In t au_lineq_table \/ t = au_lineq_default)) /\
  grid_blocks d' = grid_blocks d /\ grid_conns d' = grid_conns d /\ rocks d' = rocks d /\
  heap d' = heap d /\ genlist d' = genlist d /\ gendict d' = gendict d /\
  short_output d' = au_short d /\ other_present d' = other_present d /\
  unwritten_options mop_prog_au d d'.

Lemma rescale_by_0 r : rescale_by 0 r = r.
Proof. destruct r as [n s dt]. unfold rescale_by. cbn [r_name r_scaled r_data]. rewrite Nat.add_0_r. reflexivity. Qed.
Lemma nonempty_simstr sim eos : nonempty (au_simstr sim eos) = true.
Proof.
  destruct keyword_facts as (_ & _ & _ & _ & _ & _ & _ & _ & _ & _ & _ & W). apply Nat.ltb_lt in W.
  unfold au_simstr. destruct (ljust sim_width sim) as [|c r] eqn:E; [|reflexivity].
  pose proof (ljust_length sim_width sim) as L. rewrite E in L. cbn [length] in L. lia.
Qed.
Lemma lineq_type_of_range st : In (lineq_type_of st) au_lineq_table \/ lineq_type_of st = au_lineq_default.
Proof.
  unfold lineq_type_of. destruct ((0 <=? st)%Z && (st <? Z.of_nat (length au_lineq_table))%Z) eqn:E; [|right; reflexivity].
  apply andb_true_iff in E as [A B]. apply Z.leb_le in A. apply Z.ltb_lt in B. left. apply nth_In. lia.
Qed.

Lemma to_autough2_inv mp sim eos d d' : convert_to_AUTOUGH2 mp sim eos d = Ok d' ->
  exists st, solver_type_au mp d = Ok st /\
    let r := run_prog {| c_mp := mp; c_solver := st; c_sim := au_simstr sim eos |} mop_prog_au (options d, 0) in
    d' = {| simulator := au_simstr sim eos; filename := fix_filename (filename d);
         sections := ins_sec (s2l au_lineq_section) (ins_sec (s2l simul_section) (sections d));
         other_present := other_present d; multi := multi_to_autough2 (multi_set_eos eos (multi d));
         lineq := (s2l au_lineq_type_key, MInt (lineq_type_of st)) :: map (fun k => (s2l k, MNone)) au_lineq_none_keys;
         solver := []; options := fst r; heap := heap d; genlist := genlist d; gendict := gendict d;
         short_output := au_short d; hist_block := []; hist_conn := []; hist_gen := [];
         rocks := map (rescale_by (snd r)) (rocks d); grid_blocks := grid_blocks d; grid_conns := grid_conns d |}.
Proof.
  rewrite to_autough2_unfold. destruct (solver_type_au mp d) as [st|e]; [|discriminate]. cbn [bind]. cbv zeta.
  intro H. apply Ok_inj in H. exists st. split; [reflexivity|]. symmetry. exact H.
Qed.

Theorem to_autough2_mirror_lemma mp sim eos d d' : convert_to_AUTOUGH2 mp sim eos d = Ok d' -> autough2_mirror sim eos d d'.
Proof.
  intro H. destruct (to_autough2_inv _ _ _ _ _ H) as (st & _ & E). cbv zeta in E.
  destruct keyword_facts as (Ks & _ & Kl & As & Al & _ & _ & Kan & _ & Kt & _).
  assert (S1 : In kw_simul (sections d')).
  { subst d'. fld. apply In_ins_sec. right. apply In_ins_sec. left. symmetry. exact Ks. }
  assert (S2 : In kw_lineq (sections d')).
  { subst d'. fld. apply In_ins_sec. left. symmetry. exact Kl. }
  unfold autough2_mirror. repeat split; try (subst d'; reflexivity).
  - unfold get_type. subst d'. fld. rewrite nonempty_simstr. reflexivity.
  - apply not_written. rewrite present_solvr. subst d'. reflexivity.
  - apply not_written. rewrite present_foft. subst d'. reflexivity.
  - apply not_written. rewrite present_coft. subst d'. reflexivity.
  - apply not_written. rewrite present_goft. subst d'. reflexivity.
  - exact S1.
  - exact S2.
  - apply present_is_written; [apply smem_In; exact As|]. rewrite present_simul. subst d'. fld. apply nonempty_simstr.
  - apply present_is_written; [apply smem_In; exact Al|]. rewrite present_lineq. subst d'. reflexivity.
  - intro M. subst d'. fld. rewrite M. reflexivity.
  - intro M. subst d'. fld. unfold multi_to_autough2, multi_set_eos. destruct (multi d) as [|kv r] eqn:Em; [contradiction|].
    cbn [dtruthy]. rewrite dset_truthy. rewrite dget_dset_other by exact Kan. apply dget_dset.
  - exists (lineq_type_of st). split; [|apply lineq_type_of_range]. subst d'. fld. cbn [dget].
    apply str_eqb_eq in Kt. rewrite <- Kt. rewrite str_eqb_refl. reflexivity.
  - subst d'. fld. pose proof (run_prog_resc {| c_mp := mp; c_solver := st; c_sim := au_simstr sim eos |} mop_prog_au (options d, 0)) as R.
    cbn [snd] in R. rewrite au_never_rescales in R.
    assert (Z : snd (run_prog {| c_mp := mp; c_solver := st; c_sim := au_simstr sim eos |} mop_prog_au (options d, 0)) = 0) by lia.
    rewrite Z. rewrite (map_ext _ (fun r => r) rescale_by_0). apply map_id.
  - subst d'. fld. apply run_prog_length.
  - intros k N. subst d'. fld. apply (run_prog_unwritten _ k mop_prog_au (options d, 0) N).
Qed.

(** totality: for every option array (every digit in every position, MOP(21) = 7..9 included), with or
    without MP; the only way to raise is a SOLVR dict whose 'type' is not an integer *)
Definition solver_ok (d : data) : Prop :=
  match dget (s2l au_solver_type_key) (solver d) with Some (MInt _) | None => True | Some _ => False end.
Theorem to_autough2_total_lemma mp sim eos d : solver_ok d -> exists d', convert_to_AUTOUGH2 mp sim eos d = Ok d'.
Proof.
  intro S. rewrite to_autough2_unfold. unfold solver_type_au. destruct mp; cbn [bind]; [eexists; reflexivity|].
  unfold solver_ok in S. destruct (dget (s2l au_solver_type_key) (solver d)) as [[|z|s|]|]; try contradiction; cbn [bind]; eexists; reflexivity.
Qed.
Theorem to_autough2_digits_lemma mp sim eos d d' : convert_to_AUTOUGH2 mp sim eos d = Ok d' -> Forall digit (options d) -> Forall digit (options d').
Proof.
  intros H D. destruct (to_autough2_inv _ _ _ _ _ H) as (st & _ & E). cbv zeta in E. subst d'. fld.
  apply (run_prog_digits _ false); [discriminate|apply prog_consts_are_digits|exact D].
Qed.

(** * the [type] setter *)
Lemma type_names_distinct : str_eqb (s2l type_autough2) (s2l type_tough2) = false /\ str_eqb (s2l type_tough2) (s2l type_autough2) = false.
Proof. vm_compute. split; reflexivity. Qed.
Theorem set_type_lemma f d d' : set_type (type_name f) d = Ok d' -> get_type d' = f.
Proof.
  destruct type_names_distinct as [N1 N2]. unfold set_type.
  destruct f, (get_type d) eqn:G; unfold type_name; rewrite ?str_eqb_refl, ?N1, ?N2; cbn [orb].
  - intro H. apply Ok_inj in H. subst d'. exact G.
  - intro H. apply to_autough2_mirror_lemma in H. destruct H as [H _]. exact H.
  - intro H. apply to_tough2_clean_lemma in H. destruct H as [H _]. exact H.
  - intro H. apply Ok_inj in H. subst d'. exact G.
Qed.
Theorem set_type_other_lemma v d : v <> s2l type_autough2 -> v <> s2l type_tough2 -> set_type v d = Raise PlainException.
Proof.
  intros A B. unfold set_type. apply str_eqb_false_neq in A. apply str_eqb_false_neq in B. rewrite A, B. reflexivity.
Qed.

(** * what the conversion reports as deleted is what it deleted *)
Theorem reported_deleted_lemma d :
  snd (gens_to_tough2 d) =
  map (fun id => gkey (hget id (heap d))) (filter (fun id => negb (keepable (g_type (hget id (heap d))))) (genlist d)).
Proof.
  unfold gens_to_tough2. destruct (gens_loop_spec (genlist d) (heap d)) as (_ & Hd & _).
  destruct (gens_loop (genlist d) (heap d)) as [h' [del keep]]. cbn [fst snd] in *. exact Hd.
Qed.

(** * the order of the sections written after a conversion *)
Definition kw_eleme := s2l "ELEME".   Definition kw_conne := s2l "CONNE".   Definition kw_gener := s2l "GENER".
Definition rk (k : str) : nat := match srank k with Some n => n | None => 0 end.
Definition has_rank (k : str) : bool := match srank k with Some _ => true | None => false end.
Lemma section_rank_facts :
  forallb has_rank [kw_eleme; kw_conne; kw_gener; kw_short; kw_foft; kw_coft; kw_goft] = true /\
  rk kw_eleme < rk kw_conne /\ rk kw_conne < rk kw_gener /\ rk kw_gener < rk kw_short /\
  rk kw_short < rk kw_foft /\ rk kw_foft < rk kw_coft /\ rk kw_coft < rk kw_goft.
Proof. vm_compute. repeat split; repeat constructor. Qed.
Lemma srank_rk k : has_rank k = true -> srank k = Some (rk k).
Proof. unfold has_rank, rk. destruct (srank k); [reflexivity|discriminate]. Qed.

(** both conversions keep, for every n, the keywords of rank <= n in reference order *)
Theorem to_autough2_keeps_order_lemma n mp sim eos d d' : convert_to_AUTOUGH2 mp sim eos d = Ok d' ->
  sorted_upto n (sections d) -> sorted_upto n (sections d') /\ sorted_upto n (written_sections d').
Proof.
  intros H PS. destruct (to_autough2_inv _ _ _ _ _ H) as (st & _ & E). cbv zeta in E.
  assert (S1 : sorted_upto n (sections d')) by (subst d'; fld; apply ins_sec_keeps_order; apply ins_sec_keeps_order; exact PS).
  split; [exact S1|apply update_sections_keeps_order_lemma; exact S1].
Qed.
Theorem to_tough2_keeps_order_lemma n mp d d' : convert_to_TOUGH2 mp d = Ok d' ->
  sorted_upto n (sections d) -> sorted_upto n (sections d') /\ sorted_upto n (written_sections d').
Proof.
  intros H PS. destruct (to_tough2_inv _ _ _ H) as (st & hg & _ & _ & E). cbv zeta in E.
  assert (S1 : sorted_upto n (sections d')).
  { subst d'. fld. unfold t2_sections. destruct t2_clears_simulator_first; apply remove_keeps_order; apply remove_keeps_order; exact PS. }
  split; [exact S1|apply update_sections_keeps_order_lemma; exact S1].
Qed.
Definition grid_keywords : list str := [kw_eleme; kw_conne; kw_gener].
Definition history_keywords : list str := [kw_foft; kw_coft; kw_goft].
(** the SHORT section of a model converted to AUTOUGH2 is written after ELEME, CONNE and GENER (it is read back
    against the grid and the generators), wherever the history sections were *)
Theorem short_written_after_grid_lemma mp sim eos d d' x : convert_to_AUTOUGH2 mp sim eos d = Ok d' ->
  sorted_upto (rk kw_short) (sections d) -> In x grid_keywords ->
  In x (written_sections d') -> In kw_short (written_sections d') -> before x kw_short (written_sections d').
Proof.
  intros H PS Ix Wx Ws. destruct (to_autough2_keeps_order_lemma _ _ _ _ _ _ H PS) as [_ S2].
  destruct section_rank_facts as (R & L1 & L2 & L3 & _). rewrite forallb_forall in R.
  assert (Rs : srank kw_short = Some (rk kw_short)) by (apply srank_rk; apply R; cbn; auto 10).
  assert (Rx : srank x = Some (rk x)) by (apply srank_rk; apply R; unfold grid_keywords in Ix; cbn in *; intuition).
  apply (sorted_before _ _ _ _ _ _ S2 Wx Ws Rx Rs); [|lia].
  unfold grid_keywords in Ix. cbn [In] in Ix. destruct Ix as [<-|[<-|[<-|[]]]]; lia.
Qed.
(** the FOFT / COFT / GOFT sections of a model converted to TOUGH2 are written after ELEME, CONNE and GENER *)
Theorem history_written_after_grid_lemma mp d d' x h : convert_to_TOUGH2 mp d = Ok d' ->
  sorted_upto (rk kw_goft) (sections d) -> In x grid_keywords -> In h history_keywords ->
  In x (written_sections d') -> In h (written_sections d') -> before x h (written_sections d').
Proof.
  intros H PS Ix Ih Wx Wh. destruct (to_tough2_keeps_order_lemma _ _ _ _ H PS) as [_ S2].
  destruct section_rank_facts as (R & L1 & L2 & L3 & L4 & L5 & L6). rewrite forallb_forall in R.
  assert (Rh : srank h = Some (rk h)) by (apply srank_rk; apply R; unfold history_keywords in Ih; cbn in *; intuition).
  assert (Rx : srank x = Some (rk x)) by (apply srank_rk; apply R; unfold grid_keywords in Ix; cbn in *; intuition).
  unfold grid_keywords in Ix. unfold history_keywords in Ih. cbn [In] in Ix, Ih.
  apply (sorted_before _ _ _ _ _ _ S2 Wx Wh Rx Rh);
    destruct Ix as [<-|[<-|[<-|[]]]]; destruct Ih as [<-|[<-|[<-|[]]]]; lia.
Qed.

(** * the MULKOM compatibility rescaling (MOP(23)) and the place where the simulator string is cleared *)
Theorem to_tough2_rescales_as_parameters_lemma : t2_clears_simulator_first = false ->
  forall mp d d', convert_to_TOUGH2 mp d = Ok d' ->
  exists dp, params_to_tough2 mp d = Ok dp /\ rocks d' = rocks dp /\ options d' = options dp.
Proof.
  intros F mp d d' H. destruct (to_tough2_inv _ _ _ H) as (st & hg & Hs & _ & E). cbv zeta in E.
  unfold params_to_tough2.
  change (solver_type_t2 (set_multi (multi_to_tough2 (multi d)) d)) with (solver_type_t2 d). rewrite Hs. cbn [bind].
  eexists. split; [reflexivity|]. subst d'. fld. unfold t2_sim, t2_ctx. rewrite F. split; reflexivity.
Qed.
