(** C20 -- executable model of the flavour conversions of t2data
    (convert_to_TOUGH2 / convert_to_AUTOUGH2 / the [type] setter and their helpers),
    statement by statement, over an abstract data object at the level the property
    talks about.  Literal constants and the MOP-rewriting statement lists come from
    Gen/GenConvert.v (regenerated from t2data.py on every run). *)
From Coq Require Import Ascii String List Bool Arith ZArith NArith Lia.
From PTBase Require Import Exn PyStr.
From P Require Import Lang.
From Gen Require Import GenConvert.
Import ListNotations.

(** * Python dict values / dicts (insertion ordered, unique keys) *)
Inductive mval := MNone | MInt (z : Z) | MStr (s : str) | MOther.
Definition pydict := list (str * mval).
Fixpoint dget (k : str) (d : pydict) : option mval :=
  match d with [] => None | (k', v) :: r => if str_eqb k k' then Some v else dget k r end.
Definition dhas (k : str) (d : pydict) : bool := match dget k d with Some _ => true | None => false end.
Fixpoint dset (k : str) (v : mval) (d : pydict) : pydict :=
  match d with [] => [(k, v)] | (k', v') :: r => if str_eqb k k' then (k', v) :: r else (k', v') :: dset k v r end.
(** [del d[k]]: keys of a Python dict are unique, so removing every entry filed under [k] is the
    same thing on every dict that can exist, and leaves no entry under [k] on any list *)
Fixpoint ddel (k : str) (d : pydict) : pydict :=
  match d with [] => [] | (k', v') :: r => if str_eqb k k' then ddel k r else (k', v') :: ddel k r end.
Definition dtruthy (d : pydict) : bool := match d with [] => false | _ => true end.
Definition nonempty {A} (l : list A) : bool := match l with [] => false | _ => true end.

(** * The abstract data object *)
(** a generator object; [g_ltab], [g_hg] (sign of HG) only matter for the export;
    [g_data] stands for everything else the object holds *)
Record genrec := { g_block : str; g_name : str; g_type : str; g_ltab : option Z; g_hg : option Z; g_data : Z }.
Definition set_gtype (t : str) (g : genrec) : genrec :=
  {| g_block := g_block g; g_name := g_name g; g_type := t; g_ltab := g_ltab g; g_hg := g_hg g; g_data := g_data g |}.
Definition gen0 : genrec := {| g_block := []; g_name := []; g_type := []; g_ltab := None; g_hg := None; g_data := 0 |}.

(** what a history / short-output list can hold: a t2block object (of the grid), a bare
    block name, a t2connection object, a bare pair of names, a t2generator object (by identity) *)
Inductive item := IBlock (n : str) | IName (n : str) | IConn (a b : str) | ITuple (a b : str) | IGen (id : nat).
Definition item_eqb (x y : item) : bool :=
  match x, y with
  | IBlock a, IBlock b | IName a, IName b => str_eqb a b
  | IConn a b, IConn c d | ITuple a b, ITuple c d => str_eqb a c && str_eqb b d
  | IGen i, IGen j => Nat.eqb i j
  | _, _ => false
  end.
Definition item_mem (x : item) (l : list item) : bool := existsb (item_eqb x) l.

(** short_output: each key present or absent *)
Record short := { so_freq : option mval; so_block : option (list item); so_conn : option (list item); so_gen : option (list item) }.
Definition short_empty : short := {| so_freq := None; so_block := None; so_conn := None; so_gen := None |}.
Definition short_nonempty (s : short) : bool :=
  match so_freq s, so_block s, so_conn s, so_gen s with None, None, None, None => false | _, _, _, _ => true end.

(** a rock type: [r_scaled] counts how often convert_mulkom_heat_conductivity rescaled it *)
Record rock := { r_name : str; r_scaled : nat; r_data : Z }.
Definition rescale_by (n : nat) (r : rock) : rock := {| r_name := r_name r; r_scaled := r_scaled r + n; r_data := r_data r |}.
(** a block: volume as an exact fraction num/den (den > 0) *)
Record blockrec := { b_name : str; b_rock : str; b_vol : Z * Z }.

Record data := {
  simulator : str;
  filename : str;
  sections : list str;
  other_present : list str;
  multi : pydict;
  lineq : pydict;
  solver : pydict;
  options : list Z;
  heap : list genrec;
  genlist : list nat;
  gendict : list ((str * str) * nat);
  short_output : short;
  hist_block : list item;
  hist_conn : list item;
  hist_gen : list item;
  rocks : list rock;
  grid_blocks : list blockrec;
  grid_conns : list (str * str) }.

Definition set_simulator (v : str) (d : data) : data :=
  {| simulator := v; filename := filename d; sections := sections d; other_present := other_present d; multi := multi d; lineq := lineq d; solver := solver d; options := options d; heap := heap d; genlist := genlist d; gendict := gendict d; short_output := short_output d; hist_block := hist_block d; hist_conn := hist_conn d; hist_gen := hist_gen d; rocks := rocks d; grid_blocks := grid_blocks d; grid_conns := grid_conns d |}.
Definition set_filename (v : str) (d : data) : data :=
  {| simulator := simulator d; filename := v; sections := sections d; other_present := other_present d; multi := multi d; lineq := lineq d; solver := solver d; options := options d; heap := heap d; genlist := genlist d; gendict := gendict d; short_output := short_output d; hist_block := hist_block d; hist_conn := hist_conn d; hist_gen := hist_gen d; rocks := rocks d; grid_blocks := grid_blocks d; grid_conns := grid_conns d |}.
Definition set_sections (v : list str) (d : data) : data :=
  {| simulator := simulator d; filename := filename d; sections := v; other_present := other_present d; multi := multi d; lineq := lineq d; solver := solver d; options := options d; heap := heap d; genlist := genlist d; gendict := gendict d; short_output := short_output d; hist_block := hist_block d; hist_conn := hist_conn d; hist_gen := hist_gen d; rocks := rocks d; grid_blocks := grid_blocks d; grid_conns := grid_conns d |}.
Definition set_other_present (v : list str) (d : data) : data :=
  {| simulator := simulator d; filename := filename d; sections := sections d; other_present := v; multi := multi d; lineq := lineq d; solver := solver d; options := options d; heap := heap d; genlist := genlist d; gendict := gendict d; short_output := short_output d; hist_block := hist_block d; hist_conn := hist_conn d; hist_gen := hist_gen d; rocks := rocks d; grid_blocks := grid_blocks d; grid_conns := grid_conns d |}.
Definition set_multi (v : pydict) (d : data) : data :=
  {| simulator := simulator d; filename := filename d; sections := sections d; other_present := other_present d; multi := v; lineq := lineq d; solver := solver d; options := options d; heap := heap d; genlist := genlist d; gendict := gendict d; short_output := short_output d; hist_block := hist_block d; hist_conn := hist_conn d; hist_gen := hist_gen d; rocks := rocks d; grid_blocks := grid_blocks d; grid_conns := grid_conns d |}.
Definition set_lineq (v : pydict) (d : data) : data :=
  {| simulator := simulator d; filename := filename d; sections := sections d; other_present := other_present d; multi := multi d; lineq := v; solver := solver d; options := options d; heap := heap d; genlist := genlist d; gendict := gendict d; short_output := short_output d; hist_block := hist_block d; hist_conn := hist_conn d; hist_gen := hist_gen d; rocks := rocks d; grid_blocks := grid_blocks d; grid_conns := grid_conns d |}.
Definition set_solver (v : pydict) (d : data) : data :=
  {| simulator := simulator d; filename := filename d; sections := sections d; other_present := other_present d; multi := multi d; lineq := lineq d; solver := v; options := options d; heap := heap d; genlist := genlist d; gendict := gendict d; short_output := short_output d; hist_block := hist_block d; hist_conn := hist_conn d; hist_gen := hist_gen d; rocks := rocks d; grid_blocks := grid_blocks d; grid_conns := grid_conns d |}.
Definition set_options (v : list Z) (d : data) : data :=
  {| simulator := simulator d; filename := filename d; sections := sections d; other_present := other_present d; multi := multi d; lineq := lineq d; solver := solver d; options := v; heap := heap d; genlist := genlist d; gendict := gendict d; short_output := short_output d; hist_block := hist_block d; hist_conn := hist_conn d; hist_gen := hist_gen d; rocks := rocks d; grid_blocks := grid_blocks d; grid_conns := grid_conns d |}.
Definition set_heap (v : list genrec) (d : data) : data :=
  {| simulator := simulator d; filename := filename d; sections := sections d; other_present := other_present d; multi := multi d; lineq := lineq d; solver := solver d; options := options d; heap := v; genlist := genlist d; gendict := gendict d; short_output := short_output d; hist_block := hist_block d; hist_conn := hist_conn d; hist_gen := hist_gen d; rocks := rocks d; grid_blocks := grid_blocks d; grid_conns := grid_conns d |}.
Definition set_genlist (v : list nat) (d : data) : data :=
  {| simulator := simulator d; filename := filename d; sections := sections d; other_present := other_present d; multi := multi d; lineq := lineq d; solver := solver d; options := options d; heap := heap d; genlist := v; gendict := gendict d; short_output := short_output d; hist_block := hist_block d; hist_conn := hist_conn d; hist_gen := hist_gen d; rocks := rocks d; grid_blocks := grid_blocks d; grid_conns := grid_conns d |}.
Definition set_gendict (v : list ((str * str) * nat)) (d : data) : data :=
  {| simulator := simulator d; filename := filename d; sections := sections d; other_present := other_present d; multi := multi d; lineq := lineq d; solver := solver d; options := options d; heap := heap d; genlist := genlist d; gendict := v; short_output := short_output d; hist_block := hist_block d; hist_conn := hist_conn d; hist_gen := hist_gen d; rocks := rocks d; grid_blocks := grid_blocks d; grid_conns := grid_conns d |}.
Definition set_short_output (v : short) (d : data) : data :=
  {| simulator := simulator d; filename := filename d; sections := sections d; other_present := other_present d; multi := multi d; lineq := lineq d; solver := solver d; options := options d; heap := heap d; genlist := genlist d; gendict := gendict d; short_output := v; hist_block := hist_block d; hist_conn := hist_conn d; hist_gen := hist_gen d; rocks := rocks d; grid_blocks := grid_blocks d; grid_conns := grid_conns d |}.
Definition set_hist_block (v : list item) (d : data) : data :=
  {| simulator := simulator d; filename := filename d; sections := sections d; other_present := other_present d; multi := multi d; lineq := lineq d; solver := solver d; options := options d; heap := heap d; genlist := genlist d; gendict := gendict d; short_output := short_output d; hist_block := v; hist_conn := hist_conn d; hist_gen := hist_gen d; rocks := rocks d; grid_blocks := grid_blocks d; grid_conns := grid_conns d |}.
Definition set_hist_conn (v : list item) (d : data) : data :=
  {| simulator := simulator d; filename := filename d; sections := sections d; other_present := other_present d; multi := multi d; lineq := lineq d; solver := solver d; options := options d; heap := heap d; genlist := genlist d; gendict := gendict d; short_output := short_output d; hist_block := hist_block d; hist_conn := v; hist_gen := hist_gen d; rocks := rocks d; grid_blocks := grid_blocks d; grid_conns := grid_conns d |}.
Definition set_hist_gen (v : list item) (d : data) : data :=
  {| simulator := simulator d; filename := filename d; sections := sections d; other_present := other_present d; multi := multi d; lineq := lineq d; solver := solver d; options := options d; heap := heap d; genlist := genlist d; gendict := gendict d; short_output := short_output d; hist_block := hist_block d; hist_conn := hist_conn d; hist_gen := v; rocks := rocks d; grid_blocks := grid_blocks d; grid_conns := grid_conns d |}.
Definition set_rocks (v : list rock) (d : data) : data :=
  {| simulator := simulator d; filename := filename d; sections := sections d; other_present := other_present d; multi := multi d; lineq := lineq d; solver := solver d; options := options d; heap := heap d; genlist := genlist d; gendict := gendict d; short_output := short_output d; hist_block := hist_block d; hist_conn := hist_conn d; hist_gen := hist_gen d; rocks := v; grid_blocks := grid_blocks d; grid_conns := grid_conns d |}.

Definition hget (id : nat) (h : list genrec) : genrec := nth id h gen0.
Fixpoint hset (id : nat) (g : genrec) (h : list genrec) : list genrec :=
  match h, id with
  | [], _ => []
  | _ :: r, O => g :: r
  | x :: r, S i => x :: hset i g r
  end.

(** * Type *)
Inductive flavour := AUTOUGH2 | TOUGH2.
Definition get_type (d : data) : flavour := if nonempty (simulator d) then AUTOUGH2 else TOUGH2.
Definition type_name (f : flavour) : str := match f with AUTOUGH2 => s2l type_autough2 | TOUGH2 => s2l type_tough2 end.

(** * Section list ([_sections]) *)
Definition all_sections : list str := map s2l t2data_sections.
Definition smem (s : str) (l : list str) : bool := existsb (str_eqb s) l.
Fixpoint index_of (s : str) (l : list str) : option nat :=
  match l with [] => None | x :: r => if str_eqb s x then Some O else option_map S (index_of s r) end.
Fixpoint remove_first (s : str) (l : list str) : list str :=
  match l with [] => [] | x :: r => if str_eqb s x then r else x :: remove_first s r end.
Fixpoint insert_at {A} (i : nat) (x : A) (l : list A) : list A :=
  match i, l with
  | O, _ => x :: l
  | S i', y :: r => y :: insert_at i' x r
  | S _, [] => [x]
  end.
Fixpoint first_some {A B} (f : A -> option B) (l : list A) : option B :=
  match l with [] => None | a :: r => match f a with Some b => Some b | None => first_some f r end end.

Definition delete_section (s : str) (d : data) : data := set_sections (remove_first s (sections d)) d.
(** section_insertion_index, generic in the reference order [A] (= t2data_sections) *)
Definition sec_insertion_index (A : list str) (s : str) (secs : list str) : nat :=
  match index_of s A with
  | None => length secs
  | Some O => O
  | Some li =>
      match first_some (fun k => option_map S (index_of k secs)) (rev (firstn li A)) with
      | Some i => i
      | None => match first_some (fun k => index_of k secs) (skipn li A) with
                | Some i => i
                | None => length secs
                end
      end
  end.
Definition section_insertion_index (s : str) (secs : list str) : nat := sec_insertion_index all_sections s secs.
Definition ins_sec (s : str) (secs : list str) : list str :=
  if smem s secs then secs else insert_at (section_insertion_index s secs) s secs.
Definition insert_section (s : str) (d : data) : data := set_sections (ins_sec s (sections d)) d.

(** get_present_sections: which keywords have data *)
Definition data_present (d : data) (k : str) : bool :=
  if str_eqb k (s2l "SIMUL") then nonempty (simulator d)
  else if str_eqb k (s2l "ROCKS") then nonempty (rocks d)
  else if str_eqb k (s2l "LINEQ") then dtruthy (lineq d)
  else if str_eqb k (s2l "SOLVR") then dtruthy (solver d)
  else if str_eqb k (s2l "MULTI") then dtruthy (multi d)
  else if str_eqb k (s2l "GENER") then nonempty (genlist d)
  else if str_eqb k (s2l "SHORT") then short_nonempty (short_output d)
  else if str_eqb k (s2l "FOFT") then nonempty (hist_block d)
  else if str_eqb k (s2l "COFT") then nonempty (hist_conn d)
  else if str_eqb k (s2l "GOFT") then nonempty (hist_gen d)
  else smem k (other_present d).
Definition present_sections (d : data) : list str := filter (data_present d) all_sections.
(** update_sections, as write() runs it *)
Definition missing_sections (d : data) : list str := filter (fun k => negb (smem k (sections d))) (present_sections d).
Definition with_missing (d : data) : data := fold_left (fun d k => insert_section k d) (missing_sections d) d.
Definition extra_sections (d d1 : data) : list str := filter (fun k => negb (smem k (present_sections d))) (sections d1).
Definition update_sections (d : data) : data :=
  fold_left (fun d k => delete_section k d) (extra_sections d (with_missing d)) (with_missing d).
Definition written_sections (d : data) : list str := sections (update_sections d).

(** * MOP rewriting programs *)
Record mctx := { c_mp : bool; c_solver : Z; c_sim : str }.
Definition opt_get (k : nat) (o : list Z) : Z := nth k o 0%Z.
Fixpoint opt_set (k : nat) (v : Z) (o : list Z) : list Z :=
  match o, k with
  | [], _ => []
  | _ :: r, O => v :: r
  | x :: r, S k' => x :: opt_set k' v r
  end.
Fixpoint eval_test (c : mctx) (get : nat -> Z) (t : otest) : bool :=
  match t with
  | TEq k v => Z.eqb (get k) v
  | TGt k v => Z.ltb v (get k)
  | TIn k vs => existsb (Z.eqb (get k)) vs
  | TSimPrefix p => prefix (s2l p) (c_sim c)
  | TMP => c_mp c
  | TNot a => negb (eval_test c get a)
  | TAnd a b => eval_test c get a && eval_test c get b
  | TOr a b => eval_test c get a || eval_test c get b
  end.
Definition eval_expr (c : mctx) (e : oexpr) : Z := match e with EConst z => z | ESolver => c_solver c end.
(** state: the option digits and how many times the rock conductivities were rescaled *)
Fixpoint run_stmt (c : mctx) (s : ostmt) (st : list Z * nat) : list Z * nat :=
  match s with
  | OSet k e => (opt_set k (eval_expr c e) (fst st), snd st)
  | ORescale => (fst st, S (snd st))
  | OIf t body =>
      if eval_test c (fun k => opt_get k (fst st)) t
      then (fix go (l : list ostmt) (st : list Z * nat) : list Z * nat :=
              match l with [] => st | s' :: r => go r (run_stmt c s' st) end) body st
      else st
  end.
Fixpoint run_prog (c : mctx) (p : list ostmt) (st : list Z * nat) : list Z * nat :=
  match p with [] => st | s :: r => run_prog c r (run_stmt c s st) end.

(** * convert_AUTOUGH2_parameters_to_TOUGH2 *)
Definition solver_type_t2 (d : data) : res Z :=
  if dtruthy (lineq d) then
    match dget (s2l t2_lineq_type_key) (lineq d) with
    | None => Raise KeyError
    | Some (MInt z) => Ok (if (z <=? t2_lineq_threshold)%Z then t2_solver_le else t2_solver_gt)
    | Some _ => Raise TypeError
    end
  else Ok t2_solver_nolineq.
Definition multi_to_tough2 (m : pydict) : pydict :=
  if dtruthy m then
    dset (s2l t2_multi_none_key) MNone (if dhas (s2l t2_multi_del_key) m then ddel (s2l t2_multi_del_key) m else m)
  else m.
Definition params_to_tough2 (mp : bool) (d : data) : res data :=
  let d1 := set_multi (multi_to_tough2 (multi d)) d in
  do st <- solver_type_t2 d1;
  let d2 := delete_section (s2l t2_lineq_section) (set_lineq [] d1) in
  let r := run_prog {| c_mp := mp; c_solver := st; c_sim := simulator d2 |} mop_prog_t2 (options d2, O) in
  Ok (set_rocks (map (rescale_by (snd r)) (rocks d2)) (set_options (fst r) d2)).

(** * convert_TOUGH2_parameters_to_AUTOUGH2 *)
Definition multi_to_autough2 (m : pydict) : pydict :=
  if dtruthy m then dset (s2l au_multi_none_key) MNone m else m.
Definition solver_type_au (mp : bool) (d : data) : res Z :=
  if mp then Ok au_mp_solver
  else match dget (s2l au_solver_type_key) (solver d) with
       | Some (MInt z) => Ok z
       | Some _ => Raise TypeError
       | None => Ok (opt_get au_solver_option (options d))
       end.
Definition lineq_type_of (st : Z) : Z :=
  if ((0 <=? st) && (st <? Z.of_nat (length au_lineq_table)))%Z then nth (Z.to_nat st) au_lineq_table au_lineq_default
  else au_lineq_default.
Definition params_to_autough2 (mp : bool) (d : data) : res data :=
  let d1 := set_multi (multi_to_autough2 (multi d)) d in
  do st <- solver_type_au mp d1;
  let d2 := set_lineq ((s2l au_lineq_type_key, MInt (lineq_type_of st)) :: map (fun k => (s2l k, MNone)) au_lineq_none_keys) d1 in
  let d3 := set_solver [] (insert_section (s2l au_lineq_section) d2) in
  let r := run_prog {| c_mp := mp; c_solver := st; c_sim := simulator d3 |} mop_prog_au (options d3, O) in
  Ok (set_rocks (map (rescale_by (snd r)) (rocks d3)) (set_options (fst r) d3)).

(** * convert_AUTOUGH2_generators_to_TOUGH2 *)
Fixpoint assoc_str {A} (k : str) (l : list (string * A)) : option A :=
  match l with [] => None | (k', v) :: r => if str_eqb k (s2l k') then Some v else assoc_str k r end.
Definition conv_lookup (t : str) : option str := option_map s2l (assoc_str t gen_convert).
Definition tough2_type (t : str) : bool :=
  existsb (fun a => str_eqb t (s2l a)) gen_allowed || prefix (s2l gen_allowed_prefix) t.
(** the loop over generatorlist: returns the heap (types converted), delgens, keepgens *)
Fixpoint gens_loop (ids : list nat) (h : list genrec) : list genrec * (list (str * str) * list nat) :=
  match ids with
  | [] => (h, ([], []))
  | id :: r =>
      let g := hget id h in
      match conv_lookup (g_type g) with
      | Some t' => let '(h', (del, keep)) := gens_loop r (hset id (set_gtype t' g) h) in (h', (del, id :: keep))
      | None =>
          if tough2_type (g_type g) then let '(h', (del, keep)) := gens_loop r h in (h', (del, id :: keep))
          else let '(h', (del, keep)) := gens_loop r h in (h', ((g_block g, g_name g) :: del, keep))
      end
  end.
Definition key_eqb (a b : str * str) : bool := str_eqb (fst a) (fst b) && str_eqb (snd a) (snd b).
Fixpoint kset (k : str * str) (v : nat) (d : list ((str * str) * nat)) : list ((str * str) * nat) :=
  match d with [] => [(k, v)] | (k', v') :: r => if key_eqb k k' then (k', v) :: r else (k', v') :: kset k v r end.
Definition dict_of_gens (h : list genrec) (ids : list nat) : list ((str * str) * nat) :=
  fold_left (fun acc id => kset (g_block (hget id h), g_name (hget id h)) id acc) ids [].
Definition nmem (n : nat) (l : list nat) : bool := existsb (Nat.eqb n) l.
Definition keep_item (keep : list nat) (it : item) : bool := match it with IGen id => nmem id keep | _ => false end.
Definition gens_to_tough2 (d : data) : data * list (str * str) :=
  let '(h', (del, keep)) := gens_loop (genlist d) (heap d) in
  let so := short_output d in
  let so' := {| so_freq := so_freq so; so_block := so_block so; so_conn := so_conn so;
                so_gen := option_map (filter (keep_item keep)) (so_gen so) |} in
  (set_short_output so' (set_gendict (dict_of_gens h' keep) (set_genlist keep (set_heap h' d))), del).

(** * SHORT <-> FOFT / COFT / GOFT *)
Definition grid_has_block (d : data) (n : str) : bool := existsb (fun b => str_eqb n (b_name b)) (grid_blocks d).

Definition grid_has_conn (d : data) (a b : str) : bool := existsb (fun c => str_eqb a (fst c) && str_eqb b (snd c)) (grid_conns d).
Definition has_block (gb : list blockrec) (n : str) : bool := existsb (fun b => str_eqb n (b_name b)) gb.
Definition block_item (gb : list blockrec) (n : str) : item := if has_block gb n then IBlock n else IName n.
(** the loop over short_output['generator']; it reads the grid's block dict and the generators' block names *)
Fixpoint short_gen_blocks (gb : list blockrec) (h : list genrec) (l : list item) (acc : list item) : res (list item) :=
  match l with
  | [] => Ok acc
  | IGen id :: r =>
      let blk := block_item gb (g_block (hget id h)) in
      short_gen_blocks gb h r (if item_mem blk acc then acc else acc ++ [blk])
  | IConn _ _ :: _ => Raise TypeError
  | _ :: _ => Raise AttributeError
  end.
Definition convert_short_to_history (d : data) : res data :=
  let so := short_output d in
  let d1 := match so_block so with Some l => set_hist_block l d | None => d end in
  let d2 := match so_conn so with Some l => set_hist_conn l d1 | None => d1 end in
  do d3 <- match so_gen so with
           | Some l => do blks <- short_gen_blocks (grid_blocks d2) (heap d2) l []; Ok (set_hist_gen blks d2)
           | None => Ok d2
           end;
  Ok (set_short_output short_empty d3).

Definition resolve_block (d : data) (it : item) : item :=
  match it with IName n => if grid_has_block d n then IBlock n else it | _ => it end.
Definition resolve_conn (d : data) (it : item) : item :=
  match it with ITuple a b => if grid_has_conn d a b then IConn a b else it | _ => it end.
Definition is_block (it : item) : bool := match it with IBlock _ => true | _ => false end.
Definition is_conn (it : item) : bool := match it with IConn _ _ => true | _ => false end.
Definition item_names (it : item) : list str := match it with IBlock n | IName n => [n] | _ => [] end.
Definition some_if_nonempty {A} (l : list A) : option (list A) := match l with [] => None | _ => Some l end.
Definition history_blocks_to_short (d : data) : option (list item) :=
  some_if_nonempty (filter is_block (map (resolve_block d) (hist_block d))).
Definition history_conns_to_short (d : data) : option (list item) :=
  some_if_nonempty (filter is_conn (map (resolve_conn d) (hist_conn d))).
Definition history_gens_to_short (d : data) : option (list item) :=
  let names := flat_map item_names (hist_gen d) in
  some_if_nonempty (map IGen (filter (fun id => smem (g_block (hget id (heap d))) names) (genlist d))).
Definition convert_history_to_short (d : data) : data :=
  let so := {| so_freq := None; so_block := history_blocks_to_short d; so_conn := history_conns_to_short d;
               so_gen := history_gens_to_short d |} in
  set_hist_gen [] (set_hist_conn [] (set_hist_block [] (set_short_output so d))).

(** * convert_to_TOUGH2 / convert_to_AUTOUGH2 / type setter *)
(** [self.simulator = ''; self.delete_section('SIMUL')]; the translator reports whether these two statements
    come before (the source as found) or after the call of convert_AUTOUGH2_parameters_to_TOUGH2, whose
    MOP(23) test reads the simulator string *)
Definition clear_simulator (d : data) : data := delete_section (s2l simul_section) (set_simulator [] d).
Definition convert_to_TOUGH2 (mp : bool) (d : data) : res data :=
  let d0 := if mp then set_filename (s2l mp_filename) d else d in
  do d3 <- (if t2_clears_simulator_first then params_to_tough2 mp (clear_simulator d0)
            else do p <- params_to_tough2 mp d0; Ok (clear_simulator p));
  convert_short_to_history (fst (gens_to_tough2 d3)).

Definition suffix (p s : str) : bool := prefix (rev p) (rev s).
Definition fix_filename (f : str) : str :=
  match f with
  | [] => []
  | c :: _ => if suffix (s2l dat_suffix) (lower f) then f
              else if is_upper c then f ++ s2l dat_upper else f ++ s2l dat_lower
  end.
Definition multi_set_eos (eos : str) (m : pydict) : pydict := if dtruthy m then dset (s2l multi_eos_key) (MStr eos) m else m.
Definition convert_to_AUTOUGH2 (mp : bool) (sim eos : str) (d : data) : res data :=
  let d0 := set_filename (fix_filename (filename d)) d in
  let d1 := insert_section (s2l simul_section) (set_simulator (ljust sim_width sim ++ eos) d0) in
  let d2 := set_multi (multi_set_eos eos (multi d1)) d1 in
  do d3 <- params_to_autough2 mp d2;
  Ok (convert_history_to_short d3).

Definition set_type (v : str) (d : data) : res data :=
  if str_eqb v (s2l type_autough2) || str_eqb v (s2l type_tough2) then
    let old := type_name (get_type d) in
    if str_eqb old v then Ok d
    else if str_eqb old (s2l type_autough2) then convert_to_TOUGH2 false d
    else if str_eqb old (s2l type_tough2) then convert_to_AUTOUGH2 false (s2l default_simulator) (s2l default_eos) d
    else Ok d
  else Raise PlainException.
