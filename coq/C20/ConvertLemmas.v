(** C20 -- what the flavour conversions of the model (Convert.v) keep and what they drop. *)
From Coq Require Import Ascii String List Bool Arith ZArith Lia.
From PTBase Require Import Exn PyStr.
From P Require Import Lang Convert SectionLemmas MopLemmas.
From Gen Require Import GenConvert.
Import ListNotations.

Lemma Ok_inj {A} (a b : A) : Ok a = Ok b -> a = b.
Proof. intro H. injection H. auto. Qed.

(** * dicts *)
Lemma dget_ddel k m : dget k (ddel k m) = None.
Proof. induction m as [|[k' v] r IH]; [reflexivity|]. cbn [ddel]. destruct (str_eqb k k') eqn:E; [exact IH|]. cbn [dget]. rewrite E. exact IH. Qed.
Lemma dget_ddel_other k k' m : str_eqb k k' = false -> dget k (ddel k' m) = dget k m.
Proof.
  intro N. induction m as [|[k2 v] r IH]; [reflexivity|]. cbn [ddel]. destruct (str_eqb k' k2) eqn:E.
  - apply str_eqb_eq in E. subst k2. cbn [dget]. rewrite N. exact IH.
  - cbn [dget]. rewrite IH. reflexivity.
Qed.
Lemma dget_dset k v m : dget k (dset k v m) = Some v.
Proof. induction m as [|[k' v'] r IH]; cbn [dset dget]; [rewrite str_eqb_refl; reflexivity|]. destruct (str_eqb k k') eqn:E; cbn [dget]; rewrite E; [reflexivity|exact IH]. Qed.
Lemma dget_dset_other k k' v m : str_eqb k k' = false -> dget k (dset k' v m) = dget k m.
Proof.
  intro N. induction m as [|[k2 v2] r IH]; cbn [dset dget]; [rewrite N; reflexivity|].
  destruct (str_eqb k' k2) eqn:E; cbn [dget].
  - apply str_eqb_eq in E. subst k2. rewrite N. reflexivity.
  - rewrite IH. reflexivity.
Qed.
Lemma dset_truthy k v m : dtruthy (dset k v m) = true.
Proof. destruct m as [|[k' v'] r]; cbn [dset]; [reflexivity|]. destruct (str_eqb k k'); reflexivity. Qed.

(** * the generator heap *)
Lemma hget_oob i h : length h <= i -> hget i h = gen0.
Proof. intro H. unfold hget. apply nth_overflow. exact H. Qed.
Lemma hset_length j g h : length (hset j g h) = length h.
Proof. revert h. induction j as [|j IH]; intros [|x r]; cbn [hset length]; try reflexivity. rewrite IH. reflexivity. Qed.
Lemma hget_hset_other i j g h : i <> j -> hget i (hset j g h) = hget i h.
Proof.
  unfold hget. revert i h. induction j as [|j IH]; intros i [|x r] N; cbn [hset]; try reflexivity.
  - destruct i; [congruence|reflexivity].
  - destruct i; [reflexivity|]. cbn [nth]. apply IH. congruence.
Qed.
Lemma hget_hset_same j g h : j < length h -> hget j (hset j g h) = g.
Proof.
  unfold hget. revert h. induction j as [|j IH]; intros [|x r] L; cbn [length] in L; try lia; cbn [hset nth]; [reflexivity|].
  apply IH. lia.
Qed.
Lemma hset_oob j g h : length h <= j -> hset j g h = h.
Proof.
  revert h. induction j as [|j IH]; intros [|x r] L; cbn [length] in L; try lia; cbn [hset]; try reflexivity.
  rewrite IH; [reflexivity|lia].
Qed.

(** * the generator type tables (regenerated; the facts are re-evaluated on every run) *)
Definition conv_type (t : str) : str := match conv_lookup t with Some t' => t' | None => t end.
(** TOUGH2 keeps a generator of type [t] (as it is, or converted) *)
Definition keepable (t : str) : bool := match conv_lookup t with Some _ => true | None => tough2_type t end.
Definition convg (g : genrec) : genrec := match conv_lookup (g_type g) with Some t' => set_gtype t' g | None => g end.
Definition gkey (g : genrec) : str * str := (g_block g, g_name g).

Lemma assoc_str_In {A} k (l : list (string * A)) v : assoc_str k l = Some v -> exists k', In (k', v) l.
Proof.
  induction l as [|[k' v'] r IH]; cbn [assoc_str]; [discriminate|]. destruct (str_eqb k (s2l k')).
  - intro H. inversion H. subst. exists k'. left. reflexivity.
  - intro H. destruct (IH H) as [k2 I]. exists k2. right. exact I.
Qed.
Definition conv_target_ok (p : string * string) : bool :=
  tough2_type (s2l (snd p)) && match conv_lookup (s2l (snd p)) with None => true | Some _ => false end.
Lemma conv_table_ok : forallb conv_target_ok gen_convert = true.
Proof. vm_compute. reflexivity. Qed.
Lemma conv_nil : conv_lookup [] = None.
Proof. vm_compute. reflexivity. Qed.
(** a converted type is a type TOUGH2 has, and is not converted again *)
Lemma conv_some t t' : conv_lookup t = Some t' -> tough2_type t' = true /\ conv_lookup t' = None.
Proof.
  unfold conv_lookup at 1. destruct (assoc_str t gen_convert) as [v|] eqn:A; [|discriminate]. cbn [option_map]. intro H. inversion H. subst t'.
  destruct (assoc_str_In _ _ _ A) as [k I]. pose proof (proj1 (forallb_forall _ _) conv_table_ok _ I) as F.
  unfold conv_target_ok in F. cbn [snd] in F. apply andb_true_iff in F as [F1 F2]. split; [exact F1|].
  destruct (conv_lookup (s2l v)); [discriminate|reflexivity].
Qed.
Lemma keepable_conv_type t : keepable t = true -> tough2_type (conv_type t) = true.
Proof. unfold keepable, conv_type. destruct (conv_lookup t) as [t'|] eqn:C; [intros _; apply (conv_some _ _ C)|auto]. Qed.
Lemma keepable_tough2 t : keepable t = tough2_type (conv_type t).
Proof. unfold keepable, conv_type. destruct (conv_lookup t) as [t'|] eqn:C; [symmetry; apply (conv_some _ _ C)|reflexivity]. Qed.
Lemma convg_type g : g_type (convg g) = conv_type (g_type g).
Proof. unfold convg, conv_type. destruct (conv_lookup (g_type g)); reflexivity. Qed.
Lemma convg_rest g : g_block (convg g) = g_block g /\ g_name (convg g) = g_name g /\ g_ltab (convg g) = g_ltab g /\ g_hg (convg g) = g_hg g /\ g_data (convg g) = g_data g.
Proof. unfold convg. destruct (conv_lookup (g_type g)); repeat split. Qed.
Lemma convg_idem g : convg (convg g) = convg g.
Proof.
  unfold convg at 2 3. destruct (conv_lookup (g_type g)) as [t'|] eqn:C.
  - unfold convg. cbn [g_type set_gtype]. rewrite (proj2 (conv_some _ _ C)). reflexivity.
  - unfold convg. rewrite C. reflexivity.
Qed.
Lemma convg_gen0 : convg gen0 = gen0.
Proof. unfold convg. cbn [g_type gen0]. rewrite conv_nil. reflexivity. Qed.

(** * the loop of convert_AUTOUGH2_generators_to_TOUGH2, in closed form *)
Lemma nmem_In n l : nmem n l = true <-> In n l.
Proof.
  unfold nmem. rewrite existsb_exists. split.
  - intros [x [I E]]. apply Nat.eqb_eq in E. subst. exact I.
  - intro I. exists n. split; [exact I|apply Nat.eqb_refl].
Qed.
Lemma hget_step i id t' h :
  conv_lookup (g_type (hget id h)) = Some t' ->
  hget i (hset id (set_gtype t' (hget id h)) h) = if Nat.eqb i id then convg (hget id h) else hget i h.
Proof.
  intro C. destruct (Nat.eqb i id) eqn:E.
  - apply Nat.eqb_eq in E. subst i. destruct (Nat.lt_ge_cases id (length h)) as [L|L].
    + rewrite hget_hset_same by exact L. unfold convg. rewrite C. reflexivity.
    + exfalso. rewrite (hget_oob _ _ L) in C. cbn [g_type gen0] in C. rewrite conv_nil in C. discriminate.
  - apply Nat.eqb_neq in E. apply hget_hset_other. exact E.
Qed.
Lemma gens_loop_spec ids : forall h,
  snd (snd (gens_loop ids h)) = filter (fun id => keepable (g_type (hget id h))) ids /\
  fst (snd (gens_loop ids h)) = map (fun id => gkey (hget id h)) (filter (fun id => negb (keepable (g_type (hget id h)))) ids) /\
  length (fst (gens_loop ids h)) = length h /\
  forall i, hget i (fst (gens_loop ids h)) = if nmem i ids then convg (hget i h) else hget i h.
Proof.
  induction ids as [|id r IH]; intro h.
  - cbn [gens_loop fst snd filter map nmem existsb]. repeat split.
  - cbn [gens_loop]. destruct (conv_lookup (g_type (hget id h))) as [t'|] eqn:C.
    + specialize (IH (hset id (set_gtype t' (hget id h)) h)).
      destruct (gens_loop r (hset id (set_gtype t' (hget id h)) h)) as [h' [del keep]]. cbn [fst snd] in *.
      destruct IH as (Hk & Hd & Hl & Hh).
      assert (K : forall i, keepable (g_type (hget i (hset id (set_gtype t' (hget id h)) h))) = keepable (g_type (hget i h))).
      { intro i. rewrite (hget_step _ _ _ _ C). destruct (Nat.eqb i id) eqn:E; [|reflexivity].
        apply Nat.eqb_eq in E. subst i. rewrite convg_type. rewrite keepable_tough2.
        unfold conv_type at 2. rewrite C. destruct (conv_some _ _ C) as [T N]. unfold conv_type. rewrite N.
        rewrite T. unfold keepable. rewrite C. reflexivity. }
      assert (G : forall i, gkey (hget i (hset id (set_gtype t' (hget id h)) h)) = gkey (hget i h)).
      { intro i. rewrite (hget_step _ _ _ _ C). destruct (Nat.eqb i id) eqn:E; [|reflexivity].
        apply Nat.eqb_eq in E. subst i. unfold gkey. destruct (convg_rest (hget id h)) as (B & N & _). rewrite B, N. reflexivity. }
      assert (KI : keepable (g_type (hget id h)) = true) by (unfold keepable; rewrite C; reflexivity).
      split; [|split; [|split]].
      * cbn [filter]. rewrite KI. f_equal. rewrite Hk. apply filter_ext. exact K.
      * cbn [filter]. rewrite KI. cbn [negb]. rewrite Hd.
        rewrite (filter_ext _ (fun id0 => negb (keepable (g_type (hget id0 h))))) by (intro a; rewrite K; reflexivity).
        apply map_ext. exact G.
      * rewrite Hl. apply hset_length.
      * intro i. rewrite Hh. rewrite (hget_step _ _ _ _ C). cbn [nmem existsb]. fold (nmem i r).
        destruct (Nat.eqb i id) eqn:E; cbn [orb]; [|reflexivity].
        apply Nat.eqb_eq in E. subst i. destruct (nmem id r); [apply convg_idem|reflexivity].
    + destruct (tough2_type (g_type (hget id h))) eqn:T.
      * specialize (IH h). destruct (gens_loop r h) as [h' [del keep]]. cbn [fst snd] in *. destruct IH as (Hk & Hd & Hl & Hh).
        assert (KI : keepable (g_type (hget id h)) = true) by (unfold keepable; rewrite C; exact T).
        split; [|split; [|split]].
        -- cbn [filter]. rewrite KI. f_equal. exact Hk.
        -- cbn [filter]. rewrite KI. cbn [negb]. exact Hd.
        -- exact Hl.
        -- intro i. rewrite Hh. cbn [nmem existsb]. fold (nmem i r). destruct (Nat.eqb i id) eqn:E; cbn [orb]; [|reflexivity].
           apply Nat.eqb_eq in E. subst i. unfold convg. rewrite C. destruct (nmem id r); reflexivity.
      * specialize (IH h). destruct (gens_loop r h) as [h' [del keep]]. cbn [fst snd] in *. destruct IH as (Hk & Hd & Hl & Hh).
        assert (KI : keepable (g_type (hget id h)) = false) by (unfold keepable; rewrite C; exact T).
        split; [|split; [|split]].
        -- cbn [filter]. rewrite KI. exact Hk.
        -- cbn [filter]. rewrite KI. cbn [negb map]. f_equal. exact Hd.
        -- exact Hl.
        -- intro i. rewrite Hh. cbn [nmem existsb]. fold (nmem i r). destruct (Nat.eqb i id) eqn:E; cbn [orb]; [|reflexivity].
           apply Nat.eqb_eq in E. subst i. unfold convg. rewrite C. destruct (nmem id r); reflexivity.
Qed.

(** the lookup rebuilt from the kept generators *)
Lemma key_eqb_eq a b : key_eqb a b = true <-> a = b.
Proof.
  destruct a as [a1 a2], b as [b1 b2]. unfold key_eqb. cbn [fst snd]. rewrite andb_true_iff, !str_eqb_eq. split.
  - intros [-> ->]. reflexivity.
  - intro H. inversion H. auto.
Qed.
Lemma In_kset k v d k0 v0 : In (k0, v0) (kset k v d) -> (k0 = k /\ v0 = v) \/ In (k0, v0) d.
Proof.
  induction d as [|[k' v'] r IH]; cbn [kset].
  - intros [H|[]]. inversion H. left. auto.
  - destruct (key_eqb k k') eqn:E.
    + apply key_eqb_eq in E. subst k'. intros [H|H]; [inversion H; left; auto|right; right; exact H].
    + intros [H|H]; [right; left; exact H|]. destruct (IH H) as [L|R]; [left; exact L|right; right; exact R].
Qed.
Lemma In_dict_fold h ids : forall acc k v,
  In (k, v) (fold_left (fun acc id => kset (g_block (hget id h), g_name (hget id h)) id acc) ids acc) ->
  (In v ids /\ k = gkey (hget v h)) \/ In (k, v) acc.
Proof.
  induction ids as [|id r IH]; intros acc k v H; cbn [fold_left] in H; [right; exact H|].
  destruct (IH _ _ _ H) as [[I K]|I]; [left; split; [right; exact I|exact K]|].
  destruct (In_kset _ _ _ _ _ I) as [[K V]|I']; [left; subst; split; [left; reflexivity|reflexivity]|right; exact I'].
Qed.
Lemma In_dict_of_gens h ids k v : In (k, v) (dict_of_gens h ids) -> In v ids /\ k = gkey (hget v h).
Proof. intro H. destruct (In_dict_fold h ids [] k v H) as [R|[]]. exact R. Qed.

(** * SHORT -> history: the blocks of the listed generators *)
Lemma item_eqb_eq x y : item_eqb x y = true <-> x = y.
Proof.
  destruct x, y; cbn [item_eqb]; try (split; [discriminate|intro H; inversion H]).
  - rewrite str_eqb_eq. split; [intros ->; reflexivity|intro H; inversion H; reflexivity].
  - rewrite str_eqb_eq. split; [intros ->; reflexivity|intro H; inversion H; reflexivity].
  - rewrite andb_true_iff, !str_eqb_eq. split; [intros [-> ->]; reflexivity|intro H; inversion H; auto].
  - rewrite andb_true_iff, !str_eqb_eq. split; [intros [-> ->]; reflexivity|intro H; inversion H; auto].
  - rewrite Nat.eqb_eq. split; [intros ->; reflexivity|intro H; inversion H; reflexivity].
Qed.
Lemma item_mem_In x l : item_mem x l = true <-> In x l.
Proof.
  unfold item_mem. rewrite existsb_exists. split.
  - intros [y [I E]]. apply item_eqb_eq in E. subst. exact I.
  - intro I. exists x. split; [exact I|apply item_eqb_eq; reflexivity].
Qed.
Definition gen_items_only (l : list item) : Prop := forall it, In it l -> exists id, it = IGen id.
Lemma short_gen_blocks_spec gb h l : forall acc r, short_gen_blocks gb h l acc = Ok r ->
  gen_items_only l /\
  forall it, In it r <-> In it acc \/ exists id, In (IGen id) l /\ it = block_item gb (g_block (hget id h)).
Proof.
  induction l as [|x l IH]; intros acc r H.
  - cbn [short_gen_blocks] in H. inversion H. subst. split; [intros it []|]. intro it. split; [auto|]. intros [I|[id [[] _]]]. exact I.
  - destruct x as [n|n|a b|a b|id]; cbn [short_gen_blocks] in H; try discriminate.
    destruct (IH _ _ H) as [G S]. split.
    + intros it [E|I]; [exists id; symmetry; exact E|apply G; exact I].
    + intro it. rewrite S. set (blk := block_item gb (g_block (hget id h))). split.
      * intros [I|[id' [I E]]]; [|right; exists id'; split; [right; exact I|exact E]].
        destruct (item_mem blk acc) eqn:M; [left; exact I|]. apply in_app_or in I as [I|[I|[]]]; [left; exact I|].
        right. exists id. split; [left; reflexivity|symmetry; exact I].
      * intros [I|[id' [[E|I] E']]].
        -- left. destruct (item_mem blk acc); [exact I|apply in_or_app; left; exact I].
        -- inversion E. subst id'. left. subst it. fold blk. destruct (item_mem blk acc) eqn:M; [apply item_mem_In; exact M|apply in_or_app; right; left; reflexivity].
        -- right. exists id'. split; assumption.
Qed.
Lemma short_gen_blocks_total gb h l : gen_items_only l -> forall acc, exists r, short_gen_blocks gb h l acc = Ok r.
Proof.
  induction l as [|x l IH]; intros G acc; [exists acc; reflexivity|].
  destruct (G x (or_introl eq_refl)) as [id E]. subst x. cbn [short_gen_blocks]. apply IH. intros it I. apply G. right. exact I.
Qed.

(** * convert_to_TOUGH2 in closed form *)
Definition t2_hist_gen (d : data) (h' : list genrec) (keep : list nat) : res (option (list item)) :=
  match so_gen (short_output d) with
  | Some l => do b <- short_gen_blocks (grid_blocks d) h' (filter (keep_item keep) l) []; Ok (Some b)
  | None => Ok None
  end.
Definition from_opt {A} (o : option A) (dflt : A) : A := match o with Some a => a | None => dflt end.
(** the simulator string the MOP tests see, and the section list left, according to where the source clears the simulator *)
Definition t2_sim (d : data) : str := if t2_clears_simulator_first then [] else simulator d.
Definition t2_sections (secs : list str) : list str :=
  if t2_clears_simulator_first then remove_first (s2l t2_lineq_section) (remove_first (s2l simul_section) secs)
  else remove_first (s2l simul_section) (remove_first (s2l t2_lineq_section) secs).
Definition t2_ctx (mp : bool) (st : Z) (sim : str) : mctx := {| c_mp := mp; c_solver := st; c_sim := sim |}.
Lemma to_tough2_unfold mp d :
  convert_to_TOUGH2 mp d =
  (do st <- solver_type_t2 d;
   let r := run_prog (t2_ctx mp st (t2_sim d)) mop_prog_t2 (options d, 0) in
   let gl := gens_loop (genlist d) (heap d) in
   do hg <- t2_hist_gen d (fst gl) (snd (snd gl));
   Ok {| simulator := []; filename := if mp then s2l mp_filename else filename d;
         sections := t2_sections (sections d);
         other_present := other_present d; multi := multi_to_tough2 (multi d); lineq := []; solver := solver d;
         options := fst r; heap := fst gl; genlist := snd (snd gl); gendict := dict_of_gens (fst gl) (snd (snd gl));
         short_output := short_empty;
         hist_block := from_opt (so_block (short_output d)) (hist_block d);
         hist_conn := from_opt (so_conn (short_output d)) (hist_conn d);
         hist_gen := from_opt hg (hist_gen d);
         rocks := map (rescale_by (snd r)) (rocks d); grid_blocks := grid_blocks d; grid_conns := grid_conns d |}).
Proof.
  destruct d as [sim fn secs oth mu lq sv opts hp gl gd so hb hc hgn rk gb gc].
  unfold convert_to_TOUGH2, clear_simulator, params_to_tough2, t2_hist_gen, t2_ctx, t2_sim, t2_sections.
  destruct t2_clears_simulator_first; destruct mp; fld; cbn [bind].
  all: unfold solver_type_t2; fld.
  all: destruct (dtruthy lq); [destruct (dget (s2l t2_lineq_type_key) lq) as [[|z|s|]|]|]; cbn [bind]; try reflexivity.
  all: unfold gens_to_tough2, convert_short_to_history; fld.
  all: destruct (gens_loop gl hp) as [h' [del keep]]; cbn [fst snd]; fld; cbn [so_freq so_block so_conn so_gen].
  all: destruct so as [sf sb sc sg]; cbn [so_freq so_block so_conn so_gen option_map].
  all: destruct sb, sc, sg; fld; cbn [option_map bind from_opt so_gen].
  all: try (destruct (short_gen_blocks gb h' (filter (keep_item keep) l1) []); cbn [bind from_opt]; fld; reflexivity).
  all: try (destruct (short_gen_blocks gb h' (filter (keep_item keep) l0) []); cbn [bind from_opt]; fld; reflexivity).
  all: try (destruct (short_gen_blocks gb h' (filter (keep_item keep) l) []); cbn [bind from_opt]; fld; reflexivity).
  all: reflexivity.
Qed.
