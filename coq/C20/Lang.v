(** C20 -- the small program language the MOP-rewriting part of
    convert_AUTOUGH2_parameters_to_TOUGH2 / convert_TOUGH2_parameters_to_AUTOUGH2 is
    translated into on every run (tools/props/c20_tables.py -> Gen/GenConvert.v). *)
From Coq Require Import Ascii String List Bool ZArith.
Import ListNotations.

Inductive oexpr := EConst (z : Z) | ESolver.
Inductive otest :=
  | TEq (k : nat) (v : Z)           (* self.parameter['option'][k] == v *)
  | TGt (k : nat) (v : Z)           (* ... > v *)
  | TIn (k : nat) (vs : list Z)     (* ... in [..] *)
  | TSimPrefix (p : string)         (* self.simulator.startswith(p) *)
  | TMP                             (* the MP argument *)
  | TNot (t : otest) | TAnd (a b : otest) | TOr (a b : otest).
Inductive ostmt :=
  | OSet (k : nat) (e : oexpr)      (* self.parameter['option'][k] = e *)
  | ORescale                        (* self.convert_mulkom_heat_conductivity() *)
  | OIf (t : otest) (body : list ostmt).
