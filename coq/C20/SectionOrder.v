(** C20 -- where insert_section puts a keyword, and what that means for the order of the sections write()
    emits: for every reference rank n, if the keywords of rank <= n are in reference order in the section
    list, they still are after any insert_section / delete_section / update_sections -- whatever the order of
    the other keywords.  (With n = rank of SHORT: FOFT/COFT/GOFT may sit anywhere, e.g. before ELEME, and the
    SHORT section written after a conversion still follows ELEME, CONNE and GENER.) *)
From Coq Require Import Ascii String List Bool Arith Lia.
From PTBase Require Import Exn PyStr.
From P Require Import Lang Convert SectionLemmas.
From Gen Require Import GenConvert.
Import ListNotations.

(** * list.index *)
Lemma index_of_Some s l i : index_of s l = Some i -> nth_error l i = Some s /\ forall j, j < i -> nth_error l j <> Some s.
Proof.
  revert i. induction l as [|x r IH]; intros i H; cbn [index_of] in H; [discriminate|].
  destruct (str_eqb s x) eqn:E.
  - inversion H. subst i. apply str_eqb_eq in E. subst x. split; [reflexivity|intros j L; lia].
  - destruct (index_of s r) as [i'|]; [|discriminate]. cbn [option_map] in H. inversion H. subst i.
    destruct (IH i' eq_refl) as [N F]. split; [exact N|]. intros [|j] L; cbn [nth_error].
    + intro Q. inversion Q. subst x. rewrite str_eqb_refl in E. discriminate.
    + apply F. lia.
Qed.
Lemma index_of_None s l : index_of s l = None <-> ~ In s l.
Proof.
  induction l as [|x r IH]; cbn [index_of]; [split; [intros _ []|reflexivity]|].
  destruct (str_eqb s x) eqn:E.
  - apply str_eqb_eq in E. subst x. split; [discriminate|]. intro N. exfalso. apply N. left. reflexivity.
  - apply str_eqb_false_neq in E. destruct (index_of s r) as [m|]; cbn [option_map].
    + split; [discriminate|]. intro N. exfalso. assert (H : ~ In s r) by (intro I; apply N; right; exact I).
      apply IH in H. discriminate.
    + split; [|reflexivity]. intros _ [I|I]; [congruence|]. apply (proj1 IH eq_refl). exact I.
Qed.
Lemma index_of_In s l : In s l -> exists i, index_of s l = Some i.
Proof. intro I. destruct (index_of s l) as [i|] eqn:E; [exists i; reflexivity|]. apply index_of_None in E. contradiction. Qed.
Lemma index_of_split s l i : index_of s l = Some i -> l = firstn i l ++ s :: skipn (S i) l.
Proof.
  revert i. induction l as [|x r IH]; intros i H; cbn [index_of] in H; [discriminate|].
  destruct (str_eqb s x) eqn:E.
  - inversion H. apply str_eqb_eq in E. subst. reflexivity.
  - destruct (index_of s r) as [i'|]; [|discriminate]. cbn [option_map] in H. inversion H. subst i.
    cbn [firstn skipn app]. f_equal. apply IH. reflexivity.
Qed.

(** * before *)
Fixpoint before (a b : str) (l : list str) : Prop :=
  match l with [] => False | x :: r => (x = a /\ In b r) \/ before a b r end.
Lemma before_In a b l : before a b l -> In a l /\ In b l.
Proof.
  induction l as [|x r IH]; cbn [before]; [intros []|]. intros [[E I]|H]; [subst; split; [left; reflexivity|right; exact I]|].
  destruct (IH H). split; right; assumption.
Qed.
Lemma before_app a b p q : before a b (p ++ q) <-> before a b p \/ (In a p /\ In b q) \/ before a b q.
Proof.
  induction p as [|x r IH]; cbn [app before In].
  - split; [auto|]. intros [[]|[[[] _]|H]]. exact H.
  - rewrite IH. split.
    + intros [[E I]|[H|[[Ia Ib]|H]]].
      * apply in_app_or in I as [I|I]; [left; left; auto|right; left; auto].
      * left. right. exact H.
      * right. left. auto.
      * right. right. exact H.
    + intros [[[E I]|H]|[[[E|Ia] Ib]|H]].
      * left. split; [exact E|apply in_or_app; left; exact I].
      * right. left. exact H.
      * left. split; [exact E|apply in_or_app; right; exact Ib].
      * right. right. left. auto.
      * right. right. right. exact H.
Qed.
Lemma before_cons a b x q : before a b (x :: q) <-> (x = a /\ In b q) \/ before a b q.
Proof. reflexivity. Qed.
Lemma before_remove_first a b s l : before a b (remove_first s l) -> before a b l.
Proof.
  induction l as [|x r IH]; cbn [remove_first]; [auto|]. destruct (str_eqb s x).
  - intro H. right. exact H.
  - cbn [before]. intros [[E I]|H]; [left; split; [exact E|eapply In_remove_first; exact I]|right; exact (IH H)].
Qed.
Lemma before_total a b l : In a l -> In b l -> a <> b -> before a b l \/ before b a l.
Proof.
  induction l as [|x r IH]; [intros []|]. intros [Ea|Ia] [Eb|Ib] N; cbn [before].
  - congruence.
  - left. left. auto.
  - right. left. auto.
  - destruct (IH Ia Ib N); [left|right]; right; assumption.
Qed.
Lemma insert_at_split {A} i (x : A) l : insert_at i x l = firstn i l ++ x :: skipn i l.
Proof. revert l. induction i as [|i IH]; intros [|y r]; cbn [insert_at firstn skipn app]; try reflexivity. rewrite IH. reflexivity. Qed.
Lemma before_insert_at a b i x l : before a b (insert_at i x l) ->
  before a b l \/ (a = x /\ In b (skipn i l)) \/ (b = x /\ In a (firstn i l)).
Proof.
  intro H. rewrite insert_at_split in H. apply before_app in H. destruct H as [H|[[Ia Ib]|H]].
  - left. rewrite <- (firstn_skipn i l). apply before_app. left. exact H.
  - destruct Ib as [E|Ib].
    + right. right. split; [symmetry; exact E|exact Ia].
    + left. rewrite <- (firstn_skipn i l). apply before_app. right. left. split; assumption.
  - apply before_cons in H. destruct H as [[E Ib]|H].
    + right. left. split; [symmetry; exact E|exact Ib].
    + left. rewrite <- (firstn_skipn i l). apply before_app. right. right. exact H.
Qed.
Lemma before_of_index k l p : index_of k l = Some p ->
  (forall a, In a (firstn p l) -> before a k l) /\ (forall b, In b (skipn (S p) l) -> before k b l).
Proof.
  intro H. pose proof (index_of_split _ _ _ H) as Sp. split.
  - intros a I. rewrite Sp. apply before_app. right. left. split; [exact I|left; reflexivity].
  - intros b I. rewrite Sp. apply before_app. right. right. left. auto.
Qed.
Lemma firstn_S_index k l p : index_of k l = Some p -> forall a, In a (firstn (S p) l) -> a = k \/ In a (firstn p l).
Proof.
  intro H. pose proof (index_of_split _ _ _ H) as Sp. intros a I. rewrite Sp in I.
  assert (L : length (firstn p l) = p).
  { apply firstn_length_le. destruct (index_of_Some _ _ _ H) as [N _]. apply Nat.lt_le_incl. apply nth_error_Some. rewrite N. discriminate. }
  replace (S p) with (length (firstn p l) + 1) in I by lia. rewrite firstn_app_2 in I. cbn [firstn] in I.
  apply in_app_or in I as [I|[I|[]]]; auto.
Qed.

(** * first_some *)
Lemma first_some_spec {B} (f : str -> option B) L :
  match first_some f L with
  | Some v => exists i k, nth_error L i = Some k /\ f k = Some v /\ forall j k', j < i -> nth_error L j = Some k' -> f k' = None
  | None => forall j k', nth_error L j = Some k' -> f k' = None
  end.
Proof.
  induction L as [|x r IH]; cbn [first_some]; [intros [|j] k' H; discriminate|].
  destruct (f x) as [v|] eqn:E.
  - exists 0, x. split; [reflexivity|split; [exact E|intros j k' L; lia]].
  - destruct (first_some f r) as [v|].
    + destruct IH as [i [k [N [F M]]]]. exists (S i), k. split; [exact N|split; [exact F|]].
      intros [|j] k' L H; cbn [nth_error] in H; [inversion H; subst; exact E|]. apply (M j); [lia|exact H].
    + intros [|j] k' H; cbn [nth_error] in H; [inversion H; subst; exact E|]. apply (IH j). exact H.
Qed.

Section Order.
  Variable A : list str.
  Hypothesis ND : NoDup A.
  Definition rank (s : str) : option nat := index_of s A.
  Definition below (n : nat) (s : str) : bool := match rank s with Some i => Nat.leb i n | None => false end.
  (** the keywords of rank <= n occur in reference order (in particular at most once) *)
  Definition prefix_sorted (n : nat) (l : list str) : Prop :=
    forall a b, before a b l -> below n a = true -> below n b = true ->
      exists i j, rank a = Some i /\ rank b = Some j /\ i < j.

  Lemma rank_nth s i : rank s = Some i <-> nth_error A i = Some s.
  Proof.
    split; [intro H; apply (index_of_Some _ _ _ H)|]. intro N. unfold rank.
    assert (I : In s A) by (eapply nth_error_In; exact N). destruct (index_of_In _ _ I) as [j H]. rewrite H. f_equal.
    destruct (index_of_Some _ _ _ H) as [N' _]. eapply NoDup_nth_error; [exact ND| |congruence].
    apply nth_error_Some. rewrite N'. discriminate.
  Qed.
  Lemma rank_inj a b i : rank a = Some i -> rank b = Some i -> a = b.
  Proof. intros Ha Hb. apply rank_nth in Ha. apply rank_nth in Hb. congruence. Qed.
  Lemma below_rank n s : below n s = true -> exists i, rank s = Some i /\ i <= n.
  Proof. unfold below. destruct (rank s) as [i|]; [|discriminate]. intro H. apply Nat.leb_le in H. exists i. auto. Qed.

  (** the search for the last reference predecessor present in [secs] *)
  Lemma firstn_S_nth {B} n (l : list B) : firstn (S n) l = firstn n l ++ match nth_error l n with Some x => [x] | None => [] end.
  Proof.
    revert l. induction n as [|n IH]; intros [|y r]; try reflexivity.
    change (y :: firstn (S n) r = (y :: firstn n r) ++ match nth_error r n with Some x => [x] | None => [] end).
    rewrite IH. reflexivity.
  Qed.
  Lemma pred_search_spec {B} (g : str -> option B) li :
    match first_some g (rev (firstn li A)) with
    | Some v => exists i k, i < li /\ nth_error A i = Some k /\ g k = Some v /\
                            forall j k', i < j < li -> nth_error A j = Some k' -> g k' = None
    | None => forall j k', j < li -> nth_error A j = Some k' -> g k' = None
    end.
  Proof.
    induction li as [|li IH]; [cbn; intros; lia|]. rewrite firstn_S_nth. rewrite rev_app_distr.
    destruct (nth_error A li) as [x|] eqn:N; cbn [rev app first_some].
    - destruct (g x) as [v|] eqn:E.
      + exists li, x. split; [lia|split; [exact N|split; [exact E|intros; lia]]].
      + destruct (first_some g (rev (firstn li A))) as [v|].
        * destruct IH as [i [k [L [Nk [F M]]]]]. exists i, k. split; [lia|split; [exact Nk|split; [exact F|]]].
          intros j k' Lj H. destruct (Nat.eq_dec j li) as [->|Q]; [rewrite N in H; inversion H; subst; exact E|]. apply (M j); [lia|exact H].
        * intros j k' Lj H. destruct (Nat.eq_dec j li) as [->|Q]; [rewrite N in H; inversion H; subst; exact E|]. apply (IH j); [lia|exact H].
    - destruct (first_some g (rev (firstn li A))) as [v|].
      + destruct IH as [i [k [L [Nk [F M]]]]]. exists i, k. split; [lia|split; [exact Nk|split; [exact F|]]].
        intros j k' Lj H. destruct (Nat.eq_dec j li) as [->|Q]; [rewrite N in H; discriminate|]. apply (M j); [lia|exact H].
      + intros j k' Lj H. destruct (Nat.eq_dec j li) as [->|Q]; [rewrite N in H; discriminate|]. apply (IH j); [lia|exact H].
  Qed.
  Lemma nth_error_skipn' {B} n (l : list B) j : nth_error (skipn n l) j = nth_error l (n + j).
  Proof. revert l. induction n as [|n IH]; intros [|y r]; cbn [skipn nth_error plus]; try reflexivity; [destruct j; reflexivity|apply IH]. Qed.
  Lemma succ_search_spec {B} (h : str -> option B) li :
    match first_some h (skipn li A) with
    | Some v => exists i k, li <= i /\ nth_error A i = Some k /\ h k = Some v /\
                            forall j k', li <= j < i -> nth_error A j = Some k' -> h k' = None
    | None => forall j k', li <= j -> nth_error A j = Some k' -> h k' = None
    end.
  Proof.
    pose proof (first_some_spec h (skipn li A)) as Sp. destruct (first_some h (skipn li A)) as [v|].
    - destruct Sp as [i [k [N [F M]]]]. rewrite nth_error_skipn' in N. exists (li + i), k. split; [lia|split; [exact N|split; [exact F|]]].
      intros j k' L H. apply (M (j - li)); [lia|]. rewrite nth_error_skipn'. replace (li + (j - li)) with j by lia. exact H.
    - intros j k' L H. apply (Sp (j - li)). rewrite nth_error_skipn'. replace (li + (j - li)) with j by lia. exact H.
  Qed.

  Lemma omS_None (o : option nat) : option_map S o = None -> o = None.
  Proof. destruct o; [discriminate|reflexivity]. Qed.

  Lemma In_skipn' {B} i (l : list B) x : In x (skipn i l) -> In x l.
  Proof. intro H. rewrite <- (firstn_skipn i l). apply in_or_app. right. exact H. Qed.
  Lemma In_firstn' {B} i (l : list B) x : In x (firstn i l) -> In x l.
  Proof. intro H. rewrite <- (firstn_skipn i l). apply in_or_app. left. exact H. Qed.

  (** inserting a keyword that is not there keeps the keywords of rank <= n in reference order *)
  Lemma insert_keeps_order n s secs : ~ In s secs -> prefix_sorted n secs ->
    prefix_sorted n (insert_at (sec_insertion_index A s secs) s secs).
  Proof.
    intros NI PS a b Hb Ba Bb. apply before_insert_at in Hb. destruct Hb as [Hb|Hb]; [apply PS; assumption|].
    destruct (below_rank _ _ Ba) as [ia [Ra La]]. destruct (below_rank _ _ Bb) as [ib [Rb Lb]].
    exists ia, ib. split; [exact Ra|split; [exact Rb|]].
    destruct Hb as [[E Ib]|[E Iap]].
    - (* a = s, b after the insertion point *)
      subst a. pose proof (In_skipn' _ _ _ Ib) as Isb.
      assert (Nab : ia <> ib) by (intro Q; subst ib; apply NI; rewrite (rank_inj _ _ _ Ra Rb); exact Isb).
      unfold sec_insertion_index in Ib. fold (rank s) in Ib. rewrite Ra in Ib.
      destruct ia as [|li]; [lia|].
      pose proof (pred_search_spec (fun k => option_map S (index_of k secs)) (S li)) as PSp.
      revert PSp Ib. destruct (first_some (fun k => option_map S (index_of k secs)) (rev (firstn (S li) A))) as [v|]; intros PSp Ib.
      + destruct PSp as [i [k [Li [Nk [F M]]]]]. destruct (index_of k secs) as [p|] eqn:Ek; [|discriminate]. cbn [option_map] in F. inversion F. subst v.
        destruct (before_of_index _ _ _ Ek) as [_ Aft]. specialize (Aft b Ib).
        assert (Rk : rank k = Some i) by (apply rank_nth; exact Nk).
        assert (Bk : below n k = true) by (unfold below; rewrite Rk; apply Nat.leb_le; lia).
        destruct (PS _ _ Aft Bk Bb) as [i' [j' [Rk' [Rb' Lt]]]]. rewrite Rk in Rk'. rewrite Rb in Rb'. inversion Rk'. inversion Rb'. subst i' j'.
        destruct (Nat.lt_ge_cases (S li) ib) as [G|G]; [exact G|]. exfalso.
        assert (Hn : option_map S (index_of b secs) = None) by (apply (M ib); [lia|apply rank_nth; exact Rb]).
        apply omS_None in Hn. apply index_of_None in Hn. contradiction.
      + destruct (Nat.lt_ge_cases (S li) ib) as [G|G]; [exact G|]. exfalso.
        assert (Hn : option_map S (index_of b secs) = None) by (apply (PSp ib); [lia|apply rank_nth; exact Rb]).
        apply omS_None in Hn. apply index_of_None in Hn. contradiction.
    - (* b = s, a before the insertion point *)
      subst b. pose proof (In_firstn' _ _ _ Iap) as Isa.
      assert (Nab : ia <> ib) by (intro Q; subst ib; apply NI; rewrite <- (rank_inj _ _ _ Ra Rb); exact Isa).
      unfold sec_insertion_index in Iap. fold (rank s) in Iap. rewrite Rb in Iap.
      destruct ib as [|li]; [destruct Iap|].
      pose proof (pred_search_spec (fun k => option_map S (index_of k secs)) (S li)) as PSp.
      revert PSp Iap. destruct (first_some (fun k => option_map S (index_of k secs)) (rev (firstn (S li) A))) as [v|]; intros PSp Iap.
      + destruct PSp as [i [k [Li [Nk [F M]]]]]. destruct (index_of k secs) as [p|] eqn:Ek; [|discriminate]. cbn [option_map] in F. inversion F. subst v.
        assert (Rk : rank k = Some i) by (apply rank_nth; exact Nk).
        destruct (firstn_S_index _ _ _ Ek a Iap) as [Q|Q].
        * subst a. rewrite Rk in Ra. inversion Ra. lia.
        * destruct (before_of_index _ _ _ Ek) as [Bef _]. specialize (Bef a Q).
          assert (Bk : below n k = true) by (unfold below; rewrite Rk; apply Nat.leb_le; lia).
          destruct (PS _ _ Bef Ba Bk) as [i' [j' [Ra' [Rk' Lt]]]]. rewrite Rk in Rk'. rewrite Ra in Ra'. inversion Rk'. inversion Ra'. lia.
      + (* no predecessor present: [a] cannot be before the insertion point *)
        destruct (Nat.lt_ge_cases ia (S li)) as [G|G]; [exact G|]. exfalso.
        pose proof (succ_search_spec (fun k => index_of k secs) (S li)) as SSp.
        revert SSp Iap. destruct (first_some (fun k => index_of k secs) (skipn (S li) A)) as [v|]; intros SSp Iap.
        * destruct SSp as [i [q [Li [Nq [F M]]]]].
          assert (Rq : rank q = Some i) by (apply rank_nth; exact Nq).
          destruct (before_of_index _ _ _ F) as [Bef _]. specialize (Bef a Iap).
          destruct (Nat.lt_ge_cases ia i) as [G2|G2].
          -- assert (Hn : index_of a secs = None) by (apply (M ia); [lia|apply rank_nth; exact Ra]). apply index_of_None in Hn. contradiction.
          -- assert (Bq : below n q = true) by (unfold below; rewrite Rq; apply Nat.leb_le; lia).
             destruct (PS _ _ Bef Ba Bq) as [i' [j' [Ra' [Rq' Lt]]]]. rewrite Rq in Rq'. rewrite Ra in Ra'. inversion Rq'. inversion Ra'. lia.
        * assert (Hn : index_of a secs = None) by (apply (SSp ia); [lia|apply rank_nth; exact Ra]). apply index_of_None in Hn. contradiction.
  Qed.
End Order.

(** * instantiated to t2data_sections *)
Fixpoint nodupb (l : list str) : bool := match l with [] => true | x :: r => negb (smem x r) && nodupb r end.
Lemma nodupb_NoDup l : nodupb l = true -> NoDup l.
Proof.
  induction l as [|x r IH]; cbn [nodupb]; [constructor|]. intro H. apply andb_true_iff in H as [H1 H2].
  constructor; [|apply IH; exact H2]. apply smem_false. destruct (smem x r); [discriminate|reflexivity].
Qed.
Lemma all_sections_NoDup : NoDup all_sections.
Proof. apply nodupb_NoDup. vm_compute. reflexivity. Qed.
Definition srank (s : str) : option nat := rank all_sections s.
Definition sorted_upto (n : nat) (l : list str) : Prop := prefix_sorted all_sections n l.

Lemma ins_sec_keeps_order n s secs : sorted_upto n secs -> sorted_upto n (ins_sec s secs).
Proof.
  intro PS. unfold ins_sec. destruct (smem s secs) eqn:E; [exact PS|].
  apply (insert_keeps_order all_sections all_sections_NoDup); [apply smem_false; exact E|exact PS].
Qed.
Lemma remove_keeps_order n s secs : sorted_upto n secs -> sorted_upto n (remove_first s secs).
Proof. intros PS a b H. apply PS. eapply before_remove_first. exact H. Qed.
Lemma fold_insert_keeps_order n ks : forall d, sorted_upto n (sections d) ->
  sorted_upto n (sections (fold_left (fun d k => insert_section k d) ks d)).
Proof.
  induction ks as [|k ks IH]; intros d PS; [exact PS|]. cbn [fold_left]. apply IH. unfold insert_section. fld.
  apply ins_sec_keeps_order. exact PS.
Qed.
Lemma fold_rm_keeps_order n ks : forall l, sorted_upto n l -> sorted_upto n (fold_left rm ks l).
Proof. induction ks as [|k ks IH]; intros l PS; [exact PS|]. cbn [fold_left]. apply IH. apply remove_keeps_order. exact PS. Qed.
(** update_sections (as write() runs it) keeps the order *)
Theorem update_sections_keeps_order_lemma n d : sorted_upto n (sections d) -> sorted_upto n (written_sections d).
Proof.
  intro PS. unfold written_sections, update_sections. rewrite fold_delete_sections. apply fold_rm_keeps_order.
  unfold with_missing. apply fold_insert_keeps_order. exact PS.
Qed.

(** in a list sorted up to n, two keywords of rank <= n that are both there are in reference order *)
Lemma sorted_before n l a b i j : sorted_upto n l -> In a l -> In b l -> srank a = Some i -> srank b = Some j ->
  i < j -> j <= n -> before a b l.
Proof.
  intros PS Ia Ib Ra Rb L Ln.
  assert (N : a <> b) by (intro Q; subst b; unfold srank in *; rewrite Ra in Rb; inversion Rb; lia).
  destruct (before_total a b l Ia Ib N) as [H|H]; [exact H|]. exfalso.
  assert (Ba : below all_sections n a = true) by (unfold below; fold (srank a); rewrite Ra; apply Nat.leb_le; lia).
  assert (Bb : below all_sections n b = true) by (unfold below; fold (srank b); rewrite Rb; apply Nat.leb_le; lia).
  destruct (PS _ _ H Bb Ba) as [i' [j' [Rb' [Ra' Lt]]]]. unfold srank in *. rewrite Ra in Ra'. rewrite Rb in Rb'.
  inversion Ra'. inversion Rb'. lia.
Qed.

(** a decision procedure, to exhibit sorted lists *)
Definition rank_ltb (x y : str) : bool :=
  match srank x, srank y with Some i, Some j => Nat.ltb i j | _, _ => false end.
Fixpoint sortedb (n : nat) (l : list str) : bool :=
  match l with
  | [] => true
  | x :: r => (if below all_sections n x then forallb (fun y => if below all_sections n y then rank_ltb x y else true) r else true)
              && sortedb n r
  end.
Lemma sortedb_sound n l : sortedb n l = true -> sorted_upto n l.
Proof.
  induction l as [|x r IH]; cbn [sortedb]; [intros _ a b []|]. intro H. apply andb_true_iff in H as [H1 H2].
  intros a b Hb Ba Bb. cbn [before] in Hb. destruct Hb as [[E I]|Hb]; [|apply (IH H2); assumption].
  subst x. rewrite Ba in H1. rewrite forallb_forall in H1. specialize (H1 b I). rewrite Bb in H1.
  unfold rank_ltb in H1. unfold srank in H1. destruct (rank all_sections a) as [i|]; [|discriminate].
  destruct (rank all_sections b) as [j|]; [|discriminate]. apply Nat.ltb_lt in H1. exists i, j. auto.
Qed.
