(** C17 (b): the justification / NamingConventionError wrappers
    node_col_name_from_number, column_name_from_number, node_name_from_number,
    layer_name_from_number, as generated from mulgrids.py: closed forms, exact length,
    injectivity, and "the naming error is raised exactly past the capacity". *)
From Coq Require Import Ascii String List Bool Arith ZArith NArith Lia.
From PTBase Require Import Exn PyStr PyNum PyVal.
From PTModel Require Import Names.
From Gen Require Import GenNames.
From P Require Import Spec Main Numeral Decimal.
Import ListNotations.
Open Scope char_scope.
Open Scope Z_scope.

(** ** alphabets *)
Definition alphabet_ok (sp : bool) (chars : str) : Prop :=
  NoDup chars /\ (if sp then (1 <= length chars)%nat /\ ~ In " " chars else (2 <= length chars)%nat).
Lemma alphabet_nonempty sp chars : alphabet_ok sp chars -> chars <> [].
Proof. intros [_ H] ->. destruct sp; cbn in H; lia. Qed.
Lemma alphabet_npos sp chars : alphabet_ok sp chars -> (0 < N.of_nat (length chars))%N.
Proof. intros [_ H]. destruct sp; lia. Qed.

(** ** closed forms *)
Definition i2c_str (chars : str) (sp : bool) (L : nat) (i : Z) : str :=
  if sp then name chars (Z.to_N i) else padded chars L (Z.to_N i).
Definition uses_chars_col (conv : Z) : bool := (conv =? 0) || (conv =? 3).
Definition nodecol_name (conv : Z) (L : nat) (jf : fnid) (chars : str) (sp : bool) (num : Z) : str :=
  if uses_chars_col conv then just jf (i2c_str chars sp L num) (Z.of_nat L) else rjust L (z_to_str num).
Definition layer_name_m (conv : Z) (L : nat) (jf : fnid) (chars : str) (sp : bool) (num : Z) : str :=
  if conv =? 0 then just jf (z_to_str num) (Z.of_nat L) else just jf (i2c_str chars sp L num) (Z.of_nat L).
Definition checked (L : nat) (s : str) : res pyval :=
  if Z.of_nat L <? Z.of_nat (length s) then Raise NamingConventionError else Ok (VStr s).

Lemma gen_i2c_closed chars sp L i : alphabet_ok sp chars -> 0 <= i ->
  gen_int_to_chars (fuel_of (VInt i)) (VInt i) (vstr "") (VStr chars) (VBool sp) (VInt (Z.of_nat L))
  = Ok (VStr (i2c_str chars sp L i)).
Proof.
  intros A Hi. unfold i2c_str. destruct sp.
  - apply t_i2c_name; [eapply alphabet_nonempty; eassumption|assumption].
  - apply gen_i2c_nospaces; [destruct A as [_ A]; exact A|assumption].
Qed.

Lemma in_0_3 conv : py_in (VInt conv) (VList [VInt 0; VInt 3]) = Ok (uses_chars_col conv).
Proof. unfold uses_chars_col. cbn [py_in existsb py_eqb]. rewrite orb_false_r. reflexivity. Qed.
Lemma call_just jf s L : call_fn (VFn jf) (VStr s) (VInt L) = Ok (VStr (just jf s L)).
Proof. reflexivity. Qed.
Lemma check_tail (L : nat) (s : str) :
  (do c_ <- (do t_ <- py_len (VStr s); (do r_ <- py_gt t_ (VInt (Z.of_nat L)); Ok (VBool r_)));
   if truthy c_ then Raise NamingConventionError else Ok (VStr s)) = checked L s.
Proof. unfold checked. cbn [py_len bind py_gt py_lt as_int truthy]. reflexivity. Qed.

Theorem gen_node_col_closed conv L jf chars sp num : alphabet_ok sp chars -> 0 <= num ->
  gen_node_col_name_from_number (VInt conv) (VInt (Z.of_nat L)) (VInt num) (VFn jf) (VStr chars) (VBool sp)
  = Ok (VStr (nodecol_name conv L jf chars sp num)).
Proof.
  intros A Hn. unfold gen_node_col_name_from_number, nodecol_name. cbn [bind]. rewrite in_0_3. cbn [bind truthy].
  destruct (uses_chars_col conv).
  - rewrite gen_i2c_closed by assumption. cbn [bind]. rewrite call_just. reflexivity.
  - cbn [b_str bind m_just as_int just]. rewrite Nat2Z.id. reflexivity.
Qed.
Theorem gen_column_closed conv L jf chars sp num : alphabet_ok sp chars -> 0 <= num ->
  gen_column_name_from_number (VInt conv) (VInt (Z.of_nat L)) (VInt num) (VFn jf) (VStr chars) (VBool sp)
  = checked L (nodecol_name conv L jf chars sp num).
Proof.
  intros A Hn. unfold gen_column_name_from_number. rewrite gen_node_col_closed by assumption.
  rewrite bind_Ok. apply check_tail.
Qed.
Theorem gen_node_closed conv L jf chars sp num : alphabet_ok sp chars -> 0 <= num ->
  gen_node_name_from_number (VInt conv) (VInt (Z.of_nat L)) (VInt num) (VFn jf) (VStr chars) (VBool sp)
  = checked L (nodecol_name conv L jf chars sp num).
Proof.
  intros A Hn. unfold gen_node_name_from_number. rewrite gen_node_col_closed by assumption.
  rewrite bind_Ok. apply check_tail.
Qed.
Theorem gen_layer_closed conv L jf chars sp num : alphabet_ok sp chars -> 0 <= num ->
  gen_layer_name_from_number (VInt conv) (VInt (Z.of_nat L)) (VInt num) (VFn jf) (VStr chars) (VBool sp)
  = checked L (layer_name_m conv L jf chars sp num).
Proof.
  intros A Hn. unfold gen_layer_name_from_number, layer_name_m. cbn [bind py_eqb truthy].
  destruct (conv =? 0).
  - cbn [b_str bind]. rewrite call_just. rewrite bind_Ok. apply check_tail.
  - rewrite gen_i2c_closed by assumption. cbn [bind]. rewrite call_just. rewrite bind_Ok. apply check_tail.
Qed.

(** ** justification *)
Lemma just_length jf s (L : nat) : length (just jf s (Z.of_nat L)) = Nat.max L (length s).
Proof. unfold just. rewrite Nat2Z.id. destruct jf; [apply rjust_length|apply ljust_length]. Qed.
Lemma spaces_0 : spaces 0 = []. Proof. reflexivity. Qed.
Lemma just_id jf s (L : nat) : (L <= length s)%nat -> just jf s (Z.of_nat L) = s.
Proof.
  intro H. unfold just. rewrite Nat2Z.id. replace (L - length s)%nat with 0%nat by lia || idtac.
  destruct jf; unfold rjust, ljust; replace (L - length s)%nat with 0%nat by lia; rewrite spaces_0; [reflexivity|apply app_nil_r].
Qed.
Lemma just_inj jf (a b : str) (L : nat) : ~ In " " a -> ~ In " " b -> just jf a (Z.of_nat L) = just jf b (Z.of_nat L) -> a = b.
Proof. unfold just. destruct jf; [apply rjust_inj|apply ljust_inj]. Qed.
Lemma rjust_as_just s (L : nat) : rjust L s = just F_rjust s (Z.of_nat L).
Proof. unfold just. rewrite Nat2Z.id. reflexivity. Qed.

(** ** laws of [checked] *)
Lemma checked_ok L s v : checked L s = Ok v -> v = VStr s /\ (length s <= L)%nat.
Proof. unfold checked. destruct (Z.of_nat L <? Z.of_nat (length s)) eqn:E; [discriminate|]. intro H. inversion H. apply Z.ltb_ge in E. split; [reflexivity|lia]. Qed.
Lemma checked_raise L s : checked L s = Raise NamingConventionError <-> (L < length s)%nat.
Proof. unfold checked. destruct (Z.of_nat L <? Z.of_nat (length s)) eqn:E; [apply Z.ltb_lt in E|apply Z.ltb_ge in E]; split; intro H; try reflexivity; try discriminate; lia. Qed.
Lemma checked_cases L s : (checked L s = Raise NamingConventionError /\ (L < length s)%nat) \/ (checked L s = Ok (VStr s) /\ (length s <= L)%nat).
Proof. unfold checked. destruct (Z.of_nat L <? Z.of_nat (length s)) eqn:E; [apply Z.ltb_lt in E; left|apply Z.ltb_ge in E; right]; split; try reflexivity; lia. Qed.

(** ** the character numerations: no blanks, injective, capacity *)
Definition capacity_chars (chars : str) (sp : bool) (L : nat) : Z :=
  if sp then Z.of_N (cap chars L) else Z.of_N (N.of_nat (length chars) ^ N.of_nat L) - 1.
Definition capacity_dec (L : nat) : Z := 10 ^ Z.of_nat L - 1.

Lemma i2c_str_alphabet chars sp L i : alphabet_ok sp chars -> Forall (fun c => In c chars) (i2c_str chars sp L i).
Proof.
  intro A. pose proof (alphabet_npos _ _ A). unfold i2c_str. destruct sp.
  - apply name_chars. assumption.
  - apply padded_chars. destruct A as [_ A]. lia.
Qed.
Lemma i2c_str_inj chars sp L i j : alphabet_ok sp chars -> 0 <= i -> 0 <= j ->
  i2c_str chars sp L i = i2c_str chars sp L j -> i = j.
Proof.
  intros A Hi Hj E. pose proof (alphabet_npos _ _ A). destruct A as [ND A]. unfold i2c_str in E. destruct sp.
  - apply name_inj in E; try assumption. lia.
  - apply padded_inj in E; try assumption; lia.
Qed.
Lemma i2c_str_cap chars sp L i : alphabet_ok sp chars -> 0 <= i ->
  (length (i2c_str chars sp L i) <= L)%nat <-> i <= capacity_chars chars sp L.
Proof.
  intros A Hi. pose proof (alphabet_npos _ _ A). destruct A as [ND A]. unfold i2c_str, capacity_chars. destruct sp.
  - rewrite name_length_cap by assumption. lia.
  - rewrite padded_length_cap by lia. lia.
Qed.
Lemma just_i2c_inj jf chars sp L i j : alphabet_ok sp chars -> 0 <= i -> 0 <= j ->
  just jf (i2c_str chars sp L i) (Z.of_nat L) = just jf (i2c_str chars sp L j) (Z.of_nat L) -> i = j.
Proof.
  intros A Hi Hj E. destruct sp.
  - assert (NB : forall k, ~ In " " (i2c_str chars true L k)).
    { intros k I. pose proof (i2c_str_alphabet chars true L k A) as F. rewrite Forall_forall in F. apply F in I.
      destruct A as [_ [_ A]]. contradiction. }
    apply just_inj in E; [|apply NB..]. eapply i2c_str_inj; eassumption.
  - assert (G : forall k, (L <= length (i2c_str chars false L k))%nat).
    { intro k. unfold i2c_str. destruct A as [_ A]. pose proof (padded_length_ge chars ltac:(lia) L (Z.to_N k)). lia. }
    rewrite !just_id in E by apply G. eapply i2c_str_inj; eassumption.
Qed.
Lemma just_dec_inj jf L i j : 0 <= i -> 0 <= j ->
  just jf (z_to_str i) (Z.of_nat L) = just jf (z_to_str j) (Z.of_nat L) -> i = j.
Proof. intros Hi Hj E. apply just_inj in E; try (apply z_to_str_noblank; assumption). apply z_to_str_inj; assumption. Qed.

(** ** the names: injective, and too long exactly past the capacity *)
Definition col_capacity (conv : Z) (chars : str) (sp : bool) (L : nat) : Z :=
  if uses_chars_col conv then capacity_chars chars sp L else capacity_dec L.
Definition lay_capacity (conv : Z) (chars : str) (sp : bool) (L : nat) : Z :=
  if conv =? 0 then capacity_dec L else capacity_chars chars sp L.

Lemma nodecol_m_inj conv L jf chars sp i j : alphabet_ok sp chars -> 0 <= i -> 0 <= j ->
  nodecol_name conv L jf chars sp i = nodecol_name conv L jf chars sp j -> i = j.
Proof.
  intros A Hi Hj. unfold nodecol_name. destruct (uses_chars_col conv).
  - apply just_i2c_inj; assumption.
  - rewrite !rjust_as_just. apply just_dec_inj; assumption.
Qed.
Lemma layer_m_inj conv L jf chars sp i j : alphabet_ok sp chars -> 0 <= i -> 0 <= j ->
  layer_name_m conv L jf chars sp i = layer_name_m conv L jf chars sp j -> i = j.
Proof.
  intros A Hi Hj. unfold layer_name_m. destruct (conv =? 0).
  - apply just_dec_inj; assumption.
  - apply just_i2c_inj; assumption.
Qed.
Lemma just_le jf s (L : nat) : (length (just jf s (Z.of_nat L)) <= L)%nat <-> (length s <= L)%nat.
Proof. rewrite just_length. lia. Qed.
Lemma dec_cap (L : nat) i : 0 <= i -> (1 <= L)%nat -> (length (z_to_str i) <= L)%nat <-> i <= capacity_dec L.
Proof. intros Hi HL. rewrite z_to_str_length_cap by assumption. unfold capacity_dec. lia. Qed.
Lemma nodecol_cap conv L jf chars sp i : alphabet_ok sp chars -> 0 <= i -> (1 <= L)%nat ->
  (length (nodecol_name conv L jf chars sp i) <= L)%nat <-> i <= col_capacity conv chars sp L.
Proof.
  intros A Hi HL. unfold nodecol_name, col_capacity. destruct (uses_chars_col conv).
  - rewrite just_le. apply i2c_str_cap; assumption.
  - rewrite rjust_as_just, just_le. apply dec_cap; assumption.
Qed.
Lemma layer_cap conv L jf chars sp i : alphabet_ok sp chars -> 0 <= i -> (1 <= L)%nat ->
  (length (layer_name_m conv L jf chars sp i) <= L)%nat <-> i <= lay_capacity conv chars sp L.
Proof.
  intros A Hi HL. unfold layer_name_m, lay_capacity. destruct (conv =? 0); rewrite just_le.
  - apply dec_cap; assumption.
  - apply i2c_str_cap; assumption.
Qed.
Lemma nodecol_ge conv L jf chars sp i : (L <= length (nodecol_name conv L jf chars sp i))%nat.
Proof. unfold nodecol_name. destruct (uses_chars_col conv); rewrite ?rjust_as_just, just_length; lia. Qed.
Lemma layer_ge conv L jf chars sp i : (L <= length (layer_name_m conv L jf chars sp i))%nat.
Proof. unfold layer_name_m. destruct (conv =? 0); rewrite just_length; lia. Qed.

(** ** the statements about the generated wrappers (W = column / node / layer) *)
Section Laws.
Variables (W : pyval -> pyval -> pyval -> pyval -> pyval -> pyval -> res pyval)
          (model : Z -> nat -> fnid -> str -> bool -> Z -> str) (capacity : Z -> str -> bool -> nat -> Z).
Hypothesis closed : forall conv L jf chars sp num, alphabet_ok sp chars -> 0 <= num ->
  W (VInt conv) (VInt (Z.of_nat L)) (VInt num) (VFn jf) (VStr chars) (VBool sp) = checked L (model conv L jf chars sp num).
Hypothesis m_inj : forall conv L jf chars sp i j, alphabet_ok sp chars -> 0 <= i -> 0 <= j ->
  model conv L jf chars sp i = model conv L jf chars sp j -> i = j.
Hypothesis m_cap : forall conv L jf chars sp i, alphabet_ok sp chars -> 0 <= i -> (1 <= L)%nat ->
  (length (model conv L jf chars sp i) <= L)%nat <-> i <= capacity conv chars sp L.
Hypothesis m_ge : forall conv L jf chars sp i, (L <= length (model conv L jf chars sp i))%nat.

(** the result is either the naming error or a name of exactly the convention's length;
    the error is raised exactly when the number is past the capacity *)
Lemma law_total conv L jf chars sp num : alphabet_ok sp chars -> 0 <= num -> (1 <= L)%nat ->
  (W (VInt conv) (VInt (Z.of_nat L)) (VInt num) (VFn jf) (VStr chars) (VBool sp) = Raise NamingConventionError
   /\ capacity conv chars sp L < num)
  \/ (exists s, W (VInt conv) (VInt (Z.of_nat L)) (VInt num) (VFn jf) (VStr chars) (VBool sp) = Ok (VStr s)
      /\ length s = L /\ num <= capacity conv chars sp L).
Proof.
  intros A Hn HL. rewrite closed by assumption.
  pose proof (m_cap conv L jf chars sp num A Hn HL) as C. pose proof (m_ge conv L jf chars sp num) as G.
  destruct (checked_cases L (model conv L jf chars sp num)) as [[E H]|[E H]]; rewrite E.
  - left. split; [reflexivity|]. lia.
  - right. eexists. split; [reflexivity|]. split; [lia|]. apply C. exact H.
Qed.
Lemma law_error_iff conv L jf chars sp num : alphabet_ok sp chars -> 0 <= num -> (1 <= L)%nat ->
  W (VInt conv) (VInt (Z.of_nat L)) (VInt num) (VFn jf) (VStr chars) (VBool sp) = Raise NamingConventionError
  <-> capacity conv chars sp L < num.
Proof.
  intros A Hn HL. destruct (law_total conv L jf chars sp num A Hn HL) as [[E H]|[s [E [_ H]]]]; rewrite E; split; intro X; try reflexivity; try discriminate; lia.
Qed.
(** distinct numbers never get the same name *)
Lemma law_inj conv L jf chars sp a b s : alphabet_ok sp chars -> 0 <= a -> 0 <= b ->
  W (VInt conv) (VInt (Z.of_nat L)) (VInt a) (VFn jf) (VStr chars) (VBool sp) = Ok s ->
  W (VInt conv) (VInt (Z.of_nat L)) (VInt b) (VFn jf) (VStr chars) (VBool sp) = Ok s -> a = b.
Proof.
  intros A Ha Hb Ea Eb. rewrite closed in Ea, Eb by assumption.
  apply checked_ok in Ea as [Ea _]. apply checked_ok in Eb as [Eb _]. rewrite Ea in Eb. inversion Eb.
  eapply m_inj; eauto.
Qed.
End Laws.

Definition column_total := law_total gen_column_name_from_number nodecol_name col_capacity gen_column_closed nodecol_cap nodecol_ge.
Definition column_error_iff := law_error_iff gen_column_name_from_number nodecol_name col_capacity gen_column_closed nodecol_cap nodecol_ge.
Definition column_inj := law_inj gen_column_name_from_number nodecol_name gen_column_closed nodecol_m_inj.
Definition node_total := law_total gen_node_name_from_number nodecol_name col_capacity gen_node_closed nodecol_cap nodecol_ge.
Definition node_error_iff := law_error_iff gen_node_name_from_number nodecol_name col_capacity gen_node_closed nodecol_cap nodecol_ge.
Definition node_inj := law_inj gen_node_name_from_number nodecol_name gen_node_closed nodecol_m_inj.
Definition layer_total := law_total gen_layer_name_from_number layer_name_m lay_capacity gen_layer_closed layer_cap layer_ge.
Definition layer_error_iff := law_error_iff gen_layer_name_from_number layer_name_m lay_capacity gen_layer_closed layer_cap layer_ge.
Definition layer_inj := law_inj gen_layer_name_from_number layer_name_m gen_layer_closed layer_m_inj.

(** the capacities the property text names: 99 layers, 99 / 999 columns, 26 + 26^2 + 26^3 letter names *)
Definition lower26 : str := s2l "abcdefghijklmnopqrstuvwxyz".
Example ex_alphabet_ok : alphabet_ok true lower26 /\ alphabet_ok false lower26.
Proof.
  assert (ND : NoDup lower26).
  { unfold lower26. cbn [s2l list_ascii_of_string]. repeat (constructor; [cbn [In]; intro H; repeat (destruct H as [H|H]; [discriminate H|]); exact H|]). constructor. }
  split; split; try exact ND; cbn; try lia. split; [lia|]. intro H. repeat (destruct H as [H|H]; [discriminate H|]). exact H.
Qed.
Example ex_capacities :
  col_capacity 0 lower26 true 3 = 18278 /\ col_capacity 1 lower26 true 2 = 99 /\ col_capacity 2 lower26 true 3 = 999 /\
  col_capacity 3 lower26 false 3 = 17575 /\ lay_capacity 0 lower26 true 2 = 99 /\ lay_capacity 1 lower26 true 3 = 18278 /\
  lay_capacity 2 lower26 true 2 = 702 /\ lay_capacity 3 lower26 false 2 = 675.
Proof. vm_compute. repeat split. Qed.
