(** Bridge: the naming functions generated from the current mulgrids.py equal the
    reference models of Model/Names.v (on five-character names / integer arguments). *)
From Coq Require Import Ascii String List Bool Arith ZArith NArith Lia.
From PTBase Require Import Exn PyStr PyNum PyVal.
From PTModel Require Import Names.
From Gen Require Import GenNames.
Import ListNotations.
Open Scope char_scope.

Section Five.
Variables c0 c1 c2 c3 c4 : ascii.
Let nm := VStr [c0; c1; c2; c3; c4].
Lemma gi2 : py_getitem nm (VInt 2) = Ok (VStr [c2]). Proof. reflexivity. Qed.
Lemma gi3 : py_getitem nm (VInt 3) = Ok (VStr [c3]). Proof. reflexivity. Qed.
Lemma gi4 : py_getitem nm (VInt 4) = Ok (VStr [c4]). Proof. reflexivity. Qed.
Lemma sl03 : py_slice nm (VInt 0) (VInt 3) = Ok (VStr [c0; c1; c2]). Proof. reflexivity. Qed.
Lemma sl45 : py_slice nm (VInt 4) (VInt 5) = Ok (VStr [c4]). Proof. reflexivity. Qed.
Lemma sl35 : py_slice nm (VInt 3) (VInt 5) = Ok (VStr [c3; c4]). Proof. reflexivity. Qed.
End Five.
Lemma isdigit1 c : m_isdigit (VStr [c]) = Ok (VBool (is_digit c)).
Proof. cbn [m_isdigit as_str bind isdigit forallb]. rewrite andb_true_r. reflexivity. Qed.
Lemma isdigit2 c d : m_isdigit (VStr [c; d]) = Ok (VBool (is_digit c && is_digit d)).
Proof. cbn [m_isdigit as_str bind isdigit forallb]. rewrite andb_true_r. reflexivity. Qed.
Lemma eqb_blank c : py_eqb (VStr [c]) (vstr " ") = ceqb c " ".
Proof. unfold vstr. cbn [py_eqb s2l list_ascii_of_string str_eqb]. rewrite andb_true_r. reflexivity. Qed.

Theorem gen_fix_blockname_spec c0 c1 c2 c3 c4 :
  gen_fix_blockname (VStr [c0; c1; c2; c3; c4]) = Ok (VStr (fix_blockname [c0; c1; c2; c3; c4])).
Proof.
  unfold gen_fix_blockname. rewrite gi2, gi3, gi4, sl03, sl45. cbn [bind]. rewrite !isdigit1. cbn [bind truthy].
  cbn [fix_blockname].
  destruct (is_digit c2); cbn [andb bind truthy]; [|reflexivity].
  destruct (is_digit c4); cbn [andb bind truthy]; [|reflexivity].
  rewrite eqb_blank. destruct (ceqb c3 " "); cbn [truthy]; reflexivity.
Qed.

Lemma int_dd c3 c4 : is_digit c3 = true -> is_digit c4 = true ->
  b_int (VStr [c3; c4]) = Ok (VInt (Z.of_nat (10 * dval c3 + dval c4))).
Proof. intros D3 D4. digits D3; digits D4; vm_compute; reflexivity. Qed.
Lemma fmt_d2 v : (v < 100)%nat -> fmt_d 2 (VInt (Z.of_nat v)) = Ok (fmt2 v).
Proof.
  intro H. do 100 (destruct v as [|v]; [vm_compute; reflexivity|]). lia.
Qed.
Lemma fmt_s3 c0 c1 c2 : fmt_s 3 (VStr [c0; c1; c2]) = Ok [c0; c1; c2].
Proof. reflexivity. Qed.
Theorem gen_unfix_blockname_spec c0 c1 c2 c3 c4 :
  gen_unfix_blockname (VStr [c0; c1; c2; c3; c4]) = Ok (VStr (unfix_blockname [c0; c1; c2; c3; c4])).
Proof.
  unfold gen_unfix_blockname. rewrite sl35, sl03. cbn [bind]. rewrite isdigit2. cbn [bind truthy unfix_blockname].
  destruct (is_digit c3) eqn:D3; cbn [andb]; [|reflexivity].
  destruct (is_digit c4) eqn:D4; cbn [andb]; [|reflexivity].
  rewrite (int_dd _ _ D3 D4). cbn [bind]. rewrite fmt_d2.
  2:{ digits D3; digits D4; vm_compute; lia. }
  rewrite fmt_s3. cbn [fmt_concat bind]. rewrite app_nil_r. reflexivity.
Qed.

(** ** int_to_chars, spaces = True *)
Lemma pyindex_nth {A} (l : list A) (k : Z) (d : A) : (0 <= k < Z.of_nat (length l))%Z ->
  pyindex k l = Some (nth (Z.to_nat k) l d).
Proof.
  intro H. unfold pyindex. destruct (k <? 0)%Z eqn:E; [apply Z.ltb_lt in E; lia|].
  destruct ((k <? 0) || (Z.of_nat (length l) <=? k))%Z eqn:E2.
  - apply orb_prop in E2 as [E2|E2]; [apply Z.ltb_lt in E2|apply Z.leb_le in E2]; lia.
  - apply nth_error_nth'. lia.
Qed.
Lemma getitem_chars chars k : (0 <= k < Z.of_nat (length chars))%Z ->
  py_getitem (VStr chars) (VInt k) = Ok (VStr [nth (Z.to_nat k) chars "?"]).
Proof. intro H. cbn [py_getitem as_int]. rewrite (pyindex_nth chars k "?" H). reflexivity. Qed.
Lemma join2 c st : m_join (vstr "") (VList [VStr [c]; VStr st]) = Ok (VStr (c :: st)).
Proof. reflexivity. Qed.

Lemma gen_i2c_spaces chars : chars <> [] -> forall fuel i st len,
  (0 <= i)%Z -> (Z.to_nat i < fuel)%nat ->
  gen_int_to_chars fuel (VInt i) (VStr st) (VStr chars) (VBool true) (VInt len)
  = Ok (VStr (i2c chars fuel (Z.to_N i) st)).
Proof.
  intro NE. set (n := Z.of_nat (length chars)).
  assert (Hn : (0 < n)%Z) by (unfold n; destruct chars; [congruence|cbn [length]; lia]).
  induction fuel as [|f IH]; intros i st len Hi Hf; [lia|].
  cbn [gen_int_to_chars i2c].
  assert (Tail : forall v, (do c12_ <- (do b13_ <- Ok (VInt len); if truthy b13_ then Ok (VBool (negb (truthy (VBool true)))) else Ok b13_);
                  if truthy c12_ then
                    (do t1_ <- (do t2_ <- (do t3_ <- py_getitem (VStr chars) (VInt 0); (do t4_ <- (do t5_ <- py_len v; py_sub (VInt len) t5_); py_mul t3_ t4_)); Ok (VList [t2_; v])); m_join (vstr "") t1_)
                  else Ok v) = Ok v).
  { intro v. cbn [bind]. destruct (truthy (VInt len)) eqn:T; cbn [bind]; [reflexivity|]. rewrite T. reflexivity. }
  cbn [py_gt py_lt as_int bind]. cbn [truthy].
  destruct (0 <? i)%Z eqn:Pos.
  - apply Z.ltb_lt in Pos.
    assert (PosN : (0 <? Z.to_N i)%N = true) by (apply N.ltb_lt; lia). rewrite PosN.
    cbn [py_len bind truthy py_sub as_int]. fold n.
    cbn [py_floordiv py_mod as_int]. assert (Hz : (n =? 0)%Z = false) by (apply Z.eqb_neq; lia). rewrite Hz.
    cbn [bind].
    assert (Hm : (0 <= (i - 1) mod n < n)%Z) by (apply Z.mod_pos_bound; lia).
    rewrite (getitem_chars chars ((i - 1) mod n) Hm). cbn [bind]. rewrite join2. cbn [bind].
    assert (Hq : (0 <= (i - 1) / n <= i - 1)%Z).
    { split; [apply Z.div_pos; lia|]. apply Z.div_le_upper_bound; nia. }
    rewrite (IH ((i - 1) / n)%Z _ 0%Z) by lia. cbn [bind].
    rewrite Tail. do 2 f_equal.
    assert (Hc : Z.to_N (Z.of_nat (length chars)) = N.of_nat (length chars)) by (rewrite <- nat_N_Z; apply N2Z.id).
    assert (E1 : Z.to_N ((i - 1) / n) = ((Z.to_N i - 1) / N.of_nat (length chars))%N).
    { unfold n. rewrite Z2N.inj_div by lia. rewrite Z2N.inj_sub by lia. rewrite Hc. reflexivity. }
    assert (E2 : nth (Z.to_nat ((i - 1) mod n)) chars "?" = ch chars ((Z.to_N i - 1) mod N.of_nat (length chars))).
    { unfold ch. f_equal. rewrite <- Z_N_nat. f_equal.
      unfold n. rewrite Z2N.inj_mod by lia. rewrite Z2N.inj_sub by lia. rewrite Hc. reflexivity. }
    rewrite E1, E2. reflexivity.
  - apply Z.ltb_ge in Pos. assert (i = 0%Z) by lia. subst i. cbn [Z.to_N N.ltb N.compare].
    rewrite Tail. reflexivity.
Qed.
