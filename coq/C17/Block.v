(** C17 (c): block_name / column_name / layer_name as generated from mulgrids.py:
    a block name has five characters, its column part and layer part give back the column and
    layer it was built from exactly when the blank-in-fourth-column repair does not fire, the
    repair never fires on generated names (digit-free alphabets), and distinct (layer, column)
    pairs get distinct block names. *)
From Coq Require Import Ascii String List Bool Arith ZArith NArith Lia.
From PTBase Require Import Exn PyStr PyNum PyVal.
From PTModel Require Import Names.
From Gen Require Import GenNames.
From P Require Import Spec Main Numeral Decimal Wrappers.
Import ListNotations.
Open Scope char_scope.
Open Scope Z_scope.

(** the convention's name lengths, read from the generated tables *)
Definition collen (conv : Z) : nat := Z.to_nat (nth (Z.to_nat conv) gen_colname_length_tbl 0).
Definition laylen (conv : Z) : nat := Z.to_nat (nth (Z.to_nat conv) gen_layername_length_tbl 0).
Definition raw_block (conv : Z) (lay col : str) : str := if uses_chars_col conv then (col ++ lay)%list else (lay ++ col)%list.
Definition quirk_free (conv : Z) (lay col : str) : Prop := fix_blockname (raw_block conv lay col) = raw_block conv lay col.
Definition no_map : pyval := VDict [].

Lemma conv_cases conv : In conv [0; 1; 2; 3] -> conv = 0 \/ conv = 1 \/ conv = 2 \/ conv = 3.
Proof. cbn [In]. intuition. Qed.
Lemma len2 (s : str) : length s = 2%nat -> exists a b, s = [a; b].
Proof. destruct s as [|a [|b [|c r]]]; try discriminate. eauto. Qed.
Lemma len3 (s : str) : length s = 3%nat -> exists a b c, s = [a; b; c].
Proof. destruct s as [|a [|b [|c [|d r]]]]; try discriminate. eauto. Qed.

Ltac lens := change (laylen 0) with 2%nat in *; change (laylen 1) with 3%nat in *; change (laylen 2) with 2%nat in *; change (laylen 3) with 2%nat in *;
  change (collen 0) with 3%nat in *; change (collen 1) with 2%nat in *; change (collen 2) with 3%nat in *; change (collen 3) with 3%nat in *.

Section Explicit.
Variables a0 a1 a2 b0 b1 : ascii.
(** conventions 0, 3: three column characters then two layer characters *)
Lemma bn0 : gen_block_name (VInt 0) (VStr [b0; b1]) (VStr [a0; a1; a2]) no_map
            = (do v <- gen_fix_blockname (VStr [a0; a1; a2; b0; b1]); Ok v).
Proof. reflexivity. Qed.
Lemma bn3 : gen_block_name (VInt 3) (VStr [b0; b1]) (VStr [a0; a1; a2]) no_map
            = (do v <- gen_fix_blockname (VStr [a0; a1; a2; b0; b1]); Ok v).
Proof. reflexivity. Qed.
(** convention 1: three layer characters then two column characters *)
Lemma bn1 : gen_block_name (VInt 1) (VStr [a0; a1; a2]) (VStr [b0; b1]) no_map
            = (do v <- gen_fix_blockname (VStr [a0; a1; a2; b0; b1]); Ok v).
Proof. reflexivity. Qed.
(** convention 2: two layer characters then three column characters *)
Lemma bn2 : gen_block_name (VInt 2) (VStr [a0; a1]) (VStr [a2; b0; b1]) no_map
            = (do v <- gen_fix_blockname (VStr [a0; a1; a2; b0; b1]); Ok v).
Proof. reflexivity. Qed.
End Explicit.

Theorem gen_block_name_closed conv lay col : In conv [0; 1; 2; 3] -> length lay = laylen conv -> length col = collen conv ->
  gen_block_name (VInt conv) (VStr lay) (VStr col) no_map = Ok (VStr (fix_blockname (raw_block conv lay col))).
Proof.
  intros C Hl Hc. apply conv_cases in C as [-> | [-> | [-> | ->]]]; lens.
  - apply len2 in Hl as (b0 & b1 & ->). apply len3 in Hc as (a0 & a1 & a2 & ->). rewrite bn0, gen_fix_blockname_spec. reflexivity.
  - apply len3 in Hl as (a0 & a1 & a2 & ->). apply len2 in Hc as (b0 & b1 & ->). rewrite bn1, gen_fix_blockname_spec. reflexivity.
  - apply len2 in Hl as (a0 & a1 & ->). apply len3 in Hc as (a2 & b0 & b1 & ->). rewrite bn2, gen_fix_blockname_spec. reflexivity.
  - apply len2 in Hl as (b0 & b1 & ->). apply len3 in Hc as (a0 & a1 & a2 & ->). rewrite bn3, gen_fix_blockname_spec. reflexivity.
Qed.

Lemma raw_length conv lay col : length lay = laylen conv -> length col = collen conv -> In conv [0; 1; 2; 3] ->
  length (raw_block conv lay col) = 5%nat.
Proof.
  intros Hl Hc C. unfold raw_block. apply conv_cases in C as [-> | [-> | [-> | ->]]]; lens; cbn [uses_chars_col Z.eqb Pos.eqb orb];
    rewrite app_length, Hl, Hc; reflexivity.
Qed.

(** invertibility, with its exact side condition *)
Theorem block_invertible_iff conv lay col : In conv [0; 1; 2; 3] -> length lay = laylen conv -> length col = collen conv ->
  exists b, gen_block_name (VInt conv) (VStr lay) (VStr col) no_map = Ok (VStr b) /\ length b = 5%nat /\
    ((gen_column_name (VInt conv) (VStr b) = Ok (VStr col) /\ gen_layer_name (VInt conv) (VStr b) = Ok (VStr lay))
     <-> quirk_free conv lay col).
Proof.
  intros C Hl Hc. exists (fix_blockname (raw_block conv lay col)).
  split; [apply gen_block_name_closed; assumption|].
  split; [rewrite fix_length; apply raw_length; assumption|].
  unfold quirk_free.
  apply conv_cases in C as [-> | [-> | [-> | ->]]]; lens.
  - apply len2 in Hl as (b0 & b1 & ->). apply len3 in Hc as (a0 & a1 & a2 & ->).
    cbn [raw_block uses_chars_col Z.eqb Pos.eqb orb app fix_blockname].
    destruct (is_digit a2 && is_digit b1 && ceqb b0 " ") eqn:E.
    + apply andb_prop in E as [_ E]. apply Ascii.eqb_eq in E. subst b0. split; [intros [_ H]; discriminate H|intro H; discriminate H].
    + split; [reflexivity|intros _; split; reflexivity].
  - apply len3 in Hl as (a0 & a1 & a2 & ->). apply len2 in Hc as (b0 & b1 & ->).
    cbn [raw_block uses_chars_col Z.eqb Pos.eqb orb app fix_blockname].
    destruct (is_digit a2 && is_digit b1 && ceqb b0 " ") eqn:E.
    + apply andb_prop in E as [_ E]. apply Ascii.eqb_eq in E. subst b0. split; [intros [H _]; discriminate H|intro H; discriminate H].
    + split; [reflexivity|intros _; split; reflexivity].
  - apply len2 in Hl as (a0 & a1 & ->). apply len3 in Hc as (a2 & b0 & b1 & ->).
    cbn [raw_block uses_chars_col Z.eqb Pos.eqb orb app fix_blockname].
    destruct (is_digit a2 && is_digit b1 && ceqb b0 " ") eqn:E.
    + apply andb_prop in E as [_ E]. apply Ascii.eqb_eq in E. subst b0. split; [intros [H _]; discriminate H|intro H; discriminate H].
    + split; [reflexivity|intros _; split; reflexivity].
  - apply len2 in Hl as (b0 & b1 & ->). apply len3 in Hc as (a0 & a1 & a2 & ->).
    cbn [raw_block uses_chars_col Z.eqb Pos.eqb orb app fix_blockname].
    destruct (is_digit a2 && is_digit b1 && ceqb b0 " ") eqn:E.
    + apply andb_prop in E as [_ E]. apply Ascii.eqb_eq in E. subst b0. split; [intros [_ H]; discriminate H|intro H; discriminate H].
    + split; [reflexivity|intros _; split; reflexivity].
Qed.

Corollary block_invertible conv lay col : In conv [0; 1; 2; 3] -> length lay = laylen conv -> length col = collen conv ->
  quirk_free conv lay col ->
  exists b, gen_block_name (VInt conv) (VStr lay) (VStr col) no_map = Ok (VStr b) /\ length b = 5%nat /\
    gen_column_name (VInt conv) (VStr b) = Ok (VStr col) /\ gen_layer_name (VInt conv) (VStr b) = Ok (VStr lay).
Proof.
  intros C Hl Hc Q. destruct (block_invertible_iff conv lay col C Hl Hc) as (b & E & L & I).
  exists b. split; [exact E|]. split; [exact L|]. apply I. exact Q.
Qed.

(** distinct (layer, column) pairs give distinct block names *)
Theorem block_name_inj conv lay col lay' col' : In conv [0; 1; 2; 3] ->
  length lay = laylen conv -> length col = collen conv -> quirk_free conv lay col ->
  length lay' = laylen conv -> length col' = collen conv -> quirk_free conv lay' col' ->
  gen_block_name (VInt conv) (VStr lay) (VStr col) no_map = gen_block_name (VInt conv) (VStr lay') (VStr col') no_map ->
  lay = lay' /\ col = col'.
Proof.
  intros C Hl Hc Q Hl' Hc' Q' E.
  destruct (block_invertible conv lay col C Hl Hc Q) as (b & Eb & _ & Ic & Il).
  destruct (block_invertible conv lay' col' C Hl' Hc' Q') as (b' & Eb' & _ & Ic' & Il').
  rewrite Eb, Eb' in E. inversion E. subst b'. rewrite Ic in Ic'. rewrite Il in Il'. inversion Ic'. inversion Il'. auto.
Qed.

Lemma NoDup_map_on {A B} (f : A -> B) (l : list A) :
  (forall x y, In x l -> In y l -> f x = f y -> x = y) -> NoDup l -> NoDup (map f l).
Proof.
  intros Inj ND. induction ND as [|x l Hx ND IH]; [constructor|]. cbn [map]. constructor.
  - intro H. apply in_map_iff in H as (y & E & Hy). assert (y = x) by (apply Inj; [right; exact Hy|left; reflexivity|exact E]). subst y. contradiction.
  - apply IH. intros a b Ha Hb. apply Inj; right; assumption.
Qed.
Definition wf_pair (conv : Z) (p : str * str) : Prop :=
  length (fst p) = laylen conv /\ length (snd p) = collen conv /\ quirk_free conv (fst p) (snd p).
(** any list of distinct well-formed (layer name, column name) pairs -- in particular any sub-list of
    layer names x column names of a geometry whose layer names and column names are duplicate-free,
    plus its atmosphere blocks -- gets pairwise distinct block names *)
Theorem block_names_nodup conv (ps : list (str * str)) : In conv [0; 1; 2; 3] ->
  Forall (wf_pair conv) ps -> NoDup ps ->
  NoDup (map (fun p => gen_block_name (VInt conv) (VStr (fst p)) (VStr (snd p)) no_map) ps).
Proof.
  intros C W ND. apply NoDup_map_on; [|exact ND].
  intros [l c] [l' c'] Hx Hy E. rewrite Forall_forall in W.
  destruct (W _ Hx) as (A1 & A2 & A3). destruct (W _ Hy) as (B1 & B2 & B3). cbn [fst snd] in *.
  destruct (block_name_inj conv l c l' c' C A1 A2 A3 B1 B2 B3 E). congruence.
Qed.
Lemma NoDup_app_disj {A} (a b : list A) : NoDup a -> NoDup b -> (forall x, In x a -> In x b -> False) -> NoDup (a ++ b).
Proof.
  intros Ha Hb D. induction Ha as [|x a Hx Ha IH]; [exact Hb|]. cbn [app]. constructor.
  - intro H. apply in_app_or in H as [H|H]; [contradiction|]. apply (D x); [left; reflexivity|exact H].
  - apply IH. intros y Hy. apply D. right. exact Hy.
Qed.
Lemma NoDup_pairs {A B} (la : list A) (lb : list B) : NoDup la -> NoDup lb -> NoDup (list_prod la lb).
Proof.
  intros Ha Hb. induction Ha as [|a la Hna Ha IH]; [constructor|]. cbn [list_prod].
  apply NoDup_app_disj.
  - apply NoDup_map_on; [|exact Hb]. intros x y _ _ E. congruence.
  - exact IH.
  - intros [x y] H1 H2. apply in_map_iff in H1 as (z & E & _). inversion E. subst. apply in_prod_iff in H2 as [H2 _]. contradiction.
Qed.

(** ** when does the repair not fire? *)
Definition nondigit (c : ascii) : Prop := is_digit c = false.
Lemma quirk_free_03 conv lay col : conv = 0 \/ conv = 3 -> length lay = 2%nat -> length col = 3%nat ->
  Forall nondigit col -> quirk_free conv lay col.
Proof.
  intros C Hl Hc F. apply len2 in Hl as (b0 & b1 & ->). apply len3 in Hc as (a0 & a1 & a2 & ->).
  unfold quirk_free, raw_block. destruct C as [-> | ->]; cbn [uses_chars_col Z.eqb Pos.eqb orb app fix_blockname];
    inversion F as [|? ? _ F1]; inversion F1 as [|? ? _ F2]; inversion F2 as [|? ? N2 _]; unfold nondigit in N2; rewrite N2; reflexivity.
Qed.
Lemma quirk_free_1 lay col : length lay = 3%nat -> length col = 2%nat -> Forall nondigit lay -> quirk_free 1 lay col.
Proof.
  intros Hl Hc F. apply len3 in Hl as (a0 & a1 & a2 & ->). apply len2 in Hc as (b0 & b1 & ->).
  unfold quirk_free, raw_block. cbn [uses_chars_col Z.eqb Pos.eqb orb app fix_blockname].
  inversion F as [|? ? _ F1]; inversion F1 as [|? ? _ F2]; inversion F2 as [|? ? N2 _]; unfold nondigit in N2; rewrite N2; reflexivity.
Qed.
(** convention 2: the column part is a right-justified decimal number *)
Lemma quirk_free_2 lay num : length lay = 2%nat -> 0 <= num -> length (rjust 3 (z_to_str num)) = 3%nat ->
  quirk_free 2 lay (rjust 3 (z_to_str num)).
Proof.
  intros Hl Hn Hc. apply len2 in Hl as (a0 & a1 & ->).
  rewrite rjust_length in Hc.
  pose proof (z_to_str_nonneg num Hn) as E. pose proof (dstr_digits (N.to_uint (Z.to_N num))) as D. rewrite <- E in D.
  unfold quirk_free, raw_block. cbn [uses_chars_col Z.eqb Pos.eqb orb].
  destruct (z_to_str num) as [|x [|y [|z [|w r]]]]; cbn [length] in Hc; try lia; cbn [rjust length Nat.sub spaces repeat app fix_blockname].
  - reflexivity.
  - reflexivity.
  - reflexivity.
  - inversion D as [|? ? _ D1]. inversion D1 as [|? ? Dy _]. rewrite (digit_not_space _ Dy), andb_false_r. reflexivity.
Qed.

Lemma just_chars jf s (L : nat) c : In c (just jf s (Z.of_nat L)) -> In c s \/ c = " ".
Proof.
  unfold just, rjust, ljust, spaces. destruct jf; intro H; apply in_app_or in H as [H|H]; auto; apply repeat_spec in H; auto.
Qed.
Lemma blank_nondigit : nondigit " ". Proof. reflexivity. Qed.
Lemma i2c_just_nondigit jf chars sp (L : nat) i : alphabet_ok sp chars -> Forall nondigit chars ->
  Forall nondigit (just jf (i2c_str chars sp L i) (Z.of_nat L)).
Proof.
  intros A F. apply Forall_forall. intros c H. apply just_chars in H as [H| ->]; [|exact blank_nondigit].
  pose proof (i2c_str_alphabet chars sp L i A) as G. rewrite Forall_forall in F, G. auto.
Qed.

(** ** end to end: names produced by the generated numbering functions *)
Theorem generated_names_invertible conv jfc jfl charsc spc charsl spl nc nl col lay :
  In conv [0; 1; 2; 3] -> alphabet_ok spc charsc -> alphabet_ok spl charsl ->
  Forall nondigit charsc -> Forall nondigit charsl -> 0 <= nc -> 0 <= nl ->
  gen_column_name_from_number (VInt conv) (VInt (Z.of_nat (collen conv))) (VInt nc) (VFn jfc) (VStr charsc) (VBool spc) = Ok (VStr col) ->
  gen_layer_name_from_number (VInt conv) (VInt (Z.of_nat (laylen conv))) (VInt nl) (VFn jfl) (VStr charsl) (VBool spl) = Ok (VStr lay) ->
  exists b, gen_block_name (VInt conv) (VStr lay) (VStr col) no_map = Ok (VStr b) /\ length b = 5%nat /\
    gen_column_name (VInt conv) (VStr b) = Ok (VStr col) /\ gen_layer_name (VInt conv) (VStr b) = Ok (VStr lay).
Proof.
  intros C Ac Al Fc Fl Hnc Hnl Ec El.
  rewrite gen_column_closed in Ec by assumption. rewrite gen_layer_closed in El by assumption.
  apply checked_ok in Ec as [Ec Lc]. apply checked_ok in El as [El Ll]. injection Ec as Ec'. injection El as El'.
  pose proof (nodecol_ge conv (collen conv) jfc charsc spc nc) as Gc. pose proof (layer_ge conv (laylen conv) jfl charsl spl nl) as Gl.
  assert (Hc : length col = collen conv) by (subst col; lia). assert (Hl : length lay = laylen conv) by (subst lay; lia).
  apply block_invertible; try assumption.
  apply conv_cases in C as [-> | [-> | [-> | ->]]].
  - apply quirk_free_03; [left; reflexivity|exact Hl|exact Hc|]. subst col. unfold nodecol_name. cbn [uses_chars_col Z.eqb Pos.eqb orb].
    apply i2c_just_nondigit; assumption.
  - apply quirk_free_1; [exact Hl|exact Hc|]. subst lay. unfold layer_name_m. cbn [Z.eqb Pos.eqb]. apply i2c_just_nondigit; assumption.
  - subst col. unfold nodecol_name in *. cbn [uses_chars_col Z.eqb Pos.eqb orb] in *. apply quirk_free_2; assumption.
  - apply quirk_free_03; [right; reflexivity|exact Hl|exact Hc|]. subst col. unfold nodecol_name. cbn [uses_chars_col Z.eqb Pos.eqb orb].
    apply i2c_just_nondigit; assumption.
Qed.

(** ** the surface layer and the atmosphere column *)
(** the surface layer's name, read off the generated add_layers (no layers: only the surface layer) *)
Definition surface_name (conv : Z) : str :=
  match gen_add_layers 0 (VInt conv) (VInt 0) (VList []) VNone (vstr "a") (VBool true) with
  | Ok (VList [VStr s]) => s
  | _ => []
  end.
Definition atmosphere_column (conv : Z) : str := s2l (nth (Z.to_nat conv) gen_atmosphere_column_name_tbl ""%string).
Lemma surface_names : map surface_name [0; 1; 2; 3] = map s2l [" 0"; "atm"; "at"; " 0"]%string.
Proof. vm_compute. reflexivity. Qed.
Lemma surface_length conv : In conv [0; 1; 2; 3] -> length (surface_name conv) = laylen conv.
Proof. intro C. apply conv_cases in C as [-> | [-> | [-> | ->]]]; vm_compute; reflexivity. Qed.

(** a generated column under the surface layer (atmosphere blocks of atmos_type 1) *)
Theorem surface_blocks_invertible conv jfc charsc spc nc col :
  In conv [0; 1; 2; 3] -> alphabet_ok spc charsc -> Forall nondigit charsc -> 0 <= nc ->
  gen_column_name_from_number (VInt conv) (VInt (Z.of_nat (collen conv))) (VInt nc) (VFn jfc) (VStr charsc) (VBool spc) = Ok (VStr col) ->
  exists b, gen_block_name (VInt conv) (VStr (surface_name conv)) (VStr col) no_map = Ok (VStr b) /\ length b = 5%nat /\
    gen_column_name (VInt conv) (VStr b) = Ok (VStr col) /\ gen_layer_name (VInt conv) (VStr b) = Ok (VStr (surface_name conv)).
Proof.
  intros C Ac Fc Hnc Ec.
  rewrite gen_column_closed in Ec by assumption.
  apply checked_ok in Ec as [Ec Lc]. injection Ec as Ec'.
  pose proof (nodecol_ge conv (collen conv) jfc charsc spc nc) as Gc.
  assert (Hc : length col = collen conv) by (subst col; lia).
  pose proof (surface_length conv C) as Hl.
  apply block_invertible; try assumption.
  apply conv_cases in C as [-> | [-> | [-> | ->]]].
  - apply quirk_free_03; [left; reflexivity|exact Hl|exact Hc|]. subst col. unfold nodecol_name. cbn [uses_chars_col Z.eqb Pos.eqb orb].
    apply i2c_just_nondigit; assumption.
  - apply quirk_free_1; [exact Hl|exact Hc|]. vm_compute. repeat constructor.
  - subst col. unfold nodecol_name in *. cbn [uses_chars_col Z.eqb Pos.eqb orb] in *. apply quirk_free_2; assumption.
  - apply quirk_free_03; [right; reflexivity|exact Hl|exact Hc|]. subst col. unfold nodecol_name. cbn [uses_chars_col Z.eqb Pos.eqb orb].
    apply i2c_just_nondigit; assumption.
Qed.
(** the single atmosphere block of atmos_type 0 *)
Theorem atmosphere_block_invertible conv : In conv [0; 1; 2; 3] ->
  exists b, gen_block_name (VInt conv) (VStr (surface_name conv)) (VStr (atmosphere_column conv)) no_map = Ok (VStr b) /\ length b = 5%nat /\
    gen_column_name (VInt conv) (VStr b) = Ok (VStr (atmosphere_column conv)) /\ gen_layer_name (VInt conv) (VStr b) = Ok (VStr (surface_name conv)).
Proof.
  intro C. apply conv_cases in C as [-> | [-> | [-> | ->]]]; eexists; vm_compute; repeat split; reflexivity.
Qed.

(** non-vacuity: a quirk-free pair, and a pair on which the repair fires (so the side condition is needed) *)
Example ex_block : gen_block_name (VInt 0) (vstr " 7") (vstr " ab") no_map = Ok (vstr " ab 7") /\ quirk_free 0 (s2l " 7") (s2l " ab").
Proof. split; vm_compute; reflexivity. Qed.
Example ex_quirk_fires : gen_block_name (VInt 0) (vstr " 7") (vstr "ab1") no_map = Ok (vstr "ab107") /\ ~ quirk_free 0 (s2l " 7") (s2l "ab1").
Proof. split; [vm_compute; reflexivity|]. vm_compute. discriminate. Qed.
Example ex_wf_pairs : Forall (wf_pair 2) [(s2l "at", s2l "  1"); (s2l " a", s2l "  1"); (s2l " a", s2l " 12")]
                      /\ NoDup [(s2l "at", s2l "  1"); (s2l " a", s2l "  1"); (s2l " a", s2l " 12")].
Proof.
  split; [repeat constructor|].
  repeat (constructor; [cbn [In]; intro H; repeat (destruct H as [H|H]; [discriminate H|]); exact H|]). constructor.
Qed.
