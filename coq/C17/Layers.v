(** C17 (d): the layer names add_layers produces.  The name-deciding slice of
    mulgrid.add_layers (tools/props/c17_translate.py) is translated with its `for` loop
    (structural) and its `while name == surfacelayername` loop (explicit fuel).  Proved: three
    units of fuel always suffice for the while loop (the skip happens at most once, by
    injectivity of the layer numbering); the result is either the explicit naming error or the
    surface layer's name followed by one name per thickness, all pairwise distinct (so no
    generated name equals the surface layer's) and of the convention's length; and the error
    is not raised while the number of layers is within the capacity. *)
From Coq Require Import Ascii String List Bool Arith ZArith NArith Lia.
From PTBase Require Import Exn PyStr PyNum PyVal.
From PTModel Require Import Names.
From Gen Require Import GenNames.
From P Require Import Spec Main Numeral Decimal Wrappers Block DictKey.
Import ListNotations.
Open Scope char_scope.
Open Scope Z_scope.

Lemma NoDup_snoc {A} (l : list A) x : NoDup l -> ~ In x l -> NoDup (l ++ [x]).
Proof.
  intros ND N. apply NoDup_app_disj; [exact ND|repeat constructor; intros []|].
  intros y Hy [<-|[]]. contradiction.
Qed.

Section Loop.
Variables (conv : Z) (L : nat) (chars : str) (jf : fnid) (sp : bool) (surf : str).
Hypothesis A : alphabet_ok sp chars.
Hypothesis HL : (1 <= L)%nat.
Definition W (n : Z) : res pyval :=
  gen_layer_name_from_number (VInt conv) (VInt (Z.of_nat L)) (VInt n) (VFn jf) (VStr chars) (VBool sp).
Definition capL : Z := lay_capacity conv chars sp L.

Lemma W_inj a b s : 0 <= a -> 0 <= b -> W a = Ok s -> W b = Ok s -> a = b.
Proof. intros. eapply layer_inj; eauto. Qed.

Lemma while_step f justify names th ths name num k :
  gen_add_layers_while2 (S f) (VInt conv) (VInt (Z.of_nat L)) (VStr chars) (VFn jf) justify names (VBool sp) (VStr surf) th ths (VStr name) (VInt num) k
  = if str_eqb name surf then
      (do v <- W (num + 1);
       gen_add_layers_while2 f (VInt conv) (VInt (Z.of_nat L)) (VStr chars) (VFn jf) justify names (VBool sp) (VStr surf) th ths v (VInt (num + 1)) k)
    else k (VStr name) (VInt num).
Proof. cbn [gen_add_layers_while2 bind py_eqb truthy py_add as_int]. destruct (str_eqb name surf); reflexivity. Qed.

Lemma while_spec fuel justify names th ths num k : (3 <= fuel)%nat -> 0 <= num ->
  let r := gen_add_layers_while2 fuel (VInt conv) (VInt (Z.of_nat L)) (VStr chars) (VFn jf) justify names (VBool sp) (VStr surf) th ths (VStr surf) (VInt num) k in
  (r = Raise NamingConventionError /\ (capL < num + 1 \/ (W (num + 1) = Ok (VStr surf) /\ capL < num + 2)))
  \/ (exists s, r = k (VStr s) (VInt (num + 1)) /\ s <> surf /\ W (num + 1) = Ok (VStr s) /\ length s = L)
  \/ (exists s, r = k (VStr s) (VInt (num + 2)) /\ s <> surf /\ W (num + 1) = Ok (VStr surf) /\ W (num + 2) = Ok (VStr s) /\ length s = L).
Proof.
  intros Hf Hn. destruct fuel as [|[|[|f]]]; try lia. cbv zeta.
  rewrite while_step, str_eqb_refl.
  destruct (layer_total conv L jf chars sp (num + 1) A ltac:(lia) HL) as [[E C]|(s1 & E & L1 & C)]; fold (W (num + 1)) in E; rewrite E; cbn [bind].
  { left. split; [reflexivity|]. left. exact C. }
  rewrite while_step. destruct (str_eqb s1 surf) eqn:Q1.
  - apply str_eqb_eq in Q1. subst s1. replace (num + 1 + 1) with (num + 2) by lia.
    destruct (layer_total conv L jf chars sp (num + 2) A ltac:(lia) HL) as [[E2 C2]|(s2 & E2 & L2 & C2)]; fold (W (num + 2)) in E2; rewrite E2; cbn [bind].
    { left. split; [reflexivity|]. right. split; [reflexivity|exact C2]. }
    rewrite while_step. destruct (str_eqb s2 surf) eqn:Q2.
    + apply str_eqb_eq in Q2. subst s2. exfalso. assert (num + 1 = num + 2) by (eapply W_inj; eauto; lia). lia.
    + right. right. exists s2. split; [reflexivity|]. split; [intros ->; rewrite str_eqb_refl in Q2; discriminate|]. auto.
  - right. left. exists s1. split; [reflexivity|]. split; [intros ->; rewrite str_eqb_refl in Q1; discriminate|]. auto.
Qed.

Lemma for_step fuel justify ths th items name names num k :
  gen_add_layers_for1 fuel (VInt conv) (VInt (Z.of_nat L)) (VStr chars) (VFn jf) justify (VBool sp) (VStr surf) ths (th :: items) name names (VInt num) k
  = gen_add_layers_while2 fuel (VInt conv) (VInt (Z.of_nat L)) (VStr chars) (VFn jf) justify names (VBool sp) (VStr surf) th ths (VStr surf) (VInt num)
      (fun v_name v_num => do v_names_ <- py_add names (VList [v_name]);
         gen_add_layers_for1 fuel (VInt conv) (VInt (Z.of_nat L)) (VStr chars) (VFn jf) justify (VBool sp) (VStr surf) ths items v_name v_names_ v_num k).
Proof. reflexivity. Qed.

Definition Inv (nl : list str) (num : Z) : Prop :=
  NoDup nl /\ In surf nl /\ Forall (fun s => length s = L) nl
  /\ (forall s, In s nl -> s = surf \/ exists m, 0 < m <= num /\ W m = Ok (VStr s))
  /\ ((num = Z.of_nat (length nl) - 1 /\ forall m, 0 < m <= num -> W m <> Ok (VStr surf))
      \/ (num = Z.of_nat (length nl) /\ exists m, 0 < m <= num /\ W m = Ok (VStr surf))).

Lemma Inv_snoc nl num s num' : 0 <= num -> Inv nl num -> s <> surf -> length s = L -> W num' = Ok (VStr s) ->
  ((num' = num + 1) \/ (num' = num + 2 /\ W (num + 1) = Ok (VStr surf))) -> Inv (nl ++ [s]) num'.
Proof.
  intros Hn (ND & IS & FL & Src & Cnt) Ns Ls Ws Step.
  assert (Fresh : ~ In s nl).
  { intro I. destruct (Src s I) as [->|(m & Hm & Wm)]; [congruence|].
    assert (m = num') by (eapply W_inj; eauto; lia). lia. }
  assert (NoSkipTwice : forall m, 0 < m <= num -> W m = Ok (VStr surf) -> W (num + 1) = Ok (VStr surf) -> False).
  { intros m Hm W1 W2. assert (m = num + 1) by (eapply W_inj; eauto; lia). lia. }
  split; [apply NoDup_snoc; assumption|]. split; [apply in_or_app; left; exact IS|].
  split; [apply Forall_app; split; [exact FL|repeat constructor; exact Ls]|].
  split.
  - intros t Ht. apply in_app_or in Ht as [Ht|[<-|[]]].
    + destruct (Src t Ht) as [->|(m & Hm & Wm)]; [left; reflexivity|]. right. exists m. split; [lia|exact Wm].
    + right. exists num'. split; [lia|exact Ws].
  - rewrite app_length. cbn [length]. destruct Step as [->|[-> W1]].
    + destruct Cnt as [[C1 C2]|[C1 (m & Hm & Wm)]].
      * left. split; [lia|]. intros m Hm Wm. destruct (Z.eq_dec m (num + 1)) as [->|D].
        -- rewrite Ws in Wm. injection Wm as Wm. contradiction.
        -- apply (C2 m); [lia|exact Wm].
      * right. split; [lia|]. exists m. split; [lia|exact Wm].
    + destruct Cnt as [[C1 C2]|[C1 (m & Hm & Wm)]].
      * right. split; [lia|]. exists (num + 1). split; [lia|exact W1].
      * exfalso. eapply NoSkipTwice; eauto.
Qed.

Lemma for_spec fuel justify ths k : (3 <= fuel)%nat -> forall items name nl num, 0 <= num -> Inv nl num ->
  let r := gen_add_layers_for1 fuel (VInt conv) (VInt (Z.of_nat L)) (VStr chars) (VFn jf) justify (VBool sp) (VStr surf) ths items name
             (VList (map VStr nl)) (VInt num) k in
  (r = Raise NamingConventionError /\ capL < Z.of_nat (length nl + length items))
  \/ (exists name' nl' num', r = k name' (VList (map VStr (nl ++ nl'))) (VInt num') /\ length nl' = length items /\ 0 <= num' /\ Inv (nl ++ nl') num').
Proof.
  intros Hf. induction items as [|th items IH]; intros name nl num Hn I; cbv zeta.
  - right. exists name, [], num. rewrite app_nil_r. cbn [gen_add_layers_for1]. auto.
  - rewrite for_step.
    assert (Hnum : num <= Z.of_nat (length nl)) by (destruct I as (_ & _ & _ & _ & [[C _]|[C _]]); lia).
    destruct (while_spec fuel justify (VList (map VStr nl)) th ths num
               (fun v_name v_num => do v_names_ <- py_add (VList (map VStr nl)) (VList [v_name]);
                  gen_add_layers_for1 fuel (VInt conv) (VInt (Z.of_nat L)) (VStr chars) (VFn jf) justify (VBool sp) (VStr surf) ths items v_name v_names_ v_num k)
               Hf Hn) as [[E C]|[(s & E & Ns & Ws & Ls)|(s & E & Ns & W1 & Ws & Ls)]]; rewrite E; clear E.
    + left. split; [reflexivity|]. cbn [length]. destruct C as [C|[W1 C]]; [lia|].
      destruct I as (_ & _ & _ & _ & [[C1 _]|[C1 (m & Hm & Wm)]]); [lia|].
      exfalso. assert (m = num + 1) by (eapply W_inj; eauto; lia). lia.
    + cbn [py_add bind]. change [VStr s] with (map VStr [s]). rewrite <- map_app.
      assert (I' : Inv (nl ++ [s]) (num + 1)) by (eapply Inv_snoc; eauto).
      destruct (IH (VStr s) (nl ++ [s])%list (num + 1) ltac:(lia) I') as [[E C]|(name' & nl' & num' & E & Len & Hn' & I'')]; cbv zeta in E; rewrite E.
      * left. split; [reflexivity|]. rewrite app_length in C. cbn [length] in *. lia.
      * right. exists name', (s :: nl'), num'. rewrite <- app_assoc in I'' |- *. cbn [app] in I'' |- *. cbn [length]. auto.
    + cbn [py_add bind]. change [VStr s] with (map VStr [s]). rewrite <- map_app.
      assert (I' : Inv (nl ++ [s]) (num + 2)) by (eapply Inv_snoc; eauto).
      destruct (IH (VStr s) (nl ++ [s])%list (num + 2) ltac:(lia) I') as [[E C]|(name' & nl' & num' & E & Len & Hn' & I'')]; cbv zeta in E; rewrite E.
      * left. split; [reflexivity|]. rewrite app_length in C. cbn [length] in *. lia.
      * right. exists name', (s :: nl'), num'. rewrite <- app_assoc in I'' |- *. cbn [app] in I'' |- *. cbn [length]. auto.
Qed.
End Loop.

Definition jf_of (justify : pyval) : fnid := if py_eqb justify (vstr "l") then F_ljust else F_rjust.

Lemma add_layers_unfold fuel conv (L : Z) ths justify chars0 sp : In conv [0; 1; 2; 3] ->
  gen_add_layers fuel (VInt conv) (VInt L) (VList ths) justify (VStr chars0) (VBool sp)
  = gen_add_layers_for1 fuel (VInt conv) (VInt L) (VStr (uniq chars0)) (VFn (jf_of justify)) justify (VBool sp)
      (VStr (surface_name conv)) (VList ths) ths VNone (VList [VStr (surface_name conv)]) (VInt 0) (fun _ n _ => Ok n).
Proof.
  intro C. unfold gen_add_layers, jf_of.
  apply conv_cases in C as [-> | [-> | [-> | ->]]]; destruct (py_eqb justify (vstr "l")); reflexivity.
Qed.

(** the layer names add_layers produces *)
Theorem add_layers_names fuel conv ths justify chars0 sp : (3 <= fuel)%nat -> In conv [0; 1; 2; 3] ->
  alphabet_ok sp (uniq chars0) ->
  let r := gen_add_layers fuel (VInt conv) (VInt (Z.of_nat (laylen conv))) (VList ths) justify (VStr chars0) (VBool sp) in
  (r = Raise NamingConventionError /\ lay_capacity conv (uniq chars0) sp (laylen conv) < Z.of_nat (length ths) + 1)
  \/ (exists nl, r = Ok (VList (map VStr (surface_name conv :: nl))) /\ length nl = length ths
        /\ NoDup (surface_name conv :: nl) /\ Forall (fun s => length s = laylen conv) (surface_name conv :: nl)).
Proof.
  intros Hf C A. cbv zeta. rewrite add_layers_unfold by assumption.
  assert (HL : (1 <= laylen conv)%nat) by (apply conv_cases in C as [-> | [-> | [-> | ->]]]; vm_compute; lia).
  assert (I0 : Inv conv (laylen conv) (uniq chars0) (jf_of justify) sp (surface_name conv) [surface_name conv] 0).
  { split; [repeat constructor; intros []|]. split; [left; reflexivity|].
    split; [repeat constructor; apply surface_length; exact C|].
    split; [intros s [<-|[]]; left; reflexivity|]. left. split; [reflexivity|]. intros m Hm. lia. }
  destruct (for_spec conv (laylen conv) (uniq chars0) (jf_of justify) sp (surface_name conv) A HL fuel justify (VList ths)
              (fun _ n _ => Ok n) Hf ths VNone [surface_name conv] 0 ltac:(lia) I0)
    as [[E Cp]|(name' & nl' & num' & E & Len & _ & (ND & _ & FL & _))]; cbv zeta in E; cbn [map] in E; rewrite E.
  - left. split; [reflexivity|]. unfold capL in Cp. cbn [length] in Cp. lia.
  - right. exists nl'. cbn [app] in *. auto.
Qed.

(** ... in particular no layer is ever given the surface layer's name, and the error cannot
    happen while there are at most capacity - 1 layers *)
Corollary add_layers_never_surface fuel conv ths justify chars0 sp nl : (3 <= fuel)%nat -> In conv [0; 1; 2; 3] ->
  alphabet_ok sp (uniq chars0) ->
  gen_add_layers fuel (VInt conv) (VInt (Z.of_nat (laylen conv))) (VList ths) justify (VStr chars0) (VBool sp)
    = Ok (VList (map VStr (surface_name conv :: nl))) ->
  ~ In (surface_name conv) nl /\ NoDup nl.
Proof.
  intros Hf C A E. destruct (add_layers_names fuel conv ths justify chars0 sp Hf C A) as [[E' _]|(nl' & E' & _ & ND & _)]; cbv zeta in E'; rewrite E' in E; [discriminate|].
  injection E as E. assert (nl' = nl).
  { clear -E. revert nl E. induction nl' as [|x r IH]; intros [|y t] E; try discriminate; [reflexivity|]. cbn [map] in E. injection E as E1 E2. f_equal; auto. }
  subst nl'. inversion ND. auto.
Qed.

(** non-vacuity: the skip really happens (convention 2, layer 46 would be "at") *)
Example ex_skip_at :
  match gen_add_layers 3 (VInt 2) (VInt 2) (VList (repeat VNone 47)) (vstr "r") (vstr "abcdefghijklmnopqrstuvwxyz") (VBool true) with
  | Ok (VList l) => (nth 0 l VNone, nth 45 l VNone, nth 46 l VNone, length l)
  | _ => (VNone, VNone, VNone, 0%nat)
  end = (vstr "at", vstr "as", vstr "au", 48%nat).
Proof. vm_compute. reflexivity. Qed.
Example ex_alphabet_uniq : alphabet_ok true (uniq (s2l "abcabc")) /\ alphabet_ok false (uniq (s2l "abcabc")).
Proof.
  split; apply uniq_alphabet_ok; try discriminate.
  - intros _ H. cbn in H. intuition discriminate.
  - intros _. exists "a", "b". cbn. intuition discriminate.
Qed.
