(** extraction of the generated naming functions for the C17 correspondence *)
From Coq Require Import Ascii String List Bool Arith ZArith NArith.
From PTBase Require Import Exn PyStr PyNum PyVal Wire.
From Gen Require Import GenNames.
Import ListNotations.

Definition colon : ascii := ":"%char.
(** argument encodings: N | I:<z> | S:<hex> | B:0/1 | F:r/l *)
Definition dec_arg (s : str) : pyval :=
  match split_c colon s with
  | [k; a] => if str_eqb k (s2l "I") then VInt (z_of_str a)
              else if str_eqb k (s2l "S") then VStr (unhex a)
              else if str_eqb k (s2l "B") then VBool (str_eqb a (s2l "1"))
              else if str_eqb k (s2l "F") then VFn (if str_eqb a (s2l "l") then F_ljust else F_rjust)
              else VNone
  | _ => VNone
  end.
Definition is (k : str) (n : string) : bool := str_eqb k (s2l n).
Definition run_case (line : str) : str :=
  match fields line with
  | k :: args =>
      let a := map dec_arg args in
      show_res
      match a with
      | [x] => if is k "fix" then gen_fix_blockname x else if is k "unfix" then gen_unfix_blockname x
               else if is k "valid" then gen_valid_blockname x else if is k "uniq" then gen_uniqstring x else Raise PlainException
      | [x; y] => if is k "colname" then gen_column_name x y else if is k "layname" then gen_layer_name x y
                  else if is k "pad" then gen_padstring x y else Raise PlainException
      | [i; st; chars; sp; len] => if is k "i2c" then gen_int_to_chars (fuel_of i) i st chars sp len else Raise PlainException
      | [conv; clen; num; jf; chars; sp] =>
          if is k "colnum" then gen_column_name_from_number conv clen num jf chars sp
          else if is k "nodenum" then gen_node_name_from_number conv clen num jf chars sp
          else if is k "laynum" then gen_layer_name_from_number conv clen num jf chars sp
          else Raise PlainException
      | [conv; lay; col] => if is k "blkname" then gen_block_name conv lay col (VDict []) else Raise PlainException
      | _ => Raise PlainException
      end
  | _ => s2l "BADCASE"
  end.

Require Extraction.
Require Import ExtrOcamlBasic ExtrOcamlString.
Extraction "Drv.ml" run_case.
