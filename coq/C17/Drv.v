(** extraction of the generated naming functions for the C17 correspondence *)
From Coq Require Import Ascii String List Bool Arith ZArith NArith.
From PTBase Require Import Exn PyStr PyNum PyVal Wire.
From P Require Import PyExt.
From Gen Require Import GenNames.
Import ListNotations.

Definition colon : ascii := ":"%char.
(** argument encodings: N | I:<z> | S:<hex> | B:0/1 | F:r/l | D:<hex>,<hex>,.. (dict keys) | L:<n> (list of n items)
    | SL:<hex>,.. (list of strings) | M:<hex>=<hex>,.. (dict of strings) *)
Definition dec_arg (s : str) : pyval :=
  match split_c colon s with
  | [k; a] => if str_eqb k (s2l "I") then VInt (z_of_str a)
              else if str_eqb k (s2l "S") then VStr (unhex a)
              else if str_eqb k (s2l "B") then VBool (str_eqb a (s2l "1"))
              else if str_eqb k (s2l "F") then VFn (if str_eqb a (s2l "l") then F_ljust else F_rjust)
              else if str_eqb k (s2l "D") then VDict (map (fun h => (VStr (unhex h), VNone)) (filter (fun h => negb (str_eqb h [])) (split_c ","%char a)))
              else if str_eqb k (s2l "L") then VList (repeat VNone (nat_of_str a))
              else if str_eqb k (s2l "SL") then VList (map (fun h => VStr (unhex h)) (filter (fun h => negb (str_eqb h [])) (split_c ","%char a)))
              else if str_eqb k (s2l "M") then
                VDict (map (fun e => match split_c "="%char e with [x; y] => (VStr (unhex x), VStr (unhex y)) | _ => (VNone, VNone) end)
                           (filter (fun h => negb (str_eqb h [])) (split_c ","%char a)))
              else VNone
  | _ => VNone
  end.
Definition is (k : str) (n : string) : bool := str_eqb k (s2l n).
Definition dict_size (v : pyval) : nat := match v with VDict d => length d | _ => 0 end.
(** the per-convention tables read from set_secondary_variables *)
Definition tables (conv : pyval) : res pyval :=
  match conv with
  | VInt c => let i := Z.to_nat c in
      match nth_error gen_colname_length_tbl i, nth_error gen_layername_length_tbl i, nth_error gen_atmosphere_column_name_tbl i with
      | Some a, Some b, Some n => Ok (VTuple [VInt a; VInt b; VStr (s2l n)])
      | _, _, _ => Raise IndexError
      end
  | _ => Raise TypeError
  end.
Definition run_case (line : str) : str :=
  match fields line with
  | k :: args =>
      let a := map dec_arg args in
      show_res
      match a with
      | [x] => if is k "fix" then gen_fix_blockname x else if is k "unfix" then gen_unfix_blockname x
               else if is k "valid" then gen_valid_blockname x else if is k "uniq" then gen_uniqstring x
               else if is k "tbl" then tables x
               (* fix_block_mapping: the final dictionary, printed as its item list *)
               else if is k "fixmap" then (do r <- gen_fix_block_mapping 0 x; py_items r)
               else Raise PlainException
      | [x; y] => if is k "colname" then gen_column_name x y else if is k "layname" then gen_layer_name x y
                  else if is k "pad" then gen_padstring x y
                  else if is k "rectchars" then gen_rectangular x y else Raise PlainException
      | [conv; lay; col; m] => if is k "blkmap" then gen_block_name conv lay col m else Raise PlainException
      (* refine_layers (name slice): right_justified_names convention layername_length names chars spaces thicknesses; fuel 3 *)
      | [rj; conv; len; names; chars; sp; ths] => if is k "reflay" then gen_refine_layers 3 rj conv len names chars sp ths else Raise PlainException
      | [i; st; chars; sp; len] => if is k "i2c" then gen_int_to_chars (fuel_of i) i st chars sp len else Raise PlainException
      | [conv; clen; num; jf; chars; sp] =>
          if is k "colnum" then gen_column_name_from_number conv clen num jf chars sp
          else if is k "nodenum" then gen_node_name_from_number conv clen num jf chars sp
          else if is k "laynum" then gen_layer_name_from_number conv clen num jf chars sp
          (* new_dict_key d istart justfn length chars spaces, with the |d| + 2 units of fuel of theorem new_dict_key_unused *)
          else if is k "ndk" then gen_new_dict_key (dict_size conv + 2) conv clen num jf chars sp
          (* add_layers (name slice) convention layername_length thicknesses justify chars spaces, with the 3 units of fuel
             of theorem add_layers_layer_names *)
          else if is k "addlay" then gen_add_layers 3 conv clen num jf chars sp
          (* new_node_name / new_column_name: dict colname_length istart justfn chars spaces, fuel |d| + 2 *)
          else if is k "newnode" then gen_new_node_name (dict_size conv + 2) conv clen num jf chars sp
          else if is k "newcol" then gen_new_column_name (dict_size conv + 2) conv clen num jf chars sp
          else Raise PlainException
      | [conv; lay; col] => if is k "blkname" then gen_block_name conv lay col (VDict []) else Raise PlainException
      | _ => Raise PlainException
      end
  | _ => s2l "BADCASE"
  end.

Require Extraction.
Require Import ExtrOcamlBasic ExtrOcamlString.
Extraction "Drv.ml" run_case.
