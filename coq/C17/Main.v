(** C17: laws of the naming functions, stated about the functions generated from the
    current mulgrids.py. *)
From Coq Require Import Ascii String List Bool Arith ZArith NArith Lia.
From PTBase Require Import Exn PyStr PyNum PyVal.
From PTModel Require Import Names.
From Gen Require Import GenNames.
From P Require Import Spec.
Import ListNotations.
Open Scope char_scope.

Lemma five_cases (n : str) : length n = 5%nat -> exists c0 c1 c2 c3 c4, n = [c0; c1; c2; c3; c4].
Proof. destruct n as [|c0 [|c1 [|c2 [|c3 [|c4 [|c5 r]]]]]]; try discriminate. intros _. eauto 6. Qed.
Lemma gen_fix5 n : length n = 5%nat -> gen_fix_blockname (VStr n) = Ok (VStr (fix_blockname n)).
Proof. intro H. destruct (five_cases n H) as (c0 & c1 & c2 & c3 & c4 & ->). apply gen_fix_blockname_spec. Qed.
Lemma gen_unfix5 n : length n = 5%nat -> gen_unfix_blockname (VStr n) = Ok (VStr (unfix_blockname n)).
Proof. intro H. destruct (five_cases n H) as (c0 & c1 & c2 & c3 & c4 & ->). apply gen_unfix_blockname_spec. Qed.
Lemma fmt2_length v : length (fmt2 v) = 2%nat.
Proof. unfold fmt2. destruct (v <? 10)%nat; reflexivity. Qed.
Lemma unfix_length n : length n = 5%nat -> length (unfix_blockname n) = 5%nat.
Proof.
  intro H. destruct (five_cases n H) as (c0 & c1 & c2 & c3 & c4 & ->). cbn [unfix_blockname].
  destruct (is_digit c3 && is_digit c4); [|reflexivity]. cbn [app length]. rewrite fmt2_length. reflexivity.
Qed.

(** repairing is idempotent *)
Lemma t_fix_idem n : length n = 5%nat ->
  exists r, gen_fix_blockname (VStr n) = Ok (VStr r) /\ gen_fix_blockname (VStr r) = Ok (VStr r).
Proof.
  intro H. exists (fix_blockname n). split; [apply gen_fix5; exact H|].
  rewrite gen_fix5 by (rewrite fix_length; exact H). rewrite fix_idem. reflexivity.
Qed.
(** un-repairing returns exactly the name as the simulator prints it *)
Lemma t_unfix_fix_printed n : printed_A3I2 n = true ->
  exists r, gen_fix_blockname (VStr n) = Ok (VStr r) /\ gen_unfix_blockname (VStr r) = Ok (VStr n).
Proof.
  intro P. assert (H : length n = 5%nat).
  { destruct n as [|c0 [|c1 [|c2 [|c3 [|c4 [|c5 r]]]]]]; try discriminate P; reflexivity. }
  exists (fix_blockname n). split; [apply gen_fix5; exact H|].
  rewrite gen_unfix5 by (rewrite fix_length; exact H). rewrite unfix_fix_printed by exact P. reflexivity.
Qed.
(** one write-then-read cycle (unfix on write, fix on read) reaches a form that further cycles keep *)
Definition gen_cycle (v : pyval) : res pyval := do u <- gen_unfix_blockname v; gen_fix_blockname u.
Lemma t_cycle_stabilises n : length n = 5%nat ->
  exists r, gen_cycle (VStr n) = Ok (VStr r) /\ gen_cycle (VStr r) = Ok (VStr r).
Proof.
  intro H. exists (cycle n). unfold gen_cycle. split.
  - rewrite gen_unfix5 by exact H. cbn [bind]. rewrite gen_fix5 by (apply unfix_length; exact H). reflexivity.
  - assert (H1 : length (cycle n) = 5%nat) by (unfold cycle; rewrite fix_length; apply unfix_length; exact H).
    rewrite gen_unfix5 by exact H1. cbn [bind]. rewrite gen_fix5 by (apply unfix_length; exact H1).
    fold (cycle (cycle n)). rewrite cycle_stabilises. reflexivity.
Qed.

(** int_to_chars (spaces = True) is the bijective base-n numeration [name] *)
Lemma t_i2c_name chars i len : chars <> [] -> (0 <= i)%Z ->
  gen_int_to_chars (fuel_of (VInt i)) (VInt i) (vstr "") (VStr chars) (VBool true) (VInt len)
  = Ok (VStr (name chars (Z.to_N i))).
Proof.
  intros NE Hi. unfold vstr. cbn [s2l list_ascii_of_string fuel_of]. rewrite gen_i2c_spaces by (try assumption; lia).
  unfold name. rewrite Z_N_nat. reflexivity.
Qed.
Lemma t_i2c_inj chars i j len : NoDup chars -> chars <> [] -> (0 <= i)%Z -> (0 <= j)%Z ->
  gen_int_to_chars (fuel_of (VInt i)) (VInt i) (vstr "") (VStr chars) (VBool true) (VInt len)
  = gen_int_to_chars (fuel_of (VInt j)) (VInt j) (vstr "") (VStr chars) (VBool true) (VInt len) -> i = j.
Proof.
  intros ND NE Hi Hj E. rewrite !t_i2c_name in E by assumption. inversion E as [E'].
  assert (Hn : (0 < N.of_nat (length chars))%N) by (destruct chars; [congruence|cbn [length]; lia]).
  apply (name_inj chars Hn ND) in E'. lia.
Qed.
Lemma t_i2c_alphabet chars i len : chars <> [] -> (0 <= i)%Z ->
  exists s, gen_int_to_chars (fuel_of (VInt i)) (VInt i) (vstr "") (VStr chars) (VBool true) (VInt len) = Ok (VStr s)
            /\ Forall (fun c => In c chars) s.
Proof.
  intros NE Hi. exists (name chars (Z.to_N i)). split; [apply t_i2c_name; assumption|].
  apply name_chars. destruct chars; [congruence|cbn [length]; lia].
Qed.
(** the name of i has at most L characters exactly when i <= n + n^2 + ... + n^L *)
Lemma t_i2c_capacity chars i len L : chars <> [] -> (0 <= i)%Z ->
  exists s, gen_int_to_chars (fuel_of (VInt i)) (VInt i) (vstr "") (VStr chars) (VBool true) (VInt len) = Ok (VStr s)
            /\ ((length s <= L)%nat <-> (Z.to_N i <= cap chars L)%N).
Proof.
  intros NE Hi. exists (name chars (Z.to_N i)). split; [apply t_i2c_name; assumption|].
  apply name_length_cap. destruct chars; [congruence|cbn [length]; lia].
Qed.

(** non-vacuity *)
Example ex_printed : printed_A3I2 (s2l "ab1 5") = true /\ fix_blockname (s2l "ab1 5") = s2l "ab105".
Proof. split; reflexivity. Qed.
Example ex_names : map (fun i => name (s2l "abc") i) [1; 3; 4; 12; 13; 39; 40]%N
                 = map s2l ["a"; "c"; "aa"; "cc"; "aaa"; "ccc"; "aaaa"]%string.
Proof. vm_compute. reflexivity. Qed.
