(** C17 (b): facts about Python's [str(num)] as modelled by [PyVal.z_to_str] (the standard
    library's decimal printer) for num >= 0: injective, digits only (no blank), and at most L
    characters exactly when num < 10^L (L >= 1). *)
From Coq Require Import Ascii String List Bool Arith ZArith NArith Lia.
From Coq Require Import Decimal DecimalFacts DecimalPos DecimalN DecimalZ DecimalString.
From PTBase Require Import Exn PyStr PyNum PyVal.
Import ListNotations.
Open Scope char_scope.

Definition dstr (d : uint) : str := s2l (NilEmpty.string_of_uint d).

Lemma s2l_inj a b : s2l a = s2l b -> a = b.
Proof.
  unfold s2l. intro E. rewrite <- (string_of_list_ascii_of_string a), <- (string_of_list_ascii_of_string b), E. reflexivity.
Qed.
Lemma dstr_inj a b : dstr a = dstr b -> a = b.
Proof.
  intro E. apply s2l_inj in E. pose proof (NilEmpty.usu a) as Ha. rewrite E, NilEmpty.usu in Ha. congruence.
Qed.
Lemma dstr_length d : length (dstr d) = nb_digits d.
Proof. unfold dstr, s2l. induction d; cbn [NilEmpty.string_of_uint list_ascii_of_string length nb_digits]; congruence. Qed.
Lemma dstr_digits d : Forall (fun c => is_digit c = true) (dstr d).
Proof. unfold dstr, s2l. induction d; cbn [NilEmpty.string_of_uint list_ascii_of_string]; constructor; auto. Qed.

Lemma z_to_str_nonneg z : (0 <= z)%Z -> z_to_str z = dstr (N.to_uint (Z.to_N z)).
Proof.
  intro H. unfold z_to_str, dstr. f_equal. destruct z as [|p|p]; [reflexivity| |lia].
  cbn [Z.to_int Z.to_N N.to_uint NilZero.string_of_int]. unfold NilZero.string_of_uint.
  pose proof (Unsigned.to_uint_nonnil p) as NN. destruct (Pos.to_uint p); [congruence|reflexivity..].
Qed.

Theorem z_to_str_inj a b : (0 <= a)%Z -> (0 <= b)%Z -> z_to_str a = z_to_str b -> a = b.
Proof.
  intros Ha Hb E. rewrite !z_to_str_nonneg in E by assumption.
  apply dstr_inj, DecimalN.Unsigned.to_uint_inj in E. lia.
Qed.
Theorem z_to_str_noblank z : (0 <= z)%Z -> ~ In " " (z_to_str z).
Proof.
  intros H I. rewrite z_to_str_nonneg in I by assumption.
  pose proof (dstr_digits (N.to_uint (Z.to_N z))) as F. rewrite Forall_forall in F. apply F in I. discriminate I.
Qed.

(** *** length law *)
Open Scope N_scope.
Import DecimalPos.Unsigned.
Lemma usize_nb d : usize d = N.of_nat (nb_digits d).
Proof. induction d; cbn [usize nb_digits]; rewrite ?IHd; lia. Qed.
Lemma of_lu_bound d : of_lu d < 10 ^ usize d.
Proof.
  induction d; cbn [of_lu usize]; rewrite ?N.pow_succ_r'; try lia.
Qed.
Lemma of_uint_bound d : Pos.of_uint d < 10 ^ N.of_nat (nb_digits d).
Proof. rewrite of_uint_alt, <- (nb_digits_rev d), <- usize_nb. apply of_lu_bound. Qed.

Lemma nzhead_fix_head d : nzhead d = d -> match d with D0 _ => False | _ => True end.
Proof.
  destruct d; try exact (fun _ => I). cbn [nzhead]. intro E.
  pose proof (nb_digits_nzhead d) as H. rewrite E in H. cbn [nb_digits] in H. lia.
Qed.
Lemma of_uint_lower d : d <> Nil -> match d with D0 _ => False | _ => True end ->
  10 ^ N.of_nat (nb_digits d - 1) <= Pos.of_uint d.
Proof.
  intros NN H. rewrite of_uint_alt.
  assert (G : forall k d', 1 <= k -> of_lu (rev d') + k * 10 ^ usize d' >= 10 ^ N.of_nat (nb_digits d')).
  { intros k d' Hk. rewrite usize_nb. assert (0 < 10 ^ N.of_nat (nb_digits d')) by (apply N.neq_0_lt_0, N.pow_nonzero; lia). nia. }
  destruct d; try contradiction; try congruence; unfold rev; cbn [revapp nb_digits]; rewrite of_lu_revapp; cbn [of_lu];
    replace (S (nb_digits d) - 1)%nat with (nb_digits d) by lia;
    match goal with |- _ <= _ + ?k * _ => specialize (G k d ltac:(lia)) end; lia.
Qed.
Lemma pos_to_uint_norm p : nzhead (Pos.to_uint p) = Pos.to_uint p.
Proof.
  pose proof (to_of (Pos.to_uint p)) as H. rewrite of_to in H. cbn [N.to_uint] in H.
  pose proof (to_uint_nonzero p) as NZ.
  unfold unorm in H. destruct (nzhead (Pos.to_uint p)) eqn:E; try (symmetry; exact H).
  exfalso. apply NZ. exact H.
Qed.

Theorem to_uint_digits_cap n L : (1 <= L)%nat -> (nb_digits (N.to_uint n) <= L)%nat <-> n < 10 ^ N.of_nat L.
Proof.
  intro HL. split.
  - intro H. rewrite <- (DecimalN.Unsigned.of_to n). unfold N.of_uint.
    eapply N.lt_le_trans; [apply of_uint_bound|]. apply N.pow_le_mono_r; lia.
  - intro H. destruct n as [|p].
    + cbn. lia.
    + cbn [N.to_uint]. destruct (le_lt_dec (nb_digits (Pos.to_uint p)) L) as [G|G]; [exact G|exfalso].
      pose proof (of_uint_lower (Pos.to_uint p) (to_uint_nonnil p) (nzhead_fix_head _ (pos_to_uint_norm p))) as LB.
      rewrite of_to in LB.
      assert (10 ^ N.of_nat L <= 10 ^ N.of_nat (nb_digits (Pos.to_uint p) - 1)) by (apply N.pow_le_mono_r; lia).
      lia.
Qed.

Theorem z_to_str_length_cap z L : (0 <= z)%Z -> (1 <= L)%nat ->
  (length (z_to_str z) <= L)%nat <-> (z < 10 ^ Z.of_nat L)%Z.
Proof.
  intros Hz HL. rewrite z_to_str_nonneg, dstr_length by assumption.
  rewrite to_uint_digits_cap by assumption.
  rewrite <- (Z2N.id z) at 2 by assumption.
  change 10%Z with (Z.of_N 10). rewrite <- nat_N_Z, <- N2Z.inj_pow. lia.
Qed.

Example ex_decimal : map z_to_str [0; 7; 99; 100; 20000]%Z = map s2l ["0"; "7"; "99"; "100"; "20000"]%string.
Proof. vm_compute. reflexivity. Qed.
