(** C17 (round 6e): block_name with ANY block mapping gives a valid block name when the plain name and the mapping's values are valid. *)
From Coq Require Import Ascii String List Bool Arith ZArith NArith Lia.
From PTBase Require Import Exn PyStr PyNum PyVal.
From PTModel Require Import Names.
From P Require Import PyExt.
From Gen Require Import GenNames.
From P Require Import Spec Main Block Maps Valid.
Import ListNotations.

Definition values_valid (d : list (pyval * pyval)) : Prop :=
  forall k w, dict_get d k = Some w -> gen_valid_blockname w = Ok (VBool true).

Lemma t_mapped_block_name_valid conv lay col d : In conv [0; 1; 2; 3]%Z -> length lay = laylen conv -> length col = collen conv ->
  valid5 (raw_block conv lay col) = true -> values_valid d ->
  exists b, gen_block_name (VInt conv) (VStr lay) (VStr col) (VDict d) = Ok b /\ gen_valid_blockname b = Ok (VBool true).
Proof.
  intros C Hl Hc V W. rewrite (gen_block_name_mapped conv lay col d C Hl Hc).
  destruct (dict_get d (VStr (fix_blockname (raw_block conv lay col)))) as [w|] eqn:G.
  - exists w. split; [reflexivity|]. exact (W _ _ G).
  - eexists. split; [reflexivity|].
    rewrite gen_valid5 by (rewrite fix_length; apply raw_length; assumption). rewrite valid5_fix, V. reflexivity.
Qed.

(** non-vacuity: a mapping that renames block "ab105" *)
Example ex_mapped_valid : let d := [(vstr "ab105", vstr "zz  9")] in
  values_valid d /\ valid5 (raw_block 0 (s2l " 5") (s2l "ab1")) = true
  /\ gen_block_name (VInt 0) (vstr " 5") (vstr "ab1") (VDict d) = Ok (vstr "zz  9").
Proof.
  cbn zeta. split; [|split; reflexivity].
  intros k w H. cbn [dict_get] in H. destruct (py_eqb k (vstr "ab105")); [|discriminate]. inversion H. reflexivity.
Qed.
