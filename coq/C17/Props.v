(** C17 -- property theorems only. *)
From Coq Require Import Ascii String List Bool Arith ZArith NArith.
From PTBase Require Import Exn PyStr PyNum PyVal.
From PTModel Require Import Names.
From Gen Require Import GenNames.
From P Require Import Spec Main.
Import ListNotations.

(** the generated functions equal the reference models, for every five-character name *)
Theorem gen_fix_is_model : forall c0 c1 c2 c3 c4,
  gen_fix_blockname (VStr [c0; c1; c2; c3; c4]) = Ok (VStr (fix_blockname [c0; c1; c2; c3; c4])).
Proof. exact gen_fix_blockname_spec. Qed.
Print Assumptions gen_fix_is_model.
Theorem gen_unfix_is_model : forall c0 c1 c2 c3 c4,
  gen_unfix_blockname (VStr [c0; c1; c2; c3; c4]) = Ok (VStr (unfix_blockname [c0; c1; c2; c3; c4])).
Proof. exact gen_unfix_blockname_spec. Qed.
Print Assumptions gen_unfix_is_model.

(** repairing the blank-in-fourth-column quirk is idempotent *)
Theorem fix_idem : forall n, length n = 5%nat ->
  exists r, gen_fix_blockname (VStr n) = Ok (VStr r) /\ gen_fix_blockname (VStr r) = Ok (VStr r).
Proof. exact t_fix_idem. Qed.
Print Assumptions fix_idem.
(** un-repairing returns exactly the name as the simulator prints it *)
Theorem unfix_fix_printed : forall n, printed_A3I2 n = true ->
  exists r, gen_fix_blockname (VStr n) = Ok (VStr r) /\ gen_unfix_blockname (VStr r) = Ok (VStr n).
Proof. exact t_unfix_fix_printed. Qed.
Print Assumptions unfix_fix_printed.
(** one write-then-read cycle of ANY five-character name reaches a form further cycles keep *)
Theorem cycle_stabilises : forall n, length n = 5%nat ->
  exists r, gen_cycle (VStr n) = Ok (VStr r) /\ gen_cycle (VStr r) = Ok (VStr r).
Proof. exact t_cycle_stabilises. Qed.
Print Assumptions cycle_stabilises.

(** int_to_chars with spaces allowed: for every non-empty alphabet and every i >= 0 the
    generated function computes the bijective base-n numeral *)
Theorem int_to_chars_is_numeration : forall chars i len, chars <> [] -> (0 <= i)%Z ->
  gen_int_to_chars (fuel_of (VInt i)) (VInt i) (vstr "") (VStr chars) (VBool true) (VInt len)
  = Ok (VStr (name chars (Z.to_N i))).
Proof. exact t_i2c_name. Qed.
Print Assumptions int_to_chars_is_numeration.
(** ... distinct integers get distinct names (any alphabet without duplicates) *)
Theorem int_to_chars_inj : forall chars i j len, NoDup chars -> chars <> [] -> (0 <= i)%Z -> (0 <= j)%Z ->
  gen_int_to_chars (fuel_of (VInt i)) (VInt i) (vstr "") (VStr chars) (VBool true) (VInt len)
  = gen_int_to_chars (fuel_of (VInt j)) (VInt j) (vstr "") (VStr chars) (VBool true) (VInt len) -> i = j.
Proof. exact t_i2c_inj. Qed.
Print Assumptions int_to_chars_inj.
(** ... made of characters of the alphabet only *)
Theorem int_to_chars_alphabet : forall chars i len, chars <> [] -> (0 <= i)%Z ->
  exists s, gen_int_to_chars (fuel_of (VInt i)) (VInt i) (vstr "") (VStr chars) (VBool true) (VInt len) = Ok (VStr s)
            /\ Forall (fun c => In c chars) s.
Proof. exact t_i2c_alphabet. Qed.
Print Assumptions int_to_chars_alphabet.
(** ... and of at most L characters exactly when i <= n + n^2 + ... + n^L (the capacity) *)
Theorem int_to_chars_capacity : forall chars i len L, chars <> [] -> (0 <= i)%Z ->
  exists s, gen_int_to_chars (fuel_of (VInt i)) (VInt i) (vstr "") (VStr chars) (VBool true) (VInt len) = Ok (VStr s)
            /\ ((length s <= L)%nat <-> (Z.to_N i <= cap chars L)%N).
Proof. exact t_i2c_capacity. Qed.
Print Assumptions int_to_chars_capacity.
