(** C17 (a): int_to_chars with spaces = False -- the ordinary base-n numeral of i over the
    alphabet, padded on the left with the alphabet's first character to the requested length.
    Reference model, its laws (value function => injective; length law), and the bridge
    from the function generated from mulgrids.py. *)
From Coq Require Import Ascii String List Bool Arith ZArith NArith Lia.
From PTBase Require Import Exn PyStr PyNum PyVal.
From PTModel Require Import Names.
From Gen Require Import GenNames.
From P Require Import Spec.
Import ListNotations.
Open Scope char_scope.
Open Scope N_scope.

Fixpoint index_of (c : ascii) (l : str) : N :=
  match l with [] => 0 | x :: r => if ceqb x c then 0 else 1 + index_of c r end.
Lemma index_of_nth (l : str) : NoDup l -> forall k d, (k < length l)%nat -> index_of (nth k l d) l = N.of_nat k.
Proof.
  induction 1 as [|x l Hx ND IH]; intros k d Hk; [cbn in Hk; lia|].
  destruct k as [|k]; cbn [nth index_of].
  - unfold ceqb. rewrite Ascii.eqb_refl. reflexivity.
  - cbn [length] in Hk. destruct (ceqb x (nth k l d)) eqn:E.
    + apply Ascii.eqb_eq in E. subst x. exfalso. apply Hx. apply nth_In. lia.
    + rewrite IH by lia. lia.
Qed.

Section Num.
Variable chars : str.
Let n := N.of_nat (length chars).

Fixpoint i2d (fuel : nat) (i : N) (st : str) : str :=
  match fuel with
  | O => st
  | S f => if 0 <? i then i2d f (i / n) (ch chars (i mod n) :: st) else st
  end.
Definition numeral (i : N) : str := i2d (S (N.to_nat i)) i [].
Definition padded (L : nat) (i : N) : str := (repeat (ch chars 0) (L - length (numeral i)) ++ numeral i)%list.

Hypothesis n_ge2 : 2 <= n.

Lemma div_lt_self i : 0 < i -> i / n < i.
Proof. intro H. apply N.div_lt; lia. Qed.
Lemma i2d_app fuel : forall i st, i2d fuel i st = (i2d fuel i [] ++ st)%list.
Proof.
  induction fuel as [|f IH]; intros i st; cbn [i2d]; [reflexivity|].
  destruct (0 <? i); [|reflexivity].
  rewrite IH. rewrite (IH _ [ch chars _]). rewrite <- app_assoc. reflexivity.
Qed.
Lemma i2d_fuel : forall fuel i st, (N.to_nat i < fuel)%nat -> forall fuel', (N.to_nat i < fuel')%nat -> i2d fuel i st = i2d fuel' i st.
Proof.
  induction fuel as [|f IH]; intros i st Hf fuel' Hf'; [lia|].
  destruct fuel' as [|f']; [lia|]. cbn [i2d].
  destruct (0 <? i) eqn:E; [|reflexivity]. apply N.ltb_lt in E.
  pose proof (div_lt_self i E). apply IH; lia.
Qed.
Lemma numeral_0 : numeral 0 = []. Proof. reflexivity. Qed.
Lemma numeral_pos i : 0 < i -> numeral i = (numeral (i / n) ++ [ch chars (i mod n)])%list.
Proof.
  intro H. unfold numeral at 1. cbn [i2d]. apply N.ltb_lt in H as H'. rewrite H'.
  rewrite i2d_app. f_equal. unfold numeral. pose proof (div_lt_self i H). apply i2d_fuel; lia.
Qed.
Lemma numeral_length_pos i : 0 < i -> length (numeral i) = S (length (numeral (i / n))).
Proof. intro H. rewrite numeral_pos by assumption. rewrite app_length. cbn. lia. Qed.

(** length law: at most L characters exactly when i < n^L *)
Theorem numeral_length_cap : forall L i, (length (numeral i) <= L)%nat <-> i < n ^ N.of_nat L.
Proof.
  induction L as [|L IH]; intro i.
  - cbn [N.of_nat]. rewrite N.pow_0_r. split.
    + intro H. destruct (N.eq_dec i 0) as [->|Hi]; [lia|]. rewrite numeral_length_pos in H by lia. lia.
    + intro H. assert (i = 0) by lia. subst. cbn. lia.
  - rewrite Nat2N.inj_succ, N.pow_succ_r'. destruct (N.eq_dec i 0) as [->|Hi].
    + split; intro; [|cbn; lia]. assert (0 < n ^ N.of_nat L) by (apply N.neq_0_lt_0, N.pow_nonzero; lia). nia.
    + rewrite numeral_length_pos by lia. specialize (IH (i / n)). split.
      * intro H. assert (H' : (length (numeral (i / n)) <= L)%nat) by lia. apply IH in H'.
        pose proof (N.div_mod i n ltac:(lia)) as DM. pose proof (N.mod_lt i n ltac:(lia)) as ML. nia.
      * intro H. assert (H' : i / n < n ^ N.of_nat L) by (apply N.div_lt_upper_bound; lia).
        apply IH in H'. lia.
Qed.
Lemma padded_length L i : length (padded L i) = Nat.max L (length (numeral i)).
Proof. unfold padded. rewrite app_length, repeat_length. lia. Qed.
Theorem padded_length_cap L i : (length (padded L i) <= L)%nat <-> i < n ^ N.of_nat L.
Proof. rewrite padded_length, <- numeral_length_cap. lia. Qed.
Lemma padded_length_ge L i : (L <= length (padded L i))%nat.
Proof. rewrite padded_length. lia. Qed.

Lemma numeral_chars i : Forall (fun c => In c chars) (numeral i).
Proof.
  induction i as [i IH] using (well_founded_induction N.lt_wf_0).
  destruct (N.eq_dec i 0) as [->|Hi]; [constructor|].
  rewrite numeral_pos by lia. apply Forall_app. split.
  - apply IH. apply div_lt_self. lia.
  - constructor; [|constructor]. unfold ch. apply nth_In.
    assert (i mod n < n) by (apply N.mod_lt; lia). unfold n in *. lia.
Qed.
Lemma padded_chars L i : Forall (fun c => In c chars) (padded L i).
Proof.
  unfold padded. apply Forall_app. split; [|apply numeral_chars].
  apply Forall_forall. intros c Hc. apply repeat_spec in Hc. subst c. unfold ch. apply nth_In. unfold n in *. lia.
Qed.

(** value of a string read as a base-n numeral *)
Definition evalf (acc : N) (s : str) : N := fold_left (fun a c => a * n + index_of c chars) s acc.
Hypothesis chars_nodup : NoDup chars.
Lemma index_ch k : k < n -> index_of (ch chars k) chars = k.
Proof. intro H. unfold ch. rewrite index_of_nth by (try assumption; unfold n in *; lia). lia. Qed.
Lemma eval_numeral i : evalf 0 (numeral i) = i.
Proof.
  induction i as [i IH] using (well_founded_induction N.lt_wf_0).
  destruct (N.eq_dec i 0) as [->|Hi]; [reflexivity|].
  rewrite numeral_pos by lia. unfold evalf. rewrite fold_left_app. cbn [fold_left].
  fold (evalf 0 (numeral (i / n))). rewrite IH by (apply div_lt_self; lia).
  rewrite index_ch by (apply N.mod_lt; lia).
  pose proof (N.div_mod i n ltac:(lia)). lia.
Qed.
Lemma eval_zeros k : evalf 0 (repeat (ch chars 0) k) = 0.
Proof.
  induction k as [|k IH]; [reflexivity|]. cbn [repeat]. unfold evalf. cbn [fold_left].
  rewrite index_ch by lia. exact IH.
Qed.
Lemma eval_padded L i : evalf 0 (padded L i) = i.
Proof.
  unfold padded, evalf. rewrite fold_left_app. fold (evalf 0 (repeat (ch chars 0) (L - length (numeral i)))).
  rewrite eval_zeros. apply eval_numeral.
Qed.
Theorem padded_inj L i j : padded L i = padded L j -> i = j.
Proof. intro E. rewrite <- (eval_padded L i), <- (eval_padded L j), E. reflexivity. Qed.
End Num.

(** ** the generated int_to_chars with spaces = False *)
Lemma concat_repeat1 (c : ascii) k : concat (repeat [c] k) = repeat c k.
Proof. induction k as [|k IH]; [reflexivity|]. cbn [repeat concat app]. rewrite IH. reflexivity. Qed.

Open Scope Z_scope.
Lemma gen_i2c_nospaces_inner chars : (2 <= length chars)%nat -> forall fuel i st,
  0 <= i -> (Z.to_nat i < fuel)%nat ->
  gen_int_to_chars fuel (VInt i) (VStr st) (VStr chars) (VBool false) (VInt 0)
  = Ok (VStr (i2d chars fuel (Z.to_N i) st)).
Proof.
  intro NE. set (n := Z.of_nat (length chars)). assert (Hn : 2 <= n) by (unfold n; lia).
  induction fuel as [|f IH]; intros i st Hi Hf; [lia|].
  cbn [gen_int_to_chars i2d].
  cbn [py_gt py_lt as_int bind]. cbn [truthy].
  destruct (0 <? i) eqn:Pos.
  - apply Z.ltb_lt in Pos.
    assert (PosN : (0 <? Z.to_N i)%N = true) by (apply N.ltb_lt; lia). rewrite PosN.
    cbn [py_len bind truthy py_sub as_int]. fold n.
    cbn [py_floordiv py_mod as_int]. assert (Hz : (n =? 0) = false) by (apply Z.eqb_neq; lia). rewrite Hz.
    cbn [bind].
    assert (Hm : 0 <= i mod n < n) by (apply Z.mod_pos_bound; lia).
    rewrite (getitem_chars chars (i mod n) Hm). cbn [bind]. rewrite join2. cbn [bind].
    assert (Hq : 0 <= i / n < i). { split; [apply Z.div_pos; lia|apply Z.div_lt; lia]. }
    rewrite (IH (i / n) _) by lia. cbn [bind Z.eqb negb].
    do 2 f_equal.
    assert (Hc : Z.to_N (Z.of_nat (length chars)) = N.of_nat (length chars)) by (rewrite <- nat_N_Z; apply N2Z.id).
    assert (E1 : Z.to_N (i / n) = (Z.to_N i / N.of_nat (length chars))%N).
    { unfold n. rewrite Z2N.inj_div by lia. rewrite Hc. reflexivity. }
    assert (E2 : nth (Z.to_nat (i mod n)) chars "?"%char = ch chars (Z.to_N i mod N.of_nat (length chars))).
    { unfold ch. f_equal. rewrite <- Z_N_nat. f_equal. unfold n. rewrite Z2N.inj_mod by lia. rewrite Hc. reflexivity. }
    rewrite E1, E2. reflexivity.
  - apply Z.ltb_ge in Pos. assert (i = 0) by lia. subst i. cbn [Z.to_N N.ltb N.compare bind Z.eqb negb]. reflexivity.
Qed.

Lemma tail_ns chars L (s : str) : (1 <= length chars)%nat ->
  (do c12_ <- (do b13_ <- Ok (VInt (Z.of_nat L)); if truthy b13_ then Ok (VBool (negb (truthy (VBool false)))) else Ok b13_);
   if truthy c12_ then
     (do t1_ <- (do t2_ <- (do t3_ <- py_getitem (VStr chars) (VInt 0); (do t4_ <- (do t5_ <- py_len (VStr s); py_sub (VInt (Z.of_nat L)) t5_); py_mul t3_ t4_)); Ok (VList [t2_; VStr s])); m_join (vstr "") t1_)
   else Ok (VStr s)) = Ok (VStr (repeat (ch chars 0) (L - length s) ++ s)%list).
Proof.
  intro NE. cbn [bind truthy]. destruct (Z.of_nat L =? 0) eqn:E0; cbn [negb truthy].
  - apply Z.eqb_eq in E0. assert (L = 0%nat) by lia. subst L. reflexivity.
  - rewrite (getitem_chars chars 0) by lia. cbn [bind py_len py_sub as_int py_mul].
    unfold rep_str. rewrite concat_repeat1.
    replace (Z.to_nat (Z.of_nat L - Z.of_nat (length s))) with (L - length s)%nat by lia.
    reflexivity.
Qed.

Theorem gen_i2c_nospaces chars i L : (2 <= length chars)%nat -> 0 <= i ->
  gen_int_to_chars (fuel_of (VInt i)) (VInt i) (vstr "") (VStr chars) (VBool false) (VInt (Z.of_nat L))
  = Ok (VStr (padded chars L (Z.to_N i))).
Proof.
  intros NE Hi. set (n := Z.of_nat (length chars)). assert (Hn : 2 <= n) by (unfold n; lia).
  unfold vstr at 1. cbn [s2l list_ascii_of_string fuel_of gen_int_to_chars].
  cbn [py_gt py_lt as_int bind]. cbn [truthy].
  destruct (0 <? i) eqn:Pos.
  - apply Z.ltb_lt in Pos.
    cbn [py_len bind truthy]. fold n.
    cbn [py_floordiv py_mod as_int]. assert (Hz : (n =? 0) = false) by (apply Z.eqb_neq; lia). rewrite Hz.
    cbn [bind].
    assert (Hm : 0 <= i mod n < n) by (apply Z.mod_pos_bound; lia).
    rewrite (getitem_chars chars (i mod n) Hm). cbn [bind]. rewrite join2. cbn [bind].
    assert (Hq : 0 <= i / n < i). { split; [apply Z.div_pos; lia|apply Z.div_lt; lia]. }
    rewrite (gen_i2c_nospaces_inner chars NE (Z.to_nat i) (i / n)) by lia. cbn [bind].
    assert (EN : i2d chars (Z.to_nat i) (Z.to_N (i / n)) [nth (Z.to_nat (i mod n)) chars "?"%char] = numeral chars (Z.to_N i)).
    { unfold numeral. rewrite Z_N_nat. cbn [i2d].
      assert (PosN : (0 <? Z.to_N i)%N = true) by (apply N.ltb_lt; lia). rewrite PosN.
      assert (Hc : Z.to_N (Z.of_nat (length chars)) = N.of_nat (length chars)) by (rewrite <- nat_N_Z; apply N2Z.id).
      assert (E1 : Z.to_N (i / n) = (Z.to_N i / N.of_nat (length chars))%N).
      { unfold n. rewrite Z2N.inj_div by lia. rewrite Hc. reflexivity. }
      assert (E2 : nth (Z.to_nat (i mod n)) chars "?"%char = ch chars (Z.to_N i mod N.of_nat (length chars))).
      { unfold ch. f_equal. rewrite <- Z_N_nat. f_equal. unfold n. rewrite Z2N.inj_mod by lia. rewrite Hc. reflexivity. }
      rewrite E1, E2. reflexivity. }
    rewrite EN. unfold padded. exact (tail_ns chars L _ ltac:(lia)).
  - apply Z.ltb_ge in Pos. assert (i = 0) by lia. subst i. unfold padded. exact (tail_ns chars L _ ltac:(lia)).
Qed.

(** statements about the generated function (spaces = False) *)
Lemma t_i2c_ns_inj chars i j L : NoDup chars -> (2 <= length chars)%nat -> 0 <= i -> 0 <= j ->
  gen_int_to_chars (fuel_of (VInt i)) (VInt i) (vstr "") (VStr chars) (VBool false) (VInt (Z.of_nat L))
  = gen_int_to_chars (fuel_of (VInt j)) (VInt j) (vstr "") (VStr chars) (VBool false) (VInt (Z.of_nat L)) -> i = j.
Proof.
  intros ND NE Hi Hj E. rewrite !gen_i2c_nospaces in E by assumption. injection E as E.
  apply padded_inj in E; try assumption; lia.
Qed.
Lemma t_i2c_ns_shape chars i L : (2 <= length chars)%nat -> 0 <= i ->
  exists s, gen_int_to_chars (fuel_of (VInt i)) (VInt i) (vstr "") (VStr chars) (VBool false) (VInt (Z.of_nat L)) = Ok (VStr s)
    /\ Forall (fun c => In c chars) s /\ (L <= length s)%nat
    /\ ((length s <= L)%nat <-> (Z.to_N i < N.of_nat (length chars) ^ N.of_nat L)%N).
Proof.
  intros NE Hi. exists (padded chars L (Z.to_N i)). split; [apply gen_i2c_nospaces; assumption|].
  split; [apply padded_chars; lia|]. split; [apply padded_length_ge; lia|apply padded_length_cap; lia].
Qed.

Example ex_numerals : map (fun i => padded (s2l "abc") 3 i) [0; 1; 2; 3; 8; 26; 27]%N
                    = map s2l ["aaa"; "aab"; "aac"; "aba"; "acc"; "ccc"; "baaa"]%string.
Proof. vm_compute. reflexivity. Qed.
