(** C17 -- property theorems, part 4 (round 6): valid_blockname (well-formedness test of a block name) and how the
    repair / un-repair of the blank-in-fourth-column quirk and block_name interact with it.  All about Gen.GenNames. *)
From Coq Require Import Ascii String List Bool Arith ZArith NArith.
From PTBase Require Import Exn PyStr PyNum PyVal.
From PTModel Require Import Names.
From Gen Require Import GenNames.
From P Require Import Spec Main Block Valid.
Import ListNotations.
Open Scope char_scope.

(** the generated valid_blockname, on every five-character name: three printable ASCII characters (letters, digits,
    blank, string.punctuation = codes 32..126), then a digit or a blank, then a digit *)
Theorem valid_blockname_is_model : forall c0 c1 c2 c3 c4,
  gen_valid_blockname (VStr [c0; c1; c2; c3; c4])
  = Ok (VBool (printable c0 && printable c1 && printable c2 && (is_digit c3 || ceqb c3 " ") && is_digit c4)).
Proof. exact t_valid_model. Qed.
Print Assumptions valid_blockname_is_model.
(** repairing the quirk never changes whether a name is a valid block name (any five characters) *)
Theorem fix_keeps_validity : forall n, length n = 5%nat ->
  exists r, gen_fix_blockname (VStr n) = Ok (VStr r) /\ gen_valid_blockname (VStr r) = gen_valid_blockname (VStr n).
Proof. exact t_fix_keeps_valid. Qed.
Print Assumptions fix_keeps_validity.
(** ... nor does un-repairing *)
Theorem unfix_keeps_validity : forall n, length n = 5%nat ->
  exists r, gen_unfix_blockname (VStr n) = Ok (VStr r) /\ gen_valid_blockname (VStr r) = gen_valid_blockname (VStr n).
Proof. exact t_unfix_keeps_valid. Qed.
Print Assumptions unfix_keeps_validity.
(** every VALID name: the text w written for it is in the simulator's printed (A3,I2) form, reading w gives a valid
    name r, and writing r gives exactly w again *)
Theorem valid_name_written_form_roundtrips : forall n, length n = 5%nat -> gen_valid_blockname (VStr n) = Ok (VBool true) ->
  exists w r, gen_unfix_blockname (VStr n) = Ok (VStr w) /\ printed_A3I2 w = true
    /\ gen_fix_blockname (VStr w) = Ok (VStr r) /\ gen_valid_blockname (VStr r) = Ok (VBool true)
    /\ gen_unfix_blockname (VStr r) = Ok (VStr w).
Proof. exact t_valid_written_roundtrip. Qed.
Print Assumptions valid_name_written_form_roundtrips.
(** block_name (empty mapping; 4 conventions; all names of the convention's lengths): valid_blockname accepts the
    block name exactly when it accepts the plain concatenation of its parts: the repair never costs validity *)
Theorem block_name_validity : forall conv lay col, In conv [0; 1; 2; 3]%Z -> length lay = laylen conv -> length col = collen conv ->
  exists b, gen_block_name (VInt conv) (VStr lay) (VStr col) no_map = Ok (VStr b) /\ length b = 5%nat
    /\ gen_valid_blockname (VStr b) = Ok (VBool (valid5 (raw_block conv lay col))).
Proof. exact t_block_name_valid. Qed.
Print Assumptions block_name_validity.
