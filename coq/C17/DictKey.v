(** C17 (e): uniqstring and new_dict_key as generated from mulgrids.py.
    uniqstring returns a duplicate-free string with the same characters; new_dict_key's
    while loop (translated with explicit fuel) returns the first unused key after [istart],
    and |d| + 2 units of fuel always suffice (pigeonhole over the injective key numbering). *)
From Coq Require Import Ascii String List Bool Arith ZArith NArith Lia FinFun.
From PTBase Require Import Exn PyStr PyNum PyVal.
From PTModel Require Import Names.
From Gen Require Import GenNames.
From P Require Import Spec Main Numeral Decimal Wrappers.
Import ListNotations.
Open Scope char_scope.
Open Scope Z_scope.

(** ** uniqstring *)
Lemma has_c_in c l : has_c c l = true <-> In c l.
Proof.
  unfold has_c. rewrite existsb_exists. split.
  - intros (x & H & E). apply Ascii.eqb_eq in E. subst. exact H.
  - intro H. exists c. split; [exact H|apply Ascii.eqb_refl].
Qed.
Lemma uniq_acc_in s : forall seen c, In c (uniq_acc seen s) <-> In c s /\ ~ In c seen.
Proof.
  induction s as [|x r IH]; intros seen c; cbn [uniq_acc In]; [tauto|].
  destruct (has_c x seen) eqn:E.
  - apply has_c_in in E. rewrite IH. split; [tauto|]. intros [[->|H] N]; [contradiction|tauto].
  - assert (N : ~ In x seen) by (rewrite <- has_c_in, E; discriminate).
    cbn [In]. rewrite IH. cbn [In]. split.
    + intros [->|[H1 H2]]; [tauto|]. tauto.
    + intros [[->|H] N']; [tauto|]. destruct (ascii_dec x c) as [->|D]; [tauto|]. right. tauto.
Qed.
Lemma uniq_acc_nodup s : forall seen, NoDup (uniq_acc seen s).
Proof.
  induction s as [|x r IH]; intro seen; cbn [uniq_acc]; [constructor|].
  destruct (has_c x seen); [apply IH|]. constructor; [|apply IH].
  rewrite uniq_acc_in. cbn [In]. tauto.
Qed.
Theorem uniq_nodup s : NoDup (uniq s). Proof. apply uniq_acc_nodup. Qed.
Theorem uniq_in s c : In c (uniq s) <-> In c s.
Proof. unfold uniq. rewrite uniq_acc_in. cbn [In]. tauto. Qed.
Theorem gen_uniqstring_closed s : gen_uniqstring (VStr s) = Ok (VStr (uniq s)).
Proof. reflexivity. Qed.
Lemma t_uniqstring s : exists r, gen_uniqstring (VStr s) = Ok (VStr r) /\ NoDup r /\ forall c, In c r <-> In c s.
Proof. exists (uniq s). split; [reflexivity|]. split; [apply uniq_nodup|apply uniq_in]. Qed.
Lemma nodup_two {A} (l : list A) a b : NoDup l -> In a l -> In b l -> a <> b -> (2 <= length l)%nat.
Proof.
  intros ND Ha Hb D. destruct l as [|x [|y r]]; cbn [length]; try lia; cbn [In] in *; [contradiction|].
  destruct Ha as [->|[]]. destruct Hb as [->|[]]. congruence.
Qed.
(** what add_layers (which de-duplicates its alphabet first) needs of the caller's alphabet *)
Theorem uniq_alphabet_ok sp chars : chars <> [] -> (sp = true -> ~ In " " chars) ->
  (sp = false -> exists a b, In a chars /\ In b chars /\ a <> b) -> alphabet_ok sp (uniq chars).
Proof.
  intros NE NB Two. split; [apply uniq_nodup|]. destruct sp.
  - split; [|rewrite uniq_in; auto]. destruct chars as [|c r]; [congruence|].
    assert (In c (uniq (c :: r))) by (apply uniq_in; left; reflexivity). destruct (uniq (c :: r)); [contradiction|cbn; lia].
  - destruct (Two eq_refl) as (a & b & Ha & Hb & D). apply (nodup_two (uniq chars) a b); try rewrite uniq_in; auto. apply uniq_nodup.
Qed.

(** ** new_dict_key *)
Section Key.
Variables (d : list (pyval * pyval)) (jf : fnid) (L : nat) (chars : str) (sp : bool).
Hypothesis A : alphabet_ok sp chars.
Definition key (i : Z) : str := just jf (i2c_str chars sp L i) (Z.of_nat L).
Definition in_d (s : str) : bool := match dict_get d (VStr s) with Some _ => true | None => false end.

Fixpoint search (fuel : nat) (i : Z) (name : pyval) (used : bool) : option (Z * pyval) :=
  match fuel with
  | O => None
  | S f => if used then search f (i + 1) (VStr (key (i + 1))) (in_d (key (i + 1))) else Some (i, name)
  end.

Lemma loop_is_search k istart : forall fuel i name used, 0 <= i ->
  gen_new_dict_key_while1 fuel (VStr chars) (VDict d) istart (VFn jf) (VInt (Z.of_nat L)) (VBool sp) (VInt i) name (VBool used) k
  = match search fuel i name used with Some (j, nm) => k (VInt j) nm (VBool false) | None => Raise OutOfFuel end.
Proof.
  induction fuel as [|f IH]; intros i name used Hi; [reflexivity|].
  cbn [gen_new_dict_key_while1 search bind truthy]. destruct used; [|reflexivity].
  cbn [py_add as_int bind]. rewrite gen_i2c_closed by (try assumption; lia). cbn [bind]. rewrite call_just. cbn [bind].
  cbn [py_in]. fold (key (i + 1)). fold (in_d (key (i + 1))). cbn [bind]. apply IH. lia.
Qed.

Lemma search_some : forall fuel i name j nm, search fuel i name true = Some (j, nm) ->
  i < j <= i + Z.of_nat fuel - 1 /\ nm = VStr (key j) /\ in_d (key j) = false /\ forall k, i < k < j -> in_d (key k) = true.
Proof.
  induction fuel as [|f IH]; intros i name j nm H; [discriminate|]. cbn [search] in H.
  destruct (in_d (key (i + 1))) eqn:E.
  - apply IH in H as (H1 & H2 & H3 & H4). split; [lia|]. split; [exact H2|]. split; [exact H3|].
    intros k Hk. destruct (Z.eq_dec k (i + 1)) as [->|D]; [exact E|]. apply H4. lia.
  - destruct f as [|f]; [discriminate|]. cbn [search] in H. inversion H. subst.
    split; [lia|]. split; [reflexivity|]. split; [exact E|]. intros k Hk. lia.
Qed.
Lemma search_none : forall fuel i name, search fuel i name true = None ->
  forall k, i < k < i + Z.of_nat fuel -> in_d (key k) = true.
Proof.
  induction fuel as [|f IH]; intros i name H k Hk; [lia|]. cbn [search] in H.
  destruct (in_d (key (i + 1))) eqn:E.
  - destruct (Z.eq_dec k (i + 1)) as [->|D]; [exact E|]. apply (IH _ _ H). lia.
  - destruct f as [|f]; [lia|]. discriminate H.
Qed.

Lemma py_eqb_str s v : py_eqb (VStr s) v = true -> v = VStr s.
Proof. destruct v; cbn [py_eqb]; try discriminate. intro H. apply str_eqb_eq in H. congruence. Qed.
Lemma in_d_key s : in_d s = true -> In (VStr s) (map fst d).
Proof.
  unfold in_d. induction d as [|[k v] r IH]; cbn [dict_get map fst In]; [discriminate|].
  destruct (py_eqb (VStr s) k) eqn:E; [intros _; left; apply py_eqb_str; exact E|]. intro H. right. apply IH. exact H.
Qed.
Lemma key_inj i j : 0 <= i -> 0 <= j -> key i = key j -> i = j.
Proof. intros Hi Hj. apply just_i2c_inj; assumption. Qed.

(** pigeonhole: |d| + 1 consecutive keys cannot all be in d *)
Lemma not_all_used i : 0 <= i -> ~ (forall k, i < k < i + Z.of_nat (length d + 2) -> in_d (key k) = true).
Proof.
  intros Hi All. set (m := S (length d)).
  set (ks := map (fun n => VStr (key (i + 1 + Z.of_nat n))) (seq 0 m)).
  assert (ND : NoDup ks).
  { unfold ks. apply FinFun.Injective_map_NoDup; [|apply seq_NoDup].
    intros a b E. injection E as E. apply key_inj in E; lia. }
  assert (Inc : incl ks (map fst d)).
  { intros x Hx. unfold ks in Hx. apply in_map_iff in Hx as (n & <- & Hn). apply in_seq in Hn.
    apply in_d_key. apply All. unfold m in Hn. lia. }
  pose proof (NoDup_incl_length ND Inc) as Len. unfold ks in Len. rewrite !map_length, seq_length in Len. unfold m in Len. lia.
Qed.

(** the generated new_dict_key returns the first unused key after istart, given |d| + 2 units of fuel *)
Theorem new_dict_key_first_unused fuel istart : (length d + 2 <= fuel)%nat -> 0 <= istart ->
  exists j, gen_new_dict_key fuel (VDict d) (VInt istart) (VFn jf) (VInt (Z.of_nat L)) (VStr chars) (VBool sp)
            = Ok (VTuple [VStr (key j); VInt j])
    /\ istart < j <= istart + Z.of_nat (length d) + 1
    /\ dict_get d (VStr (key j)) = None
    /\ (forall k, istart < k < j -> dict_get d (VStr (key k)) <> None).
Proof.
  intros Hf Hi. unfold gen_new_dict_key. cbn [bind]. rewrite loop_is_search by assumption.
  destruct (search fuel istart VNone true) as [[j nm]|] eqn:S.
  - apply search_some in S as (H1 & -> & H3 & H4). exists j. split; [reflexivity|].
    assert (Hj : j <= istart + Z.of_nat (length d) + 1).
    { destruct (Z_le_gt_dec j (istart + Z.of_nat (length d) + 1)) as [G|G]; [exact G|exfalso].
      apply (not_all_used istart Hi). intros k Hk. apply H4. lia. }
    split; [lia|]. split.
    + unfold in_d in H3. destruct (dict_get d (VStr (key j))); [discriminate|reflexivity].
    + intros k Hk. specialize (H4 k Hk). unfold in_d in H4. destruct (dict_get d (VStr (key k))); [discriminate|discriminate].
  - exfalso. apply (not_all_used istart Hi). intros k Hk. apply (search_none _ _ _ S). lia.
Qed.
End Key.

Example ex_new_dict_key :
  gen_new_dict_key 5 (VDict [(vstr "  a", VNone); (vstr "  c", VNone); (vstr "  b", VNone)]) (VInt 0) (VFn F_rjust) (VInt 3)
                   (vstr "abc") (VBool true) = Ok (VTuple [vstr " aa"; VInt 4]).
Proof. vm_compute. reflexivity. Qed.
Example ex_uniq : gen_uniqstring (vstr "abcabca") = Ok (vstr "abc"). Proof. vm_compute. reflexivity. Qed.
