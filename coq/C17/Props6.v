(** C17 -- property theorems, part 6 (round 6e): validity of block_name's result under ANY block mapping. All about Gen.GenNames. *)
From Coq Require Import Ascii String List Bool Arith ZArith NArith.
From PTBase Require Import Exn PyStr PyNum PyVal.
From PTModel Require Import Names.
From P Require Import PyExt.
From Gen Require Import GenNames.
From P Require Import Spec Main Block Maps Valid Valid3.
Import ListNotations.

(** block_name, 4 conventions, all names of the convention's lengths, ANY block mapping d whose values valid_blockname
    accepts: when the plain concatenation of the parts is valid, the call succeeds and its result (mapped or not) is valid *)
Theorem mapped_block_name_validity : forall conv lay col d, In conv [0; 1; 2; 3]%Z -> length lay = laylen conv -> length col = collen conv ->
  valid5 (raw_block conv lay col) = true -> values_valid d ->
  exists b, gen_block_name (VInt conv) (VStr lay) (VStr col) (VDict d) = Ok b /\ gen_valid_blockname b = Ok (VBool true).
Proof. exact t_mapped_block_name_valid. Qed.
Print Assumptions mapped_block_name_validity.
