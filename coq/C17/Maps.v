(** C17 round 4: block_name with a block mapping; the new_node_name / new_column_name wrappers;
    the character set rectangular() names things with; the layer names refine_layers leaves. *)
From Coq Require Import Ascii String List Bool Arith ZArith NArith Lia.
From PTBase Require Import Exn PyStr PyNum PyVal.
From PTModel Require Import Names.
From P Require Import PyExt.
From Gen Require Import GenNames.
From P Require Import Spec Main Numeral Decimal Wrappers Block DictKey Layers.
Import ListNotations.
Open Scope char_scope.
Open Scope Z_scope.

(** ** block_name with a (possibly non-empty) block mapping *)
Definition map_tail (d : list (pyval * pyval)) (v : pyval) : res pyval :=
  (do c_ <- (do r_ <- py_in v (VDict d); Ok (VBool r_));
   if truthy c_ then (do w <- py_getitem (VDict d) v; Ok w) else Ok v).
Lemma map_tail_spec d v : map_tail d v = Ok (match dict_get d v with Some w => w | None => v end).
Proof. unfold map_tail. cbn [py_in py_getitem bind]. destruct (dict_get d v); reflexivity. Qed.

Section ExplicitM.
Variables (d : list (pyval * pyval)) (a0 a1 a2 b0 b1 : ascii).
Lemma bnm0 : gen_block_name (VInt 0) (VStr [b0; b1]) (VStr [a0; a1; a2]) (VDict d)
             = (do v <- gen_fix_blockname (VStr [a0; a1; a2; b0; b1]); map_tail d v).
Proof. reflexivity. Qed.
Lemma bnm3 : gen_block_name (VInt 3) (VStr [b0; b1]) (VStr [a0; a1; a2]) (VDict d)
             = (do v <- gen_fix_blockname (VStr [a0; a1; a2; b0; b1]); map_tail d v).
Proof. reflexivity. Qed.
Lemma bnm1 : gen_block_name (VInt 1) (VStr [a0; a1; a2]) (VStr [b0; b1]) (VDict d)
             = (do v <- gen_fix_blockname (VStr [a0; a1; a2; b0; b1]); map_tail d v).
Proof. reflexivity. Qed.
Lemma bnm2 : gen_block_name (VInt 2) (VStr [a0; a1]) (VStr [a2; b0; b1]) (VDict d)
             = (do v <- gen_fix_blockname (VStr [a0; a1; a2; b0; b1]); map_tail d v).
Proof. reflexivity. Qed.
End ExplicitM.

(** the mapped name exactly for (plain) names that are keys of the mapping, the plain name otherwise *)
Theorem gen_block_name_mapped conv lay col d : In conv [0; 1; 2; 3] -> length lay = laylen conv -> length col = collen conv ->
  gen_block_name (VInt conv) (VStr lay) (VStr col) (VDict d)
  = Ok (match dict_get d (VStr (fix_blockname (raw_block conv lay col))) with
        | Some w => w | None => VStr (fix_blockname (raw_block conv lay col)) end).
Proof.
  intros C Hl Hc. apply conv_cases in C as [-> | [-> | [-> | ->]]]; lens.
  - apply len2 in Hl as (b0 & b1 & ->). apply len3 in Hc as (a0 & a1 & a2 & ->). rewrite bnm0, gen_fix_blockname_spec, bind_Ok. apply map_tail_spec.
  - apply len3 in Hl as (a0 & a1 & a2 & ->). apply len2 in Hc as (b0 & b1 & ->). rewrite bnm1, gen_fix_blockname_spec, bind_Ok. apply map_tail_spec.
  - apply len2 in Hl as (a0 & a1 & ->). apply len3 in Hc as (a2 & b0 & b1 & ->). rewrite bnm2, gen_fix_blockname_spec, bind_Ok. apply map_tail_spec.
  - apply len2 in Hl as (b0 & b1 & ->). apply len3 in Hc as (a0 & a1 & a2 & ->). rewrite bnm3, gen_fix_blockname_spec, bind_Ok. apply map_tail_spec.
Qed.
Example ex_mapped : gen_block_name (VInt 0) (vstr " 1") (vstr "  a") (VDict [(vstr "  a 1", vstr "zz  9")]) = Ok (vstr "zz  9")
                 /\ gen_block_name (VInt 0) (vstr " 2") (vstr "  a") (VDict [(vstr "  a 1", vstr "zz  9")]) = Ok (vstr "  a 2").
Proof. split; vm_compute; reflexivity. Qed.

(** ** new_node_name / new_column_name: the first unused key, or the naming error when it is too long *)
Section NewName.
Variables (d : list (pyval * pyval)) (jf : fnid) (L : nat) (chars : str) (sp : bool).
Hypothesis A : alphabet_ok sp chars.
Let keyj := key jf L chars sp.

Lemma key_length j : 0 <= j -> ((length (keyj j) <= L)%nat <-> j <= capacity_chars chars sp L) /\ (L <= length (keyj j))%nat.
Proof.
  intro Hj. unfold keyj, key. rewrite just_length. pose proof (i2c_str_cap chars sp L j A Hj). lia.
Qed.

Lemma wrapper_tail (W : nat -> pyval -> pyval -> pyval -> pyval -> pyval -> pyval -> res pyval) fuel istart :
  (forall f dd ii, W f dd (VInt (Z.of_nat L)) ii (VFn jf) (VStr chars) (VBool sp) =
     (do u_ <- gen_new_dict_key f dd ii (VFn jf) (VInt (Z.of_nat L)) (VStr chars) (VBool sp);
      (do v_name <- py_unpack u_ 2 0; (do v_i <- py_unpack u_ 2 1;
      (do c_ <- (do t_ <- py_len v_name; (do r_ <- py_gt t_ (VInt (Z.of_nat L)); Ok (VBool r_)));
       if truthy c_ then Raise NamingConventionError else Ok (VTuple [v_name; v_i])))))) ->
  (length d + 2 <= fuel)%nat -> 0 <= istart ->
  exists j, istart < j <= istart + Z.of_nat (length d) + 1
    /\ dict_get d (VStr (keyj j)) = None
    /\ (forall k, istart < k < j -> dict_get d (VStr (keyj k)) <> None)
    /\ ((capacity_chars chars sp L < j /\ W fuel (VDict d) (VInt (Z.of_nat L)) (VInt istart) (VFn jf) (VStr chars) (VBool sp) = Raise NamingConventionError)
        \/ (j <= capacity_chars chars sp L /\ length (keyj j) = L
            /\ W fuel (VDict d) (VInt (Z.of_nat L)) (VInt istart) (VFn jf) (VStr chars) (VBool sp) = Ok (VTuple [VStr (keyj j); VInt j]))).
Proof.
  intros HW Hf Hi.
  destruct (new_dict_key_first_unused d jf L chars sp A fuel istart Hf Hi) as (j & E & Hj & Free & First).
  exists j. split; [exact Hj|]. split; [exact Free|]. split; [exact First|].
  rewrite HW, E. cbn [bind py_unpack as_list length Nat.eqb nth_error py_len py_gt py_lt as_int truthy].
  destruct (key_length j ltac:(lia)) as [Cap Ge]. fold keyj.
  destruct (Z.of_nat L <? Z.of_nat (length (keyj j))) eqn:Q; [apply Z.ltb_lt in Q|apply Z.ltb_ge in Q].
  - left. split; [|reflexivity]. destruct (Z_le_gt_dec j (capacity_chars chars sp L)) as [G|G]; [apply Cap in G; lia|lia].
  - right. split; [apply Cap; lia|]. split; [lia|reflexivity].
Qed.
End NewName.

Theorem new_node_name_spec d jf L chars sp fuel istart : alphabet_ok sp chars -> (length d + 2 <= fuel)%nat -> 0 <= istart ->
  exists j, istart < j <= istart + Z.of_nat (length d) + 1
    /\ dict_get d (VStr (key jf L chars sp j)) = None
    /\ (forall k, istart < k < j -> dict_get d (VStr (key jf L chars sp k)) <> None)
    /\ ((capacity_chars chars sp L < j /\ gen_new_node_name fuel (VDict d) (VInt (Z.of_nat L)) (VInt istart) (VFn jf) (VStr chars) (VBool sp) = Raise NamingConventionError)
        \/ (j <= capacity_chars chars sp L /\ length (key jf L chars sp j) = L
            /\ gen_new_node_name fuel (VDict d) (VInt (Z.of_nat L)) (VInt istart) (VFn jf) (VStr chars) (VBool sp) = Ok (VTuple [VStr (key jf L chars sp j); VInt j]))).
Proof. intros A. apply (wrapper_tail d jf L chars sp A gen_new_node_name). reflexivity. Qed.
Theorem new_column_name_spec d jf L chars sp fuel istart : alphabet_ok sp chars -> (length d + 2 <= fuel)%nat -> 0 <= istart ->
  exists j, istart < j <= istart + Z.of_nat (length d) + 1
    /\ dict_get d (VStr (key jf L chars sp j)) = None
    /\ (forall k, istart < k < j -> dict_get d (VStr (key jf L chars sp k)) <> None)
    /\ ((capacity_chars chars sp L < j /\ gen_new_column_name fuel (VDict d) (VInt (Z.of_nat L)) (VInt istart) (VFn jf) (VStr chars) (VBool sp) = Raise NamingConventionError)
        \/ (j <= capacity_chars chars sp L /\ length (key jf L chars sp j) = L
            /\ gen_new_column_name fuel (VDict d) (VInt (Z.of_nat L)) (VInt istart) (VFn jf) (VStr chars) (VBool sp) = Ok (VTuple [VStr (key jf L chars sp j); VInt j]))).
Proof. intros A. apply (wrapper_tail d jf L chars sp A gen_new_column_name). reflexivity. Qed.
Example ex_new_column_name :
  gen_new_column_name 4 (VDict [(vstr "  a", VNone); (vstr "  b", VNone)]) (VInt 3) (VInt 0) (VFn F_rjust) (vstr "ab") (VBool true) = Ok (VTuple [vstr " aa"; VInt 3])
  /\ gen_new_column_name 4 (VDict [(vstr "a", VNone); (vstr "b", VNone)]) (VInt 1) (VInt 0) (VFn F_rjust) (vstr "ab") (VBool true) = Raise NamingConventionError.
Proof. split; vm_compute; reflexivity. Qed.

(** ** the character set rectangular() generates names from: de-duplicated AFTER the case conversion *)
Definition cased (case : pyval) (chars : str) : str :=
  match case with VNone => chars | _ => if py_eqb case (vstr "l") then lower chars else upper chars end.
Theorem rectangular_chars_nodup case chars :
  exists r, gen_rectangular case (VStr chars) = Ok (VStr r) /\ NoDup r /\ r = uniq (cased case chars).
Proof.
  exists (uniq (cased case chars)). split; [|split; [apply uniq_nodup|reflexivity]].
  unfold gen_rectangular, cased. destruct case; try reflexivity;
    cbn [bind negb truthy]; match goal with |- context [py_eqb ?c (vstr "l")] => destruct (py_eqb c (vstr "l")) end; reflexivity.
Qed.
Example ex_rect_chars : gen_rectangular (vstr "l") (vstr "abAB") = Ok (vstr "ab") /\ gen_rectangular (vstr "u") (vstr "abAB") = Ok (vstr "AB")
                        /\ gen_rectangular VNone (vstr "abAB") = Ok (vstr "abAB").
Proof. repeat split; vm_compute; reflexivity. Qed.

(** ** refine_layers: pairwise distinct layer names whatever the atmosphere layer is called *)
Lemma uniq_acc_id l : forall seen, NoDup l -> (forall c, In c l -> ~ In c seen) -> uniq_acc seen l = l.
Proof.
  induction l as [|x r IH]; intros seen ND D; [reflexivity|]. cbn [uniq_acc]. inversion ND as [|? ? Hx ND']. subst.
  destruct (has_c x seen) eqn:E; [apply has_c_in in E; exfalso; apply (D x); [left; reflexivity|exact E]|].
  f_equal. apply IH; [exact ND'|]. intros c Hc [<-|Hs]; [contradiction|]. apply (D c); [right; exact Hc|exact Hs].
Qed.
Lemma uniq_idem s : uniq (uniq s) = uniq s.
Proof. unfold uniq at 1. apply uniq_acc_id; [apply uniq_nodup|]. intros c _ []. Qed.

Lemma existsb_str a l : existsb (py_eqb (VStr a)) (map VStr l) = true <-> In a l.
Proof.
  induction l as [|x r IH]; cbn [map existsb In py_eqb]; [split; [discriminate|intros []]|].
  rewrite orb_true_iff, IH. split; (intros [H|H]; [left|right; exact H]); [apply str_eqb_eq in H; congruence|subst; apply str_eqb_refl].
Qed.
Lemma mapM_rename old new l : ~ In old l ->
  mapM (fun v_n_ => (do c_ <- Ok (VBool (py_eqb v_n_ (VStr old))); if truthy c_ then Ok new else Ok v_n_)) (map VStr l) = Ok (map VStr l).
Proof.
  set (f := fun v_n_ => (do c_ <- Ok (VBool (py_eqb v_n_ (VStr old))); if truthy c_ then Ok new else Ok v_n_)).
  induction l as [|x r IH]; intro N; [reflexivity|]. cbn [map mapM].
  assert (E : f (VStr x) = Ok (VStr x)).
  { unfold f. cbn [bind py_eqb truthy]. destruct (str_eqb x old) eqn:E; [apply str_eqb_eq in E; subst; exfalso; apply N; left; reflexivity|reflexivity]. }
  rewrite E. cbn [bind]. rewrite IH by (intro H; apply N; right; exact H). reflexivity.
Qed.

Lemma mapM_rename' old new l : ~ In old l ->
  mapM (fun v_n_ => if py_eqb v_n_ (VStr old) then Ok new else Ok v_n_) (map VStr l) = Ok (map VStr l).
Proof. exact (mapM_rename old new l). Qed.

Theorem refine_layers_names fuel conv rj atm rest ths chars0 sp : (3 <= fuel)%nat -> In conv [0; 1; 2; 3] ->
  alphabet_ok sp (uniq chars0) ->
  let r := gen_refine_layers fuel (VBool rj) (VInt conv) (VInt (Z.of_nat (laylen conv))) (VList (VStr atm :: rest)) (VStr chars0) (VBool sp) (VList ths) in
  (r = Raise NamingConventionError /\ lay_capacity conv (uniq chars0) sp (laylen conv) < Z.of_nat (length ths) + 1)
  \/ (exists nl, r = Ok (VList (map VStr nl)) /\ NoDup nl /\ length nl = S (length ths)
        /\ ((exists t, nl = atm :: t) \/ (exists t, nl = surface_name conv :: t /\ In atm t))).
Proof.
  intros Hf C A. cbv zeta. unfold gen_refine_layers.
  rewrite gen_uniqstring_closed. cbn [bind].
  assert (G0 : forall (x : pyval) l, py_getitem (VList (x :: l)) (VInt 0) = Ok x) by reflexivity.
  rewrite G0. cbn [bind].
  assert (J : exists jv, py_getitem (VList [vstr "l"; vstr "r"]) (VBool rj) = Ok jv) by (destruct rj; eexists; reflexivity).
  destruct J as (jv & ->). cbn [bind].
  assert (A' : alphabet_ok sp (uniq (uniq chars0))) by (rewrite uniq_idem; exact A).
  destruct (add_layers_names fuel conv ths jv (uniq chars0) sp Hf C A') as [[E Cp]|(nl & E & Len & ND & FL)]; cbv zeta in E; rewrite E; cbn [bind].
  - left. split; [reflexivity|]. rewrite uniq_idem in Cp. exact Cp.
  - right. cbn [py_in bind]. destruct (existsb (py_eqb (VStr atm)) (map VStr (surface_name conv :: nl))) eqn:Q; cbn [negb truthy bind].
    + apply existsb_str in Q. exists (surface_name conv :: nl). split; [reflexivity|]. split; [exact ND|]. split; [cbn [length]; lia|].
      destruct Q as [<-|Q]; [left; eexists; reflexivity|right; eexists; split; [reflexivity|exact Q]].
    + assert (NI : ~ In atm (surface_name conv :: nl)) by (rewrite <- existsb_str, Q; discriminate).
      inversion ND as [|? ? Hs ND']. subst.
      cbn [map]. rewrite G0. cbn [bind as_list mapM py_eqb]. rewrite str_eqb_refl. cbn [truthy bind].
      rewrite mapM_rename' by exact Hs. cbn [bind].
      exists (atm :: nl). split; [reflexivity|]. split; [constructor; [intro H; apply NI; right; exact H|exact ND']|].
      split; [cbn [length]; lia|]. left. eexists. reflexivity.
Qed.
Example ex_refine_layers :
  gen_refine_layers 3 (VBool true) (VInt 0) (VInt 2) (VList [vstr " 3"; vstr " 1"]) (vstr "abc") (VBool true) (VList [VNone; VNone; VNone; VNone])
  = Ok (VList [vstr " 0"; vstr " 1"; vstr " 2"; vstr " 3"; vstr " 4"])
  /\ gen_refine_layers 3 (VBool true) (VInt 0) (VInt 2) (VList [vstr " 9"; vstr " 1"]) (vstr "abc") (VBool true) (VList [VNone; VNone])
  = Ok (VList [vstr " 9"; vstr " 1"; vstr " 2"]).
Proof. split; vm_compute; reflexivity. Qed.
