(** C17 (round 6): valid_blockname -- the generated function equals a character-class model, and the
    repair / un-repair of the blank-in-fourth-column quirk never change whether a name is a valid block name;
    what is WRITTEN for a valid name is in the simulator's printed form and survives read + write unchanged. *)
From Coq Require Import Ascii String List Bool Arith ZArith NArith Lia.
From PTBase Require Import Exn PyStr PyNum PyVal.
From PTModel Require Import Names.
From Gen Require Import GenNames.
From P Require Import Spec Main Block.
Import ListNotations.
Open Scope char_scope.

(** letters + digits + blank + string.punctuation = the printable ASCII characters 32..126 *)
Definition printable (c : ascii) : bool := let n := nat_of_ascii c in (32 <=? n)%nat && (n <=? 126)%nat.
Definition digit_or_blank (c : ascii) : bool := is_digit c || ceqb c " ".
Definition valid5 (n : str) : bool :=
  match n with
  | [c0; c1; c2; c3; c4] => printable c0 && printable c1 && printable c2 && digit_or_blank c3 && is_digit c4
  | _ => false end.

Definition ds : str := s2l "0123456789 ".
Definition ldsp : str := s2l "abcdefghijklmnopqrstuvwxyzABCDEFGHIJKLMNOPQRSTUVWXYZ0123456789 !""#$%&'()*+,-./:;<=>?@[\]^_`{|}~".
Lemma add_ds : py_add (vstr "0123456789") (vstr " ") = Ok (VStr ds).
Proof. reflexivity. Qed.
Lemma add_ldsp : (do t <- py_add (vstr "abcdefghijklmnopqrstuvwxyzABCDEFGHIJKLMNOPQRSTUVWXYZ") (VStr ds); py_add t (vstr "!""#$%&'()*+,-./:;<=>?@[\]^_`{|}~")) = Ok (VStr ldsp).
Proof. reflexivity. Qed.
Lemma in_ldsp c : py_in (VStr [c]) (VStr ldsp) = Ok (printable c).
Proof. destruct c as [[] [] [] [] [] [] [] []]; vm_compute; reflexivity. Qed.
Lemma in_ds c : py_in (VStr [c]) (VStr ds) = Ok (digit_or_blank c).
Proof. destruct c as [[] [] [] [] [] [] [] []]; vm_compute; reflexivity. Qed.
Lemma in_digits c : py_in (VStr [c]) (vstr "0123456789") = Ok (is_digit c).
Proof. destruct c as [[] [] [] [] [] [] [] []]; vm_compute; reflexivity. Qed.

Theorem gen_valid_blockname_spec c0 c1 c2 c3 c4 :
  gen_valid_blockname (VStr [c0; c1; c2; c3; c4]) = Ok (VBool (valid5 [c0; c1; c2; c3; c4])).
Proof.
  unfold gen_valid_blockname. rewrite add_ds. cbn [bind]. rewrite add_ldsp. cbn [bind].
  rewrite sl03, gi3, gi4. cbn [bind as_list map mapM]. rewrite !in_ldsp, in_ds, in_digits.
  cbn [bind py_all forallb truthy valid5].
  destruct (printable c0); cbn [andb truthy]; [|reflexivity].
  destruct (printable c1); cbn [andb truthy]; [|reflexivity].
  destruct (printable c2); cbn [andb truthy]; [|reflexivity].
  destruct (digit_or_blank c3); cbn [andb truthy]; reflexivity.
Qed.
Lemma gen_valid5 n : length n = 5%nat -> gen_valid_blockname (VStr n) = Ok (VBool (valid5 n)).
Proof. intro H. destruct (five_cases n H) as (c0 & c1 & c2 & c3 & c4 & ->). apply gen_valid_blockname_spec. Qed.

(** the repair and its inverse never change validity *)
Lemma valid5_fix n : valid5 (fix_blockname n) = valid5 n.
Proof.
  destruct n as [|c0 [|c1 [|c2 [|c3 [|c4 [|c5 r]]]]]]; try reflexivity.
  cbn [fix_blockname]. destruct (is_digit c2 && is_digit c4 && ceqb c3 " ") eqn:E; [|reflexivity].
  apply andb_prop in E as [_ E3]. cbn [valid5]. unfold digit_or_blank at 2. rewrite E3, orb_true_r. reflexivity.
Qed.
Lemma fmt2_ok v : (v < 100)%nat ->
  match fmt2 v with
  | [a; b] => digit_or_blank a && is_digit b && (ceqb a " " || (is_digit a && negb (ceqb a "0")))
  | _ => false end = true.
Proof. intro H. do 100 (destruct v as [|v]; [vm_compute; reflexivity|]). lia. Qed.
Lemma fmt2_valid v : (v < 100)%nat -> exists a b, fmt2 v = [a; b] /\ digit_or_blank a = true /\ is_digit b = true
  /\ (ceqb a " " || (is_digit a && negb (ceqb a "0"))) = true.
Proof.
  intro H. pose proof (fmt2_ok v H) as K. destruct (fmt2 v) as [|a [|b [|c r]]]; try discriminate K.
  apply andb_prop in K as [K K3]. apply andb_prop in K as [K1 K2]. exists a, b. repeat split; assumption.
Qed.
Lemma dd_lt100 c3 c4 : is_digit c3 = true -> is_digit c4 = true -> (10 * dval c3 + dval c4 < 100)%nat.
Proof. intros D3 D4. digits D3; digits D4; vm_compute; lia. Qed.
Lemma valid5_unfix n : valid5 (unfix_blockname n) = valid5 n.
Proof.
  destruct n as [|c0 [|c1 [|c2 [|c3 [|c4 [|c5 r]]]]]]; try reflexivity.
  cbn [unfix_blockname]. destruct (is_digit c3) eqn:D3; cbn [andb]; [|reflexivity].
  destruct (is_digit c4) eqn:D4; [|reflexivity].
  destruct (fmt2_valid _ (dd_lt100 _ _ D3 D4)) as (a & b & -> & Ha & Hb & _).
  cbn [app valid5]. rewrite Ha, Hb, D4. unfold digit_or_blank. rewrite D3. reflexivity.
Qed.
(** what is written for a valid name is in the printed (A3,I2) form *)
Lemma valid5_unfix_printed n : valid5 n = true -> printed_A3I2 (unfix_blockname n) = true.
Proof.
  destruct n as [|c0 [|c1 [|c2 [|c3 [|c4 [|c5 r]]]]]]; try discriminate.
  cbn [valid5]. intro V. apply andb_prop in V as [V D4]. apply andb_prop in V as [_ V3].
  cbn [unfix_blockname]. rewrite D4, andb_true_r. destruct (is_digit c3) eqn:D3.
  - destruct (fmt2_valid _ (dd_lt100 _ _ D3 D4)) as (a & b & -> & Ha & Hb & Hp).
    cbn [app printed_A3I2]. rewrite Hb, Hp. reflexivity.
  - cbn [printed_A3I2]. rewrite D4. unfold digit_or_blank in V3. rewrite D3 in V3. cbn [orb] in V3. rewrite V3. reflexivity.
Qed.

Lemma t_valid_model c0 c1 c2 c3 c4 :
  gen_valid_blockname (VStr [c0; c1; c2; c3; c4])
  = Ok (VBool (printable c0 && printable c1 && printable c2 && (is_digit c3 || ceqb c3 " ") && is_digit c4)).
Proof. apply gen_valid_blockname_spec. Qed.
Lemma t_fix_keeps_valid n : length n = 5%nat ->
  exists r, gen_fix_blockname (VStr n) = Ok (VStr r) /\ gen_valid_blockname (VStr r) = gen_valid_blockname (VStr n).
Proof.
  intro H. exists (fix_blockname n). split; [apply gen_fix5; exact H|].
  rewrite !gen_valid5 by (try rewrite fix_length; exact H). rewrite valid5_fix. reflexivity.
Qed.
Lemma t_unfix_keeps_valid n : length n = 5%nat ->
  exists r, gen_unfix_blockname (VStr n) = Ok (VStr r) /\ gen_valid_blockname (VStr r) = gen_valid_blockname (VStr n).
Proof.
  intro H. exists (unfix_blockname n). split; [apply gen_unfix5; exact H|].
  rewrite !gen_valid5 by (try apply unfix_length; exact H). rewrite valid5_unfix. reflexivity.
Qed.
(** a valid name: the written text w is in printed form, reading it gives a valid name r, writing r gives w again *)
Lemma t_valid_written_roundtrip n : length n = 5%nat -> gen_valid_blockname (VStr n) = Ok (VBool true) ->
  exists w r, gen_unfix_blockname (VStr n) = Ok (VStr w) /\ printed_A3I2 w = true
    /\ gen_fix_blockname (VStr w) = Ok (VStr r) /\ gen_valid_blockname (VStr r) = Ok (VBool true)
    /\ gen_unfix_blockname (VStr r) = Ok (VStr w).
Proof.
  intros H V. rewrite gen_valid5 in V by exact H. assert (V' : valid5 n = true) by congruence.
  assert (Hw : length (unfix_blockname n) = 5%nat) by (apply unfix_length; exact H).
  exists (unfix_blockname n), (fix_blockname (unfix_blockname n)).
  split; [apply gen_unfix5; exact H|]. split; [apply valid5_unfix_printed; exact V'|].
  split; [apply gen_fix5; exact Hw|]. split.
  - rewrite gen_valid5 by (rewrite fix_length; exact Hw). rewrite valid5_fix, valid5_unfix, V'. reflexivity.
  - rewrite gen_unfix5 by (rewrite fix_length; exact Hw). rewrite unfix_fix_printed by (apply valid5_unfix_printed; exact V'). reflexivity.
Qed.

(** block_name (no mapping): valid_blockname accepts the block name exactly when it accepts the plain concatenation
    of the layer / column parts -- the repair can never make a block name invalid (or valid) *)
Lemma t_block_name_valid conv lay col : In conv [0; 1; 2; 3]%Z -> length lay = laylen conv -> length col = collen conv ->
  exists b, gen_block_name (VInt conv) (VStr lay) (VStr col) no_map = Ok (VStr b) /\ length b = 5%nat
    /\ gen_valid_blockname (VStr b) = Ok (VBool (valid5 (raw_block conv lay col))).
Proof.
  intros C Hl Hc. exists (fix_blockname (raw_block conv lay col)).
  assert (H5 : length (fix_blockname (raw_block conv lay col)) = 5%nat) by (rewrite fix_length; apply raw_length; assumption).
  split; [apply gen_block_name_closed; assumption|]. split; [exact H5|].
  rewrite gen_valid5 by exact H5. rewrite valid5_fix. reflexivity.
Qed.
Example ex_block_valid : gen_block_name (VInt 0) (vstr " 5") (vstr "ab1") no_map = Ok (vstr "ab105")
  /\ valid5 (raw_block 0 (s2l " 5") (s2l "ab1")) = true /\ valid5 (raw_block 1 (s2l "abc") (s2l "de")) = false.
Proof. repeat split; reflexivity. Qed.

(** non-vacuity *)
Example ex_valid : gen_valid_blockname (vstr "ab1 5") = Ok (VBool true) /\ gen_valid_blockname (vstr "ab1x5") = Ok (VBool false)
  /\ gen_valid_blockname (vstr "  a 1") = Ok (VBool true) /\ gen_valid_blockname (vstr "abc1d") = Ok (VBool false).
Proof. repeat split; reflexivity. Qed.
