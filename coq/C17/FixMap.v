(** C17 round 4: fix_block_mapping as generated from mulgrids.py (its two `for` loops over
    dictionary items, dictionary item assignment and deletion; the procedure mutates its argument, the
    functional model returns the final dictionary).  Proved for every mapping with duplicate-free
    five-character keys and five-character values: the call succeeds, every key and every value of the
    result is repaired (a fixed point of fix_blockname), keys stay duplicate-free, every key / value of the
    result is the repair of a key / value of the argument, and a second call changes nothing. *)
From Coq Require Import Ascii String List Bool Arith ZArith Lia.
From PTBase Require Import Exn PyStr PyNum PyVal.
From PTModel Require Import Names.
From P Require Import PyExt.
From Gen Require Import GenNames.
From P Require Import Spec Main.
Import ListNotations.

Definition smap := list (str * str).
Definition enc (m : smap) : list (pyval * pyval) := map (fun kv => (VStr (fst kv), VStr (snd kv))) m.
Definition keys (m : smap) : list str := map fst m.
Fixpoint sget (m : smap) (k : str) : option str :=
  match m with [] => None | (k', v) :: r => if str_eqb k k' then Some v else sget r k end.
Fixpoint sset (m : smap) (k v : str) : smap :=
  match m with [] => [(k, v)] | (k', v') :: r => if str_eqb k k' then (k', v) :: r else (k', v') :: sset r k v end.
Fixpoint sdel (m : smap) (k : str) : option smap :=
  match m with [] => None | (k', v') :: r => if str_eqb k k' then Some r else option_map (cons (k', v')) (sdel r k) end.

Lemma enc_get m k : dict_get (enc m) (VStr k) = option_map VStr (sget m k).
Proof. induction m as [|[k' v] r IH]; [reflexivity|]. cbn [enc map fst snd dict_get sget py_eqb]. destruct (str_eqb k k'); [reflexivity|exact IH]. Qed.
Lemma enc_set m k v : dict_set (enc m) (VStr k) (VStr v) = enc (sset m k v).
Proof. induction m as [|[k' v'] r IH]; [reflexivity|]. cbn [enc map fst snd dict_set sset py_eqb]. destruct (str_eqb k k'); [reflexivity|]. cbn [map fst snd]. f_equal. exact IH. Qed.
Lemma enc_del m k : dict_del (enc m) (VStr k) = option_map enc (sdel m k).
Proof.
  induction m as [|[k' v'] r IH]; [reflexivity|]. cbn [enc map fst snd dict_del sdel py_eqb]. destruct (str_eqb k k'); [reflexivity|].
  fold (enc r). rewrite IH. destruct (sdel r k); reflexivity.
Qed.

(** *** association-list facts *)
Lemma sset_in m k v k' v' : In (k', v') (sset m k v) -> (k' = k /\ v' = v) \/ In (k', v') m.
Proof.
  induction m as [|[a b] r IH]; cbn [sset In].
  - intros [H|[]]. inversion H. auto.
  - destruct (str_eqb k a) eqn:E; cbn [In].
    + apply str_eqb_eq in E. subst a. intros [H|H]; [inversion H; auto|auto].
    + intros [H|H]; [auto|]. destruct (IH H); auto.
Qed.
Lemma sset_keys_in m k v : In k (keys m) -> keys (sset m k v) = keys m.
Proof.
  induction m as [|[a b] r IH]; cbn [keys map fst sset In]; [intros []|]. destruct (str_eqb k a) eqn:E; [reflexivity|].
  intros [H|H]; [subst; rewrite str_eqb_refl in E; discriminate|]. cbn [map fst]. f_equal. apply IH. exact H.
Qed.
Lemma sset_keys_notin m k v : ~ In k (keys m) -> keys (sset m k v) = (keys m ++ [k])%list.
Proof.
  induction m as [|[a b] r IH]; cbn [keys map fst sset In app]; [reflexivity|]. intro N. destruct (str_eqb k a) eqn:E.
  - apply str_eqb_eq in E. subst. exfalso. apply N. left. reflexivity.
  - cbn [map fst]. f_equal. apply IH. intro H. apply N. right. exact H.
Qed.
Lemma sset_keys_incl m k v x : In x (keys m) -> In x (keys (sset m k v)).
Proof.
  intro H. destruct (in_dec (list_eq_dec ascii_dec) k (keys m)) as [I|N]; [rewrite sset_keys_in; assumption|].
  rewrite sset_keys_notin by exact N. apply in_or_app. left. exact H.
Qed.
Lemma sset_keys_cases m k v x : In x (keys (sset m k v)) -> x = k \/ In x (keys m).
Proof.
  destruct (in_dec (list_eq_dec ascii_dec) k (keys m)) as [I|N]; [rewrite sset_keys_in by exact I; auto|].
  rewrite sset_keys_notin by exact N. intro H. apply in_app_or in H as [H|[H|[]]]; auto.
Qed.
Lemma nodup_snoc {A} (l : list A) x : NoDup l -> ~ In x l -> NoDup (l ++ [x]).
Proof.
  induction l as [|y l IH]; intros ND N; cbn [app]; [constructor; [intros []|constructor]|].
  inversion ND as [|? ? Ny ND']. subst. constructor.
  - intro H. apply in_app_or in H as [H|[H|[]]]; [contradiction|subst; apply N; left; reflexivity].
  - apply IH; [exact ND'|]. intro H. apply N. right. exact H.
Qed.
Lemma sset_nodup m k v : NoDup (keys m) -> NoDup (keys (sset m k v)).
Proof.
  intro ND. destruct (in_dec (list_eq_dec ascii_dec) k (keys m)) as [I|N]; [rewrite sset_keys_in; assumption|].
  rewrite sset_keys_notin by exact N. apply nodup_snoc; assumption.
Qed.
Lemma sget_in m k : In k (keys m) -> exists v, sget m k = Some v /\ In (k, v) m.
Proof.
  induction m as [|[a b] r IH]; cbn [keys map fst In sget]; [intros []|]. destruct (str_eqb k a) eqn:E.
  - apply str_eqb_eq in E. subst. intros _. exists b. auto.
  - intros [H|H]; [subst; rewrite str_eqb_refl in E; discriminate|]. destruct (IH H) as (v & G & I). exists v. auto.
Qed.
Lemma sdel_split m k : In k (keys m) -> exists a v b, m = (a ++ (k, v) :: b)%list /\ sdel m k = Some (a ++ b)%list /\ ~ In k (keys a).
Proof.
  induction m as [|[x y] r IH]; cbn [keys map fst In sdel]; [intros []|]. destruct (str_eqb k x) eqn:E.
  - apply str_eqb_eq in E. subst. intros _. exists [], y, r. cbn. auto.
  - intros [H|H]; [subst; rewrite str_eqb_refl in E; discriminate|]. destruct (IH H) as (a & v & b & -> & D & N).
    exists ((x, y) :: a), v, b. rewrite D. cbn [app option_map keys map fst In]. split; [reflexivity|]. split; [reflexivity|].
    intros [G|G]; [subst; rewrite str_eqb_refl in E; discriminate|auto].
Qed.
Lemma sset_same m k v : NoDup (keys m) -> In (k, v) m -> sset m k v = m.
Proof.
  induction m as [|[a b] r IH]; cbn [keys map fst sset In]; [intros _ []|]. intros ND [H|H].
  - inversion H. subst. rewrite str_eqb_refl. reflexivity.
  - inversion ND as [|? ? Na ND']. subst. destruct (str_eqb k a) eqn:E.
    + apply str_eqb_eq in E. subst. exfalso. apply Na. change (In (fst (a, v)) (map fst r)). apply in_map. exact H.
    + f_equal. apply IH; assumption.
Qed.

(** *** the loops *)
Definition fixed (s : str) : Prop := fix_blockname s = s.
Definition wf5 (m : smap) : Prop := forall k v, In (k, v) m -> length k = 5%nat /\ length v = 5%nat.
Fixpoint l1 (items cur ktf : smap) : smap * smap :=
  match items with
  | [] => (cur, ktf)
  | (k, v) :: r => l1 r (sset cur k (fix_blockname v)) (if str_eqb k (fix_blockname k) then ktf else sset ktf k (fix_blockname k))
  end.
Fixpoint l2 (items cur : smap) : option smap :=
  match items with
  | [] => Some cur
  | (k, fk) :: r => match sget cur k with
                    | None => None
                    | Some item => match sdel cur k with None => None | Some c' => l2 r (sset c' fk item) end
                    end
  end.
Definition tup (kv : str * str) : pyval := VTuple [VStr (fst kv); VStr (snd kv)].

Lemma for1_model fuel k_ : forall items cur ktf a b c, wf5 items ->
  exists a' b' c', gen_fix_block_mapping_for1 fuel (map tup items) (VDict (enc cur)) a b (VDict (enc ktf)) c k_
                   = k_ (VDict (enc (fst (l1 items cur ktf)))) a' b' (VDict (enc (snd (l1 items cur ktf)))) c'.
Proof.
  induction items as [|[k v] r IH]; intros cur ktf a b c W; [exists a, b, c; reflexivity|].
  destruct (W k v (or_introl eq_refl)) as [Lk Lv].
  assert (Wr : wf5 r) by (intros x y H; apply W; right; exact H).
  cbn [map tup fst snd gen_fix_block_mapping_for1 bind py_unpack as_list length Nat.eqb nth_error l1].
  rewrite (gen_fix5 k Lk). cbn [bind py_eqb]. rewrite (gen_fix5 v Lv). cbn [bind py_setitem truthy]. rewrite !enc_set.
  destruct (str_eqb k (fix_blockname k)); cbn [negb]; apply IH; exact Wr.
Qed.
Lemma for2_model fuel x y k_ : forall items cur a b c R, l2 items cur = Some R ->
  exists a' b' c', gen_fix_block_mapping_for2 fuel x y (map tup items) (VDict (enc cur)) a b c k_ = k_ (VDict (enc R)) a' b' c'.
Proof.
  induction items as [|[k fk] r IH]; intros cur a b c R H; [inversion H; exists a, b, c; reflexivity|].
  cbn [l2] in H. destruct (sget cur k) as [item|] eqn:G; [|discriminate]. destruct (sdel cur k) as [c'|] eqn:D; [|discriminate].
  cbn [map tup fst snd gen_fix_block_mapping_for2 bind py_unpack as_list length Nat.eqb nth_error py_getitem py_delitem].
  rewrite enc_get, G. cbn [option_map bind]. rewrite enc_del, D. cbn [option_map bind py_setitem]. rewrite enc_set. apply IH. exact H.
Qed.
Lemma items_enc m : py_items (VDict (enc m)) = Ok (VList (map tup m)).
Proof. cbn [py_items]. unfold enc. rewrite map_map. reflexivity. Qed.

Definition fbm (m : smap) : option smap := l2 (snd (l1 m m [])) (fst (l1 m m [])).
Theorem gen_fix_block_mapping_model fuel m R : wf5 m -> fbm m = Some R ->
  gen_fix_block_mapping fuel (VDict (enc m)) = Ok (VDict (enc R)).
Proof.
  intros W H. unfold gen_fix_block_mapping. cbn [bind]. rewrite items_enc. cbn [bind as_list].
  change (@nil (pyval * pyval)) with (enc []).
  match goal with |- gen_fix_block_mapping_for1 _ _ _ _ _ _ _ ?k = _ => destruct (for1_model fuel k m m [] VNone VNone VNone W) as (a & b & c & ->) end.
  rewrite items_enc. cbn [bind as_list].
  match goal with |- gen_fix_block_mapping_for2 _ ?x ?y _ _ _ _ _ ?k = _ =>
    destruct (for2_model fuel x y k _ _ VNone b c R H) as (a' & b' & c' & ->) end.
  reflexivity.
Qed.

(** *** what the loops establish *)
Lemma fix_fixed s : fixed (fix_blockname s). Proof. apply fix_idem. Qed.
Lemma sset_in_strong m k v a b : NoDup (keys m) -> In (a, b) (sset m k v) -> (a = k /\ b = v) \/ (a <> k /\ In (a, b) m).
Proof.
  induction m as [|[x y] r IH]; cbn [keys map fst sset In]; intro ND.
  - intros [H|[]]. inversion H. auto.
  - inversion ND as [|? ? Nx ND']. subst. destruct (str_eqb k x) eqn:E; cbn [In].
    + apply str_eqb_eq in E. subst x. intros [H|H]; [inversion H; auto|]. right. split; [|auto].
      intros ->. apply Nx. change (In (fst (k, b)) (map fst r)). apply in_map. exact H.
    + intros [H|H].
      * inversion H. subst. right. split; [|auto]. intros ->. rewrite str_eqb_refl in E. discriminate.
      * destruct (IH ND' H) as [G|[G1 G2]]; auto.
Qed.
Lemma sset_keys_self m k v : In k (keys (sset m k v)).
Proof.
  destruct (in_dec (list_eq_dec ascii_dec) k (keys m)) as [I|N]; [rewrite sset_keys_in by exact I; exact I|].
  rewrite sset_keys_notin by exact N. apply in_or_app. right. left. reflexivity.
Qed.
Lemma in_keys (m : smap) k v : In (k, v) m -> In k (keys m).
Proof. intro H. change (In (fst (k, v)) (map fst m)). apply in_map. exact H. Qed.

Section Inv.
Variables (V0 : list str) (K0 : list str).
Definition val_ok (b : str) : Prop := exists v0, In v0 V0 /\ b = fix_blockname v0.
Definition key_ok (a : str) : Prop := exists a0, In a0 K0 /\ (a = a0 \/ a = fix_blockname a0).

(** loop 1: keys unchanged, every value repaired, ktf = the unrepaired keys with their repairs *)
Lemma l1_inv : forall items cur ktf,
  NoDup (keys cur) -> (forall k, In k (keys items) -> In k (keys cur)) -> NoDup (keys items) ->
  (forall a b, In (a, b) cur -> val_ok b \/ In a (keys items)) -> (forall a b, In (a, b) items -> In b V0) ->
  NoDup (keys ktf) -> (forall a fk, In (a, fk) ktf -> fk = fix_blockname a /\ ~ fixed a /\ In a (keys cur)) ->
  (forall a, In a (keys cur) -> fixed a \/ In a (keys ktf) \/ In a (keys items)) ->
  keys (fst (l1 items cur ktf)) = keys cur /\ (forall a b, In (a, b) (fst (l1 items cur ktf)) -> val_ok b)
  /\ NoDup (keys (snd (l1 items cur ktf)))
  /\ (forall a fk, In (a, fk) (snd (l1 items cur ktf)) -> fk = fix_blockname a /\ ~ fixed a /\ In a (keys cur))
  /\ (forall a, In a (keys cur) -> fixed a \/ In a (keys (snd (l1 items cur ktf)))).
Proof.
  induction items as [|[k v] r IH]; intros cur ktf ND Sub NDi EI FI NDk Ktf Cov.
  - cbn [l1 fst snd]. split; [reflexivity|]. split; [intros a b H; destruct (EI a b H) as [F|[]]; exact F|].
    split; [exact NDk|]. split; [exact Ktf|]. intros a H. destruct (Cov a H) as [F|[F|[]]]; auto.
  - cbn [l1]. cbn [keys map fst] in NDi, Sub. inversion NDi as [|? ? Nk NDr]. subst.
    assert (Ik : In k (keys cur)) by (apply Sub; left; reflexivity).
    set (cur1 := sset cur k (fix_blockname v)).
    set (ktf1 := if str_eqb k (fix_blockname k) then ktf else sset ktf k (fix_blockname k)).
    assert (K1 : keys cur1 = keys cur) by (apply sset_keys_in; exact Ik).
    destruct (IH cur1 ktf1) as (E1 & E2 & E3 & E4 & E5).
    + rewrite K1. exact ND.
    + intros a H. rewrite K1. apply Sub. right. exact H.
    + exact NDr.
    + intros a b H. apply (sset_in_strong _ _ _ _ _ ND) in H as [[-> ->] | [Na H]].
      * left. exists v. split; [apply (FI k v); left; reflexivity|reflexivity].
      * destruct (EI a b H) as [F|[F|F]]; [auto|cbn [fst] in F; congruence|auto].
    + intros a b H. apply (FI a b). right. exact H.
    + unfold ktf1. destruct (str_eqb k (fix_blockname k)); [exact NDk|apply sset_nodup; exact NDk].
    + intros a b H. rewrite K1. unfold ktf1 in H. destruct (str_eqb k (fix_blockname k)) eqn:Q; [apply Ktf; exact H|].
      apply sset_in in H as [[-> ->] | H]; [|apply Ktf; exact H]. split; [reflexivity|]. split; [|exact Ik].
      intro F. unfold fixed in F. rewrite F, str_eqb_refl in Q. discriminate.
    + intros a H. rewrite K1 in H. destruct (Cov a H) as [F|[F|[F|F]]]; auto.
      * right. left. unfold ktf1. destruct (str_eqb k (fix_blockname k)); [exact F|apply sset_keys_incl; exact F].
      * cbn [fst] in F. subst a. unfold ktf1. destruct (str_eqb k (fix_blockname k)) eqn:Q.
        -- left. apply str_eqb_eq in Q. unfold fixed. congruence.
        -- right. left. apply sset_keys_self.
    + rewrite K1 in E1, E4, E5. auto.
Qed.

(** loop 2: every unrepaired key is re-filed under its repair; values only move *)
Lemma l2_inv : forall items cur,
  NoDup (keys cur) -> NoDup (keys items) ->
  (forall a fk, In (a, fk) items -> fk = fix_blockname a /\ ~ fixed a /\ In a (keys cur)) ->
  (forall a b, In (a, b) cur -> val_ok b) -> (forall a, In a (keys cur) -> key_ok a) ->
  (forall a, In a (keys cur) -> fixed a \/ In a (keys items)) ->
  exists R, l2 items cur = Some R /\ NoDup (keys R) /\ (forall a b, In (a, b) R -> val_ok b)
            /\ (forall a, In a (keys R) -> fixed a /\ key_ok a).
Proof.
  induction items as [|[k fk] r IH]; intros cur ND NDi It PV KP Cov.
  - exists cur. cbn [l2]. split; [reflexivity|]. split; [exact ND|]. split; [exact PV|].
    intros a H. split; [destruct (Cov a H) as [F|[]]; exact F|apply KP; exact H].
  - cbn [keys map fst] in NDi. inversion NDi as [|? ? Nk NDr]. subst.
    destruct (It k fk (or_introl eq_refl)) as (-> & NF & Ik).
    destruct (sget_in cur k Ik) as (item & G & Iitem).
    destruct (sdel_split cur k Ik) as (A & v' & B & Ecur & D & NA).
    cbn [l2]. rewrite G, D.
    assert (Kc : keys cur = (keys A ++ k :: keys B)%list) by (rewrite Ecur; unfold keys; rewrite map_app; reflexivity).
    assert (Kc' : keys (A ++ B)%list = (keys A ++ keys B)%list) by (unfold keys; apply map_app).
    assert (ND' : NoDup (keys (A ++ B)%list)) by (rewrite Kc'; rewrite Kc in ND; apply NoDup_remove_1 in ND; exact ND).
    assert (Nk' : ~ In k (keys (A ++ B)%list)) by (rewrite Kc'; rewrite Kc in ND; apply NoDup_remove_2 in ND; exact ND).
    assert (Sub : forall a, In a (keys (A ++ B)%list) -> In a (keys cur)).
    { intros a H. rewrite Kc' in H. rewrite Kc. apply in_app_or in H as [H|H]; apply in_or_app; [left|right; right]; exact H. }
    assert (Sup : forall a, In a (keys cur) -> a <> k -> In a (keys (A ++ B)%list)).
    { intros a H Na. rewrite Kc in H. rewrite Kc'. apply in_app_or in H as [H|[H|H]]; [apply in_or_app; left; exact H|congruence|apply in_or_app; right; exact H]. }
    assert (SubE : forall a b, In (a, b) (A ++ B)%list -> In (a, b) cur).
    { intros a b H. rewrite Ecur. apply in_app_or in H as [H|H]; apply in_or_app; [left|right; right]; exact H. }
    destruct (IH (sset (A ++ B)%list (fix_blockname k) item)) as (R & E1 & E2 & E3 & E4).
    + apply sset_nodup. exact ND'.
    + exact NDr.
    + intros a b H. destruct (It a b (or_intror H)) as (-> & NFa & Ia). split; [reflexivity|]. split; [exact NFa|].
      apply sset_keys_incl. apply Sup; [exact Ia|]. intros ->. apply Nk. apply (in_keys r k _ H).
    + intros a b H. apply sset_in in H as [[-> ->] | H]; [apply (PV k item Iitem)|apply (PV a b); apply SubE; exact H].
    + intros a H. apply sset_keys_cases in H as [-> | H]; [|apply KP; apply Sub; exact H].
      destruct (KP k Ik) as (a0 & I0 & [-> | ->]); exists a0; (split; [exact I0|right]); [reflexivity|apply fix_idem].
    + intros a H. apply sset_keys_cases in H as [-> | H]; [left; apply fix_fixed|].
      destruct (Cov a (Sub a H)) as [F|[F|F]]; [left; exact F|cbn [fst] in F; subst a; contradiction|right; exact F].
    + exists R. auto.
Qed.
End Inv.

(** a mapping whose keys and values are all repaired already is left alone *)
Lemma l1_fixed R : NoDup (keys R) -> (forall a b, In (a, b) R -> fixed a /\ fixed b) ->
  forall items, incl items R -> l1 items R [] = (R, []).
Proof.
  intros ND F. induction items as [|[k v] r IH]; intro I; [reflexivity|]. cbn [l1].
  destruct (F k v (I _ (or_introl eq_refl))) as [Fk Fv]. unfold fixed in Fk, Fv. rewrite Fk, Fv, str_eqb_refl.
  rewrite sset_same by (try exact ND; apply I; left; reflexivity). apply IH. intros x H. apply I. right. exact H.
Qed.

Theorem fix_block_mapping_spec fuel m : wf5 m -> NoDup (keys m) ->
  exists R, gen_fix_block_mapping fuel (VDict (enc m)) = Ok (VDict (enc R))
    /\ NoDup (keys R)
    /\ (forall a b, In (a, b) R -> fixed a /\ fixed b /\ length a = 5%nat /\ length b = 5%nat
                                   /\ (exists a0, In a0 (keys m) /\ a = fix_blockname a0) /\ (exists b0, In b0 (map snd m) /\ b = fix_blockname b0))
    /\ gen_fix_block_mapping fuel (VDict (enc R)) = Ok (VDict (enc R)).
Proof.
  intros W ND.
  destruct (l1_inv (map snd m) m m [] ND (fun k H => H) ND) as (E1 & E2 & E3 & E4 & E5).
  - intros a b H. right. apply (in_keys m a b H).
  - intros a b H. change (In (snd (a, b)) (map snd m)). apply in_map. exact H.
  - constructor.
  - intros a fk [].
  - intros a H. right. right. exact H.
  - destruct (l2_inv (map snd m) (keys m) (snd (l1 m m [])) (fst (l1 m m []))) as (R & L2 & NDR & VR & KR).
    + rewrite E1. exact ND.
    + exact E3.
    + intros a fk H. rewrite E1. apply E4. exact H.
    + exact E2.
    + intros a H. rewrite E1 in H. exists a. auto.
    + intros a H. rewrite E1 in H. apply E5. exact H.
    + assert (Props : forall a b, In (a, b) R -> fixed a /\ fixed b /\ length a = 5%nat /\ length b = 5%nat
                                   /\ (exists a0, In a0 (keys m) /\ a = fix_blockname a0) /\ (exists b0, In b0 (map snd m) /\ b = fix_blockname b0)).
      { intros a b H. destruct (KR a (in_keys R a b H)) as (Fa & a0 & I0 & Ea). destruct (VR a b H) as (b0 & J0 & ->).
        assert (Ea' : a = fix_blockname a0) by (destruct Ea as [-> | ->]; [symmetry; exact Fa|reflexivity]).
        apply in_map_iff in I0 as ([x y] & <- & Ixy). apply in_map_iff in J0 as ([x' y'] & <- & Ixy').
        cbn [fst snd] in *. destruct (W x y Ixy) as [Lx _]. destruct (W x' y' Ixy') as [_ Ly].
        split; [exact Fa|]. split; [apply fix_fixed|]. split; [rewrite Ea', fix_length; exact Lx|]. split; [rewrite fix_length; exact Ly|].
        split; [exists x; split; [apply (in_keys m x y Ixy)|exact Ea']|]. exists y'. split; [|reflexivity].
        change (In (snd (x', y')) (map snd m)). apply in_map. exact Ixy'. }
      exists R. split; [apply gen_fix_block_mapping_model; [exact W|exact L2]|]. split; [exact NDR|]. split; [exact Props|].
      apply gen_fix_block_mapping_model.
      * intros a b H. destruct (Props a b H) as (_ & _ & La & Lb & _). auto.
      * unfold fbm. rewrite (l1_fixed R NDR) by (try apply incl_refl; intros a b H; destruct (Props a b H) as (Fa & Fb & _); auto). reflexivity.
Qed.

Example ex_fix_block_mapping :
  gen_fix_block_mapping 0 (VDict [(vstr "ab1 5", vstr "cd2 7"); (vstr "xy  1", vstr "xy3 1")])
  = Ok (VDict [(vstr "xy  1", vstr "xy301"); (vstr "ab105", vstr "cd207")]).
Proof. vm_compute. reflexivity. Qed.
