(** C17: Python operations the loop/tuple extension of the translator (tools/props/c17_translate.py)
    emits and PTBase.PyVal does not have: tuple unpacking, dictionary item assignment / deletion /
    items(), a table of unary string methods indexed by an expression.  Dictionaries are
    insertion-ordered association lists (as Python's dicts are). *)
From Coq Require Import Ascii String List Bool Arith ZArith Lia.
From PTBase Require Import Exn PyStr PyNum PyVal.
Import ListNotations.

(** [a, b = v]: v must be iterable with exactly n items *)
Definition py_unpack (v : pyval) (n i : nat) : res pyval :=
  do l <- as_list v;
  if Nat.eqb (length l) n then match nth_error l i with Some x => Ok x | None => Raise ValueError end else Raise ValueError.

Fixpoint dict_set (d : list (pyval * pyval)) (k v : pyval) : list (pyval * pyval) :=
  match d with
  | [] => [(k, v)]
  | (k', v') :: r => if py_eqb k k' then (k', v) :: r else (k', v') :: dict_set r k v
  end.
Fixpoint dict_del (d : list (pyval * pyval)) (k : pyval) : option (list (pyval * pyval)) :=
  match d with
  | [] => None
  | (k', v') :: r => if py_eqb k k' then Some r else option_map (cons (k', v')) (dict_del r k)
  end.
(** [c[k] = v] *)
Definition py_setitem (c k v : pyval) : res pyval :=
  match c with VDict d => Ok (VDict (dict_set d k v)) | _ => Raise TypeError end.
(** [del c[k]] *)
Definition py_delitem (c k : pyval) : res pyval :=
  match c with
  | VDict d => match dict_del d k with Some d' => Ok (VDict d') | None => Raise KeyError end
  | _ => Raise TypeError end.
(** [c.items()] (a snapshot) *)
Definition py_items (c : pyval) : res pyval :=
  match c with VDict d => Ok (VList (map (fun kv => VTuple [fst kv; snd kv]) d)) | _ => Raise AttributeError end.
(** [[str.upper, str.lower][i](a)] with the index already evaluated *)
Definition call_tbl (fs : list (pyval -> res pyval)) (i a : pyval) : res pyval :=
  match i with
  | VInt z => match nth_error fs (Z.to_nat z) with Some f => f a | None => Raise TypeError end
  | _ => Raise TypeError end.
