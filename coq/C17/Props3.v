(** C17 -- property theorems, part 3 (round 4): block mappings, the new-name wrappers, the alphabet of
    rectangular(), the layer names of refine_layers, fix_block_mapping.  All about Gen.GenNames. *)
From Coq Require Import Ascii String List Bool Arith ZArith NArith.
From PTBase Require Import Exn PyStr PyNum PyVal.
From PTModel Require Import Names.
From P Require Import PyExt.
From Gen Require Import GenNames.
From P Require Import Spec Main Numeral Decimal Wrappers Block DictKey Layers Maps FixMap.
Import ListNotations.
Open Scope Z_scope.

(** block_name with ANY block mapping d (4 conventions, all names of the convention's lengths): the mapped name
    exactly when the plain name is a key of d, the plain name otherwise.  (The model is functional: d is a value;
    that the implementation leaves the caller's dictionary and its shared default alone is tested, oracle step mapped_calls.) *)
Theorem block_name_with_mapping : forall conv lay col d, In conv [0; 1; 2; 3] -> length lay = laylen conv -> length col = collen conv ->
  gen_block_name (VInt conv) (VStr lay) (VStr col) (VDict d)
  = Ok (match dict_get d (VStr (fix_blockname (raw_block conv lay col))) with
        | Some w => w | None => VStr (fix_blockname (raw_block conv lay col)) end).
Proof. exact gen_block_name_mapped. Qed.
Print Assumptions block_name_with_mapping.

(** new_node_name / new_column_name (tuple assignment; call of the fuel-recursive new_dict_key): with |d| + 2 units of
    fuel, j = the first index after istart whose key is not in the dictionary; the result is the naming error exactly
    when that key is longer than the convention's length (j past the capacity), else (key j, j) with key j of length L *)
Theorem new_node_name_unused : forall d jf L chars sp fuel istart, alphabet_ok sp chars -> (length d + 2 <= fuel)%nat -> 0 <= istart ->
  exists j, istart < j <= istart + Z.of_nat (length d) + 1
    /\ dict_get d (VStr (key jf L chars sp j)) = None
    /\ (forall k, istart < k < j -> dict_get d (VStr (key jf L chars sp k)) <> None)
    /\ ((capacity_chars chars sp L < j /\ gen_new_node_name fuel (VDict d) (VInt (Z.of_nat L)) (VInt istart) (VFn jf) (VStr chars) (VBool sp) = Raise NamingConventionError)
        \/ (j <= capacity_chars chars sp L /\ length (key jf L chars sp j) = L
            /\ gen_new_node_name fuel (VDict d) (VInt (Z.of_nat L)) (VInt istart) (VFn jf) (VStr chars) (VBool sp) = Ok (VTuple [VStr (key jf L chars sp j); VInt j]))).
Proof. exact new_node_name_spec. Qed.
Print Assumptions new_node_name_unused.
Theorem new_column_name_unused : forall d jf L chars sp fuel istart, alphabet_ok sp chars -> (length d + 2 <= fuel)%nat -> 0 <= istart ->
  exists j, istart < j <= istart + Z.of_nat (length d) + 1
    /\ dict_get d (VStr (key jf L chars sp j)) = None
    /\ (forall k, istart < k < j -> dict_get d (VStr (key jf L chars sp k)) <> None)
    /\ ((capacity_chars chars sp L < j /\ gen_new_column_name fuel (VDict d) (VInt (Z.of_nat L)) (VInt istart) (VFn jf) (VStr chars) (VBool sp) = Raise NamingConventionError)
        \/ (j <= capacity_chars chars sp L /\ length (key jf L chars sp j) = L
            /\ gen_new_column_name fuel (VDict d) (VInt (Z.of_nat L)) (VInt istart) (VFn jf) (VStr chars) (VBool sp) = Ok (VTuple [VStr (key jf L chars sp j); VInt j]))).
Proof. exact new_column_name_spec. Qed.
Print Assumptions new_column_name_unused.

(** rectangular(): the character set names are generated from (backward slice of rectangular() on `chars`) is
    duplicate-free for EVERY chars string and EVERY value of case: de-duplication comes after the case conversion *)
Theorem rectangular_chars_duplicate_free : forall case chars,
  exists r, gen_rectangular case (VStr chars) = Ok (VStr r) /\ NoDup r /\ r = uniq (cased case chars).
Proof. exact rectangular_chars_nodup. Qed.
Print Assumptions rectangular_chars_duplicate_free.

(** refine_layers (name-deciding slice over the list of layer names): whatever the atmosphere layer is called (atm),
    whatever the other old names, justification and number of new layers: the naming error (only past the capacity) or
    pairwise distinct layer names, one per layer, headed by atm -- or by the default surface name when a regenerated
    layer has taken atm *)
Theorem refine_layers_layer_names : forall fuel conv rj atm rest ths chars0 sp, (3 <= fuel)%nat -> In conv [0; 1; 2; 3] ->
  alphabet_ok sp (uniq chars0) ->
  let r := gen_refine_layers fuel (VBool rj) (VInt conv) (VInt (Z.of_nat (laylen conv))) (VList (VStr atm :: rest)) (VStr chars0) (VBool sp) (VList ths) in
  (r = Raise NamingConventionError /\ lay_capacity conv (uniq chars0) sp (laylen conv) < Z.of_nat (length ths) + 1)
  \/ (exists nl, r = Ok (VList (map VStr nl)) /\ NoDup nl /\ length nl = S (length ths)
        /\ ((exists t, nl = atm :: t) \/ (exists t, nl = surface_name conv :: t /\ In atm t))).
Proof. exact refine_layers_names. Qed.
Print Assumptions refine_layers_layer_names.

(** fix_block_mapping (two for loops over dictionary items, item assignment and deletion; the model returns the final
    dictionary): for every mapping with duplicate-free five-character keys and five-character values the call succeeds,
    every key and value of the result is repaired and is the repair of a key / value of the argument, keys stay
    duplicate-free, and a second call changes nothing *)
Theorem fix_block_mapping_repairs_and_is_idempotent : forall fuel m, wf5 m -> NoDup (keys m) ->
  exists R, gen_fix_block_mapping fuel (VDict (enc m)) = Ok (VDict (enc R))
    /\ NoDup (keys R)
    /\ (forall a b, In (a, b) R -> fixed a /\ fixed b /\ length a = 5%nat /\ length b = 5%nat
                                   /\ (exists a0, In a0 (keys m) /\ a = fix_blockname a0) /\ (exists b0, In b0 (map snd m) /\ b = fix_blockname b0))
    /\ gen_fix_block_mapping fuel (VDict (enc R)) = Ok (VDict (enc R)).
Proof. exact fix_block_mapping_spec. Qed.
Print Assumptions fix_block_mapping_repairs_and_is_idempotent.
