(** C17 -- property theorems, part 5 (round 6b): validity of names through a write/read cycle and through
    fix_block_mapping.  All about Gen.GenNames. *)
From Coq Require Import Ascii String List Bool Arith ZArith NArith.
From PTBase Require Import Exn PyStr PyNum PyVal.
From PTModel Require Import Names.
From P Require Import PyExt.
From Gen Require Import GenNames.
From P Require Import Spec Main Block Maps FixMap Valid Valid2.
Import ListNotations.

(** one write-then-read cycle (unfix on write, fix on read) of ANY five-character name: valid_blockname gives the
    same verdict before and after, and the result is left unchanged by further cycles *)
Theorem cycle_keeps_validity : forall n, length n = 5%nat ->
  exists r, gen_cycle (VStr n) = Ok (VStr r) /\ gen_valid_blockname (VStr r) = gen_valid_blockname (VStr n)
            /\ gen_cycle (VStr r) = Ok (VStr r).
Proof. exact t_cycle_keeps_valid. Qed.
Print Assumptions cycle_keeps_validity.
(** fix_block_mapping (NoDup five-character keys, five-character values): if valid_blockname accepts every key and
    value of the argument, it accepts every key and value of the repaired mapping, all of which are repaired names *)
Theorem fix_block_mapping_keeps_validity : forall fuel m, wf5 m -> NoDup (keys m) -> all_valid m ->
  exists R, gen_fix_block_mapping fuel (VDict (enc m)) = Ok (VDict (enc R)) /\ all_valid R
    /\ (forall a b, In (a, b) R -> fixed a /\ fixed b).
Proof. exact t_fix_block_mapping_valid. Qed.
Print Assumptions fix_block_mapping_keeps_validity.
