(** C17 -- property theorems, part 2: (a) spaces = False numeration, (b) the numbering wrappers,
    (c) block names, (d) add_layers, (e) uniqstring / new_dict_key.  All statements are about
    the functions generated from the current mulgrids.py (Gen.GenNames). *)
From Coq Require Import Ascii String List Bool Arith ZArith NArith.
From PTBase Require Import Exn PyStr PyNum PyVal.
From PTModel Require Import Names.
From Gen Require Import GenNames.
From P Require Import Spec Main Numeral Decimal Wrappers Block DictKey Layers.
Import ListNotations.
Open Scope Z_scope.

(** ** (a) int_to_chars, spaces = False: the base-n numeral of i over the alphabet, padded on the left
    with the alphabet's first character to the requested length (any alphabet of >= 2 characters) *)
Theorem int_to_chars_nospaces_is_numeral : forall chars i L, (2 <= length chars)%nat -> 0 <= i ->
  gen_int_to_chars (fuel_of (VInt i)) (VInt i) (vstr "") (VStr chars) (VBool false) (VInt (Z.of_nat L))
  = Ok (VStr (padded chars L (Z.to_N i))).
Proof. exact gen_i2c_nospaces. Qed.
Print Assumptions int_to_chars_nospaces_is_numeral.
Theorem int_to_chars_nospaces_inj : forall chars i j L, NoDup chars -> (2 <= length chars)%nat -> 0 <= i -> 0 <= j ->
  gen_int_to_chars (fuel_of (VInt i)) (VInt i) (vstr "") (VStr chars) (VBool false) (VInt (Z.of_nat L))
  = gen_int_to_chars (fuel_of (VInt j)) (VInt j) (vstr "") (VStr chars) (VBool false) (VInt (Z.of_nat L)) -> i = j.
Proof. exact t_i2c_ns_inj. Qed.
Print Assumptions int_to_chars_nospaces_inj.
(** ... alphabet characters only, never shorter than L, and exactly L long iff i < n^L *)
Theorem int_to_chars_nospaces_shape : forall chars i L, (2 <= length chars)%nat -> 0 <= i ->
  exists s, gen_int_to_chars (fuel_of (VInt i)) (VInt i) (vstr "") (VStr chars) (VBool false) (VInt (Z.of_nat L)) = Ok (VStr s)
    /\ Forall (fun c => In c chars) s /\ (L <= length s)%nat
    /\ ((length s <= L)%nat <-> (Z.to_N i < N.of_nat (length chars) ^ N.of_nat L)%N).
Proof. exact t_i2c_ns_shape. Qed.
Print Assumptions int_to_chars_nospaces_shape.

(** ** (b) column / node / layer name from number: for every convention number, name length L >= 1,
    justification, alphabet ([alphabet_ok]: duplicate-free; with spaces: non-empty and blank-free;
    without: at least two characters), spaces flag and number >= 0:
    the result is EITHER the explicit naming error, exactly when the number is past the capacity
    (10^L - 1 decimal; n + ... + n^L letters with spaces; n^L - 1 without), OR a name of exactly L
    characters; and two numbers never get the same name. *)
Theorem column_name_total : forall conv L jf chars sp num, alphabet_ok sp chars -> 0 <= num -> (1 <= L)%nat ->
  (gen_column_name_from_number (VInt conv) (VInt (Z.of_nat L)) (VInt num) (VFn jf) (VStr chars) (VBool sp) = Raise NamingConventionError
   /\ col_capacity conv chars sp L < num)
  \/ (exists s, gen_column_name_from_number (VInt conv) (VInt (Z.of_nat L)) (VInt num) (VFn jf) (VStr chars) (VBool sp) = Ok (VStr s)
      /\ length s = L /\ num <= col_capacity conv chars sp L).
Proof. exact column_total. Qed.
Print Assumptions column_name_total.
Theorem column_name_error_iff : forall conv L jf chars sp num, alphabet_ok sp chars -> 0 <= num -> (1 <= L)%nat ->
  gen_column_name_from_number (VInt conv) (VInt (Z.of_nat L)) (VInt num) (VFn jf) (VStr chars) (VBool sp) = Raise NamingConventionError
  <-> col_capacity conv chars sp L < num.
Proof. exact column_error_iff. Qed.
Print Assumptions column_name_error_iff.
Theorem column_name_inj : forall conv L jf chars sp a b s, alphabet_ok sp chars -> 0 <= a -> 0 <= b ->
  gen_column_name_from_number (VInt conv) (VInt (Z.of_nat L)) (VInt a) (VFn jf) (VStr chars) (VBool sp) = Ok s ->
  gen_column_name_from_number (VInt conv) (VInt (Z.of_nat L)) (VInt b) (VFn jf) (VStr chars) (VBool sp) = Ok s -> a = b.
Proof. exact column_inj. Qed.
Print Assumptions column_name_inj.

Theorem node_name_total : forall conv L jf chars sp num, alphabet_ok sp chars -> 0 <= num -> (1 <= L)%nat ->
  (gen_node_name_from_number (VInt conv) (VInt (Z.of_nat L)) (VInt num) (VFn jf) (VStr chars) (VBool sp) = Raise NamingConventionError
   /\ col_capacity conv chars sp L < num)
  \/ (exists s, gen_node_name_from_number (VInt conv) (VInt (Z.of_nat L)) (VInt num) (VFn jf) (VStr chars) (VBool sp) = Ok (VStr s)
      /\ length s = L /\ num <= col_capacity conv chars sp L).
Proof. exact node_total. Qed.
Print Assumptions node_name_total.
Theorem node_name_error_iff : forall conv L jf chars sp num, alphabet_ok sp chars -> 0 <= num -> (1 <= L)%nat ->
  gen_node_name_from_number (VInt conv) (VInt (Z.of_nat L)) (VInt num) (VFn jf) (VStr chars) (VBool sp) = Raise NamingConventionError
  <-> col_capacity conv chars sp L < num.
Proof. exact node_error_iff. Qed.
Print Assumptions node_name_error_iff.
Theorem node_name_inj : forall conv L jf chars sp a b s, alphabet_ok sp chars -> 0 <= a -> 0 <= b ->
  gen_node_name_from_number (VInt conv) (VInt (Z.of_nat L)) (VInt a) (VFn jf) (VStr chars) (VBool sp) = Ok s ->
  gen_node_name_from_number (VInt conv) (VInt (Z.of_nat L)) (VInt b) (VFn jf) (VStr chars) (VBool sp) = Ok s -> a = b.
Proof. exact node_inj. Qed.
Print Assumptions node_name_inj.

Theorem layer_name_total : forall conv L jf chars sp num, alphabet_ok sp chars -> 0 <= num -> (1 <= L)%nat ->
  (gen_layer_name_from_number (VInt conv) (VInt (Z.of_nat L)) (VInt num) (VFn jf) (VStr chars) (VBool sp) = Raise NamingConventionError
   /\ lay_capacity conv chars sp L < num)
  \/ (exists s, gen_layer_name_from_number (VInt conv) (VInt (Z.of_nat L)) (VInt num) (VFn jf) (VStr chars) (VBool sp) = Ok (VStr s)
      /\ length s = L /\ num <= lay_capacity conv chars sp L).
Proof. exact layer_total. Qed.
Print Assumptions layer_name_total.
Theorem layer_name_error_iff : forall conv L jf chars sp num, alphabet_ok sp chars -> 0 <= num -> (1 <= L)%nat ->
  gen_layer_name_from_number (VInt conv) (VInt (Z.of_nat L)) (VInt num) (VFn jf) (VStr chars) (VBool sp) = Raise NamingConventionError
  <-> lay_capacity conv chars sp L < num.
Proof. exact layer_error_iff. Qed.
Print Assumptions layer_name_error_iff.
Theorem layer_name_inj : forall conv L jf chars sp a b s, alphabet_ok sp chars -> 0 <= a -> 0 <= b ->
  gen_layer_name_from_number (VInt conv) (VInt (Z.of_nat L)) (VInt a) (VFn jf) (VStr chars) (VBool sp) = Ok s ->
  gen_layer_name_from_number (VInt conv) (VInt (Z.of_nat L)) (VInt b) (VFn jf) (VStr chars) (VBool sp) = Ok s -> a = b.
Proof. exact layer_inj. Qed.
Print Assumptions layer_name_inj.

(** ** (c) block names (empty block mapping), for each of the 4 conventions and ALL layer / column names
    of the convention's lengths ([laylen] / [collen], read from the generated tables):
    five characters, and column part / layer part give back column and layer EXACTLY WHEN the
    blank-in-fourth-column repair leaves the raw concatenation alone ([quirk_free]) *)
Theorem block_name_invertible_iff : forall conv lay col, In conv [0; 1; 2; 3] -> length lay = laylen conv -> length col = collen conv ->
  exists b, gen_block_name (VInt conv) (VStr lay) (VStr col) no_map = Ok (VStr b) /\ length b = 5%nat /\
    ((gen_column_name (VInt conv) (VStr b) = Ok (VStr col) /\ gen_layer_name (VInt conv) (VStr b) = Ok (VStr lay))
     <-> quirk_free conv lay col).
Proof. exact block_invertible_iff. Qed.
Print Assumptions block_name_invertible_iff.
(** distinct (layer, column) pairs give distinct block names *)
Theorem block_name_distinct : forall conv lay col lay' col', In conv [0; 1; 2; 3] ->
  length lay = laylen conv -> length col = collen conv -> quirk_free conv lay col ->
  length lay' = laylen conv -> length col' = collen conv -> quirk_free conv lay' col' ->
  gen_block_name (VInt conv) (VStr lay) (VStr col) no_map = gen_block_name (VInt conv) (VStr lay') (VStr col') no_map ->
  lay = lay' /\ col = col'.
Proof. exact block_name_inj. Qed.
Print Assumptions block_name_distinct.
(** hence: any duplicate-free list of (layer name, column name) pairs of a geometry gets duplicate-free block names *)
Theorem block_name_list_nodup : forall conv (ps : list (str * str)), In conv [0; 1; 2; 3] ->
  Forall (wf_pair conv) ps -> NoDup ps ->
  NoDup (map (fun p => gen_block_name (VInt conv) (VStr (fst p)) (VStr (snd p)) no_map) ps).
Proof. exact block_names_nodup. Qed.
Print Assumptions block_name_list_nodup.
(** the repair never fires on names produced by the numbering functions (digit-free alphabets): end to end *)
Theorem generated_block_names_invertible : forall conv jfc jfl charsc spc charsl spl nc nl col lay,
  In conv [0; 1; 2; 3] -> alphabet_ok spc charsc -> alphabet_ok spl charsl ->
  Forall nondigit charsc -> Forall nondigit charsl -> 0 <= nc -> 0 <= nl ->
  gen_column_name_from_number (VInt conv) (VInt (Z.of_nat (collen conv))) (VInt nc) (VFn jfc) (VStr charsc) (VBool spc) = Ok (VStr col) ->
  gen_layer_name_from_number (VInt conv) (VInt (Z.of_nat (laylen conv))) (VInt nl) (VFn jfl) (VStr charsl) (VBool spl) = Ok (VStr lay) ->
  exists b, gen_block_name (VInt conv) (VStr lay) (VStr col) no_map = Ok (VStr b) /\ length b = 5%nat /\
    gen_column_name (VInt conv) (VStr b) = Ok (VStr col) /\ gen_layer_name (VInt conv) (VStr b) = Ok (VStr lay).
Proof. exact generated_names_invertible. Qed.
Print Assumptions generated_block_names_invertible.
(** ... nor under the surface layer (one atmosphere block per column) or on the single atmosphere block *)
Theorem surface_block_names_invertible : forall conv jfc charsc spc nc col,
  In conv [0; 1; 2; 3] -> alphabet_ok spc charsc -> Forall nondigit charsc -> 0 <= nc ->
  gen_column_name_from_number (VInt conv) (VInt (Z.of_nat (collen conv))) (VInt nc) (VFn jfc) (VStr charsc) (VBool spc) = Ok (VStr col) ->
  exists b, gen_block_name (VInt conv) (VStr (surface_name conv)) (VStr col) no_map = Ok (VStr b) /\ length b = 5%nat /\
    gen_column_name (VInt conv) (VStr b) = Ok (VStr col) /\ gen_layer_name (VInt conv) (VStr b) = Ok (VStr (surface_name conv)).
Proof. exact surface_blocks_invertible. Qed.
Print Assumptions surface_block_names_invertible.
Theorem atmosphere_block_name_invertible : forall conv, In conv [0; 1; 2; 3] ->
  exists b, gen_block_name (VInt conv) (VStr (surface_name conv)) (VStr (atmosphere_column conv)) no_map = Ok (VStr b) /\ length b = 5%nat /\
    gen_column_name (VInt conv) (VStr b) = Ok (VStr (atmosphere_column conv)) /\ gen_layer_name (VInt conv) (VStr b) = Ok (VStr (surface_name conv)).
Proof. exact atmosphere_block_invertible. Qed.
Print Assumptions atmosphere_block_name_invertible.

(** ** (d) add_layers (name-deciding slice; while loop on fuel): with fuel >= 3, any number of layers, any
    justification argument, any alphabet that is fine after de-duplication: either the explicit naming error
    (only when there are more layers than capacity - 1), or the surface layer's name followed by one name per
    layer, ALL pairwise distinct and of the convention's length *)
Theorem add_layers_layer_names : forall fuel conv ths justify chars0 sp, (3 <= fuel)%nat -> In conv [0; 1; 2; 3] ->
  alphabet_ok sp (uniq chars0) ->
  let r := gen_add_layers fuel (VInt conv) (VInt (Z.of_nat (laylen conv))) (VList ths) justify (VStr chars0) (VBool sp) in
  (r = Raise NamingConventionError /\ lay_capacity conv (uniq chars0) sp (laylen conv) < Z.of_nat (length ths) + 1)
  \/ (exists nl, r = Ok (VList (map VStr (surface_name conv :: nl))) /\ length nl = length ths
        /\ NoDup (surface_name conv :: nl) /\ Forall (fun s => length s = laylen conv) (surface_name conv :: nl)).
Proof. exact add_layers_names. Qed.
Print Assumptions add_layers_layer_names.
Theorem add_layers_skips_surface_name : forall fuel conv ths justify chars0 sp nl, (3 <= fuel)%nat -> In conv [0; 1; 2; 3] ->
  alphabet_ok sp (uniq chars0) ->
  gen_add_layers fuel (VInt conv) (VInt (Z.of_nat (laylen conv))) (VList ths) justify (VStr chars0) (VBool sp)
    = Ok (VList (map VStr (surface_name conv :: nl))) ->
  ~ In (surface_name conv) nl /\ NoDup nl.
Proof. exact add_layers_never_surface. Qed.
Print Assumptions add_layers_skips_surface_name.
(** what the caller's alphabet must satisfy for that *)
Theorem uniq_alphabet_is_ok : forall sp chars, chars <> [] -> (sp = true -> ~ In " "%char chars) ->
  (sp = false -> exists a b, In a chars /\ In b chars /\ a <> b) -> alphabet_ok sp (uniq chars).
Proof. exact uniq_alphabet_ok. Qed.
Print Assumptions uniq_alphabet_is_ok.

(** ** (e) uniqstring: duplicate-free, same characters; new_dict_key: with |d| + 2 units of fuel the loop
    terminates and returns the FIRST unused key after istart (and its index) *)
Theorem uniqstring_nodup : forall s, exists r, gen_uniqstring (VStr s) = Ok (VStr r) /\ NoDup r /\ forall c, In c r <-> In c s.
Proof. exact t_uniqstring. Qed.
Print Assumptions uniqstring_nodup.
Theorem new_dict_key_unused : forall d jf L chars sp, alphabet_ok sp chars -> forall fuel istart,
  (length d + 2 <= fuel)%nat -> 0 <= istart ->
  exists j, gen_new_dict_key fuel (VDict d) (VInt istart) (VFn jf) (VInt (Z.of_nat L)) (VStr chars) (VBool sp)
            = Ok (VTuple [VStr (key jf L chars sp j); VInt j])
    /\ istart < j <= istart + Z.of_nat (length d) + 1
    /\ dict_get d (VStr (key jf L chars sp j)) = None
    /\ (forall k, istart < k < j -> dict_get d (VStr (key jf L chars sp k)) <> None).
Proof. exact new_dict_key_first_unused. Qed.
Print Assumptions new_dict_key_unused.
