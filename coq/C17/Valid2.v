(** C17 (round 6b): validity of block names through a whole write/read cycle and through fix_block_mapping. *)
From Coq Require Import Ascii String List Bool Arith ZArith NArith Lia.
From PTBase Require Import Exn PyStr PyNum PyVal.
From PTModel Require Import Names.
From P Require Import PyExt.
From Gen Require Import GenNames.
From P Require Import Spec Main Block Maps FixMap Valid.
Import ListNotations.
Open Scope char_scope.

(** one write-then-read cycle of ANY five-character name keeps its validity, and the result is a fixed point of the cycle *)
Lemma t_cycle_keeps_valid n : length n = 5%nat ->
  exists r, gen_cycle (VStr n) = Ok (VStr r) /\ gen_valid_blockname (VStr r) = gen_valid_blockname (VStr n)
            /\ gen_cycle (VStr r) = Ok (VStr r).
Proof.
  intro H. destruct (t_cycle_stabilises n H) as (r & E & S). exists r. split; [exact E|]. split; [|exact S].
  unfold gen_cycle in E. rewrite gen_unfix5 in E by exact H. cbn [bind] in E.
  rewrite gen_fix5 in E by (apply unfix_length; exact H). assert (Er : r = fix_blockname (unfix_blockname n)) by congruence.
  subst r. rewrite !gen_valid5 by (try rewrite fix_length; try apply unfix_length; exact H).
  rewrite valid5_fix, valid5_unfix. reflexivity.
Qed.

Definition all_valid (m : smap) : Prop := forall k v, In (k, v) m ->
  gen_valid_blockname (VStr k) = Ok (VBool true) /\ gen_valid_blockname (VStr v) = Ok (VBool true).

(** fix_block_mapping: a mapping of valid names (NoDup five-character keys) is repaired into a mapping of valid names *)
Lemma t_fix_block_mapping_valid fuel m : wf5 m -> NoDup (keys m) -> all_valid m ->
  exists R, gen_fix_block_mapping fuel (VDict (enc m)) = Ok (VDict (enc R)) /\ all_valid R
    /\ (forall a b, In (a, b) R -> fixed a /\ fixed b).
Proof.
  intros W ND V. destruct (fix_block_mapping_spec fuel m W ND) as (R & E & _ & P & _).
  exists R. split; [exact E|]. split.
  - intros a b I. destruct (P a b I) as (_ & _ & La & Lb & (a0 & Ia & ->) & (b0 & Ib & ->)).
    unfold keys in Ia. apply in_map_iff in Ia as ([k1 v1] & <- & I1). apply in_map_iff in Ib as ([k2 v2] & <- & I2).
    cbn [fst snd] in *. destruct (W _ _ I1) as [L1 _]. destruct (W _ _ I2) as [_ L2].
    destruct (V _ _ I1) as [V1 _]. destruct (V _ _ I2) as [_ V2].
    rewrite gen_valid5 in V1 by exact L1. rewrite gen_valid5 in V2 by exact L2.
    rewrite !gen_valid5 by (rewrite fix_length; assumption). rewrite !valid5_fix.
    split; congruence.
  - intros a b I. destruct (P a b I) as (Fa & Fb & _). split; assumption.
Qed.

(** non-vacuity *)
Example ex_map_valid : let m := [(s2l "ab1 5", s2l "cd2 7"); (s2l "xyz12", s2l "  a 1")] in
  wf5 m /\ NoDup (keys m) /\ all_valid m.
Proof.
  cbn zeta. split; [|split].
  - intros k v [H|[H|[]]]; inversion H; split; reflexivity.
  - repeat constructor; cbn [In]; intuition discriminate.
  - intros k v [H|[H|[]]]; inversion H; split; reflexivity.
Qed.
