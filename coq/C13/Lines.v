(** C13: one record line.  What the Fortran reader returns on a line the writer produced:
    the fields that were written read back as their own formatted text (C02: nothing is
    displaced), the columns after them (a newline, the padding of [padstring]) read as
    absent.  Structure only: what a formatted field reads back as is the decidable
    per-value statement [readback_ok] of Num.v. *)
From Coq Require Import Ascii String List Bool Arith ZArith NArith Lia.
From PTBase Require Import Exn PyStr PyNum PyVal Fmt FixedFormat.
From PTModel Require Import Fortran.
From P Require Import Num Names InconIO Wf.
Import ListNotations.
Open Scope nat_scope.
Open Scope list_scope.

(** ** small list facts *)
Lemma forallb2_length {A B} (p : A -> B -> bool) : forall a b, forallb2 p a b = true -> length a = length b.
Proof.
  induction a as [|x a IH]; destruct b as [|y b]; cbn; intro H; try discriminate; [reflexivity|].
  apply andb_prop in H as [_ H]. f_equal. apply IH. exact H.
Qed.
Lemma forallb_firstn {A} (p : A -> bool) n : forall l, forallb p l = true -> forallb p (firstn n l) = true.
Proof.
  induction n as [|n IH]; intros [|a l]; cbn; auto. intro H. apply andb_prop in H as [H1 H2]. rewrite H1. apply IH. exact H2.
Qed.
Lemma forallb_skipn {A} (p : A -> bool) n : forall l, forallb p l = true -> forallb p (skipn n l) = true.
Proof.
  induction n as [|n IH]; intros [|a l]; cbn; auto. intro H. apply andb_prop in H as [_ H2]. apply IH. exact H2.
Qed.
Lemma forallb_slice {A} (p : A -> bool) a b l : forallb p l = true -> forallb p (slice a b l) = true.
Proof. intro H. unfold slice. apply forallb_firstn, forallb_skipn. exact H. Qed.
Lemma forallb_spaces n : forallb is_space (spaces n) = true.
Proof. induction n; cbn; auto. Qed.
Lemma map2_length {A B C} (f : A -> B -> C) : forall a b, length (map2 f a b) = Nat.min (length a) (length b).
Proof. induction a as [|x a IH]; destruct b as [|y b]; cbn; auto. Qed.
Lemma map2_app {A B C} (f : A -> B -> C) : forall a1 b1 a2 b2, length a1 = length b1 ->
  map2 f (a1 ++ a2) (b1 ++ b2) = map2 f a1 b1 ++ map2 f a2 b2.
Proof.
  induction a1 as [|x a IH]; destruct b1 as [|y b]; cbn; intros a2 b2 H; try discriminate; [reflexivity|].
  f_equal. apply IH. lia.
Qed.
Lemma map2_combine {A B C} (f : A -> B -> C) : forall a b, map (fun p => f (fst p) (snd p)) (combine a b) = map2 f a b.
Proof. induction a as [|x a IH]; destruct b as [|y b]; cbn; auto. f_equal. apply IH. Qed.
Lemma map2_ext_in {A B C} (f g : A -> B -> C) : forall a b,
  (forall x y, In x a -> f x y = g x y) -> map2 f a b = map2 g a b.
Proof.
  induction a as [|x a IH]; destruct b as [|y b]; cbn; intro H; auto. f_equal; [apply H; auto|apply IH; intros; apply H; auto].
Qed.

(** ** reading a line *)
Definition rd (f : fspec) (s : str) : mval := mval_of (fortran_rf (ft f) s).
Lemma parse_m_map2 specs line : parse_m specs line = map2 rd specs (field_slices specs line).
Proof.
  unfold parse_m, parse_string. rewrite map_map. rewrite <- map2_combine. reflexivity.
Qed.

Lemma line_spec_app pos ws1 ws2 :
  line_spec pos (ws1 ++ ws2) = line_spec pos ws1 ++ line_spec (pos + list_sum ws1) ws2.
Proof.
  revert pos. induction ws1 as [|w r IH]; intro pos.
  - cbn. rewrite Nat.add_0_r. reflexivity.
  - change (list_sum (w :: r)) with (w + list_sum r)%nat. cbn [app line_spec]. rewrite IH. cbn [app].
    rewrite Nat.add_assoc. reflexivity.
Qed.
Lemma concat_length_sum (l : list str) : length (concat l) = list_sum (map (@length ascii) l).
Proof. induction l as [|a l IH]; cbn; [reflexivity|]. rewrite app_length, IH. reflexivity. Qed.

(** the columns of the written fields hold the fields; the later columns are columns of
    what follows them on the line *)
Lemma field_slices_written specs1 specs2 (l : list str) rest :
  map (@length ascii) l = map width specs1 ->
  field_slices (specs1 ++ specs2) (concat l ++ rest) = l ++ field_slices specs2 rest.
Proof.
  intro W. unfold field_slices. rewrite map_app, line_spec_app, map_app. f_equal.
  - rewrite <- W. apply parse_write.
  - cbn [Nat.add]. rewrite <- W, <- concat_length_sum.
    rewrite <- (Nat.add_0_r (length (concat l))). apply parse_shift.
Qed.
Lemma parse_m_written specs1 specs2 (l : list str) rest :
  map (@length ascii) l = map width specs1 ->
  parse_m (specs1 ++ specs2) (concat l ++ rest) = map2 rd specs1 l ++ parse_m specs2 rest.
Proof.
  intro W. rewrite !parse_m_map2. rewrite (field_slices_written _ _ _ _ W).
  apply map2_app. rewrite <- (map_length width specs1), <- W, map_length. reflexivity.
Qed.

(** columns that hold only blanks (or the newline) read as absent, for every non-string field *)
Definition no_str (specs : list fspec) : bool := forallb (fun f => negb (fty_eqb (ft f) Ts)) specs.
Lemma field_slices_blank specs rest : forallb is_space rest = true ->
  Forall (fun s => forallb is_space s = true) (field_slices specs rest).
Proof.
  intro H. unfold field_slices. apply Forall_forall. intros s Hs. apply in_map_iff in Hs as [ab [<- _]].
  apply forallb_slice. exact H.
Qed.
Lemma field_slices_length specs line : length (field_slices specs line) = length specs.
Proof.
  unfold field_slices. rewrite map_length.
  assert (L : forall pos ws, length (line_spec pos ws) = length ws).
  { intros pos ws; revert pos; induction ws as [|w r IH]; intro pos; cbn; [reflexivity|]. rewrite IH. reflexivity. }
  rewrite L, map_length. reflexivity.
Qed.
Lemma map2_rd_blank : forall specs ss, no_str specs = true -> length ss = length specs ->
  Forall (fun s => forallb is_space s = true) ss -> map2 rd specs ss = repeat MNone (length specs).
Proof.
  induction specs as [|f fs IH]; intros [|s ss] N Len F; cbn in *; try discriminate; [reflexivity|].
  apply andb_prop in N as [N1 N2]. inversion F; subst. f_equal.
  - unfold rd. rewrite blank_reads_none; [reflexivity| |assumption].
    intro E. rewrite E in N1. discriminate.
  - apply IH; [assumption|lia|assumption].
Qed.
Lemma parse_m_blank specs rest : no_str specs = true -> forallb is_space rest = true ->
  parse_m specs rest = repeat MNone (length specs).
Proof.
  intros N B. rewrite parse_m_map2. apply map2_rd_blank; [exact N|apply field_slices_length|apply field_slices_blank; exact B].
Qed.

(** ** writing a line: field by field *)
Fixpoint fmt_all (specs : list fspec) (vals : list mval) : res (list str) :=
  match specs, vals with
  | f :: fs, v :: vs => do s <- fmt_m f v; do r <- fmt_all fs vs; Ok (s :: r)
  | _, _ => Ok []
  end.
Lemma fmt_all_emit : forall specs vals l, length vals <= length specs -> fmt_all specs vals = Ok l ->
  emit specs vals = Ok (concat l ++ [newline]).
Proof.
  assert (G : forall specs vals l, length vals <= length specs -> fmt_all specs vals = Ok l ->
              exists xs, mapM value_of vals = Ok xs /\ write_fields specs xs = Ok l).
  { induction specs as [|f fs IH]; intros [|v vs] l Len; cbn [fmt_all length] in *; intro H.
    - inversion H; subst. exists []. auto.
    - lia.
    - inversion H; subst. exists []. auto.
    - unfold fmt_m in H at 1. destruct (value_of v) as [x|e] eqn:V; cbn [bind] in H; [|discriminate].
      destruct (fmt_field f x) as [s|e] eqn:F; cbn [bind] in H; [|discriminate].
      destruct (fmt_all fs vs) as [r|e] eqn:R; cbn [bind] in H; [|discriminate].
      inversion H; subst. destruct (IH vs r ltac:(lia) R) as [xs [M Wr]].
      exists (x :: xs). cbn [mapM write_fields]. rewrite V, M, F, Wr. auto. }
  intros specs vals l Len H. destruct (G _ _ _ Len H) as [xs [M Wr]].
  unfold emit, write_values. rewrite M. cbn [bind]. rewrite Wr. reflexivity.
Qed.
Lemma fmt_all_widths : forall specs vals l, fmt_all specs vals = Ok l ->
  map (@length ascii) l = map width (firstn (length vals) specs) /\ length l = Nat.min (length specs) (length vals).
Proof.
  induction specs as [|f fs IH]; intros [|v vs] l; cbn [fmt_all length firstn map]; intro H; try (inversion H; subst; auto; fail).
  unfold fmt_m in H at 1. destruct (value_of v) as [x|e] eqn:V; cbn [bind] in H; [|discriminate].
  destruct (fmt_field f x) as [s|e] eqn:F; cbn [bind] in H; [|discriminate].
  destruct (fmt_all fs vs) as [r|e] eqn:R; cbn [bind] in H; [|discriminate].
  inversion H; subst. destruct (IH _ _ R) as [A B]. cbn [map length]. rewrite (fmt_field_width _ _ _ F), A, B. auto.
Qed.

(** from the field-level hypothesis: the line is written and each written field reads back
    as the canonical value *)
Lemma line_ok_fmt_all : forall specs vals, forallb2 readback_ok specs vals = true ->
  exists l, fmt_all specs vals = Ok l /\ map2 rd specs l = map2 canon_field specs vals.
Proof.
  induction specs as [|f fs IH]; intros [|v vs]; cbn [forallb2 fmt_all]; intro H; try discriminate.
  - exists []. auto.
  - apply andb_prop in H as [H1 H2]. destruct (readback_ok_spec _ _ H1) as [s [Fs Rs]].
    destruct (IH _ H2) as [r [Fr Rr]]. exists (s :: r). rewrite Fs, Fr. cbn [bind map2]. split; [reflexivity|].
    unfold rd at 1. rewrite Rs, Rr. reflexivity.
Qed.

(** THE line lemma: a record of [n] values written with the first [n] fields of a layout
    and read with a layout that agrees with it on those fields (same widths and types),
    possibly longer, followed by blanks *)
Definition same_cols (a b : list fspec) : bool := forallb2 compat a b.
Lemma same_cols_widths : forall a b, same_cols a b = true -> map width a = map width b.
Proof.
  induction a as [|x a IH]; destruct b as [|y b]; cbn; intro H; try discriminate; [reflexivity|].
  apply andb_prop in H as [H1 H2]. unfold compat in H1. apply andb_prop in H1 as [W _]. apply Nat.eqb_eq in W.
  rewrite W, (IH _ H2). reflexivity.
Qed.
Lemma same_cols_rd : forall a b l, same_cols a b = true -> map2 rd a l = map2 rd b l.
Proof.
  induction a as [|x a IH]; destruct b as [|y b]; cbn; intros l H; try discriminate; [reflexivity|].
  destruct l as [|s l]; [reflexivity|]. apply andb_prop in H as [H1 H2]. unfold compat in H1. apply andb_prop in H1 as [_ T].
  cbn [map2]. rewrite (IH _ _ H2). f_equal. unfold rd.
  destruct (ft x), (ft y); try discriminate T; reflexivity.
Qed.
Lemma same_cols_refl a : same_cols a a = true.
Proof.
  induction a as [|x a IH]; [reflexivity|]. unfold same_cols in *. cbn [forallb2]. rewrite IH. unfold compat. rewrite Nat.eqb_refl. destruct (ft x); reflexivity.
Qed.

Lemma fmt_all_extra : forall wspecs wextra vals, length wspecs = length vals ->
  fmt_all (wspecs ++ wextra) vals = fmt_all wspecs vals.
Proof.
  induction wspecs as [|f fs IH]; intros wextra [|v vs] Len; cbn in Len; try discriminate.
  - destruct wextra; reflexivity.
  - cbn [app fmt_all]. rewrite IH by lia. reflexivity.
Qed.

Theorem written_line_reads wspecs wextra rspecs1 rspecs2 vals rest :
  forallb2 readback_ok wspecs vals = true ->
  same_cols wspecs rspecs1 = true ->
  no_str rspecs2 = true -> forallb is_space rest = true ->
  exists line, emit (wspecs ++ wextra) vals = Ok (line ++ [newline]) /\
    parse_m (rspecs1 ++ rspecs2) (line ++ newline :: rest) = map2 canon_field wspecs vals ++ repeat MNone (length rspecs2).
Proof.
  intros H SC NS B. destruct (line_ok_fmt_all _ _ H) as [l [Fl Rl]].
  pose proof (forallb2_length _ _ _ H) as Len.
  exists (concat l). split.
  - apply fmt_all_emit; [rewrite app_length; lia|]. rewrite fmt_all_extra by exact Len. exact Fl.
  - destruct (fmt_all_widths _ _ _ Fl) as [Wd _]. rewrite <- Len, firstn_all in Wd.
    rewrite parse_m_written by (rewrite Wd; apply same_cols_widths; exact SC).
    rewrite <- (same_cols_rd _ _ _ SC), Rl. f_equal.
    apply parse_m_blank; [exact NS|]. cbn [forallb]. rewrite B. reflexivity.
Qed.
