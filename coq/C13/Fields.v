(** C13: what a formatted field reads back as -- the per-field statement [readback_ok] of
    Num.v PROVED for absent values, integers, reals and names that fit their columns:
    the Fortran read function applied to the text ['%wd' % z] returns [z], and applied to
    ['%w.qe' % x] returns the decimal the text denotes (mantissa digits and exponent as the
    formatter computed them), whose nearest double is [canon_field].  No arithmetic of the
    formatter is needed: only that it prints digits. *)
From Coq Require Import Ascii String List Bool Arith ZArith NArith Lia.
From Coq Require Import DecimalString DecimalN DecimalZ DecimalPos.
From PTBase Require Import Exn PyStr PyNum PyVal Fmt FixedFormat.
From PTModel Require Import Fortran FortranNF FortranRender.
From P Require Import Num.
Import ListNotations.
Open Scope char_scope.
Open Scope nat_scope.
Open Scope list_scope.

(** ** decimal digits of a natural number *)
Definition ustr (d : Decimal.uint) : str := s2l (NilEmpty.string_of_uint d).
Lemma ustr_digits d : all_digits (ustr d) = true.
Proof. unfold ustr. induction d; cbn [NilEmpty.string_of_uint s2l list_ascii_of_string all_digits forallb]; try exact IHd; reflexivity. Qed.
Lemma ustr_acc d : forall acc, dvalue (Npos acc) (ustr d) = Npos (Pos.of_uint_acc d acc).
Proof.
  unfold ustr. induction d; intro acc; cbn [NilEmpty.string_of_uint s2l list_ascii_of_string dvalue Pos.of_uint_acc]; [reflexivity|..];
  match goal with |- dvalue (?a * 10 + ndval ?c)%N _ = N.pos (Pos.of_uint_acc _ ?y) =>
    let v := eval vm_compute in (ndval c) in change (ndval c) with v;
    replace (a * 10 + v)%N with (N.pos y) by lia end; apply IHd.
Qed.
Lemma ustr_value d : dvalue 0 (ustr d) = Pos.of_uint d.
Proof.
  unfold ustr. induction d; cbn [NilEmpty.string_of_uint s2l list_ascii_of_string dvalue Pos.of_uint]; [reflexivity|exact IHd|..];
  match goal with |- dvalue (0 * 10 + ndval ?c)%N _ = N.pos (Pos.of_uint_acc _ ?y) =>
    let v := eval vm_compute in (ndval c) in change (ndval c) with v;
    change (0 * 10 + v)%N with (N.pos y) end; apply ustr_acc.
Qed.
Lemma ustr_nonnil d : d <> Decimal.Nil -> ustr d <> [].
Proof. destruct d; [congruence|discriminate..]. Qed.
Lemma nzstr_facts d : all_digits (s2l (NilZero.string_of_uint d)) = true /\ s2l (NilZero.string_of_uint d) <> [] /\
                      dvalue 0 (s2l (NilZero.string_of_uint d)) = Pos.of_uint d.
Proof.
  destruct d; [repeat split; try reflexivity; discriminate|..];
  match goal with |- all_digits (s2l (NilZero.string_of_uint ?D)) = true /\ _ =>
    change (s2l (NilZero.string_of_uint D)) with (ustr D);
    repeat split; [apply ustr_digits|apply ustr_nonnil; discriminate|apply ustr_value] end.
Qed.
Lemma n_to_str_digits n : all_digits (n_to_str n) = true /\ n_to_str n <> [] /\ dvalue 0 (n_to_str n) = n.
Proof.
  unfold n_to_str. pose proof (DecimalN.Unsigned.of_to n) as OT. unfold N.of_uint in OT.
  destruct (nzstr_facts (N.to_uint n)) as (A & B & C). rewrite OT in C. auto.
Qed.
Lemma zdigits_facts z : all_digits (zdigits z) = true /\ zdigits z <> [] /\ dvalue 0 (zdigits z) = Z.to_N z.
Proof. unfold zdigits. apply n_to_str_digits. Qed.

(** ** signed integers *)
Lemma z_to_str_shape z : z_to_str z = (if (z <? 0)%Z then ["-"] else []) ++ n_to_str (Z.to_N (Z.abs z)).
Proof. destruct z; reflexivity. Qed.

(** ** padding: ['%wd'], ['%w.pe'] with a positive width put blanks in front *)
Definition nocsp (t : str) : bool := forallb (fun c => negb (is_cspace c)) t.
Lemma pad_pos w t : (0 < w)%Z -> exists n, pad w t = spaces n ++ t.
Proof. intro H. unfold pad. assert (E : (w <? 0)%Z = false) by (apply Z.ltb_ge; lia). rewrite E. unfold rjust. eauto. Qed.
Lemma spaces_cspace n : forallb is_cspace (spaces n) = true.
Proof. induction n; cbn; auto. Qed.
Lemma cstrip_spaces n t : nocsp t = true -> cstrip (spaces n ++ t) = t.
Proof.
  intro H. unfold cstrip. rewrite <- (app_nil_r t) at 1. apply strip_by_wrap; [apply spaces_cspace|reflexivity|exact H].
Qed.
Lemma cstrip_id t : nocsp t = true -> cstrip t = t.
Proof. intro H. apply strip_by_nochar. exact H. Qed.
Lemma py_float_pad n t : nocsp t = true -> py_float_opt (spaces n ++ t) = py_float_opt t.
Proof. intro H. unfold py_float_opt. rewrite cstrip_spaces, cstrip_id by exact H. reflexivity. Qed.
Lemma py_int_pad n t : nocsp t = true -> py_int_opt (spaces n ++ t) = py_int_opt t.
Proof. intro H. unfold py_int_opt. rewrite cstrip_spaces, cstrip_id by exact H. reflexivity. Qed.

(** ** an integer field *)
Lemma int_text_reads z : nocsp (z_to_str z) = true /\ py_int_opt (z_to_str z) = Some z.
Proof.
  rewrite z_to_str_shape. destruct (n_to_str_digits (Z.to_N (Z.abs z))) as (A & NE & V).
  set (ds := n_to_str (Z.to_N (Z.abs z))) in *.
  assert (Nd : nocsp ds = true) by (apply all_digits_nocspace; exact A).
  assert (DP : digitpart 0 ds = Some (Z.to_N (Z.abs z), length ds, [])).
  { rewrite <- (app_nil_r ds) at 1. rewrite digitpart_digits by (try assumption; reflexivity). rewrite V. reflexivity. }
  destruct (z <? 0)%Z eqn:Neg.
  - split; [cbn [app nocsp forallb]; exact Nd|]. unfold py_int_opt. rewrite cstrip_id by (cbn [app nocsp forallb]; exact Nd).
    cbn [app]. change (sign ("-" :: ds)) with (true, ds). cbn [fst snd]. unfold int_body. rewrite DP. f_equal. apply Z.ltb_lt in Neg. rewrite Z2N.id by lia. lia.
  - split; [exact Nd|]. cbn [app]. unfold py_int_opt. rewrite cstrip_id by exact Nd.
    destruct ds as [|c r] eqn:Eds; [congruence|]. cbn in A. apply andb_prop in A as [Dc _].
    destruct (digit_facts c Dc) as (M & P & _). cbn [sign]. rewrite M, P. cbn [fst snd]. unfold int_body. rewrite DP.
    f_equal. apply Z.ltb_ge in Neg. rewrite Z2N.id by lia. lia.
Qed.
Lemma fortran_int_reads n z : fortran_int (spaces n ++ z_to_str z) VNone = VInt z.
Proof. destruct (int_text_reads z) as [Nc R]. unfold fortran_int. rewrite py_int_pad by exact Nc. rewrite R. reflexivity. Qed.

Theorem int_field_reads_back f z s : ft f = Td -> (0 < fw f)%Z -> fmt_m f (MInt z) = Ok s -> readback_ok f (MInt z) = true.
Proof.
  intros T W F. unfold readback_ok. rewrite F. unfold fmt_m, value_of in F. cbn [bind] in F.
  unfold fmt_field in F. rewrite T in F. unfold fmt_raw in F. rewrite T in F. cbn [bind] in F.
  destruct (length (fmt_int (fw f) z) <=? width f); [|discriminate]. injection F as <-.
  unfold fmt_int. destruct (pad_pos (fw f) (z_to_str z) W) as [n ->].
  unfold fortran_rf. rewrite T. rewrite fortran_int_reads. unfold canon_field. rewrite T. cbn [mval_of mval_eqb]. apply Z.eqb_refl.
Qed.

(** ** an absent value *)
Theorem none_field_reads_back f : ft f <> Ts -> readback_ok f MNone = true.
Proof.
  intro T. unfold readback_ok, fmt_m, value_of. cbn [bind]. unfold fmt_field.
  rewrite (blank_reads_none (ft f) (spaces (width f)) T); [reflexivity|].
  clear. induction (width f); cbn; auto.
Qed.

(** ** a name: five characters in a five-column string field, not ending in a newline *)
Definition no_trailing_newline (s : str) : bool :=
  match rev s with c :: _ => negb (ceqb c newline) | [] => true end.
Lemma rstrip_c_id ch s : match rev s with c :: _ => negb (ceqb c ch) | [] => true end = true -> rstrip_c ch s = s.
Proof.
  intro H. unfold rstrip_c. destruct (rev s) as [|c r] eqn:E.
  - cbn. rewrite <- (rev_involutive s), E. reflexivity.
  - cbn [lstrip_c]. apply negb_true_iff in H. rewrite H. rewrite <- E. apply rev_involutive.
Qed.
Theorem str_field_reads_back f s : ft f = Ts -> length s = width f -> no_trailing_newline s = true ->
  readback_ok f (MStr s) = true.
Proof.
  intros T Len NT. unfold readback_ok, fmt_m, value_of. cbn [bind]. unfold fmt_field. rewrite T. unfold fmt_raw. rewrite T. cbn [bind].
  assert (P : fmt_str (fw f) s = s).
  { unfold fmt_str, pad, width in *. destruct (fw f <? 0)%Z eqn:E.
    - unfold ljust. apply Z.ltb_lt in E. replace (Z.to_nat (- fw f) - length s) with 0 by lia. apply app_nil_r.
    - unfold rjust. apply Z.ltb_ge in E. replace (Z.to_nat (fw f) - length s) with 0 by lia. reflexivity. }
  rewrite P. rewrite Len, Nat.leb_refl. unfold fortran_rf. rewrite (rstrip_c_id newline s NT).
  unfold canon_field. destruct (ft f); cbn [mval_of mval_eqb]; apply str_eqb_refl.
Qed.

(** ** a real field *)
Lemma fit_loop_prec f v : forall n s, fit_loop f v n = Ok s ->
  exists q, fit_prec f v n = Some q /\ fmt_raw f q v = Ok s.
Proof.
  induction n as [|n IH]; cbn [fit_loop fit_prec]; intros s H; [discriminate|].
  destruct (fmt_raw f (Z.of_nat n) v) as [t|] eqn:E; [|discriminate].
  destruct (length t <=? width f); [|apply IH; exact H]. injection H as <-. eauto.
Qed.
Lemma fmt_used f ng m e s : ft f = Te -> fmt_m f (MNum (PDy ng m e)) = Ok s ->
  exists q, used_prec f (XReal ng m e) = Some q /\ s = fmt_e (fw f) q ng m e.
Proof.
  intros T F. unfold fmt_m, value_of in F. cbn [bind] in F. unfold fmt_field in F. rewrite T in F.
  unfold used_prec.
  assert (R : forall q, fmt_raw f q (XReal ng m e) = Ok (fmt_e (fw f) q ng m e)) by (intro q; unfold fmt_raw; rewrite T; reflexivity).
  rewrite R in *. cbn [bind] in F. destruct (length (fmt_e (fw f) (prec f) ng m e) <=? width f).
  - injection F as <-. eauto.
  - cbn [is_real_ty] in F. destruct (fit_loop_prec _ _ _ _ F) as [q [Q E]]. rewrite R in E. injection E as <-. eauto.
Qed.

Lemma dvalue_zeros n : dvalue 0 (repeat "0" n) = 0%N.
Proof. induction n; [reflexivity|]. cbn [repeat dvalue]. exact IHn. Qed.
Lemma all_digits_zeros n : all_digits (repeat "0" n) = true.
Proof. induction n; cbn; auto. Qed.
Lemma two_digits_facts k : (0 <= k)%Z -> all_digits (two_digits k) = true /\ two_digits k <> [] /\ dvalue 0 (two_digits k) = Z.to_N k.
Proof.
  intros _. destruct (zdigits_facts k) as (A & NE & V). unfold two_digits.
  destruct (length (zdigits k) <? 2); [|auto]. repeat split; [cbn; exact A|discriminate|cbn [dvalue]; exact V].
Qed.
Lemma nearest_zero ng e10 : nearest (Fin ng 0 e10) = PDy ng 0 0.
Proof. reflexivity. Qed.

Definition e_text (q : Z) (ng : bool) (m e : Z) : str := if ng then "-" :: fmt_e_body q m e else fmt_e_body q m e.
Lemma nocsp_app a b : nocsp (a ++ b) = nocsp a && nocsp b.
Proof. apply forallb_app. Qed.
Lemma nocsp_digits ds : all_digits ds = true -> nocsp ds = true.
Proof. apply all_digits_nocspace. Qed.

Lemma nocsp_cons c t : is_cspace c = false -> nocsp (c :: t) = nocsp t.
Proof. intro H. unfold nocsp. cbn [forallb]. rewrite H. reflexivity. Qed.

Lemma e_text_reads q ng m e : (0 < q)%Z ->
  nocsp (e_text q ng m e) = true /\
  exists v, py_float_opt (e_text q ng m e) = Some v /\ nearest v = nearest (round_dec q ng m e).
Proof.
  intro Hq. assert (Q : (0 <? q)%Z = true) by (apply Z.ltb_lt; exact Hq).
  set (sg := if ng then Some true else @None bool).
  assert (Esg : forall body, (if ng then "-" :: body else body) = sgstr sg ++ body) by (intro; unfold sg; destruct ng; reflexivity).
  assert (Ng : isneg sg = ng) by (unfold sg; destruct ng; reflexivity).
  assert (Nsg : nocsp (sgstr sg) = true) by (unfold sg; destruct ng; reflexivity).
  unfold e_text. rewrite Esg. unfold fmt_e_body, round_dec. destruct (m =? 0)%Z.
  - (* zero *)
    rewrite Q. change (("0" :: "." :: zeros q) ++ s2l "e+00") with (mant ["0"] (zeros q) ++ "e" :: sgstr (Some false) ++ s2l "00").
    split.
    + rewrite nocsp_app, Nsg. unfold mant, zeros. cbn [app sgstr]. rewrite !nocsp_cons by reflexivity.
      rewrite nocsp_app, (nocsp_digits _ (all_digits_zeros _)). reflexivity.
    + unfold zeros. rewrite float_letter; [|repeat split; [apply all_digits_zeros|left; discriminate]|split; [discriminate|reflexivity]].
      eexists. split; [reflexivity|]. rewrite Ng. cbn [app dvalue]. rewrite dvalue_zeros. rewrite !nearest_zero. reflexivity.
  - destruct (num_den m e) as [num den]. destruct (sci q num den) as [N k].
    destruct (zdigits_facts N) as (A & NE & V). unfold ndig.
    destruct (zdigits N) as [|c rest] eqn:Eds; [congruence|].
    cbn in A. apply andb_prop in A as [Dc Ar].
    destruct (two_digits_facts (Z.abs k) (Z.abs_nonneg k)) as (A2 & NE2 & V2).
    rewrite Q. cbv zeta.
    assert (Sg : ["e"; if (k <? 0)%Z then "-" else "+"] ++ two_digits (Z.abs k) = "e" :: sgstr (Some (k <? 0)%Z) ++ two_digits (Z.abs k))
      by (destruct (k <? 0)%Z; reflexivity).
    rewrite Sg. change (c :: "." :: rest) with (mant [c] rest).
    split.
    + rewrite nocsp_app, Nsg. unfold mant. cbn [app]. destruct (digit_facts c Dc) as (_ & _ & Cc & _).
      rewrite (nocsp_cons c) by exact Cc. rewrite nocsp_cons by reflexivity. rewrite nocsp_app, (nocsp_digits _ Ar).
      rewrite nocsp_cons by reflexivity. rewrite nocsp_app, (nocsp_digits _ A2). destruct (k <? 0)%Z; reflexivity.
    + rewrite float_letter; [|repeat split; [cbn; rewrite Dc; reflexivity|exact Ar|left; discriminate]|split; assumption].
      eexists. split; [reflexivity|]. rewrite Ng. f_equal. f_equal.
      * cbn [app]. exact V.
      * rewrite V2. cbn [length]. unfold signed, isneg. destruct (k <? 0)%Z eqn:Kn.
        -- apply Z.ltb_lt in Kn. rewrite Z2N.id by lia. lia.
        -- apply Z.ltb_ge in Kn. rewrite Z2N.id by lia. lia.
Qed.

Lemma pnum_eqb_refl a : pnum_eqb a a = true.
Proof. destruct a as [ng m e| |ng]; cbn; rewrite ?Bool.eqb_reflx, ?Z.eqb_refl; reflexivity. Qed.

Theorem real_field_reads_back f ng m e s : ft f = Te -> (0 < fw f)%Z -> fmt_m f (MNum (PDy ng m e)) = Ok s ->
  (forall q, used_prec f (XReal ng m e) = Some q -> (0 < q)%Z) -> readback_ok f (MNum (PDy ng m e)) = true.
Proof.
  intros T W F Hq. unfold readback_ok. rewrite F. destruct (fmt_used _ _ _ _ _ T F) as [q [U ->]].
  destruct (e_text_reads q ng m e (Hq q U)) as [Nc [v [P Nv]]].
  unfold fmt_e. fold (e_text q ng m e). destruct (pad_pos (fw f) (e_text q ng m e) W) as [n ->].
  unfold fortran_rf. rewrite T. unfold fortran_float. rewrite py_float_pad by exact Nc. rewrite P.
  unfold canon_field. rewrite T, U. cbn [mval_of mval_eqb]. rewrite Nv. apply pnum_eqb_refl.
Qed.
