(** C13: extraction of the executable model for the correspondence runs.
    Case lines (TAB separated):
      W <reset> <incon...>                 model write          -> OK <hex bytes> | RAISE e
      R <nv|-> <check> <hex text>          model read           -> OK <incon...>  | RAISE e
      U <0|1> <nv|-> <check> <escaped text> model read into a used object (1: the object was TOUGHREACT)
      T <nv|-> <check> <escaped text>      model read of a text sent with TAB -> \001, newline -> \002 (whole files)
      V <reset> <incon...>                 model write, printed with the same escapes instead of hex
      C <nv|-> <check> <reset> <incon...>  hypotheses + theorem instances on this object
      N <hex text>                         strtod model on float() text
    incon... = sim TAB timing TAB block TAB block ...
      sim = T2 | TR ; timing = - | kcyc,iter,nm,tstart,sumtim ; block = hexname;nseq;nadd;por;perm;v,v,...
      int = N | I:<z> ; num = N | R:<neg>:<m>:<e> | NAN | INF:<neg> ; perm = - | k1,k2,k3 *)
From Coq Require Import Ascii String List Bool Arith ZArith NArith.
From PTBase Require Import Exn PyStr PyNum PyVal Fmt FixedFormat Wire.
From PTModel Require Import Fortran.
From Gen Require Import GenTables GenRead.
From P Require Import Num Names InconIO Wf Fields Fits Stable.
Import ListNotations.
Open Scope string_scope.
Open Scope char_scope.
Open Scope list_scope.

Definition colon : ascii := ":".
Definition comma : ascii := ",".
Definition semi : ascii := ";".

Definition dec_oint (s : str) : option Z :=
  match split_c colon s with [k; a] => Some (z_of_str a) | _ => None end.
Definition dec_onum (s : str) : option pnum :=
  match split_c colon s with
  | [k; a; b; c] => Some (PDy (str_eqb a (s2l "1")) (z_of_str b) (z_of_str c))
  | [k; a] => Some (PInf (str_eqb a (s2l "1")))
  | [k] => if str_eqb k (s2l "NAN") then Some PNan else None
  | _ => None
  end.
Definition dec_perm (s : str) : option (pnum * pnum * pnum) :=
  match split_c comma s with
  | [a; b; c] => match dec_onum a, dec_onum b, dec_onum c with Some x, Some y, Some z => Some (x, y, z) | _, _, _ => None end
  | _ => None
  end.
Definition dec_block (s : str) : blockincon :=
  match split_c semi s with
  | [n; a; b; c; d; e] =>
      {| bname := unhex n; nseq := dec_oint a; nadd := dec_oint b; porosity := dec_onum c; perm := dec_perm d;
         vars := match e with [] => [] | _ => map dec_onum (split_c comma e) end |}
  | _ => {| bname := []; nseq := None; nadd := None; porosity := None; perm := None; vars := [] |}
  end.
Definition dec_timing (s : str) : option timing :=
  match split_c comma s with
  | [a; b; c; d; e] => Some {| kcyc := dec_oint a; iter := dec_oint b; nm := dec_oint c; tstart := dec_onum d; sumtim := dec_onum e |}
  | _ => None
  end.
Definition dec_incon (l : list str) : incon :=
  match l with
  | s :: t :: bs => {| sim := if str_eqb s (s2l "TR") then TOUGHREACT else TOUGH2; blocks := map dec_block bs; timing_ := dec_timing t |}
  | _ => {| sim := TOUGH2; blocks := []; timing_ := None |}
  end.

Definition show_oint (o : option Z) : str := match o with Some z => s2l "I:" ++ show_z z | None => s2l "N" end.
Definition show_pnum (x : pnum) : str :=
  match x with
  | PDy ng m e => s2l "R:" ++ show_bool ng ++ [colon] ++ show_z m ++ [colon] ++ show_z e
  | PNan => s2l "NAN"
  | PInf ng => s2l "INF:" ++ show_bool ng
  end.
Definition show_onum (o : option pnum) : str := match o with Some x => show_pnum x | None => s2l "N" end.
Definition show_block (b : blockincon) : str :=
  hex (bname b) ++ [semi] ++ show_oint (nseq b) ++ [semi] ++ show_oint (nadd b) ++ [semi] ++ show_onum (porosity b) ++ [semi] ++
  match perm b with Some (a, b, c) => join [comma] [show_pnum a; show_pnum b; show_pnum c] | None => s2l "-" end ++ [semi] ++
  join [comma] (map show_onum (vars b)).
Definition show_timing (t : option timing) : str :=
  match t with
  | None => s2l "-"
  | Some t => join [comma] [show_oint (kcyc t); show_oint (iter t); show_oint (nm t); show_onum (tstart t); show_onum (sumtim t)]
  end.
Definition show_incon (i : incon) : str :=
  join [tab] ((match sim i with TOUGH2 => s2l "T2" | TOUGHREACT => s2l "TR" end) :: show_timing (timing_ i) :: map show_block (blocks i)).

(** text -> lines as readline() returns them (each with its newline, the last possibly without) *)
Fixpoint split_lines_aux (cur : str) (acc : list str) (s : str) : list str :=
  match s with
  | [] => rev' (match cur with [] => acc | _ => rev' cur :: acc end)
  | c :: r => if ceqb c newline then split_lines_aux [] (rev' (c :: cur) :: acc) r else split_lines_aux (c :: cur) acc r
  end.
Definition split_lines (s : str) : list str := split_lines_aux [] [] s.

(** linear-time, constant-stack versions of the wire helpers, for whole files on one case line
    (stdlib [rev], used by [split_c], is quadratic once extracted) *)
Fixpoint fields_aux (cur : str) (acc : list str) (s : str) : list str :=
  match s with
  | [] => rev' (rev' cur :: acc)
  | c :: r => if ceqb c tab then fields_aux [] (rev' cur :: acc) r else fields_aux (c :: cur) acc r
  end.
Definition fields_tr (s : str) : list str := fields_aux [] [] s.
Fixpoint rev_map_acc {A B} (f : A -> B) (acc : list B) (l : list A) : list B :=
  match l with [] => acc | a :: r => rev_map_acc f (f a :: acc) r end.
Definition map_tr {A B} (f : A -> B) (l : list A) : list B := rev' (rev_map_acc f [] l).
Fixpoint rev_concat_acc {A} (acc : list A) (l : list (list A)) : list A :=
  match l with [] => acc | a :: r => rev_concat_acc (rev_append a acc) r end.
Definition concat_tr {A} (l : list (list A)) : list A := rev' (rev_concat_acc [] l).
Definition c01 : ascii := "001".
Definition c02 : ascii := "002".
Definition unesc (s : str) : str := map_tr (fun c => if ceqb c c01 then tab else if ceqb c c02 then newline else c) s.
Definition esc (s : str) : str := map_tr (fun c => if ceqb c tab then c01 else if ceqb c newline then c02 else c) s.

Definition dec_nv (s : str) : option nat := if str_eqb s (s2l "-") then None else Some (nat_of_str s).
Definition is1 (s : str) : bool := str_eqb s (s2l "1").
Definition show_r {A} (f : A -> str) (r : res A) : str :=
  match r with Ok a => s2l "OK" ++ [tab] ++ f a | Raise e => s2l "RAISE " ++ show_exn e end.
Definition res_incon_eqb (a : res incon) (b : incon) : bool :=
  match a with Ok x => str_eqb (show_incon x) (show_incon b) | Raise _ => false end.
Definition res_lines_eqb (a b : res (list str)) : bool :=
  match a, b with Ok x, Ok y => str_eqb (concat x) (concat y) && (length x =? length y)%nat | _, _ => false end.

Definition run_case (line : str) : str :=
  match fields_tr line with
  | k :: args =>
      if str_eqb k (s2l "V") then
        match args with
        | r :: obj => show_r (fun ls => esc (concat_tr ls)) (write (is1 r) (dec_incon obj))
        | _ => s2l "BADCASE" end
      else if str_eqb k (s2l "U") then
        match args with
        | [tr0; nv; ck; h] => show_r show_incon (bind the_layouts (fun L => read_used_L L (is1 tr0 && negb read_resets_flavour) (dec_nv nv) (is1 ck) (split_lines (unesc h))))
        | _ => s2l "BADCASE" end
      else if str_eqb k (s2l "T") then
        match args with
        | [nv; ck; h] => show_r show_incon (read (dec_nv nv) (is1 ck) (split_lines (unesc h)))
        | _ => s2l "BADCASE" end
      else if str_eqb k (s2l "W") then
        match args with
        | r :: obj => show_r (fun ls => hex (concat ls)) (write (is1 r) (dec_incon obj))
        | _ => s2l "BADCASE" end
      else if str_eqb k (s2l "R") then
        match args with
        | [nv; ck; h] => show_r show_incon (read (dec_nv nv) (is1 ck) (split_lines (unhex h)))
        | _ => s2l "BADCASE" end
      else if str_eqb k (s2l "C") then
        match args with
        | nv :: ck :: r :: obj =>
            match the_layouts with
            | Ok L =>
                let i := dec_incon obj in
                let w := write (is1 r) i in
                let c := canon_L L (is1 r) i in
                s2l "wff=" ++ show_bool (wfb_fits L (dec_nv nv) (is1 ck) (is1 r) i) ++
                s2l " wf=" ++ show_bool (wfb L (dec_nv nv) (is1 ck) (is1 r) i) ++
                s2l " rw=" ++ show_bool (res_incon_eqb (bind w (read (dec_nv nv) (is1 ck))) c) ++
                s2l " st=" ++ show_bool (stableb L (is1 r) i) ++
                s2l " idh=" ++ show_bool (idemb L (is1 r) i) ++
                s2l " idem=" ++ show_bool (res_lines_eqb (write (is1 r) c) w)
            | Raise e => s2l "NOLAYOUT" end
        | _ => s2l "BADCASE" end
      else if str_eqb k (s2l "N") then
        match args with
        | [h] => match py_float_opt (unhex h) with Some f => show_pnum (nearest f) | None => s2l "ERR" end
        | _ => s2l "BADCASE" end
      else s2l "BADCASE"
  | _ => s2l "BADCASE"
  end.

Require Extraction.
Require Import ExtrOcamlBasic ExtrOcamlString.
Extraction "Drv.ml" run_case.
