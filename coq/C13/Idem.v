(** C13: writing what was read back reproduces the file byte for byte:
    write (canon i) = write i, given per field that formatting the canonical value gives
    the same text ([idemb], decidable; the 15-significant-digit round trip of binary64). *)
From Coq Require Import Ascii String List Bool Arith ZArith NArith Lia.
From PTBase Require Import Exn PyStr PyNum PyVal Fmt FixedFormat.
From PTModel Require Import Fortran.
From P Require Import Num Names InconIO Wf Lines Blocks RoundTrip.
Import ListNotations.
Open Scope nat_scope.
Open Scope list_scope.

(** ** one line *)
Lemma fmt_all_idem : forall specs vals, forallb2 idem_ok (firstn (length vals) specs) vals = true ->
  exists l, fmt_all specs vals = Ok l /\ fmt_all specs (map2 canon_field specs vals) = Ok l.
Proof.
  induction specs as [|f fs IH]; intros [|v vs]; cbn [length firstn forallb2 fmt_all map2]; intro H; try discriminate.
  - exists []. auto.
  - exists []. auto.
  - apply andb_prop in H as [H1 H2]. unfold idem_ok in H1.
    destruct (IH _ H2) as [r [F1 F2]]. rewrite F1, F2.
    destruct (fmt_m f (canon_field f v)) as [s1|] eqn:E1; destruct (fmt_m f v) as [s2|] eqn:E2; try discriminate H1.
    cbn [res_str_eqb] in H1. apply str_eqb_eq in H1. subst s2. exists (s1 :: r). auto.
Qed.
Lemma emit_idem specs vals : line_idem specs vals = true ->
  emit specs (map2 canon_field specs vals) = emit specs vals.
Proof.
  unfold line_idem. intro H. pose proof (forallb2_length _ _ _ H) as Len.
  assert (Lv : length vals <= length specs) by (rewrite firstn_length in Len; lia).
  destruct (fmt_all_idem _ _ H) as [l [F1 F2]].
  rewrite (fmt_all_emit _ _ _ Lv F1). apply fmt_all_emit; [|exact F2]. rewrite map2_length. lia.
Qed.

(** ** the lines of variables *)
Section Rechunk.
Context {A : Type} (g : list A -> list A).
Hypothesis g_len : forall c, length c <= 4 -> length (g c) = length c.
Lemma rechunk_length : forall fuel ws, length ws <= fuel -> length (concat (map g (chunks fuel 4 ws))) = length ws.
Proof.
  induction fuel as [|f IH]; intros ws Hf.
  - destruct ws; [reflexivity|cbn in Hf; lia].
  - destruct ws as [|w ws']; [reflexivity|]. set (ws := w :: ws') in *.
    change (chunks (S f) 4 ws) with (firstn 4 ws :: chunks f 4 (skipn 4 ws)). cbn [map concat].
    rewrite app_length, g_len by (rewrite firstn_length; lia). rewrite IH.
    + rewrite firstn_length, skipn_length. lia.
    + rewrite skipn_length. unfold ws in *. cbn [length] in *. lia.
Qed.
Lemma rechunk : forall fuel ws fuel2, length ws <= fuel -> length ws <= fuel2 ->
  chunks fuel2 4 (concat (map g (chunks fuel 4 ws))) = map g (chunks fuel 4 ws).
Proof.
  induction fuel as [|f IH]; intros ws fuel2 Hf Hf2.
  - destruct ws; [cbn; apply chunks_nil|cbn in Hf; lia].
  - destruct ws as [|w ws']; [cbn; apply chunks_nil|]. set (ws := w :: ws') in *.
    change (chunks (S f) 4 ws) with (firstn 4 ws :: chunks f 4 (skipn 4 ws)). cbn [map concat].
    set (c := firstn 4 ws). assert (Lc : 1 <= length c <= 4) by (unfold c, ws; rewrite firstn_length; cbn [length]; lia).
    pose proof (g_len c ltac:(lia)) as Lg.
    destruct fuel2 as [|f2]; [unfold ws in Hf2; cbn in Hf2; lia|].
    destruct (g c) as [|x gc] eqn:Egc; [cbn in Lg; lia|].
    change ((x :: gc) ++ concat (map g (chunks f 4 (skipn 4 ws)))) with (x :: (gc ++ concat (map g (chunks f 4 (skipn 4 ws))))).
    cbn [chunks]. change (x :: (gc ++ concat (map g (chunks f 4 (skipn 4 ws))))) with ((x :: gc) ++ concat (map g (chunks f 4 (skipn 4 ws)))).
    destruct (Nat.eq_dec (length c) 4) as [E4|N4].
    + rewrite firstn_app, skipn_app. rewrite Lg, E4. rewrite (@firstn_all2 _ 4 (x :: gc)) by lia. rewrite (@skipn_all2 _ 4 (x :: gc)) by lia.
      rewrite Nat.sub_diag, firstn_O, skipn_O. cbn [app]. rewrite app_nil_r. f_equal. apply IH.
      * rewrite skipn_length. unfold ws in *. cbn [length] in *. lia.
      * rewrite skipn_length. unfold ws in *. cbn [length] in *. lia.
    + assert (Esk : skipn 4 ws = []).
      { apply length_zero_iff_nil. rewrite skipn_length. unfold c in Lc, N4. rewrite firstn_length in Lc, N4. lia. }
      rewrite Esk, chunks_nil. cbn [map concat]. rewrite app_nil_r. rewrite (@firstn_all2 _ 4 (x :: gc)) by lia. rewrite (@skipn_all2 _ 4 (x :: gc)) by lia.
      rewrite chunks_nil. reflexivity.
Qed.
End Rechunk.

Lemma mapM_ext_in {A B} (f g : A -> res B) : forall l, (forall a, In a l -> f a = g a) -> mapM f l = mapM g l.
Proof.
  induction l as [|a l IH]; intro H; [reflexivity|]. cbn [mapM]. rewrite (H a) by (left; reflexivity).
  rewrite IH by (intros; apply H; right; assumption). reflexivity.
Qed.
Lemma mapM_map {A B C} (f : B -> res C) (g : A -> B) : forall l, mapM f (map g l) = mapM (fun a => f (g a)) l.
Proof. induction l as [|a l IH]; [reflexivity|]. cbn [map mapM]. rewrite IH. reflexivity. Qed.

Lemma vars_idem specs vs : length specs = 4 ->
  forallb (line_idem specs) (chunk 4 (map on vs)) = true ->
  mapM (emit specs) (chunk 4 (map on (canon_vars specs vs))) = mapM (emit specs) (chunk 4 (map on vs)).
Proof.
  intros L4 H. unfold chunk, canon_vars, chunk in *. rewrite !map_length in *.
  assert (G : forall c : list (option pnum), length c <= 4 -> length (map2 cn specs c) = length c).
  { intros c Hc. rewrite map2_length. lia. }
  rewrite (rechunk_length _ G) by lia. rewrite !chunks_map. rewrite (rechunk _ G) by lia.
  rewrite chunks_map in H. rewrite map_map, !mapM_map. apply mapM_ext_in. intros c Hc.
  rewrite <- map2_canon_on. apply emit_idem.
  rewrite forallb_forall in H. apply H. apply in_map. exact Hc.
Qed.

(** ** one block *)
Lemma uses_tr_canon L s b : shape L -> uses_tr s (canon_block L s b) = uses_tr s b.
Proof.
  intro Sh. pose proof (canon_perm_is_some L s b Sh) as P. unfold uses_tr at 1. destruct s.
  - reflexivity.
  - rewrite <- P. destruct (perm (canon_block L TOUGHREACT b)); reflexivity.
Qed.
Lemma hdr_specs_canon L s b : shape L -> hdr_specs L s (canon_block L s b) = hdr_specs L s b.
Proof. intro Sh. unfold hdr_specs. rewrite uses_tr_canon by exact Sh. reflexivity. Qed.
Lemma hdr_vals_canon L s u b : shape L ->
  hdr_vals s u (canon_block L s b) = map2 canon_field (hdr_specs L s b) (hdr_vals s u b).
Proof.
  intro Sh. destruct (sh_i1 L Sh) as (f0 & f1 & f2 & f3 & E1 & T0 & T1 & T2 & T3).
  destruct (sh_i1r L Sh) as (g0 & g1 & g2 & g3 & g4 & g5 & g6 & E1r & U0 & U1 & U2 & U3 & U4 & U5 & U6).
  unfold hdr_vals, canon_block, hdr_specs. destruct (uses_tr s b) eqn:TR.
  - unfold uses_tr in TR. destruct s; [discriminate|]. destruct (perm b) as [[[k1 k2] k3]|] eqn:Pb; [|discriminate].
    rewrite E1r. cbn [nseq nadd porosity perm].
    destruct (cn_some g4 k1) as [a Ea]. destruct (cn_some g5 k2) as [c Ec]. destruct (cn_some g6 k3) as [d Ed].
    rewrite Ea, Ec, Ed. cbn [app map2]. rewrite canon_str, !canon_oi, canon_on by assumption.
    change (MNum k1) with (on (Some k1)). change (MNum k2) with (on (Some k2)). change (MNum k3) with (on (Some k3)).
    rewrite !canon_on, Ea, Ec, Ed. reflexivity.
  - rewrite E1. cbn [nseq nadd porosity perm].
    assert (PN : match s, match s, perm b, @nil fspec with
                 | TOUGHREACT, Some (k1, k2, k3), [h1; h2; h3] =>
                     match cn h1 (Some k1), cn h2 (Some k2), cn h3 (Some k3) with
                     | Some a, Some b0, Some c => Some (a, b0, c) | _, _, _ => None end
                 | _, _, _ => None end with
                 | TOUGHREACT, Some (k1, k2, k3) => [MNum k1; MNum k2; MNum k3]
                 | _, _ => [] end = []).
    { destruct s; [reflexivity|]. destruct (perm b) as [[[k1 k2] k3]|]; reflexivity. }
    rewrite PN.
    assert (PV : match s, perm b with TOUGHREACT, Some (k1, k2, k3) => [MNum k1; MNum k2; MNum k3] | _, _ => [] end = []).
    { unfold uses_tr in TR. destruct s; [reflexivity|]. destruct (perm b) as [[[k1 k2] k3]|]; [discriminate|reflexivity]. }
    rewrite PV. cbn [app map2]. rewrite canon_str, !canon_oi, canon_on by assumption. reflexivity.
Qed.

Lemma vars_canon L s b : shape L -> vars (canon_block L s b) = canon_vars (L_i2 L) (vars b).
Proof. intro Sh. rewrite (canon_block_eta L s b Sh). reflexivity. Qed.

Lemma block_idem_write L s b : shape L -> length (bname b) = 5 -> block_idem L s b = true ->
  write_block L s (canon_block L s b) = write_block L s b.
Proof.
  intros Sh L5 H. unfold block_idem in H. destruct (unfix_name (bname b)) as [u|] eqn:Hu; [|discriminate].
  apply andb_prop in H as [Hh Hv].
  destruct (unfix_name_len5 _ _ L5 Hu) as [Eu Lu]. destruct (sh_i2 L Sh) as (v0 & v1 & v2 & v3 & E2 & _).
  unfold write_block. rewrite (bname_canon L s b Sh).
  assert (Hu' : unfix_name (cycle (bname b)) = Ok u).
  { destruct (len5 _ L5) as (c0 & c1 & c2 & c3 & c4 & En). rewrite En in *. unfold cycle.
    assert (L5' : length (fix5 (unfix5 [c0; c1; c2; c3; c4])) = 5) by (rewrite fix5_length, unfix5_length; reflexivity).
    destruct (len5 _ L5') as (d0 & d1 & d2 & d3 & d4 & Ed). rewrite Ed, unfix_name_5, <- Ed, unfix_fix_unfix, Eu. reflexivity. }
  rewrite Hu', Hu. cbn [bind]. rewrite hdr_specs_canon, hdr_vals_canon by exact Sh. rewrite (emit_idem _ _ Hh).
  rewrite (vars_canon L s b Sh).
  rewrite vars_idem; [reflexivity|rewrite E2; reflexivity|exact Hv].
Qed.

(** ** the whole file *)
Lemma keeps_timing_canon L reset i :
  keeps_timing reset (canon_L L reset i) = match keeps_timing reset i with Some t => Some (canon_timing L (sim i) t) | None => None end.
Proof.
  unfold keeps_timing at 1, canon_L. cbn [timing_]. unfold keeps_timing. destruct (timing_ i); [|reflexivity].
  destruct reset; reflexivity.
Qed.
Lemma tget_canon L s t : shape L ->
  map (tget (canon_timing L s t)) (tm_names L s) = map2 canon_field (tm_specs L s) (map (tget t) (tm_names L s)).
Proof.
  intro Sh. unfold canon_timing, tm_names. destruct s.
  - destruct (sh_tm L Sh) as (t0 & t1 & t2 & t3 & t4 & E & T0 & T1 & T2 & T3 & T4). unfold tm_specs. rewrite E, (sh_ntm L Sh), !tget_names.
    cbn [kcyc iter nm tstart sumtim map2]. rewrite !canon_oi, !canon_on by assumption. reflexivity.
  - destruct (sh_tmr L Sh) as (t0 & t1 & t2 & t3 & t4 & E & T0 & T1 & T2 & T3 & T4). unfold tm_specs. rewrite E, (sh_ntmr L Sh), !tget_names.
    cbn [kcyc iter nm tstart sumtim map2]. rewrite !canon_oi, !canon_on by assumption. reflexivity.
Qed.

Theorem write_idem_L L reset i :
  layouts_ok L = true ->
  forallb (fun b => (length (bname b) =? 5)) (blocks i) = true ->
  idemb L reset i = true ->
  write_L L reset (canon_L L reset i) = write_L L reset i.
Proof.
  intros HL H5 H. pose proof (layouts_shape L HL) as Sh. unfold idemb in H.
  apply andb_prop in H as [H Ht]. apply andb_prop in H as [Hb Hh].
  unfold res_eqb in Hh. apply res_str_eqb_eq in Hh.
  unfold write_L. rewrite Hh. destruct (write_header L reset i) as [h|]; [|reflexivity]. cbn [bind].
  assert (Eb : mapM (write_block L (sim (canon_L L reset i))) (blocks (canon_L L reset i)) = mapM (write_block L (sim i)) (blocks i)).
  { unfold canon_L. cbn [sim blocks]. rewrite mapM_map. apply mapM_ext_in. intros b Hin.
    rewrite forallb_forall in H5, Hb. apply block_idem_write; [exact Sh|apply Nat.eqb_eq; apply H5; exact Hin|apply Hb; exact Hin]. }
  rewrite Eb. destruct (mapM (write_block L (sim i)) (blocks i)) as [bl|]; [|reflexivity]. cbn [bind].
  assert (Et : write_tail L reset (canon_L L reset i) = write_tail L reset i).
  { unfold write_tail. rewrite keeps_timing_canon. destruct (keeps_timing reset i) as [t|]; [|reflexivity].
    assert (Es : sim (canon_L L reset i) = sim i) by reflexivity. rewrite Es.
    rewrite tget_canon by exact Sh. rewrite (emit_idem _ _ Ht). reflexivity. }
  rewrite Et. reflexivity.
Qed.
