(** C13: the hypotheses of the round-trip theorems, all decidable (computable booleans):
    [layouts_ok] is a finite obligation over the regenerated table (closed by vm_compute
    in RoundTrip.v); [wfb] is what the code needs of an object, evaluated per object
    (in Coq on the examples, by the harness on every generated object). *)
From Coq Require Import Ascii String List Bool Arith ZArith NArith Lia.
From PTBase Require Import Exn PyStr PyNum PyVal Fmt FixedFormat.
From PTModel Require Import Fortran.
From P Require Import Num Names InconIO.
Import ListNotations.
Open Scope string_scope.
Open Scope char_scope.
Open Scope list_scope.

Fixpoint forallb2 {A B} (p : A -> B -> bool) (a : list A) (b : list B) : bool :=
  match a, b with
  | x :: a', y :: b' => p x y && forallb2 p a' b'
  | [], [] => true
  | _, _ => false
  end.

(** ** the record layouts are the shape the reader and the writer both assume *)
Definition tys (specs : list fspec) : list fty := map ft specs.
Definition ftys_eqb (a b : list fty) : bool := forallb2 fty_eqb a b.
Definition compat (a b : fspec) : bool := (width a =? width b)%nat && fty_eqb (ft a) (ft b).
Definition timing_names : list string := ["kcyc"%string; "iter"%string; "nm"%string; "tstart"%string; "sumtim"%string].
Fixpoint strings_eqb (a b : list string) : bool :=
  match a, b with
  | x :: a', y :: b' => String.eqb x y && strings_eqb a' b'
  | [], [] => true
  | _, _ => false
  end.
Definition layouts_ok (L : layouts) : bool :=
  ftys_eqb (tys (L_i1 L)) [Ts; Td; Td; Te] &&
  ftys_eqb (tys (L_i1r L)) [Ts; Td; Td; Te; Te; Te; Te] &&
  forallb2 compat (L_i1 L) (firstn 4 (L_i1r L)) &&
  ftys_eqb (tys (L_i2 L)) [Te; Te; Te; Te] &&
  ftys_eqb (tys (L_tm L)) [Td; Td; Td; Te; Te] &&
  ftys_eqb (tys (L_tmr L)) [Td; Td; Td; Te; Te] &&
  strings_eqb (N_tm L) timing_names && strings_eqb (N_tmr L) timing_names.
(** the property text: variables to 13 decimals, porosity / permeability / times to 9 *)
Definition precisions_ok (L : layouts) : bool :=
  forallb (fun f => (prec f =? 13)%Z) (L_i2 L) &&
  forallb (fun f => (prec f =? 9)%Z) (skipn 3 (L_i1 L) ++ skipn 3 (L_i1r L) ++ skipn 3 (L_tm L) ++ skipn 3 (L_tmr L)).

(** ** per object *)
(** every value of a record line reads back as its canonical value *)
Definition line_ok (specs : list fspec) (vals : list mval) : bool :=
  forallb2 readback_ok (firstn (length vals) specs) vals.
Definition line_idem (specs : list fspec) (vals : list mval) : bool :=
  forallb2 idem_ok (firstn (length vals) specs) vals.
(** the written line is neither blank nor a '+++' line *)
Definition is_record_line (r : res str) : bool :=
  match r with Ok line => negb (is_blank line) && negb (prefix (s2l "+++") line) | Raise _ => false end.
Definition is_some {A} (o : option A) : bool := match o with Some _ => true | None => false end.
Definition nv_ok (onv : option nat) (n : nat) : bool :=
  match onv with Some k => (k =? n)%nat | None => (n <=? 4)%nat end.

Definition vars_ok (L : layouts) (onv : option nat) (vs : list (option pnum)) : bool :=
  (1 <=? length vs)%nat && nv_ok onv (length vs) && forallb is_some vs &&
  forallb (line_ok (L_i2 L)) (chunk 4 (map on vs)).
Definition block_ok (L : layouts) (onv : option nat) (check : bool) (s : simk) (b : blockincon) : bool :=
  match unfix_name (bname b) with
  | Ok u =>
      (length (bname b) =? 5)%nat &&
      line_ok (hdr_specs L s b) (hdr_vals s u b) &&
      is_record_line (emit (hdr_specs L s b) (hdr_vals s u b)) &&
      (if check then match valid_name u with Ok true => true | _ => false end else true) &&
      vars_ok L onv (vars b)
  | Raise _ => false
  end.
Fixpoint nodupb (l : list str) : bool :=
  match l with [] => true | x :: r => negb (existsb (str_eqb x) r) && nodupb r end.
(** the flavour is recorded in the file only through a permeability triple *)
Definition flavour_detectable (i : incon) : bool :=
  match sim i with TOUGH2 => true | TOUGHREACT => existsb (fun b => is_some (perm b)) (blocks i) end.
Definition tail_ok (L : layouts) (reset : bool) (i : incon) : bool :=
  match keeps_timing reset i with
  | None => true
  | Some t =>
      let vals := map (tget t) (tm_names L (sim i)) in
      line_ok (tm_specs L (sim i)) vals && is_record_line (emit (tm_specs L (sim i)) vals)
  end.
Definition is_ok {A} (r : res A) : bool := match r with Ok _ => true | Raise _ => false end.
Definition wfb (L : layouts) (onv : option nat) (check reset : bool) (i : incon) : bool :=
  forallb (block_ok L onv check (sim i)) (blocks i) &&
  nodupb (map (fun b => cycle (bname b)) (blocks i)) &&
  flavour_detectable i &&
  is_ok (write_header L reset i) &&
  tail_ok L reset i.

(** additional field-level hypotheses of byte-for-byte idempotence *)
Definition block_idem (L : layouts) (s : simk) (b : blockincon) : bool :=
  match unfix_name (bname b) with
  | Ok u => line_idem (hdr_specs L s b) (hdr_vals s u b) && forallb (line_idem (L_i2 L)) (chunk 4 (map on (vars b)))
  | Raise _ => false
  end.
Definition res_eqb (a b : res str) : bool := res_str_eqb a b.
Definition idemb (L : layouts) (reset : bool) (i : incon) : bool :=
  forallb (block_idem L (sim i)) (blocks i) &&
  res_eqb (write_header L reset (canon_L L reset i)) (write_header L reset i) &&
  match keeps_timing reset i with
  | None => true
  | Some t => line_idem (tm_specs L (sim i)) (map (tget t) (tm_names L (sim i)))
  end.
