(** C13 -- a real field is re-written with the same text: the double read back from
    ['%w.qe' % x] (the nearest double of the printed decimal, [Num.nearest]) prints, with the
    same number of decimals q <= 14, the same digits and the same exponent (SciTrip.v), for
    every double whose printed decimal exponent lies in [-307, 307]. *)
From Coq Require Import Ascii String List Bool Arith ZArith NArith Lia QArith Qabs Lqa Qpower.
From PTBase Require Import Exn PyStr PyNum PyVal Fmt FixedFormat.
From P Require Import Digits SciTrip Num.
Import ListNotations.
Open Scope Z_scope.

(** ** [Num.nearest_q] is [round53], normalised, with overflow to infinity *)
Lemma ge_mine num den : 0 < num -> 0 < den ->
  let k0 := Z.log2 num - Z.log2 den in let e0 := k0 - 52 in
  (if 0 <=? e0 then den * 2 ^ e0 * 2 ^ 52 <=? num else den * 2 ^ 52 <=? num * 2 ^ (- e0))
  = (if 0 <=? k0 then den * 2 ^ k0 <=? num else den <=? num * 2 ^ (- k0)).
Proof.
  intros Hn Hd k0 e0. assert (P52 : 0 < 2 ^ 52) by (apply Z.pow_pos_nonneg; lia).
  destruct (0 <=? e0) eqn:E0; [apply Z.leb_le in E0|apply Z.leb_gt in E0].
  - assert (K : (0 <=? k0) = true) by (apply Z.leb_le; unfold e0 in E0; lia). rewrite K.
    replace k0 with (e0 + 52) by (unfold e0; lia). rewrite Z.pow_add_r by lia. rewrite Z.mul_assoc. reflexivity.
  - destruct (0 <=? k0) eqn:K; [apply Z.leb_le in K|apply Z.leb_gt in K].
    + assert (E : 2 ^ 52 = 2 ^ k0 * 2 ^ (- e0)) by (rewrite <- Z.pow_add_r by (unfold e0; lia); f_equal; unfold e0; lia).
      assert (P : 0 < 2 ^ (- e0)) by (apply Z.pow_pos_nonneg; lia).
      rewrite E, Z.mul_assoc. apply Bool.eq_true_iff_eq. rewrite !Z.leb_le. split; intro H; nia.
    + assert (E : 2 ^ (- e0) = 2 ^ (- k0) * 2 ^ 52) by (rewrite <- Z.pow_add_r by lia; f_equal; unfold e0; lia).
      rewrite E, Z.mul_assoc. apply Bool.eq_true_iff_eq. rewrite !Z.leb_le. split; intro H; nia.
Qed.
Lemma nearest_q_round53 ng num den : 0 < num -> 0 < den ->
  nearest_q ng num den =
  (if fst (round53 num den) =? 0 then PDy ng 0 0
   else if 1024 <=? Z.log2 (fst (round53 num den)) + snd (round53 num den) then PInf ng
   else norm_dy ng (fst (round53 num den)) (snd (round53 num den))).
Proof.
  intros Hn Hd. unfold nearest_q. assert (NZ : (num <=? 0) = false) by (apply Z.leb_gt; exact Hn). rewrite NZ.
  cbv zeta. rewrite (ge_mine num den Hn Hd). unfold round53, ilog2. cbv zeta. cbn [fst snd].
  set (k0 := Z.log2 num - Z.log2 den).
  destruct (if 0 <=? k0 then den * 2 ^ k0 <=? num else den <=? num * 2 ^ (- k0));
    [replace (k0 - 52) with (k0 - 52) by lia|replace (k0 - 52 - 1) with (k0 - 1 - 52) by lia]; reflexivity.
Qed.

(** ** normal form keeps the value *)
Lemma strip2_spec : forall p e, e <= snd (strip2 p e) /\ Zpos p = Zpos (fst (strip2 p e)) * 2 ^ (snd (strip2 p e) - e).
Proof.
  induction p as [p IH|p IH|]; intro e; cbn [strip2 fst snd]; try (rewrite Z.sub_diag; split; lia).
  destruct (IH (e + 1)) as [A B]. split; [lia|].
  rewrite Pos2Z.inj_xO, B. replace (snd (strip2 p (e + 1)) - e) with (1 + (snd (strip2 p (e + 1)) - (e + 1))) by lia.
  rewrite Z.pow_add_r by lia. change (2 ^ 1) with 2. ring.
Qed.
Open Scope Q_scope.
Lemma Vnd_num_den m e : Vnd (num_den m e) == inject_Z m * B2 ^ e.
Proof.
  pose proof (num_den_Q m e) as H. pose proof (Bq_neg 2 two_gt1 e) as NK.
  assert (X : Vnd (num_den m e) * B2 ^ (- e) * B2 ^ e == Vnd (num_den m e)) by (rewrite <- Qmult_assoc, NK; ring).
  rewrite <- X, H. reflexivity.
Qed.
Lemma norm_dy_value ng m e : (0 < m)%Z ->
  exists m' e', norm_dy ng m e = PDy ng m' e' /\ (0 < m')%Z /\ Vnd (num_den m' e') == Vnd (num_den m e).
Proof.
  intro H. destruct m as [|p|p]; try lia. unfold norm_dy. destruct (strip2_spec p e) as [A B].
  destruct (strip2 p e) as [q e'] eqn:S. cbn [fst snd] in A, B. exists (Zpos q), e'. split; [reflexivity|]. split; [lia|].
  rewrite !Vnd_num_den. rewrite B. rewrite inject_Z_mult. rewrite (Bq_inj 2) by lia.
  rewrite <- Qmult_assoc. rewrite (Bq_add 2 two_gt1). replace (e' - e + e)%Z with e' by lia. reflexivity.
Qed.

(** ** no overflow below 10^308 *)
Lemma big_range : B10 ^ 308 * (1 + eps53) < B2 ^ 1024.
Proof. vm_compute. reflexivity. Qed.
Lemma log2_value m e : (0 < m)%Z -> B2 ^ (Z.log2 m + e) <= Vnd (num_den m e).
Proof.
  intro H. rewrite Vnd_num_den. rewrite <- (Bq_add 2 two_gt1). pose proof (Bq_pos 2 two_gt1 e) as P.
  apply Qmult_le_compat_r; [|lra]. rewrite <- (Bq_inj 2) by (apply Z.log2_nonneg). rewrite <- Zle_Qle.
  apply Z.log2_spec. exact H.
Qed.

(** ** THE trip, for [Num.nearest] *)
Theorem nearest_trip p N k ng : (0 <= p <= 14)%Z -> (10 ^ p <= N < 10 ^ (p + 1))%Z -> (-307 <= k <= 307)%Z ->
  exists m' e', nearest (Fin ng (Z.to_N N) (k - p)) = PDy ng m' e' /\ (0 < m')%Z /\
                sci p (fst (num_den m' e')) (snd (num_den m' e')) = (N, k).
Proof.
  intros Hp HN Hk.
  assert (N0 : (0 < N)%Z) by (assert (0 < 10 ^ p)%Z by (apply Z.pow_pos_nonneg; lia); lia).
  destruct (sci_trip p N k Hp HN (proj1 Hk)) as [Mpos [Up Trip]].
  destruct (dec_nd_spec N (k - p) N0) as [Pn [Pd _]].
  set (nd := fst (dec_nd N (k - p))) in *. set (dd := snd (dec_nd N (k - p))) in *.
  set (m := fst (round53 nd dd)) in *. set (kk := snd (round53 nd dd)) in *.
  assert (EN : nearest (Fin ng (Z.to_N N) (k - p)) = nearest_q ng nd dd).
  { unfold nearest, nd, dd, dec_nd. rewrite Z2N.id by lia.
    replace (N =? 0)%Z with false by (symmetry; apply Z.eqb_neq; lia).
    replace (400 <? k - p)%Z with false by (symmetry; apply Z.ltb_ge; lia).
    replace (k - p + Z.log2 N + 1 <? -400)%Z with false by (symmetry; apply Z.ltb_ge; pose proof (Z.log2_nonneg N); lia).
    destruct (0 <=? k - p)%Z; reflexivity. }
  rewrite EN, (nearest_q_round53 ng nd dd Pn Pd). fold m kk.
  replace (m =? 0)%Z with false by (symmetry; apply Z.eqb_neq; lia).
  assert (NoOv : (1024 <=? Z.log2 m + kk)%Z = false).
  { apply Z.leb_gt. apply (Qpower_lt_compat_l_inv B2); [|exact (Bq_gt1 2 two_gt1)].
    eapply Qle_lt_trans; [apply (log2_value m kk Mpos)|]. eapply Qle_lt_trans; [exact Up|].
    eapply Qle_lt_trans; [|exact big_range].
    assert (E0 : 0 < eps53) by reflexivity. apply Qmult_le_compat_r; [|lra].
    (* N * 10^(k-p) <= 10^(k+1) <= 10^308 *)
    assert (A : inject_Z N <= B10 ^ (p + 1)).
    { rewrite <- (Bq_inj 10) by lia. rewrite <- Zle_Qle. lia. }
    pose proof (Bq_pos 10 ten_gt1 (k - p)) as Pc.
    assert (B : B10 ^ (p + 1) * B10 ^ (k - p) == B10 ^ (k + 1)) by (rewrite (Bq_add 10 ten_gt1); replace (p + 1 + (k - p))%Z with (k + 1)%Z by lia; reflexivity).
    assert (C : B10 ^ (k + 1) <= B10 ^ 308) by (apply Qpower_le_compat_l; [lia|pose proof (Bq_gt1 10 ten_gt1); lra]).
    rewrite <- B in C. set (a := B10 ^ (p + 1)) in *. set (c := B10 ^ (k - p)) in *. set (n := inject_Z N) in *. nra. }
  rewrite NoOv. destruct (norm_dy_value ng m kk Mpos) as [m' [e' [E [M' V]]]].
  exists m', e'. split; [exact E|]. split; [exact M'|].
  apply Trip; [apply num_den_pos_strict; exact M'|apply (num_den_pos m' e'); lia|]. exact V.
Qed.

(** ** the boundary: digits and exponents for which the trip is NOT the identity *)
Definition trip_ok (p N k : Z) : bool :=
  match nearest (Fin false (Z.to_N N) (k - p)) with
  | PDy _ m e => let '(N', k') := sci p (fst (num_den m e)) (snd (num_den m e)) in (N' =? N)%Z && (k' =? k)%Z
  | _ => false
  end.
Theorem trip_ok_up_to_15_digits p N k : (0 <= p <= 14)%Z -> (10 ^ p <= N < 10 ^ (p + 1))%Z -> (-307 <= k <= 307)%Z -> trip_ok p N k = true.
Proof.
  intros Hp HN Hk. unfold trip_ok. destruct (nearest_trip p N k false Hp HN Hk) as [m' [e' [E [_ S]]]].
  rewrite E, S, !Z.eqb_refl. reflexivity.
Qed.
(** 16 digits: 2^53 + 1 = 9007199254740993 is not a double; 17 digits: 90071992547409931 *)
Theorem trip_16_digits_refuted : (10 ^ 15 <= 9007199254740993 < 10 ^ 16)%Z /\ trip_ok 15 9007199254740993 15 = false.
Proof. split; [vm_compute; split; [discriminate|reflexivity]|vm_compute; reflexivity]. Qed.
Theorem trip_17_digits_refuted : (10 ^ 16 <= 90071992547409931 < 10 ^ 17)%Z /\ trip_ok 16 90071992547409931 16 = false.
Proof. split; [vm_compute; split; [discriminate|reflexivity]|vm_compute; reflexivity]. Qed.
(** exponents: 9e308 overflows; a 15-digit decimal at 1e-320 is a subnormal that holds 4 digits *)
Theorem trip_exponent_308_refuted : trip_ok 0 9 308 = false.
Proof. vm_compute. reflexivity. Qed.
Theorem trip_subnormal_refuted : trip_ok 14 123456789012345 (-320) = false.
Proof. vm_compute. reflexivity. Qed.
