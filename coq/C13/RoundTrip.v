(** C13: read (write i) = canon i for every well-formed set of initial conditions --
    any number of blocks, any number of variables per block (4 per line), both record
    flavours, with or without timing.  The layouts are any layouts of the expected shape
    ([layouts_ok], a finite check on the table regenerated from the source). *)
From Coq Require Import Ascii String List Bool Arith ZArith NArith Lia.
From PTBase Require Import Exn PyStr PyNum PyVal Fmt FixedFormat.
From PTModel Require Import Fortran.
From P Require Import Num Names InconIO Wf Lines Blocks.
Import ListNotations.
Open Scope nat_scope.
Open Scope list_scope.

(** ** lines of variables *)
Lemma chunks_map {A B} (f : A -> B) k : forall fuel l, chunks fuel k (map f l) = map (map f) (chunks fuel k l).
Proof.
  induction fuel as [|n IH]; intro l; [reflexivity|]. destruct l as [|a l]; [reflexivity|].
  change (map f (a :: l)) with (f a :: map f l). cbn [chunks]. change (f a :: map f l) with (map f (a :: l)).
  rewrite firstn_map, skipn_map, IH. reflexivity.
Qed.
Lemma chunks_nil {A} fuel k : chunks fuel k (@nil A) = [].
Proof. destruct fuel; reflexivity. Qed.
Lemma pop_nones_nums xs j : forallb is_some xs = true -> pop_nones (map on xs ++ repeat MNone j) = map on xs.
Proof.
  induction xs as [|x xs IH]; cbn [map app forallb]; intro H.
  - induction j as [|j IHj]; [reflexivity|]. cbn [repeat pop_nones]. rewrite IHj. reflexivity.
  - apply andb_prop in H as [Hx H]. destruct x as [x|]; [|discriminate]. cbn [pop_nones]. rewrite (IH H).
    destruct (map on xs); reflexivity.
Qed.
Lemma mapM_as_onum xs : mapM as_onum (map on xs) = Ok xs.
Proof. induction xs as [|x xs IH]; [reflexivity|]. cbn [map mapM]. rewrite as_onum_on, IH. reflexivity. Qed.
Lemma map2_canon_on : forall fs xs, map2 canon_field fs (map on xs) = map on (map2 cn fs xs).
Proof. induction fs as [|f fs IH]; destruct xs as [|x xs]; cbn [map map2]; auto. rewrite canon_on, IH. reflexivity. Qed.
Lemma map2_cn_some : forall fs xs, forallb is_some xs = true -> forallb is_some (map2 cn fs xs) = true.
Proof.
  induction fs as [|f fs IH]; destruct xs as [|x xs]; cbn [map2 forallb]; auto. intro H. apply andb_prop in H as [Hx H].
  destruct x as [x|]; [|discriminate]. destruct (cn_some f x) as [y ->]. cbn [is_some]. apply IH. exact H.
Qed.
Lemma map2_firstn_l {A B C} (f : A -> B -> C) : forall a b, map2 f (firstn (length b) a) b = map2 f a b.
Proof. induction a as [|x a IH]; destruct b as [|y b]; cbn; auto. f_equal. apply IH. Qed.
Lemma no_str_skipn n specs : no_str specs = true -> no_str (skipn n specs) = true.
Proof. apply forallb_skipn. Qed.
Lemma same_cols_firstn_refl n specs : same_cols (firstn n specs) (firstn n specs) = true.
Proof. apply same_cols_refl. Qed.

Lemma vars_read_gen specs nv rest :
  length specs = 4 -> no_str specs = true ->
  forall fuel (ws : list (option pnum)) acc,
   length ws <= fuel -> ws <> [] -> forallb is_some ws = true ->
   forallb (line_ok specs) (chunks fuel 4 (map on ws)) = true ->
   match nv with Some N => length acc + length ws = N | None => length ws <= 4 end ->
   exists lines, mapM (emit specs) (chunks fuel 4 (map on ws)) = Ok lines /\
      read_vars specs nv acc (lines ++ rest) = Ok (acc ++ concat (map (map2 cn specs) (chunks fuel 4 ws)), rest).
Proof.
  intros L4 NS. induction fuel as [|f IH]; intros ws acc Hf NE Hs Hok Hn.
  - destruct ws; [congruence|cbn in Hf; lia].
  - destruct ws as [|w ws']; [congruence|]. set (ws := w :: ws') in *.
    assert (Ech : chunks (S f) 4 ws = firstn 4 ws :: chunks f 4 (skipn 4 ws)) by reflexivity.
    assert (Echm : chunks (S f) 4 (map on ws) = map on (firstn 4 ws) :: chunks f 4 (map on (skipn 4 ws))).
    { rewrite chunks_map, Ech. cbn [map]. rewrite <- chunks_map. reflexivity. }
    rewrite Echm in *. rewrite Ech. cbn [forallb] in Hok. apply andb_prop in Hok as [Hline Hrest].
    set (c := firstn 4 ws) in *. set (k := length c).
    assert (Hk : 1 <= k <= 4).
    { unfold k, c. rewrite firstn_length. unfold ws. cbn [length]. lia. }
    assert (Hc : forallb is_some c = true) by (apply forallb_firstn; exact Hs).
    unfold line_ok in Hline. rewrite map_length in Hline. fold k in Hline.
    destruct (written_line_reads (firstn k specs) (skipn k specs) (firstn k specs) (skipn k specs) (map on c) [] Hline
                (same_cols_refl _) (no_str_skipn _ _ NS) eq_refl) as [line [Em Pm]].
    rewrite (firstn_skipn k specs) in Em, Pm.
    assert (Hparse : mapM as_onum (pop_nones (parse_m specs (line ++ [newline]))) = Ok (map2 cn specs c)).
    { rewrite Pm. rewrite map2_canon_on. rewrite pop_nones_nums by (apply map2_cn_some; exact Hc).
      rewrite mapM_as_onum. unfold k. rewrite map2_firstn_l. reflexivity. }
    assert (Lc : length (map2 cn specs c) = k) by (rewrite map2_length, L4; fold k; lia).
    destruct (skipn 4 ws) as [|w2 ws2] eqn:Esk.
    + (* last line *)
      rewrite chunks_nil. cbn [map]. rewrite chunks_nil. exists [line ++ [newline]]. split.
      * cbn [mapM]. rewrite Em. reflexivity.
      * cbn [app read_vars]. rewrite Hparse. cbn [bind].
        assert (Lw : length ws = k).
        { unfold k, c. rewrite firstn_length. assert (length (skipn 4 ws) = 0) by (rewrite Esk; reflexivity).
          rewrite skipn_length in H. lia. }
        assert (M : more_vars nv (length (acc ++ map2 cn specs c)) = false).
        { rewrite app_length, Lc. unfold more_vars. destruct nv as [N|]; [|reflexivity]. apply Nat.ltb_ge. lia. }
        rewrite M. cbn [concat]. rewrite app_nil_r. reflexivity.
    + (* more lines follow *)
      assert (Lsk : length (skipn 4 ws) = S (length ws2)) by (rewrite Esk; reflexivity).
      rewrite skipn_length in Lsk.
      assert (Hk4 : k = 4) by (unfold k, c; rewrite firstn_length; lia).
      destruct nv as [N|]; [|lia].
      destruct (IH (w2 :: ws2) (acc ++ map2 cn specs c)) as [lines [Wl Rl]].
      * cbn [length] in *. lia.
      * congruence.
      * rewrite <- Esk. apply forallb_skipn. exact Hs.
      * exact Hrest.
      * rewrite app_length, Lc. cbn [length]. lia.
      * exists ((line ++ [newline]) :: lines). split.
        -- cbn [mapM]. rewrite Em. cbn [bind]. rewrite Wl. reflexivity.
        -- cbn [app read_vars]. rewrite Hparse. cbn [bind].
           assert (M : more_vars (Some N) (length (acc ++ map2 cn specs c)) = true).
           { rewrite app_length, Lc. unfold more_vars. apply Nat.ltb_lt. lia. }
           rewrite M, Rl. cbn [map concat]. rewrite <- app_assoc. reflexivity.
Qed.

Lemma vars_read L nv vs rest : shape L -> vars_ok L nv vs = true ->
  exists lines, mapM (emit (L_i2 L)) (chunk 4 (map on vs)) = Ok lines /\
    read_vars (L_i2 L) nv [] (lines ++ rest) = Ok (canon_vars (L_i2 L) vs, rest).
Proof.
  intros Sh H. destruct (sh_i2 L Sh) as (v0 & v1 & v2 & v3 & E2 & T0 & T1 & T2 & T3).
  unfold vars_ok in H. apply andb_prop in H as [H Hok]. apply andb_prop in H as [H Hs]. apply andb_prop in H as [H1 Hn].
  apply Nat.leb_le in H1. unfold chunk, canon_vars, chunk. rewrite map_length.
  apply (vars_read_gen (L_i2 L) nv rest).
  - rewrite E2. reflexivity.
  - rewrite E2. cbn. rewrite T0, T1, T2, T3. reflexivity.
  - lia.
  - destruct vs; [cbn in H1; lia|congruence].
  - exact Hs.
  - unfold chunk in Hok. rewrite map_length in Hok. exact Hok.
  - unfold nv_ok in Hn. destruct nv as [N|]; [apply Nat.eqb_eq in Hn; cbn [length]; lia|apply Nat.leb_le in Hn; exact Hn].
Qed.

(** ** one block *)
Lemma canon_block_eta L s b : shape L ->
  canon_block L s b = {| bname := cycle (bname b); nseq := nseq b; nadd := nadd b;
                         porosity := porosity (canon_block L s b); perm := perm (canon_block L s b);
                         vars := canon_vars (L_i2 L) (vars b) |}.
Proof.
  intro Sh. destruct (sh_i1 L Sh) as (f0 & f1 & f2 & f3 & E1 & _).
  destruct (sh_i1r L Sh) as (g0 & g1 & g2 & g3 & g4 & g5 & g6 & E1r & _).
  unfold canon_block, hdr_specs. destruct (uses_tr s b); rewrite ?E1, ?E1r; reflexivity.
Qed.
Lemma is_record_line_spec r : is_record_line r = true ->
  exists line, r = Ok line /\ is_blank line = false /\ prefix (s2l "+++") line = false.
Proof.
  unfold is_record_line. destruct r as [line|]; [|discriminate]. intro H. apply andb_prop in H as [H1 H2].
  exists line. repeat split; [apply negb_true_iff; exact H1|apply negb_true_iff; exact H2].
Qed.

Lemma block_reads L nv check s b rest fuel tr acc :
  shape L -> block_ok L nv check s b = true ->
  exists lines, write_block L s b = Ok lines /\ lines <> [] /\
    read_blocks (S fuel) L nv check tr acc (lines ++ rest) =
    read_blocks fuel L nv check (tr || uses_tr s b) (add_incon (canon_block L s b) acc) rest.
Proof.
  intros Sh H. unfold block_ok in H. destruct (unfix_name (bname b)) as [u|] eqn:Hu; [|discriminate].
  apply andb_prop in H as [H Hvars]. apply andb_prop in H as [H Hvalid]. apply andb_prop in H as [H Hrec].
  apply andb_prop in H as [H5 Hline]. apply Nat.eqb_eq in H5.
  destruct (header_reads L check s b u Sh Hu H5 Hline Hvalid) as [hdr [Em Ph]].
  destruct (is_record_line_spec _ Hrec) as [hdr' [Em' [NB NP]]]. rewrite Em in Em'. inversion Em'; subst hdr'.
  destruct (vars_read L nv (vars b) rest Sh Hvars) as [vl [Wv Rv]].
  exists (hdr :: vl). split; [|split; [congruence|]].
  - unfold write_block. rewrite Hu. cbn [bind]. rewrite Em. cbn [bind]. rewrite Wv. reflexivity.
  - cbn [app read_blocks readline]. rewrite NB, NP, Ph. unfold hdr_canon. cbn [bind]. rewrite Rv. cbn [bind].
    change (match perm (canon_block L s b) with Some _ => true | None => false end) with (is_some (perm (canon_block L s b))).
    rewrite canon_perm_is_some by exact Sh. rewrite <- canon_block_eta by exact Sh. reflexivity.
Qed.

(** ** all blocks *)
Lemma add_incon_new b acc : existsb (fun x => str_eqb (bname x) (bname b)) acc = false -> add_incon b acc = b :: acc.
Proof. intro H. unfold add_incon. rewrite H. reflexivity. Qed.
Lemma bname_canon L s b : shape L -> bname (canon_block L s b) = cycle (bname b).
Proof. intro Sh. rewrite canon_block_eta by exact Sh. reflexivity. Qed.
Lemma str_eqb_sym a b : str_eqb a b = str_eqb b a.
Proof.
  destruct (str_eqb a b) eqn:E; symmetry.
  - apply str_eqb_eq in E. subst. apply str_eqb_refl.
  - destruct (str_eqb b a) eqn:E2; [|reflexivity]. apply str_eqb_eq in E2. subst. rewrite str_eqb_refl in E. discriminate.
Qed.

Definition cname (b : blockincon) : str := cycle (bname b).
Definition fresh (acc : list blockincon) (n : str) : Prop := existsb (fun x => str_eqb (bname x) n) acc = false.

Lemma blocks_read L nv check s rest : shape L -> forall bs fuel tr acc,
  forallb (block_ok L nv check s) bs = true ->
  nodupb (map cname bs) = true ->
  (forall b, In b bs -> fresh acc (cname b)) ->
  exists bl, mapM (write_block L s) bs = Ok bl /\ length bs <= length (concat bl) /\
    read_blocks (length bs + fuel) L nv check tr acc (concat bl ++ rest) =
    read_blocks fuel L nv check (tr || existsb (uses_tr s) bs) (rev (map (canon_block L s) bs) ++ acc) rest.
Proof.
  intro Sh. induction bs as [|b bs IH]; intros fuel tr acc Hok Hnd Hfr.
  - exists []. cbn. rewrite orb_false_r. auto.
  - cbn [forallb] in Hok. apply andb_prop in Hok as [Hb Hbs].
    cbn [map nodupb] in Hnd. apply andb_prop in Hnd as [Hx Hnd]. apply negb_true_iff in Hx.
    destruct (IH fuel (tr || uses_tr s b) (canon_block L s b :: acc) Hbs Hnd) as [bl [Wbl [Lbl Rbl]]].
    { intros b' Hb'. unfold fresh. cbn [existsb]. rewrite (bname_canon L s b Sh).
      assert (F : str_eqb (cycle (bname b)) (cname b') = false).
      { destruct (str_eqb (cycle (bname b)) (cname b')) eqn:E; [|reflexivity].
        assert (X : existsb (str_eqb (cname b)) (map cname bs) = true).
        { apply existsb_exists. exists (cname b'). split; [apply in_map; exact Hb'|exact E]. }
        rewrite X in Hx. discriminate. }
      rewrite F. cbn [orb]. apply Hfr. right. exact Hb'. }
    destruct (block_reads L nv check s b (concat bl ++ rest) (length bs + fuel) tr acc Sh Hb) as [lines [Wl [NEl Rl]]].
    exists (lines :: bl). split; [|split].
    + cbn [mapM]. rewrite Wl. cbn [bind]. rewrite Wbl. reflexivity.
    + cbn [concat length]. rewrite app_length. destruct lines; [congruence|cbn [length]; lia].
    + cbn [concat length Nat.add]. rewrite <- app_assoc. rewrite Rl.
      rewrite add_incon_new.
      2:{ rewrite (bname_canon L s b Sh). apply Hfr. left. reflexivity. }
      rewrite Rbl. cbn [existsb map rev]. rewrite orb_assoc, <- app_assoc. reflexivity.
Qed.

(** ** the end of the file *)
Lemma is_blank_newline : is_blank [newline] = true. Proof. reflexivity. Qed.
Lemma tget_names t : map (tget t) timing_names = [oi (kcyc t); oi (iter t); oi (nm t); on (tstart t); on (sumtim t)].
Proof. reflexivity. Qed.

Lemma timing_reads L s t : shape L ->
  line_ok (tm_specs L s) (map (tget t) (tm_names L s)) = true ->
  exists line, emit (tm_specs L s) (map (tget t) (tm_names L s)) = Ok line /\
    (is_blank line = false ->
     read_timing L (match s with TOUGHREACT => true | TOUGH2 => false end) [line] = Ok (Some (canon_timing L s t))).
Proof.
  intros Sh Hok.
  assert (G : forall specs t0 t1 t2 t3 t4, specs = [t0; t1; t2; t3; t4] -> ft t0 = Td -> ft t1 = Td -> ft t2 = Td -> ft t3 = Te -> ft t4 = Te ->
    line_ok specs (map (tget t) timing_names) = true ->
    exists line, emit specs (map (tget t) timing_names) = Ok line /\
      (is_blank line = false ->
       (let '(ln, _) := readline [line] in
        if is_blank ln then Ok None else
        match parse_m specs (padstring ln) with
        | [a; b; c; d; e] =>
            do k <- as_oint a; do it <- as_oint b; do n <- as_oint c; do ts <- as_onum d; do st <- as_onum e;
            Ok (Some {| kcyc := k; iter := it; nm := n; tstart := ts; sumtim := st |})
        | _ => Raise ValueError
        end) = Ok (Some {| kcyc := kcyc t; iter := iter t; nm := nm t; tstart := cn t3 (tstart t); sumtim := cn t4 (sumtim t) |}))).
  { intros specs t0 t1 t2 t3 t4 -> T0 T1 T2 T3 T4 H. rewrite tget_names in *. unfold line_ok in H. cbn [length firstn] in H.
    destruct (written_line_reads _ [] [t0; t1; t2; t3; t4] [] _ [] H (same_cols_refl _) eq_refl eq_refl) as [line [Em _]].
    destruct (written_line_reads _ [] [t0; t1; t2; t3; t4] [] _ (spaces (pad_len - length (line ++ [newline]))) H
                (same_cols_refl _) eq_refl (forallb_spaces _)) as [line' [Em' Pm]].
    rewrite app_nil_r in Em, Em'. rewrite Em in Em'. inversion Em' as [EL]. apply app_inv_tail in EL. subst line'.
    exists (line ++ [newline]). split; [exact Em|]. intro NB. cbn [readline]. rewrite NB.
    unfold padstring, ljust. rewrite <- app_assoc. cbn [app] in *. rewrite Pm. cbn [map2 app repeat length].
    rewrite !canon_oi, !canon_on by assumption. rewrite !as_oint_oi, !as_onum_on. reflexivity. }
  destruct s.
  - destruct (sh_tm L Sh) as (t0 & t1 & t2 & t3 & t4 & E & T0 & T1 & T2 & T3 & T4).
    unfold tm_specs, tm_names in *. rewrite (sh_ntm L Sh) in *.
    destruct (G _ _ _ _ _ _ E T0 T1 T2 T3 T4 Hok) as [line [Em R]]. exists line. split; [exact Em|].
    intro NB. unfold read_timing. rewrite (R NB). unfold canon_timing, tm_specs. rewrite E. reflexivity.
  - destruct (sh_tmr L Sh) as (t0 & t1 & t2 & t3 & t4 & E & T0 & T1 & T2 & T3 & T4).
    unfold tm_specs, tm_names in *. rewrite (sh_ntmr L Sh) in *.
    destruct (G _ _ _ _ _ _ E T0 T1 T2 T3 T4 Hok) as [line [Em R]]. exists line. split; [exact Em|].
    intro NB. unfold read_timing. rewrite (R NB). unfold canon_timing, tm_specs. rewrite E. reflexivity.
Qed.

(** ** the whole file *)
Lemma flavour_flag i : flavour_detectable i = true ->
  existsb (uses_tr (sim i)) (blocks i) = match sim i with TOUGHREACT => true | TOUGH2 => false end.
Proof.
  unfold flavour_detectable. destruct (sim i).
  - intros _. induction (blocks i) as [|b bs IH]; [reflexivity|]. cbn [existsb uses_tr]. exact IH.
  - intro H. induction (blocks i) as [|b bs IH]; [discriminate|]. cbn [existsb] in *. unfold uses_tr at 1.
    destruct (perm b); [reflexivity|]. cbn [is_some orb] in H. cbn [orb]. apply IH. exact H.
Qed.

Theorem read_write_L L nv check reset i :
  layouts_ok L = true -> wfb L nv check reset i = true ->
  exists ls, write_L L reset i = Ok ls /\ read_L L nv check ls = Ok (canon_L L reset i).
Proof.
  intros HL H. pose proof (layouts_shape L HL) as Sh. unfold wfb in H.
  apply andb_prop in H as [H Htail]. apply andb_prop in H as [H Hhdr]. apply andb_prop in H as [H Hfl].
  apply andb_prop in H as [Hbl Hnd].
  destruct (write_header L reset i) as [h|] eqn:Wh; [|discriminate].
  assert (Wt : exists tl, write_tail L reset i = Ok tl /\
    forall fuel acc, read_blocks (S fuel) L nv check (match sim i with TOUGHREACT => true | TOUGH2 => false end) acc tl
       = Ok (acc, match sim i with TOUGHREACT => true | TOUGH2 => false end,
             match keeps_timing reset i with Some _ => true | None => false end,
             match keeps_timing reset i with Some _ => skipn 1 tl | None => [[newline]] end) /\
    (match keeps_timing reset i with
     | Some t => read_timing L (match sim i with TOUGHREACT => true | TOUGH2 => false end) (skipn 1 tl) = Ok (Some (canon_timing L (sim i) t))
     | None => True end)).
  { unfold write_tail, tail_ok in *. destruct (keeps_timing reset i) as [t|].
    - apply andb_prop in Htail as [Hok Hrec].
      destruct (timing_reads L (sim i) t Sh Hok) as [line [Em R]].
      destruct (is_record_line_spec _ Hrec) as [line' [Em' [NB _]]]. rewrite Em in Em'. inversion Em'; subst line'.
      exists [plus_line; line]. rewrite Em. split; [reflexivity|]. intros fuel acc. split; [reflexivity|]. apply R. exact NB.
    - exists [[newline]; [newline]]. split; [reflexivity|]. intros fuel acc. split; [reflexivity|exact I]. }
  destruct Wt as [tl [Wt Rt]].
  destruct (blocks_read L nv check (sim i) tl Sh (blocks i) 1 false [] Hbl Hnd) as [bl [Wbl [Lbl Rbl]]].
  { intros b _. reflexivity. }
  exists (h :: concat bl ++ tl). split.
  - unfold write_L. rewrite Wh. cbn [bind]. rewrite Wbl. cbn [bind]. rewrite Wt. reflexivity.
  - unfold read_L, read_used_L. cbn [readline].
    assert (Lf : exists fuel, S (length (concat bl ++ tl)) = length (blocks i) + S fuel).
    { exists (length (concat bl ++ tl) - length (blocks i)). rewrite app_length in *. lia. }
    destruct Lf as [fuel Lf]. rewrite Lf.
    destruct (blocks_read L nv check (sim i) tl Sh (blocks i) (S fuel) false [] Hbl Hnd) as [bl' [Wbl' [_ Rbl']]].
    { intros b _. reflexivity. }
    rewrite Wbl in Wbl'. inversion Wbl'; subst bl'. rewrite Rbl'. cbn [orb]. rewrite (flavour_flag i Hfl).
    destruct (Rt fuel (rev (map (canon_block L (sim i)) (blocks i)) ++ [])) as [R1 R2]. rewrite R1. cbn [bind].
    rewrite app_nil_r. unfold rev'. rewrite <- rev_alt, rev_involutive.
    unfold canon_L. destruct (keeps_timing reset i) as [t|].
    + rewrite R2. cbn [bind]. destruct (sim i); reflexivity.
    + cbn [bind]. destruct (sim i); reflexivity.
Qed.
