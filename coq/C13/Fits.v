(** C13: well-formedness stated with "the value fits its field" instead of the per-field
    read-back checks: [wfb_fits] implies [wfb] (Fields.v proves every read-back check from
    the fit), so the round-trip theorem needs no unproved field-level hypothesis. *)
From Coq Require Import Ascii String List Bool Arith ZArith NArith Lia.
From PTBase Require Import Exn PyStr PyNum PyVal Fmt FixedFormat.
From PTModel Require Import Fortran.
From P Require Import Num Names InconIO Wf Fields.
Import ListNotations.
Open Scope nat_scope.
Open Scope list_scope.

Definition is_ok_str (r : res str) : bool := match r with Ok _ => true | Raise _ => false end.
(** a value the field can hold: of the field's type, formatted without error (an integer
    must fit its columns; a real fits after lowering the precision, to at least one decimal),
    a name exactly as wide as its columns and not ending in a newline *)
Definition fits_ok (f : fspec) (v : mval) : bool :=
  match v with
  | MNone => negb (fty_eqb (ft f) Ts)
  | MInt z => fty_eqb (ft f) Td && (0 <? fw f)%Z && is_ok_str (fmt_m f v)
  | MNum (PDy ng m e) =>
      fty_eqb (ft f) Te && (0 <? fw f)%Z && is_ok_str (fmt_m f v) &&
      match used_prec f (XReal ng m e) with Some q => (0 <? q)%Z | None => false end
  | MNum _ => false
  | MStr s => fty_eqb (ft f) Ts && (length s =? width f) && no_trailing_newline s
  end.
Lemma fty_eqb_eq a b : fty_eqb a b = true -> a = b.
Proof. destruct a, b; cbn; intro H; try discriminate; reflexivity. Qed.

Theorem fits_readback f v : fits_ok f v = true -> readback_ok f v = true.
Proof.
  destruct v as [|z|[ng m e| |ng]|s]; cbn [fits_ok]; intro H; try discriminate.
  - apply none_field_reads_back. intro E. rewrite E in H. discriminate.
  - apply andb_prop in H as [H F]. apply andb_prop in H as [T W]. apply fty_eqb_eq in T. apply Z.ltb_lt in W.
    destruct (fmt_m f (MInt z)) as [s|] eqn:E; [|discriminate]. exact (int_field_reads_back f z s T W E).
  - apply andb_prop in H as [H Q]. apply andb_prop in H as [H F]. apply andb_prop in H as [T W].
    apply fty_eqb_eq in T. apply Z.ltb_lt in W.
    destruct (fmt_m f (MNum (PDy ng m e))) as [s|] eqn:E; [|discriminate].
    apply (real_field_reads_back f ng m e s T W E). intros q U. rewrite U in Q. apply Z.ltb_lt. exact Q.
  - apply andb_prop in H as [H NT]. apply andb_prop in H as [T Len]. apply fty_eqb_eq in T. apply Nat.eqb_eq in Len.
    apply str_field_reads_back; assumption.
Qed.

Definition line_fits (specs : list fspec) (vals : list mval) : bool :=
  forallb2 fits_ok (firstn (length vals) specs) vals.
Lemma forallb2_impl {A B} (p q : A -> B -> bool) : (forall a b, p a b = true -> q a b = true) ->
  forall a b, forallb2 p a b = true -> forallb2 q a b = true.
Proof.
  intro I. induction a as [|x a IH]; destruct b as [|y b]; cbn; intro H; try discriminate; [reflexivity|].
  apply andb_prop in H as [H1 H2]. rewrite (I _ _ H1), (IH _ H2). reflexivity.
Qed.
Lemma line_fits_ok specs vals : line_fits specs vals = true -> line_ok specs vals = true.
Proof. apply forallb2_impl. exact fits_readback. Qed.
Lemma forallb_impl' {A} (p q : A -> bool) l : (forall a, p a = true -> q a = true) -> forallb p l = true -> forallb q l = true.
Proof. intro I. induction l as [|a l IH]; cbn; [auto|]. intro H. apply andb_prop in H as [H1 H2]. rewrite (I _ H1), (IH H2). reflexivity. Qed.

Definition vars_fits (L : layouts) (onv : option nat) (vs : list (option pnum)) : bool :=
  (1 <=? length vs)%nat && nv_ok onv (length vs) && forallb is_some vs &&
  forallb (line_fits (L_i2 L)) (chunk 4 (map on vs)).
Definition block_fits (L : layouts) (onv : option nat) (check : bool) (s : simk) (b : blockincon) : bool :=
  match unfix_name (bname b) with
  | Ok u =>
      (length (bname b) =? 5)%nat &&
      line_fits (hdr_specs L s b) (hdr_vals s u b) &&
      is_record_line (emit (hdr_specs L s b) (hdr_vals s u b)) &&
      (if check then match valid_name u with Ok true => true | _ => false end else true) &&
      vars_fits L onv (vars b)
  | Raise _ => false
  end.
Definition tail_fits (L : layouts) (reset : bool) (i : incon) : bool :=
  match keeps_timing reset i with
  | None => true
  | Some t =>
      let vals := map (tget t) (tm_names L (sim i)) in
      line_fits (tm_specs L (sim i)) vals && is_record_line (emit (tm_specs L (sim i)) vals)
  end.
(** the hypotheses of the round trip: every value fits its field; unique names of five
    characters (valid ones when names are checked); every block has the number of variables
    the reader is told (at most four when it is told nothing), none absent; the flavour can
    be told from the file; no record is blank or starts with '+++' *)
Definition wfb_fits (L : layouts) (onv : option nat) (check reset : bool) (i : incon) : bool :=
  forallb (block_fits L onv check (sim i)) (blocks i) &&
  nodupb (map (fun b => cycle (bname b)) (blocks i)) &&
  flavour_detectable i &&
  is_ok (write_header L reset i) &&
  tail_fits L reset i.

Lemma vars_fits_ok L onv vs : vars_fits L onv vs = true -> vars_ok L onv vs = true.
Proof.
  unfold vars_fits, vars_ok. intro H. apply andb_prop in H as [H H4]. rewrite H. cbn [andb].
  apply (forallb_impl' _ _ _ (line_fits_ok (L_i2 L))). exact H4.
Qed.
Lemma block_fits_ok L onv check s b : block_fits L onv check s b = true -> block_ok L onv check s b = true.
Proof.
  unfold block_fits, block_ok. destruct (unfix_name (bname b)) as [u|]; [|auto]. intro H.
  apply andb_prop in H as [H H5]. apply andb_prop in H as [H H4]. apply andb_prop in H as [H H3]. apply andb_prop in H as [H1 H2].
  rewrite H1, (line_fits_ok _ _ H2), H3, H4, (vars_fits_ok _ _ _ H5). reflexivity.
Qed.
Theorem wfb_fits_wfb L onv check reset i : wfb_fits L onv check reset i = true -> wfb L onv check reset i = true.
Proof.
  unfold wfb_fits, wfb. intro H.
  apply andb_prop in H as [H H5]. apply andb_prop in H as [H H4]. apply andb_prop in H as [H H3]. apply andb_prop in H as [H1 H2].
  rewrite (forallb_impl' _ _ _ (block_fits_ok L onv check (sim i)) H1), H2, H3, H4. cbn [andb].
  unfold tail_fits, tail_ok in *. destruct (keeps_timing reset i); [|reflexivity].
  apply andb_prop in H5 as [A B]. rewrite (line_fits_ok _ _ A), B. reflexivity.
Qed.
