(** C13: executable model of t2incons.t2incon.read / write, statement by statement
    (t2incons.py:165-243), over the model of fixed_format_file (Base/FixedFormat.v)
    instantiated with the record layouts regenerated from the current source
    (Gen/GenTables.v, [t2incon_format]).

    A file is the list of its lines, each as [readline()] returns it (with its
    newline); [readline()] at end of file returns ''.  Splitting a file into lines and
    joining lines into a file is Python's text I/O and is outside the model. *)
From Coq Require Import Ascii String List Bool Arith ZArith NArith Lia.
From PTBase Require Import Exn PyStr PyNum PyVal Fmt FixedFormat.
From PTModel Require Import Fortran.
From Gen Require Import GenTables GenRead.
From P Require Import Num Names.
Import ListNotations.
Open Scope string_scope.
Open Scope char_scope.
Open Scope list_scope.

(** ** the object *)
Inductive simk := TOUGH2 | TOUGHREACT.
Record blockincon := {
  bname : str;
  nseq : option Z; nadd : option Z;
  porosity : option pnum;
  perm : option (pnum * pnum * pnum);
  vars : list (option pnum)            (* [None]: a blank cell between values *)
}.
Record timing := { kcyc : option Z; iter : option Z; nm : option Z; tstart : option pnum; sumtim : option pnum }.
Record incon := { sim : simk; blocks : list blockincon; timing_ : option timing }.

Definition simk_eqb (a b : simk) : bool := match a, b with TOUGH2, TOUGH2 | TOUGHREACT, TOUGHREACT => true | _, _ => false end.

(** ** record layouts, looked up by name in the regenerated table *)
Record layouts := {
  L_hs : list fspec; L_hl : list fspec; L_i1 : list fspec; L_i1r : list fspec; L_i2 : list fspec;
  L_tm : list fspec; L_tmr : list fspec; N_tm : list string; N_tmr : list string }.
Fixpoint alookup {A} (k : string) (l : list (string * A)) : option A :=
  match l with [] => None | (k', v) :: r => if String.eqb k k' then Some v else alookup k r end.
Definition rec_of (tbl : list (string * (list string * list fspec))) (rn : string) : res (list string * list fspec) :=
  match alookup rn tbl with Some x => Ok x | None => Raise KeyError end.
Definition layouts_of (tbl : list (string * (list string * list fspec))) : res layouts :=
  do hs <- rec_of tbl "header_short"; do hl <- rec_of tbl "header_long";
  do i1 <- rec_of tbl "incon1"; do i1r <- rec_of tbl "incon1_toughreact"; do i2 <- rec_of tbl "incon2";
  do tm <- rec_of tbl "timing"; do tmr <- rec_of tbl "timing_toughreact";
  Ok {| L_hs := snd hs; L_hl := snd hl; L_i1 := snd i1; L_i1r := snd i1r; L_i2 := snd i2;
        L_tm := snd tm; L_tmr := snd tmr; N_tm := fst tm; N_tmr := fst tmr |}.
Definition the_layouts : res layouts := layouts_of t2incon_format.

(** ** conversions between typed attributes and field values *)
Definition oi (o : option Z) : mval := match o with Some z => MInt z | None => MNone end.
Definition on (o : option pnum) : mval := match o with Some x => MNum x | None => MNone end.
Definition to_oint (m : mval) : option Z := match m with MInt z => Some z | _ => None end.
Definition to_onum (m : mval) : option pnum := match m with MNum x => Some x | _ => None end.
(** attributes as the reader stores them; a type the table does not give them is outside the model *)
Definition as_oint (m : mval) : res (option Z) :=
  match m with MNone => Ok None | MInt z => Ok (Some z) | _ => Raise TypeError end.
Definition as_onum (m : mval) : res (option pnum) :=
  match m with MNone => Ok None | MNum x => Ok (Some x) | _ => Raise TypeError end.
Definition as_name (m : mval) : res str := match m with MStr s => Ok s | _ => Raise TypeError end.

(** ** writer *)
(** [outfile.write_values(vals, linetype)] : one line *)
Definition emit (specs : list fspec) (vals : list mval) : res str :=
  do xs <- mapM value_of vals; do s <- write_values specs xs; Ok (s ++ [newline]).

(** [while vals: linevals = vals[:min(len(vals), k)]; ...; vals = vals[len(linevals):]] *)
Fixpoint chunks {A} (fuel k : nat) (l : list A) : list (list A) :=
  match fuel with
  | O => []
  | S f => match l with [] => [] | _ => firstn k l :: chunks f k (skipn k l) end
  end.
Definition chunk {A} (k : nat) (l : list A) : list (list A) := chunks (length l) k l.

Definition header_text : str := s2l "INCON -- INITIAL CONDITIONS FOR".
Definition header_text2 : str := s2l " ELEMENTS AT TIME  ".
Definition keeps_timing (reset : bool) (i : incon) : option timing :=
  match timing_ i with Some t => if reset then None else Some t | None => None end.
Definition write_header (L : layouts) (reset : bool) (i : incon) : res str :=
  match keeps_timing reset i with
  | None => emit (L_hs L) [MStr (s2l "INCON")]
  | Some t => emit (L_hl L) [MStr header_text; MInt (Z.of_nat (length (blocks i))); MStr header_text2; on (sumtim t)]
  end.

(** the TOUGHREACT block record is used when the object is TOUGHREACT and the block has permeabilities *)
Definition uses_tr (s : simk) (b : blockincon) : bool :=
  match s, perm b with TOUGHREACT, Some _ => true | _, _ => false end.
Definition hdr_specs (L : layouts) (s : simk) (b : blockincon) : list fspec :=
  if uses_tr s b then L_i1r L else L_i1 L.
Definition hdr_vals (s : simk) (u : str) (b : blockincon) : list mval :=
  [MStr u; oi (nseq b); oi (nadd b); on (porosity b)] ++
  match s, perm b with TOUGHREACT, Some (k1, k2, k3) => [MNum k1; MNum k2; MNum k3] | _, _ => [] end.
Definition write_block (L : layouts) (s : simk) (b : blockincon) : res (list str) :=
  do u <- unfix_name (bname b);
  do hdr <- emit (hdr_specs L s b) (hdr_vals s u b);
  do ls <- mapM (emit (L_i2 L)) (chunk 4 (map on (vars b)));
  Ok (hdr :: ls).

(** [write_value_line(self.timing, fmt)]: the values are looked up by the names of the table *)
Definition tget (t : timing) (name : string) : mval :=
  if String.eqb name "kcyc" then oi (kcyc t) else if String.eqb name "iter" then oi (iter t)
  else if String.eqb name "nm" then oi (nm t) else if String.eqb name "tstart" then on (tstart t)
  else if String.eqb name "sumtim" then on (sumtim t) else MNone.
Definition tm_specs (L : layouts) (s : simk) : list fspec := match s with TOUGHREACT => L_tmr L | TOUGH2 => L_tm L end.
Definition tm_names (L : layouts) (s : simk) : list string := match s with TOUGHREACT => N_tmr L | TOUGH2 => N_tm L end.
Definition plus_line : str := s2l "+++" ++ [newline].
Definition write_tail (L : layouts) (reset : bool) (i : incon) : res (list str) :=
  match keeps_timing reset i with
  | None => Ok [[newline]; [newline]]                       (* outfile.write('\n\n') *)
  | Some t => do l <- emit (tm_specs L (sim i)) (map (tget t) (tm_names L (sim i))); Ok [plus_line; l]
  end.
Definition write_L (L : layouts) (reset : bool) (i : incon) : res (list str) :=
  do h <- write_header L reset i;
  do bl <- mapM (write_block L (sim i)) (blocks i);
  do tl <- write_tail L reset i;
  Ok (h :: concat bl ++ tl).
Definition write (reset : bool) (i : incon) : res (list str) := do L <- the_layouts; write_L L reset i.

(** ** reader *)
Definition readline (ls : list str) : str * list str := match ls with [] => ([], []) | l :: r => (l, r) end.
(** [not line.strip()] *)
Definition is_blank (l : str) : bool := forallb is_space l.
Definition parse_m (specs : list fspec) (line : str) : list mval := map mval_of (parse_string fortran_rf specs line).
(** [while linevals and linevals[-1] is None: linevals.pop()] *)
Fixpoint pop_nones (l : list mval) : list mval :=
  match l with
  | [] => []
  | x :: r => match pop_nones r with
              | [] => match x with MNone => [] | _ => [x] end
              | r' => x :: r'
              end
  end.
Definition more_vars (nv : option nat) (len : nat) : bool :=
  match nv with None => false | Some n => (len <? n)%nat end.
(** the inner [while more] loop; at end of file [readline()] keeps returning '' and the
    loop of the code never ends when values are still missing: [OutOfFuel] *)
Fixpoint read_vars (specs : list fspec) (nv : option nat) (acc : list (option pnum)) (ls : list str)
  : res (list (option pnum) * list str) :=
  match ls with
  | [] => do vs <- mapM as_onum (pop_nones (parse_m specs []));
          let acc' := (acc ++ vs)%list in
          if more_vars nv (length acc') then Raise OutOfFuel else Ok (acc', [])
  | l :: r => do vs <- mapM as_onum (pop_nones (parse_m specs l));
              let acc' := (acc ++ vs)%list in
              if more_vars nv (length acc') then read_vars specs nv acc' r else Ok (acc', r)
  end.

Definition parse_block_header (L : layouts) (check : bool) (line : str)
  : res (str * option Z * option Z * option pnum * option (pnum * pnum * pnum)) :=
  match parse_m (L_i1r L) (padstring line) with
  | [rn; rs; ra; rp; r1; r2; r3] =>
      do nm <- as_name rn;
      do valid <- (if check then valid_name nm else Ok true);
      if valid then
        do nm' <- fix_name nm;
        do ns <- as_oint rs; do na <- as_oint ra; do po <- as_onum rp;
        do k1 <- as_onum r1; do k2 <- as_onum r2; do k3 <- as_onum r3;
        Ok (nm', ns, na, po,
            match k1, k2, k3 with Some a, Some b, Some c => Some (a, b, c) | _, _, _ => None end)
      else Raise PlainException
  | _ => Raise ValueError
  end.

(** [add_incon]: a block of the same name is replaced in place, otherwise appended
    (the accumulator is kept in reverse order) *)
Definition add_incon (b : blockincon) (acc : list blockincon) : list blockincon :=
  if existsb (fun x => str_eqb (bname x) (bname b)) acc
  then map (fun x => if str_eqb (bname x) (bname b) then b else x) acc
  else b :: acc.

(** the outer [while not finished] loop; result: blocks (reversed), TOUGHREACT seen,
    '+++' seen, remaining lines *)
Fixpoint read_blocks (fuel : nat) (L : layouts) (nv : option nat) (check : bool)
    (tr : bool) (acc : list blockincon) (ls : list str)
  : res (list blockincon * bool * bool * list str) :=
  match fuel with
  | O => Raise OutOfFuel
  | S f =>
      let '(line, r) := readline ls in
      if is_blank line then Ok (acc, tr, false, r)
      else if prefix (s2l "+++") line then Ok (acc, tr, true, r)
      else
        do h <- parse_block_header L check line;
        let '(nm, ns, na, po, pm) := h in
        do vr <- read_vars (L_i2 L) nv [] r;
        let '(vs, r') := vr in
        read_blocks f L nv check (tr || match pm with Some _ => true | None => false end)
          (add_incon {| bname := nm; nseq := ns; nadd := na; porosity := po; perm := pm; vars := vs |} acc) r'
  end.

Definition read_timing (L : layouts) (tr : bool) (ls : list str) : res (option timing) :=
  let '(line, _) := readline ls in
  if is_blank line then Ok None
  else
    match parse_m (if tr then L_tmr L else L_tm L) (padstring line) with
    | [a; b; c; d; e] =>
        do k <- as_oint a; do it <- as_oint b; do n <- as_oint c; do ts <- as_onum d; do st <- as_onum e;
        Ok (Some {| kcyc := k; iter := it; nm := n; tstart := ts; sumtim := st |})
    | _ => Raise ValueError
    end.

(** [self.read(filename, ...)] on an object whose simulator attribute is TOUGHREACT ([tr0]) or TOUGH2:
    [read] empties the blocks and the timing but never sets the flavour back, so an object that once
    held a TOUGHREACT file stays TOUGHREACT whatever is read into it next -- and cuts the timing
    record of the next file with the TOUGHREACT layout (recorded defect; [tr0 = false] is the fresh
    object of [t2incon(filename)]).  Whether the current [read] sets the flavour back first is read from
    the source on every run ([Gen/GenRead.v], [read_resets_flavour]) *)
Definition read_used_L (L : layouts) (tr0 : bool) (nv : option nat) (check : bool) (ls : list str) : res incon :=
  let '(_, r0) := readline ls in                    (* infile.readline()  # skip header *)
  do rb <- read_blocks (S (length r0)) L nv check tr0 [] r0;
  let '(acc, tr, tm, r1) := rb in
  do t <- (if tm then read_timing L tr r1 else Ok None);
  Ok {| sim := if tr then TOUGHREACT else TOUGH2; blocks := rev' acc; timing_ := t |}.
Definition read_L (L : layouts) (nv : option nat) (check : bool) (ls : list str) : res incon := read_used_L L false nv check ls.
Definition read (nv : option nat) (check : bool) (ls : list str) : res incon :=
  do L <- the_layouts; read_L L nv check ls.
(** nothing else of the object read into survives: blocks, timing, variables are those of the file *)
Definition read_used (old : incon) (nv : option nat) (check : bool) (ls : list str) : res incon :=
  do L <- the_layouts; read_used_L L (simk_eqb (sim old) TOUGHREACT && negb read_resets_flavour) nv check ls.

(** ** what one write/read cycle turns an object into *)
Definition cn (f : fspec) (o : option pnum) : option pnum := to_onum (canon_field f (on o)).
Fixpoint map2 {A B C} (f : A -> B -> C) (a : list A) (b : list B) : list C :=
  match a, b with x :: a', y :: b' => f x y :: map2 f a' b' | _, _ => [] end.
Definition canon_vars (specs : list fspec) (vs : list (option pnum)) : list (option pnum) :=
  concat (map (fun ch => map2 cn specs ch) (chunk 4 vs)).
Definition canon_block (L : layouts) (s : simk) (b : blockincon) : blockincon :=
  match hdr_specs L s b with
  | _ :: _ :: _ :: f3 :: ks =>
      {| bname := cycle (bname b); nseq := nseq b; nadd := nadd b; porosity := cn f3 (porosity b);
         perm := match s, perm b, ks with
                 | TOUGHREACT, Some (k1, k2, k3), [g1; g2; g3] =>
                     match cn g1 (Some k1), cn g2 (Some k2), cn g3 (Some k3) with
                     | Some a, Some b, Some c => Some (a, b, c)
                     | _, _, _ => None end
                 | _, _, _ => None end;
         vars := canon_vars (L_i2 L) (vars b) |}
  | _ => b
  end.
Definition canon_timing (L : layouts) (s : simk) (t : timing) : timing :=
  match tm_specs L s with
  | [_; _; _; f3; f4] => {| kcyc := kcyc t; iter := iter t; nm := nm t; tstart := cn f3 (tstart t); sumtim := cn f4 (sumtim t) |}
  | _ => t
  end.
Definition canon_L (L : layouts) (reset : bool) (i : incon) : incon :=
  {| sim := sim i; blocks := map (canon_block L (sim i)) (blocks i);
     timing_ := match keeps_timing reset i with Some t => Some (canon_timing L (sim i) t) | None => None end |}.
