(** C13: the theorems instantiated to the record layouts of the current source
    (Gen/GenTables.v [t2incon_format], regenerated from t2incon_format_specification on
    every run), what [canon] keeps of an object, examples, and the two recorded defects
    as refuted full statements. *)
From Coq Require Import Ascii String List Bool Arith ZArith NArith Lia.
From PTBase Require Import Exn PyStr PyNum PyVal Fmt FixedFormat.
From PTModel Require Import Fortran.
From Gen Require Import GenTables GenRead.
From P Require Import Num Names InconIO Wf Lines Blocks RoundTrip Idem Fields Fits Stable.
Import ListNotations.
Open Scope nat_scope.
Open Scope list_scope.

(** ** the regenerated table has the shape the reader and the writer assume, and the
    precisions of the property text (13 decimals for variables, 9 for the other reals) *)
Definition current_ok : bool :=
  match the_layouts with Ok L => layouts_ok L && precisions_ok L | Raise _ => false end.
Lemma current_layouts_ok : current_ok = true.
Proof. vm_compute. reflexivity. Qed.
Lemma the_layouts_ok : exists L, the_layouts = Ok L /\ layouts_ok L = true /\ precisions_ok L = true.
Proof.
  pose proof current_layouts_ok as H. unfold current_ok in H. destruct the_layouts as [L|]; [|discriminate].
  apply andb_prop in H as [H1 H2]. exists L. auto.
Qed.

Definition wf (nv : option nat) (check reset : bool) (i : incon) : bool :=
  match the_layouts with Ok L => wfb L nv check reset i | Raise _ => false end.
Definition idem_hyp (reset : bool) (i : incon) : bool :=
  match the_layouts with Ok L => idemb L reset i | Raise _ => false end.
Definition canon (reset : bool) (i : incon) : incon :=
  match the_layouts with Ok L => canon_L L reset i | Raise _ => i end.

(** well-formed: structure + every value fits its field (Fits.v) *)
Definition wf_fits (nv : option nat) (check reset : bool) (i : incon) : bool :=
  match the_layouts with Ok L => wfb_fits L nv check reset i | Raise _ => false end.
Lemma wf_fits_wf nv check reset i : wf_fits nv check reset i = true -> wf nv check reset i = true.
Proof. unfold wf_fits, wf. destruct the_layouts; [apply wfb_fits_wfb|auto]. Qed.

Theorem read_write nv check reset i : wf nv check reset i = true ->
  exists ls, write reset i = Ok ls /\ read nv check ls = Ok (canon reset i).
Proof.
  destruct the_layouts_ok as [L [EL [HL _]]]. unfold wf, write, read, canon. rewrite EL. cbn [bind].
  apply read_write_L. exact HL.
Qed.

Lemma wfb_len5 L nv check reset i : wfb L nv check reset i = true ->
  forallb (fun b => (length (bname b) =? 5)) (blocks i) = true.
Proof.
  unfold wfb. intro H. repeat (apply andb_prop in H as [H _]). rewrite forallb_forall in *. intros b Hb.
  specialize (H b Hb). unfold block_ok in H. destruct (unfix_name (bname b)); [|discriminate].
  repeat (apply andb_prop in H as [H _]). exact H.
Qed.
Theorem write_idem nv check reset i : wf nv check reset i = true -> idem_hyp reset i = true ->
  write reset (canon reset i) = write reset i.
Proof.
  destruct the_layouts_ok as [L [EL [HL _]]]. unfold wf, idem_hyp, write, canon. rewrite EL. cbn [bind].
  intros W I. apply write_idem_L; [exact HL|exact (wfb_len5 _ _ _ _ _ W)|exact I].
Qed.
(** the statement of the property: write, read back, write again -- same bytes *)
Theorem second_write_identical nv check reset i : wf nv check reset i = true -> idem_hyp reset i = true ->
  exists ls j, write reset i = Ok ls /\ read nv check ls = Ok j /\ write reset j = Ok ls.
Proof.
  intros W I. destruct (read_write _ _ _ _ W) as [ls [Wr Rd]]. exists ls, (canon reset i).
  repeat split; [exact Wr|exact Rd|]. rewrite (write_idem _ _ _ _ W I). exact Wr.
Qed.

Theorem read_write_fits nv check reset i : wf_fits nv check reset i = true ->
  exists ls, write reset i = Ok ls /\ read nv check ls = Ok (canon reset i).
Proof. intro H. apply read_write. apply wf_fits_wf. exact H. Qed.
Theorem read_write_fits_L L nv check reset i : layouts_ok L = true -> wfb_fits L nv check reset i = true ->
  exists ls, write_L L reset i = Ok ls /\ read_L L nv check ls = Ok (canon_L L reset i).
Proof. intros HL H. apply read_write_L; [exact HL|apply wfb_fits_wfb; exact H]. Qed.
Theorem write_idem_fits nv check reset i : wf_fits nv check reset i = true -> idem_hyp reset i = true ->
  write reset (canon reset i) = write reset i.
Proof. intros W I. apply (write_idem nv check); [apply wf_fits_wf; exact W|exact I]. Qed.
Theorem second_write_identical_fits nv check reset i : wf_fits nv check reset i = true -> idem_hyp reset i = true ->
  exists ls j, write reset i = Ok ls /\ read nv check ls = Ok j /\ write reset j = Ok ls.
Proof. intros W I. apply second_write_identical; [apply wf_fits_wf; exact W|exact I]. Qed.

(** the second write, without any per-field hypothesis: [stable_hyp] (Stable.v) *)
Definition stable_hyp (reset : bool) (i : incon) : bool :=
  match the_layouts with Ok L => stableb L reset i | Raise _ => false end.
Theorem write_idem_stable_L L nv check reset i : layouts_ok L = true ->
  wfb_fits L nv check reset i = true -> stableb L reset i = true ->
  write_L L reset (canon_L L reset i) = write_L L reset i.
Proof.
  intros HL W S. apply write_idem_L; [exact HL|apply (wfb_len5 L nv check reset); apply wfb_fits_wfb; exact W|].
  exact (stable_idemb L nv check reset i W S).
Qed.
Theorem write_idem_stable nv check reset i : wf_fits nv check reset i = true -> stable_hyp reset i = true ->
  write reset (canon reset i) = write reset i.
Proof.
  destruct the_layouts_ok as [L [EL [HL _]]]. unfold wf_fits, stable_hyp, write, canon. rewrite EL. cbn [bind].
  apply write_idem_stable_L. exact HL.
Qed.
Theorem second_write_identical_stable nv check reset i : wf_fits nv check reset i = true -> stable_hyp reset i = true ->
  exists ls j, write reset i = Ok ls /\ read nv check ls = Ok j /\ write reset j = Ok ls.
Proof.
  intros W S. destruct (read_write_fits _ _ _ _ W) as [ls [Wr Rd]]. exists ls, (canon reset i).
  repeat split; [exact Wr|exact Rd|]. rewrite (write_idem_stable _ _ _ _ W S). exact Wr.
Qed.

(** ** reading into a used object
    [read_used old]: [inc.read(filename)] on an object that held [old].  Blocks, variables, timing of
    [old] never reach the result (by construction); its flavour does when it is TOUGHREACT: *)
Theorem read_used_tough2_is_read old nv check ls : sim old = TOUGH2 -> read_used old nv check ls = read nv check ls.
Proof. intro H. unfold read_used, read, read_L. rewrite H. reflexivity. Qed.
Theorem read_used_is_read_once_flavour_is_reset old nv check ls : read_resets_flavour = true -> read_used old nv check ls = read nv check ls.
Proof. intro H. unfold read_used, read, read_L. rewrite H, andb_false_r. reflexivity. Qed.
Theorem read_used_depends_on_flavour_only old1 old2 nv check ls : sim old1 = sim old2 ->
  read_used old1 nv check ls = read_used old2 nv check ls.
Proof. intro H. unfold read_used. rewrite H. reflexivity. Qed.

(** ** writing has no effect on the object
    In the model [write] is a function of the flag and the object and returns lines only: the
    object after a write is the object (the correspondence compares the implementation's object
    after two writes with the object before them on every generated set).  Hence what any later
    write produces does not depend on the writes before it, in whichever order of [reset]: *)
Definition write_all (flags : list bool) (i : incon) : res (list (list str)) := mapM (fun r => write r i) flags.
Theorem write_history_irrelevant flags r i lss : write_all flags i = Ok lss ->
  (do _ <- write_all flags i; write r i) = write r i.
Proof. intro H. rewrite H. reflexivity. Qed.
(** in particular a write that keeps the timing, after one that reset it (and the other way round) *)
Corollary write_after_write r1 r2 i ls1 : write r1 i = Ok ls1 -> (do _ <- write r1 i; write r2 i) = write r2 i.
Proof. intro H. rewrite H. reflexivity. Qed.

(** ** what the object read back keeps *)
Lemma cn_is_some f o : is_some (cn f o) = is_some o.
Proof. destruct o as [x|]; [destruct (cn_some f x) as [y ->]; reflexivity|reflexivity]. Qed.
Lemma canon_vars_length specs vs : length specs = 4 -> length (canon_vars specs vs) = length vs.
Proof.
  intro L4. unfold canon_vars, chunk. apply rechunk_length; [|lia].
  intros c Hc. rewrite map2_length. lia.
Qed.
Definition block_kept (s : simk) (b c : blockincon) : Prop :=
  bname c = cycle (bname b) /\ nseq c = nseq b /\ nadd c = nadd b /\
  is_some (porosity c) = is_some (porosity b) /\ is_some (perm c) = uses_tr s b /\
  length (vars c) = length (vars b).
Lemma canon_block_kept L s b : shape L -> block_kept s b (canon_block L s b).
Proof.
  intro Sh. destruct (sh_i1 L Sh) as (f0 & f1 & f2 & f3 & E1 & _).
  destruct (sh_i1r L Sh) as (g0 & g1 & g2 & g3 & g4 & g5 & g6 & E1r & _).
  destruct (sh_i2 L Sh) as (v0 & v1 & v2 & v3 & E2 & _).
  unfold block_kept. rewrite (canon_perm_is_some L s b Sh), (vars_canon L s b Sh), (bname_canon L s b Sh).
  rewrite canon_vars_length by (rewrite E2; reflexivity).
  unfold canon_block, hdr_specs. destruct (uses_tr s b); rewrite ?E1, ?E1r; cbn [nseq nadd porosity]; rewrite cn_is_some; repeat split; reflexivity.
Qed.
Theorem canon_keeps L reset i : layouts_ok L = true ->
  let j := canon_L L reset i in
  sim j = sim i /\
  Forall2 (block_kept (sim i)) (blocks i) (blocks j) /\
  match timing_ j with
  | None => reset = true \/ timing_ i = None
  | Some u => reset = false /\ exists t, timing_ i = Some t /\ kcyc u = kcyc t /\ iter u = iter t /\ nm u = nm t /\
                is_some (tstart u) = is_some (tstart t) /\ is_some (sumtim u) = is_some (sumtim t)
  end.
Proof.
  intros HL j. pose proof (layouts_shape L HL) as Sh. unfold j, canon_L. cbn [sim blocks timing_]. split; [reflexivity|split].
  - induction (blocks i) as [|b bs IH]; cbn [map]; constructor; [apply canon_block_kept; exact Sh|exact IH].
  - unfold keeps_timing. destruct (timing_ i) as [t|]; [|right; reflexivity]. destruct reset; [left; reflexivity|].
    split; [reflexivity|]. exists t. split; [reflexivity|]. unfold canon_timing.
    destruct (sim i).
    + destruct (sh_tm L Sh) as (t0 & t1 & t2 & t3 & t4 & E & _). unfold tm_specs. rewrite E.
      cbn [kcyc iter nm tstart sumtim]. rewrite !cn_is_some. repeat split; reflexivity.
    + destruct (sh_tmr L Sh) as (t0 & t1 & t2 & t3 & t4 & E & _). unfold tm_specs. rewrite E.
      cbn [kcyc iter nm tstart sumtim]. rewrite !cn_is_some. repeat split; reflexivity.
Qed.
(** order and names: the blocks come back in the order written, each name through unfix then fix *)
Theorem order_and_names L reset i : layouts_ok L = true ->
  map bname (blocks (canon_L L reset i)) = map cycle (map bname (blocks i)).
Proof.
  intro HL. pose proof (layouts_shape L HL) as Sh. unfold canon_L. cbn [blocks]. rewrite !map_map.
  apply map_ext. intro b. apply bname_canon. exact Sh.
Qed.
(** every real comes back as the double nearest its rounding to the digits that were printed *)
Theorem canon_real_is_rounding f ng m e q : ft f = Te -> used_prec f (XReal ng m e) = Some q ->
  canon_field f (MNum (PDy ng m e)) = MNum (nearest (round_dec q ng m e)).
Proof. intros T U. unfold canon_field. rewrite T, U. reflexivity. Qed.
(** ... printed with the precision of the table whenever the text fits its columns *)
Theorem used_prec_full f v s : fmt_raw f (prec f) v = Ok s -> length s <= width f -> used_prec f v = Some (prec f).
Proof. intros F Hl. unfold used_prec. rewrite F. apply Nat.leb_le in Hl. rewrite Hl. reflexivity. Qed.

(** ** examples: the hypotheses are met by objects of every kind the property names *)
Definition R (ng : bool) (m e : Z) : option pnum := Some (PDy ng m e).
(** TOUGHREACT, two blocks, five variables on two lines (a negative value with a 3-digit
    exponent among them), permeabilities, nseq/nadd on one block, porosity absent on the
    other (whose permeability triple is all zero), a digit-blank-digit name, timing kept *)
Definition ex_tr : incon :=
  {| sim := TOUGHREACT;
     blocks := [ {| bname := s2l "AB105"; nseq := Some 3%Z; nadd := Some 1%Z; porosity := R false 3602879701896397 (-55);
                    perm := Some (PDy false 322359586229913 (-92), PDy false 3961408125713217 (-95), PDy false 6338253001141147 (-101));
                    vars := [R false 25325 2; R false 5 2; R true 3873374817130363 (-400); R false 8720301752336693 347; R false 0 0] |};
                 {| bname := s2l "  a 7"; nseq := None; nadd := None; porosity := None;
                    perm := Some (PDy false 0 0, PDy false 0 0, PDy false 0 0);     (* an impermeable block: a triple all the same *)
                    vars := [R false 103125 5; R false 31 (-1); R true 399 (-2); R false 1 (-2); R false 375 2] |} ];
     timing_ := Some {| kcyc := Some 11100%Z; iter := Some 40102%Z; nm := Some 1%Z; tstart := R false 0 0; sumtim := R false 7244475132352135 (-37) |} |}.
Example ex_tr_wf : wf_fits (Some 5) true false ex_tr = true /\ idem_hyp false ex_tr = true /\ stable_hyp false ex_tr = true.
Proof. vm_compute. repeat split; reflexivity. Qed.
(** TOUGH2, no blocks at all / one block with one variable, no num_variables, timing dropped by reset *)
Definition ex_empty : incon := {| sim := TOUGH2; blocks := []; timing_ := None |}.
Definition ex_t2 : incon :=
  {| sim := TOUGH2;
     blocks := [ {| bname := s2l "  aab"; nseq := None; nadd := None; porosity := R false 1 (-2); perm := None; vars := [R false 3125 5] |} ];
     timing_ := Some {| kcyc := Some 1%Z; iter := Some 2%Z; nm := Some 3%Z; tstart := R false 0 0; sumtim := R false 375 2 |} |}.
Example ex_t2_wf : wf_fits None true true ex_empty = true /\ stable_hyp true ex_empty = true /\
                   wf_fits None false true ex_t2 = true /\ stable_hyp true ex_t2 = true /\ wf_fits (Some 1) false false ex_t2 = true /\
                   stable_hyp false ex_t2 = true.
Proof. vm_compute. repeat split; reflexivity. Qed.
Example ex_tr_file : match write false ex_tr with Ok ls => length ls | Raise _ => 0 end = 9.
Proof. vm_compute. reflexivity. Qed.

(** ** the two recorded defects: the unguarded statements are false in the faithful model *)
(** 1. a TOUGHREACT set in which no block has permeabilities is read back as TOUGH2, and its
       timing line (6d,6d,3d) is then parsed with the TOUGH2 layout: kcyc 11100 -> 1110.
       (guard in [wf]: [flavour_detectable]) *)
Definition w_flavour : incon :=
  {| sim := TOUGHREACT;
     blocks := [ {| bname := s2l "AAA 1"; nseq := None; nadd := None; porosity := R false 3602879701896397 (-55); perm := None;
                    vars := [R false 3125 5; R false 5 2] |} ];
     timing_ := Some {| kcyc := Some 11100%Z; iter := Some 40102%Z; nm := Some 1%Z; tstart := R false 0 0; sumtim := R false 7244475132352135 (-37) |} |}.
Definition timing_kcyc (i : incon) : option Z := match timing_ i with Some t => kcyc t | None => None end.
Definition oz_eqb (a b : option Z) : bool := match a, b with Some x, Some y => (x =? y)%Z | None, None => true | _, _ => false end.
Definition flavour_witness_check : bool :=
  match write false w_flavour with
  | Ok ls => match read (Some 2) true ls with
             | Ok j => simk_eqb (sim w_flavour) TOUGHREACT && simk_eqb (sim j) TOUGH2 &&
                       oz_eqb (timing_kcyc w_flavour) (Some 11100%Z) && oz_eqb (timing_kcyc j) (Some 1110%Z)
             | Raise _ => false end
  | Raise _ => false end.
Lemma flavour_witness_checked : flavour_witness_check = true.
Proof. vm_compute. reflexivity. Qed.
Lemma simk_eqb_eq a b : simk_eqb a b = true -> a = b.
Proof. destruct a, b; cbn; intro H; try discriminate; reflexivity. Qed.
Lemma oz_eqb_eq a b : oz_eqb a b = true -> a = b.
Proof. destruct a, b; cbn; intro H; try discriminate; [apply Z.eqb_eq in H; congruence|reflexivity]. Qed.
Theorem flavour_roundtrip_refuted :
  exists i ls j, write false i = Ok ls /\ read (Some 2) true ls = Ok j /\
                 sim i = TOUGHREACT /\ sim j = TOUGH2 /\ timing_kcyc i = Some 11100%Z /\ timing_kcyc j = Some 1110%Z.
Proof.
  pose proof flavour_witness_checked as H. unfold flavour_witness_check in H.
  destruct (write false w_flavour) as [ls|] eqn:W; [|discriminate].
  destruct (read (Some 2) true ls) as [j|] eqn:Rd; [|discriminate].
  apply andb_prop in H as [H H4]. apply andb_prop in H as [H H3]. apply andb_prop in H as [H1 H2].
  exists w_flavour, ls, j. repeat split; auto using simk_eqb_eq, oz_eqb_eq.
Qed.
(** 2. the long header prints sumtim with 12.6e; what is read back is sumtim rounded to the 9
       decimals of the timing line, and 12.6e of that can differ in the last digit: the second
       file differs from the first in its header line.  (guard in [idem_hyp]: the header clause) *)
Definition w_header : incon :=
  {| sim := TOUGH2;
     blocks := [ {| bname := s2l "AAA 1"; nseq := None; nadd := None; porosity := R false 3602879701896397 (-55); perm := None;
                    vars := [R false 3125 5; R false 5 2] |} ];
     timing_ := Some {| kcyc := Some 1%Z; iter := Some 2%Z; nm := Some 3%Z; tstart := R false 0 0; sumtim := R false 8483883256778389 (-36) |} |}.
Definition lines_eqb (a b : list str) : bool := str_eqb (concat a) (concat b).
Definition header_witness_check : bool :=
  wf_fits (Some 2) true false w_header &&
  match write false w_header with
  | Ok ls => match read (Some 2) true ls with
             | Ok j => match write false j with
                       | Ok ls2 => negb (lines_eqb ls ls2) && lines_eqb (skipn 1 ls) (skipn 1 ls2)
                       | Raise _ => false end
             | Raise _ => false end
  | Raise _ => false end.
Lemma header_witness_checked : header_witness_check = true.
Proof. vm_compute. reflexivity. Qed.
Theorem second_write_refuted :
  exists i ls j ls2, wf_fits (Some 2) true false i = true /\ write false i = Ok ls /\ read (Some 2) true ls = Ok j /\
                     write false j = Ok ls2 /\ lines_eqb ls ls2 = false /\ lines_eqb (skipn 1 ls) (skipn 1 ls2) = true.
Proof.
  pose proof header_witness_checked as H. unfold header_witness_check in H. apply andb_prop in H as [Hwf H].
  destruct (write false w_header) as [ls|] eqn:W; [|discriminate].
  destruct (read (Some 2) true ls) as [j|] eqn:Rd; [|discriminate].
  destruct (write false j) as [ls2|] eqn:W2; [|discriminate].
  apply andb_prop in H as [H1 H2]. apply negb_true_iff in H1.
  exists w_header, ls, j, ls2. repeat split; assumption.
Qed.

(** 3. a value too wide for its columns is written with fewer decimals; when the rounding at that
       precision carries into a shorter exponent, the value read back fits with MORE decimals and
       the second file differs in that field (-9.9999999999996e-100 in 20.13e: ' -1.000000000000e-99'
       then '-1.0000000000000e-99').  (guard in [stable_hyp]: the same-precision clause of [stable_ok]) *)
Definition w_lowered : incon :=
  {| sim := TOUGH2;
     blocks := [ {| bname := s2l "AAA 1"; nseq := None; nadd := None; porosity := R false 3602879701896397 (-55); perm := None;
                    vars := [R true 4925250774549113 (-381); R false 5 2] |} ];
     timing_ := None |}.
Definition lowered_witness_check : bool :=
  wf_fits (Some 2) true true w_lowered && negb (stable_hyp true w_lowered) &&
  match write true w_lowered with
  | Ok ls => match read (Some 2) true ls with
             | Ok j => match write true j with
                       | Ok ls2 => negb (lines_eqb ls ls2) && lines_eqb (firstn 2 ls ++ skipn 3 ls) (firstn 2 ls2 ++ skipn 3 ls2)
                       | Raise _ => false end
             | Raise _ => false end
  | Raise _ => false end.
Lemma lowered_witness_checked : lowered_witness_check = true.
Proof. vm_compute. reflexivity. Qed.
Theorem lowered_precision_rewrite_refuted :
  exists i ls j ls2, wf_fits (Some 2) true true i = true /\ stable_hyp true i = false /\ write true i = Ok ls /\
                     read (Some 2) true ls = Ok j /\ write true j = Ok ls2 /\ lines_eqb ls ls2 = false.
Proof.
  pose proof lowered_witness_checked as H. unfold lowered_witness_check in H.
  apply andb_prop in H as [H H3]. apply andb_prop in H as [Hwf Hst]. apply negb_true_iff in Hst.
  destruct (write true w_lowered) as [ls|] eqn:W; [|discriminate].
  destruct (read (Some 2) true ls) as [j|] eqn:Rd; [|discriminate].
  destruct (write true j) as [ls2|] eqn:W2; [|discriminate].
  apply andb_prop in H3 as [H1 _]. apply negb_true_iff in H1.
  exists w_lowered, ls, j, ls2. repeat split; assumption.
Qed.

(** 4. [read] never sets the flavour back: a TOUGH2 file read into an object that held a TOUGHREACT file
       is TOUGHREACT, and its timing record is cut with the TOUGHREACT layout (kcyc 11100 -> 111004).
       (the round-trip theorems are about [read], the fresh object of [t2incon(filename)]) *)
Definition old_tr : incon := {| sim := TOUGHREACT; blocks := []; timing_ := None |}.
Definition w_used : incon :=
  {| sim := TOUGH2;
     blocks := [ {| bname := s2l "AAA 1"; nseq := None; nadd := None; porosity := R false 3602879701896397 (-55); perm := None;
                    vars := [R false 3125 5; R false 5 2] |} ];
     timing_ := Some {| kcyc := Some 11100%Z; iter := Some 40102%Z; nm := Some 1%Z; tstart := R false 0 0; sumtim := R false 375 2 |} |}.
Definition used_witness_check : bool :=
  read_resets_flavour ||
  match write false w_used with
  | Ok ls => match read (Some 2) true ls, read_used old_tr (Some 2) true ls with
             | Ok j, Ok u => simk_eqb (sim j) TOUGH2 && simk_eqb (sim u) TOUGHREACT &&
                             oz_eqb (timing_kcyc j) (Some 11100%Z) && oz_eqb (timing_kcyc u) (Some 111004%Z)
             | _, _ => false end
  | Raise _ => false end.
Lemma used_witness_checked : used_witness_check = true.
Proof. vm_compute. reflexivity. Qed.
Theorem read_into_used_object_refuted : read_resets_flavour = false ->
  exists old i ls j u, write false i = Ok ls /\ read (Some 2) true ls = Ok j /\ read_used old (Some 2) true ls = Ok u /\
                       sim j = TOUGH2 /\ sim u = TOUGHREACT /\ timing_kcyc j = Some 11100%Z /\ timing_kcyc u = Some 111004%Z.
Proof.
  intro NR. pose proof used_witness_checked as H. unfold used_witness_check in H. rewrite NR in H. cbn [orb] in H.
  destruct (write false w_used) as [ls|] eqn:W; [|discriminate].
  destruct (read (Some 2) true ls) as [j|] eqn:R1; [|discriminate].
  destruct (read_used old_tr (Some 2) true ls) as [u|] eqn:R2; [|discriminate].
  apply andb_prop in H as [H H4]. apply andb_prop in H as [H H3]. apply andb_prop in H as [H1 H2].
  exists old_tr, w_used, ls, j, u. repeat split; auto using simk_eqb_eq, oz_eqb_eq.
Qed.
