(** C13: one block of the file (its header record and its lines of variables) read back. *)
From Coq Require Import Ascii String List Bool Arith ZArith NArith Lia.
From PTBase Require Import Exn PyStr PyNum PyVal Fmt FixedFormat.
From PTModel Require Import Fortran.
From P Require Import Num Names InconIO Wf Lines.
Import ListNotations.
Open Scope nat_scope.
Open Scope list_scope.

(** ** the shape of the layouts *)
Lemma ftys_eqb_eq : forall a b, ftys_eqb a b = true -> a = b.
Proof.
  induction a as [|x a IH]; destruct b as [|y b]; cbn; intro H; try discriminate; [reflexivity|].
  apply andb_prop in H as [H1 H2]. f_equal; [destruct x, y; try discriminate; reflexivity|apply IH; exact H2].
Qed.
Lemma strings_eqb_eq : forall a b, strings_eqb a b = true -> a = b.
Proof.
  induction a as [|x a IH]; destruct b as [|y b]; cbn; intro H; try discriminate; [reflexivity|].
  apply andb_prop in H as [H1 H2]. apply String.eqb_eq in H1. f_equal; [exact H1|apply IH; exact H2].
Qed.

Record shape (L : layouts) : Prop := {
  sh_i1 : exists f0 f1 f2 f3, L_i1 L = [f0; f1; f2; f3] /\ ft f0 = Ts /\ ft f1 = Td /\ ft f2 = Td /\ ft f3 = Te;
  sh_i1r : exists g0 g1 g2 g3 g4 g5 g6, L_i1r L = [g0; g1; g2; g3; g4; g5; g6] /\
             ft g0 = Ts /\ ft g1 = Td /\ ft g2 = Td /\ ft g3 = Te /\ ft g4 = Te /\ ft g5 = Te /\ ft g6 = Te;
  sh_compat : same_cols (L_i1 L) (firstn 4 (L_i1r L)) = true;
  sh_i2 : exists v0 v1 v2 v3, L_i2 L = [v0; v1; v2; v3] /\ ft v0 = Te /\ ft v1 = Te /\ ft v2 = Te /\ ft v3 = Te;
  sh_tm : exists t0 t1 t2 t3 t4, L_tm L = [t0; t1; t2; t3; t4] /\ ft t0 = Td /\ ft t1 = Td /\ ft t2 = Td /\ ft t3 = Te /\ ft t4 = Te;
  sh_tmr : exists t0 t1 t2 t3 t4, L_tmr L = [t0; t1; t2; t3; t4] /\ ft t0 = Td /\ ft t1 = Td /\ ft t2 = Td /\ ft t3 = Te /\ ft t4 = Te;
  sh_ntm : N_tm L = timing_names;
  sh_ntmr : N_tmr L = timing_names }.

Ltac lists_of H :=
  repeat match type of H with
  | map ft ?l = _ :: _ => destruct l; [discriminate H|]; cbn [map] in H
  | map ft ?l = [] => destruct l; [|discriminate H]
  end.
Lemma layouts_shape L : layouts_ok L = true -> shape L.
Proof.
  unfold layouts_ok. intro H.
  apply andb_prop in H as [H HN2]. apply andb_prop in H as [H HN1]. apply andb_prop in H as [H HTR].
  apply andb_prop in H as [H HTM]. apply andb_prop in H as [H HI2]. apply andb_prop in H as [H HC].
  apply andb_prop in H as [HI1 HI1R].
  apply ftys_eqb_eq in HI1, HI1R, HI2, HTM, HTR. apply strings_eqb_eq in HN1, HN2. unfold tys in *.
  constructor; try assumption.
  - destruct (L_i1 L) as [|f0 [|f1 [|f2 [|f3 [|f4 r]]]]]; try discriminate HI1. cbn [map] in HI1. injection HI1; intros. exists f0, f1, f2, f3. repeat split; auto.
  - destruct (L_i1r L) as [|g0 [|g1 [|g2 [|g3 [|g4 [|g5 [|g6 [|g7 r]]]]]]]]; try discriminate HI1R. cbn [map] in HI1R. injection HI1R; intros.
    exists g0, g1, g2, g3, g4, g5, g6. repeat split; auto.
  - destruct (L_i2 L) as [|f0 [|f1 [|f2 [|f3 [|f4 r]]]]]; try discriminate HI2. cbn [map] in HI2. injection HI2; intros. exists f0, f1, f2, f3. repeat split; auto.
  - destruct (L_tm L) as [|f0 [|f1 [|f2 [|f3 [|f4 [|f5 r]]]]]]; try discriminate HTM. cbn [map] in HTM. injection HTM; intros. exists f0, f1, f2, f3, f4. repeat split; auto.
  - destruct (L_tmr L) as [|f0 [|f1 [|f2 [|f3 [|f4 [|f5 r]]]]]]; try discriminate HTR. cbn [map] in HTR. injection HTR; intros. exists f0, f1, f2, f3, f4. repeat split; auto.
Qed.

(** ** canonical values of the typed attributes *)
Lemma canon_str f u : canon_field f (MStr u) = MStr u.
Proof. unfold canon_field. destruct (ft f); reflexivity. Qed.
Lemma canon_oi f o : ft f = Td -> canon_field f (oi o) = oi o.
Proof. intro T. destruct o; unfold canon_field; cbn [oi]; rewrite ?T; reflexivity. Qed.
Lemma canon_num_is_num f x : exists y, canon_field f (MNum x) = MNum y.
Proof.
  unfold canon_field. destruct x as [ng m e| |ng]; destruct (ft f); eauto.
  destruct (used_prec f (XReal ng m e)); eauto.
Qed.
Lemma canon_on f o : canon_field f (on o) = on (cn f o).
Proof.
  unfold cn. destruct o as [x|]; cbn [on]; [|reflexivity].
  destruct (canon_num_is_num f x) as [y E]. rewrite E. reflexivity.
Qed.
Lemma cn_some f x : exists y, cn f (Some x) = Some y.
Proof. unfold cn. cbn [on]. destruct (canon_num_is_num f x) as [y E]. rewrite E. cbn [to_onum]. eauto. Qed.
Lemma as_oint_oi o : as_oint (oi o) = Ok o.
Proof. destruct o; reflexivity. Qed.
Lemma as_onum_on o : as_onum (on o) = Ok o.
Proof. destruct o; reflexivity. Qed.

(** ** names *)
Lemma unfix_name_len5 n u : length n = 5 -> unfix_name n = Ok u -> u = unfix5 n /\ length u = 5.
Proof.
  intros Ln H. destruct (len5 _ Ln) as (c0 & c1 & c2 & c3 & c4 & ->). rewrite unfix_name_5 in H.
  assert (E : u = unfix5 [c0; c1; c2; c3; c4]) by congruence. rewrite E.
  split; [reflexivity|]. rewrite unfix5_length. reflexivity.
Qed.
Lemma fix_name_len5 u : length u = 5 -> fix_name u = Ok (fix5 u).
Proof. intro Lu. destruct (len5 _ Lu) as (c0 & c1 & c2 & c3 & c4 & ->). apply fix_name_5. Qed.

(** ** the header record of a block *)
Lemma padstring_line line : exists k, padstring (line ++ [newline]) = line ++ newline :: spaces k.
Proof. unfold padstring, ljust. eexists. rewrite <- app_assoc. reflexivity. Qed.

Definition hdr_canon (L : layouts) (s : simk) (b : blockincon) :=
  (cycle (bname b), nseq b, nadd b, porosity (canon_block L s b), perm (canon_block L s b)).

Lemma header_reads L (check : bool) s b u :
  shape L -> unfix_name (bname b) = Ok u -> length (bname b) = 5 ->
  line_ok (hdr_specs L s b) (hdr_vals s u b) = true ->
  (if check then match valid_name u with Ok true => true | _ => false end else true) = true ->
  exists line, emit (hdr_specs L s b) (hdr_vals s u b) = Ok line /\
               parse_block_header L check line = Ok (hdr_canon L s b).
Proof.
  intros Sh Hu L5 Hok Hv.
  destruct (unfix_name_len5 _ _ L5 Hu) as [Eu Lu].
  destruct (sh_i1 L Sh) as (f0 & f1 & f2 & f3 & E1 & T0 & T1 & T2 & T3).
  destruct (sh_i1r L Sh) as (g0 & g1 & g2 & g3 & g4 & g5 & g6 & E1r & U0 & U1 & U2 & U3 & U4 & U5 & U6).
  pose proof (sh_compat L Sh) as SC. rewrite E1, E1r in SC. cbn [firstn] in SC.
  assert (Hvalid : (if check then valid_name u else Ok true) = Ok true).
  { destruct check; [|reflexivity]. destruct (valid_name u) as [[|]|]; try discriminate Hv. reflexivity. }
  unfold line_ok in Hok. unfold hdr_canon.
  destruct (uses_tr s b) eqn:TR.
  - (* TOUGHREACT record *)
    unfold uses_tr in TR. destruct s; [discriminate|]. destruct (perm b) as [[[k1 k2] k3]|] eqn:Pb; [|discriminate].
    unfold hdr_specs, uses_tr in *. rewrite Pb in *. unfold hdr_vals in *. rewrite Pb in *. rewrite E1r in *.
    cbn [app length firstn] in Hok.
    destruct (written_line_reads _ [] [g0; g1; g2; g3; g4; g5; g6] [] _ (spaces (pad_len - length (hdr_vals TOUGHREACT u b))) Hok
                (same_cols_refl _) eq_refl (forallb_spaces _)) as [line [Em Pm]].
    clear Pm.
    destruct (written_line_reads _ [] [g0; g1; g2; g3; g4; g5; g6] [] _ (spaces (pad_len - length (line ++ [newline]))) Hok
                (same_cols_refl _) eq_refl (forallb_spaces _)) as [line' [Em' Pm]].
    rewrite app_nil_r in Em, Em'. cbn [app] in Em, Em'. rewrite Em in Em'. inversion Em' as [EL]. apply app_inv_tail in EL. subst line'.
    exists (line ++ [newline]). split; [exact Em|].
    unfold parse_block_header. rewrite E1r.
    unfold padstring, ljust. rewrite <- app_assoc. cbn [app]. rewrite app_nil_r in Pm. rewrite Pm.
    cbn [map2 app repeat length].
    change (MNum k1) with (on (Some k1)). change (MNum k2) with (on (Some k2)). change (MNum k3) with (on (Some k3)).
    rewrite canon_str, !canon_oi, !canon_on by assumption. cbn [as_name bind]. rewrite Hvalid. cbn [bind].
    rewrite (fix_name_len5 _ Lu). cbn [bind]. rewrite !as_oint_oi, !as_onum_on. cbn [bind].
    unfold canon_block, hdr_specs, uses_tr. rewrite Pb, E1r. cbn [bname nseq nadd porosity perm].
    unfold cycle. rewrite Eu. reflexivity.
  - (* TOUGH2 record: the permeability columns are the padding *)
    assert (HS : hdr_specs L s b = [f0; f1; f2; f3]) by (unfold hdr_specs; rewrite TR; exact E1).
    assert (HV : hdr_vals s u b = [MStr u; oi (nseq b); oi (nadd b); on (porosity b)]).
    { unfold hdr_vals. unfold uses_tr in TR. destruct s; [reflexivity|]. destruct (perm b) as [[[k1 k2] k3]|]; [discriminate|reflexivity]. }
    rewrite HS, HV in *. cbn [length firstn] in Hok.
    assert (NS : no_str [g4; g5; g6] = true) by (cbn; rewrite U4, U5, U6; reflexivity).
    destruct (written_line_reads _ [] [g0; g1; g2; g3] [g4; g5; g6] _ [] Hok SC NS eq_refl) as [line [Em _]].
    destruct (written_line_reads _ [] [g0; g1; g2; g3] [g4; g5; g6] _ (spaces (pad_len - length (line ++ [newline]))) Hok SC NS (forallb_spaces _))
      as [line' [Em' Pm]].
    rewrite app_nil_r in Em, Em'. rewrite Em in Em'. inversion Em' as [EL]. apply app_inv_tail in EL. subst line'.
    exists (line ++ [newline]). split; [exact Em|].
    unfold parse_block_header. rewrite E1r.
    unfold padstring, ljust. rewrite <- app_assoc. cbn [app] in *. rewrite Pm.
    cbn [map2 app repeat length].
    rewrite canon_str, !canon_oi, !canon_on by assumption. cbn [as_name bind]. rewrite Hvalid. cbn [bind].
    rewrite (fix_name_len5 _ Lu). cbn [bind]. rewrite !as_oint_oi, !as_onum_on. cbn [bind as_onum].
    unfold canon_block. rewrite HS. cbn [bname nseq nadd porosity perm].
    unfold cycle. rewrite Eu.
    assert (PN : match s, perm b, @nil fspec with
                 | TOUGHREACT, Some (k1, k2, k3), [h1; h2; h3] =>
                     match cn h1 (Some k1), cn h2 (Some k2), cn h3 (Some k3) with
                     | Some a, Some b0, Some c => Some (a, b0, c) | _, _, _ => None end
                 | _, _, _ => None end = None).
    { destruct s; [reflexivity|]. destruct (perm b) as [[[k1 k2] k3]|]; reflexivity. }
    rewrite PN. reflexivity.
Qed.

(** the flavour flag the reader derives from a block *)
Lemma canon_perm_is_some L s b : shape L -> is_some (perm (canon_block L s b)) = uses_tr s b.
Proof.
  intro Sh. destruct (sh_i1 L Sh) as (f0 & f1 & f2 & f3 & E1 & _).
  destruct (sh_i1r L Sh) as (g0 & g1 & g2 & g3 & g4 & g5 & g6 & E1r & _).
  unfold canon_block, hdr_specs. destruct (uses_tr s b) eqn:TR.
  - unfold uses_tr in TR. destruct s; [discriminate|]. destruct (perm b) as [[[k1 k2] k3]|] eqn:Pb; [|discriminate].
    rewrite E1r. cbn [perm].
    destruct (cn_some g4 k1) as [a ->]. destruct (cn_some g5 k2) as [c ->]. destruct (cn_some g6 k3) as [d ->]. reflexivity.
  - rewrite E1. cbn [perm]. destruct s; [reflexivity|]. destruct (perm b) as [[[k1 k2] k3]|]; reflexivity.
Qed.
