(** C13: in-memory numbers of a t2incon object and the field-level vocabulary of the
    round trip: what a field value is read back as ([canon_field], arithmetic: the double
    nearest the value rounded to the printed digits), and the decidable per-value checks
    [readback_ok] / [idem_ok] that tie the string path (format, slice, Fortran reader,
    strtod) to that arithmetic.  The structure of the file is proved in RoundTrip.v. *)
From Coq Require Import Ascii String List Bool Arith ZArith NArith Lia.
From PTBase Require Import Exn PyStr PyNum PyVal Fmt FixedFormat.
From PTModel Require Import Fortran.
Import ListNotations.
Open Scope Z_scope.

(** a Python float: an exact double [(-1)^neg * m * 2^e] in normal form ([m] odd, or
    [m = 0, e = 0]), or nan / +-inf (readable from a file, outside the writer model) *)
Inductive pnum := PDy (neg : bool) (m e : Z) | PNan | PInf (neg : bool).

Definition pnum_eqb (a b : pnum) : bool :=
  match a, b with
  | PDy n1 m1 e1, PDy n2 m2 e2 => Bool.eqb n1 n2 && (m1 =? m2) && (e1 =? e2)
  | PNan, PNan => true
  | PInf a, PInf b => Bool.eqb a b
  | _, _ => false
  end.
Lemma pnum_eqb_eq a b : pnum_eqb a b = true -> a = b.
Proof.
  destruct a, b; cbn; intro H; try discriminate; try reflexivity.
  - apply andb_prop in H as [H H3]. apply andb_prop in H as [H1 H2].
    apply Bool.eqb_prop in H1. apply Z.eqb_eq in H2. apply Z.eqb_eq in H3. congruence.
  - apply Bool.eqb_prop in H. congruence.
Qed.

(** ** strtod: the double nearest a decimal (round-half-even), with gradual underflow
    and overflow to infinity.  Run against CPython's float() on every check. *)
Fixpoint strip2 (p : positive) (e : Z) : positive * Z :=
  match p with xO q => strip2 q (e + 1) | _ => (p, e) end.
Definition norm_dy (ng : bool) (m e : Z) : pnum :=
  match m with Zpos p => let '(q, e') := strip2 p e in PDy ng (Zpos q) e' | _ => PDy ng 0 0 end.
Definition nearest_q (ng : bool) (num den : Z) : pnum :=
  if num <=? 0 then PDy ng 0 0 else
  let e0 := Z.log2 num - Z.log2 den - 52 in
  let ge := if 0 <=? e0 then den * 2 ^ e0 * 2 ^ 52 <=? num else den * 2 ^ 52 <=? num * 2 ^ (- e0) in
  let e1 := if ge then e0 else e0 - 1 in
  let e := Z.max e1 (-1074) in
  let m := if 0 <=? e then rhe num (den * 2 ^ e) else rhe (num * 2 ^ (- e)) den in
  if m =? 0 then PDy ng 0 0
  else if 1024 <=? Z.log2 m + e then PInf ng else norm_dy ng m e.
Definition nearest (f : fval) : pnum :=
  match f with
  | Fin ng mant e10 =>
      let m := Z.of_N mant in
      (* decimals that need no arithmetic (a damaged file can hold an exponent of a dozen digits, and 10^e10 is
         computed exactly below): zero; beyond 10^400 (overflow); below 10^-400 (m < 2^(log2 m + 1) <= 10^(log2 m + 1)) *)
      if m =? 0 then PDy ng 0 0
      else if 400 <? e10 then PInf ng
      else if e10 + Z.log2 m + 1 <? -400 then PDy ng 0 0
      else if 0 <=? e10 then nearest_q ng (m * 10 ^ e10) 1 else nearest_q ng m (10 ^ (- e10))
  | Inf ng => PInf ng
  | NaN => PNan
  end.

(** ** values in memory, as the fields of a record hold them *)
Inductive mval := MNone | MInt (z : Z) | MNum (x : pnum) | MStr (s : str).

Definition mval_eqb (a b : mval) : bool :=
  match a, b with
  | MNone, MNone => true
  | MInt x, MInt y => x =? y
  | MNum x, MNum y => pnum_eqb x y
  | MStr x, MStr y => str_eqb x y
  | _, _ => false
  end.
Lemma mval_eqb_eq a b : mval_eqb a b = true -> a = b.
Proof.
  destruct a, b; cbn; intro H; try discriminate; try reflexivity.
  - apply Z.eqb_eq in H. congruence.
  - apply pnum_eqb_eq in H. congruence.
  - apply str_eqb_eq in H. congruence.
Qed.

(** what the writer is handed ([nan]/[inf] are outside the model of %-formatting) *)
Definition value_of (v : mval) : res value :=
  match v with
  | MNone => Ok XNone
  | MInt z => Ok (XInt z)
  | MNum (PDy ng m e) => Ok (XReal ng m e)
  | MNum _ => Raise TypeError
  | MStr s => Ok (XStr s)
  end.
(** what the Fortran read functions deliver, as the object stores it *)
Definition mval_of (r : rvalue) : mval :=
  match r with
  | RNone => MNone
  | RInt z => MInt z
  | RFloat f => MNum (nearest f)
  | RStr s => MStr s
  end.

(** the Fortran read functions of t2incon (as in coq/C02/Main.v) *)
Definition fortran_rf : readfn := fun t s =>
  match t with
  | Ts => RStr (rstrip_c newline s)
  | Tx => RNone
  | Td => match fortran_int s VNone with VInt z => RInt z | _ => RNone end
  | Te | Tf | Tg => match fortran_float s VNone with VFloat v => RFloat v | _ => RNone end
  end.

(** ** the precision a real is written with ([fit_value] lowers it until the text fits) *)
Fixpoint fit_prec (f : fspec) (v : value) (n : nat) : option Z :=
  match n with
  | O => None
  | S k => match fmt_raw f (Z.of_nat k) v with
           | Ok s => if (length s <=? width f)%nat then Some (Z.of_nat k) else fit_prec f v k
           | Raise _ => None
           end
  end.
Definition used_prec (f : fspec) (v : value) : option Z :=
  match fmt_raw f (prec f) v with
  | Ok s => if (length s <=? width f)%nat then Some (prec f) else fit_prec f v (Z.to_nat (prec f))
  | Raise _ => None
  end.

(** the decimal that ['%w.qe'] prints for [x]: mantissa digits [N] and exponent [k] as the
    formatter computes them ([Fmt.sci]: [x] rounded half-even, on the exact value, to [q]
    decimals of its scientific form), i.e. [N * 10^(k - (digits of N - 1))]; [N] has [q + 1]
    digits (the formatter is run against CPython on every C02 check) *)
Definition round_dec (q : Z) (ng : bool) (m e : Z) : fval :=
  if m =? 0 then Fin ng 0 0 else
  let '(num, den) := num_den m e in
  let '(N, k) := sci q num den in Fin ng (Z.to_N N) (k - (ndig N - 1)).

(** the value a field holds after one write/read cycle, computed arithmetically:
    absent stays absent, an integer stays, a real becomes the double nearest its
    rounding to the digits the writer prints *)
Definition canon_field (f : fspec) (v : mval) : mval :=
  match v, ft f with
  | MNone, _ => MNone
  | MInt z, Td => MInt z
  | MNum (PDy ng m e), Te =>
      match used_prec f (XReal ng m e) with
      | Some q => MNum (nearest (round_dec q ng m e))
      | None => v
      end
  | _, _ => v
  end.

(** the decidable field-level hypotheses *)
Definition fmt_m (f : fspec) (v : mval) : res str := do x <- value_of v; fmt_field f x.
Definition readback_ok (f : fspec) (v : mval) : bool :=
  match fmt_m f v with
  | Ok s => mval_eqb (mval_of (fortran_rf (ft f) s)) (canon_field f v)
  | Raise _ => false
  end.
Definition res_str_eqb (a b : res str) : bool :=
  match a, b with Ok x, Ok y => str_eqb x y | _, _ => false end.
Definition idem_ok (f : fspec) (v : mval) : bool := res_str_eqb (fmt_m f (canon_field f v)) (fmt_m f v).

Lemma res_str_eqb_eq a b : res_str_eqb a b = true -> a = b.
Proof. destruct a, b; cbn; try discriminate. intro H. apply str_eqb_eq in H. congruence. Qed.

Lemma readback_ok_spec f v : readback_ok f v = true ->
  exists s, fmt_m f v = Ok s /\ mval_of (fortran_rf (ft f) s) = canon_field f v.
Proof.
  unfold readback_ok. destruct (fmt_m f v) as [s|]; [|discriminate].
  intro H. exists s. split; [reflexivity|apply mval_eqb_eq; exact H].
Qed.

(** blanks read as absent for every non-string type *)
Lemma all_space_strip s : forallb is_space s = true -> strip s = [].
Proof.
  intro H. unfold strip, strip_by. rewrite (lstrip_by_all _ _ H). reflexivity.
Qed.
Lemma blank_reads_none t s : t <> Ts -> forallb is_space s = true -> fortran_rf t s = RNone.
Proof.
  intros Ht H. pose proof (all_space_strip _ H) as E. unfold fortran_rf.
  destruct t; try congruence; try reflexivity;
    rewrite ?(ff_blank _ _ E), ?(fi_blank _ _ E); reflexivity.
Qed.

(** sanity of the strtod model on a few decimals *)
Example nearest_ex1 : nearest (Fin false 1 (-1)) = PDy false 3602879701896397 (-55).
Proof. vm_compute. reflexivity. Qed.
Example nearest_ex2 : nearest (Fin true 15 0) = PDy true 15 0.
Proof. vm_compute. reflexivity. Qed.
Example nearest_ex3 : nearest (Fin false 1 400) = PInf false.
Proof. vm_compute. reflexivity. Qed.
Example nearest_ex4 : nearest (Fin false 49 (-325)) = PDy false 1 (-1074).
Proof. vm_compute. reflexivity. Qed.
Example nearest_ex5 : nearest (Fin false 2 (-324)) = PDy false 0 0.
Proof. vm_compute. reflexivity. Qed.
