(** C13: shape of the written file and what the file does not depend on
    (t2incons.py write(): header, one record + ceil(n/4) variable lines per block, two tail
    lines; read(): first line skipped).  All statements are about [write_L] / [read_used_L]
    of InconIO.v, for ANY layouts, with no hypothesis on the values. *)
From Coq Require Import Ascii String List Bool Arith ZArith NArith Lia.
From PTBase Require Import Exn PyStr PyNum PyVal Fmt FixedFormat.
From Gen Require Import GenTables GenRead.
From P Require Import Num Names InconIO.
Import ListNotations.
Open Scope nat_scope.
Open Scope list_scope.

(** ** a write that resets never looks at the timing of the object *)
Definition with_timing (i : incon) (t : option timing) : incon :=
  {| sim := sim i; blocks := blocks i; timing_ := t |}.

Lemma reset_write_ignores_timing_L L i t : write_L L true (with_timing i t) = write_L L true i.
Proof.
  unfold write_L, write_header, write_tail, keeps_timing, with_timing; cbn [sim blocks timing_].
  destruct t, (timing_ i); reflexivity.
Qed.
Lemma reset_write_ignores_timing i t : write true (with_timing i t) = write true i.
Proof. unfold write. destruct the_layouts as [L|e]; [apply reset_write_ignores_timing_L|reflexivity]. Qed.

(** a write that resets is the write (with either flag) of the object without timing *)
Lemma reset_write_is_write_without_timing_L L r i : write_L L true i = write_L L r (with_timing i None).
Proof.
  unfold write_L, write_header, write_tail, keeps_timing, with_timing; cbn [sim blocks timing_].
  destruct (timing_ i); reflexivity.
Qed.
Lemma reset_write_is_write_without_timing r i : write true i = write r (with_timing i None).
Proof. unfold write. destruct the_layouts as [L|e]; [apply reset_write_is_write_without_timing_L|reflexivity]. Qed.

(** without timing the flag is irrelevant *)
Lemma no_timing_flag_irrelevant r1 r2 i : timing_ i = None -> write r1 i = write r2 i.
Proof.
  intro H. unfold write. destruct the_layouts as [L|e]; [|reflexivity].
  unfold write_L, write_header, write_tail, keeps_timing. rewrite H. reflexivity.
Qed.

(** ** the reader skips the first line whatever it holds *)
Lemma read_skips_header_L L tr0 nv check h1 h2 r :
  read_used_L L tr0 nv check (h1 :: r) = read_used_L L tr0 nv check (h2 :: r).
Proof. reflexivity. Qed.
Lemma read_skips_header nv check h1 h2 r : read nv check (h1 :: r) = read nv check (h2 :: r).
Proof. unfold read, read_L. destruct the_layouts as [L|e]; reflexivity. Qed.
Lemma read_used_skips_header old nv check h1 h2 r : read_used old nv check (h1 :: r) = read_used old nv check (h2 :: r).
Proof. unfold read_used. destruct the_layouts as [L|e]; reflexivity. Qed.

(** ** number of lines: four values per line *)
Lemma mapM_length {A B} (f : A -> res B) : forall l bs, mapM f l = Ok bs -> length bs = length l.
Proof.
  induction l as [|a l IH]; intros bs H; cbn [mapM] in H.
  - inversion H. reflexivity.
  - destruct (f a) as [b|e]; cbn [bind] in H; [|discriminate].
    destruct (mapM f l) as [bs'|e]; cbn [bind] in H; [|discriminate].
    inversion H. cbn [length]. f_equal. apply IH. reflexivity.
Qed.

(** ceil(n / 4) *)
Definition lines_for (n : nat) : nat := (n + 3) / 4.

Lemma chunks_length {A} : forall fuel (l : list A), length l <= fuel -> length (chunks fuel 4 l) = lines_for (length l).
Proof.
  induction fuel as [|f IH]; intros l Hl.
  - destruct l; [reflexivity|cbn [length] in Hl; lia].
  - destruct l as [|a l]; [reflexivity|].
    cbn [chunks]. cbn [length]. rewrite IH.
    + rewrite skipn_length. cbn [length]. unfold lines_for.
      set (n := length l).
      pose proof (Nat.div_mod (S n - 4 + 3) 4 ltac:(lia)) as D1. pose proof (Nat.mod_upper_bound (S n - 4 + 3) 4 ltac:(lia)) as M1.
      pose proof (Nat.div_mod (S n + 3) 4 ltac:(lia)) as D2. pose proof (Nat.mod_upper_bound (S n + 3) 4 ltac:(lia)) as M2.
      lia.
    + rewrite skipn_length. cbn [length] in *. lia.
Qed.
Lemma chunk_length {A} (l : list A) : length (chunk 4 l) = lines_for (length l).
Proof. unfold chunk. apply chunks_length. lia. Qed.

Lemma write_block_length L s b ls : write_block L s b = Ok ls -> length ls = S (lines_for (length (vars b))).
Proof.
  unfold write_block. intro H.
  destruct (unfix_name (bname b)) as [u|e]; cbn [bind] in H; [|discriminate].
  destruct (emit (hdr_specs L s b) (hdr_vals s u b)) as [h|e]; cbn [bind] in H; [|discriminate].
  destruct (mapM (emit (L_i2 L)) (chunk 4 (map on (vars b)))) as [xs|e] eqn:E; cbn [bind] in H; [|discriminate].
  inversion H. cbn [length]. f_equal.
  rewrite (mapM_length _ _ _ E), chunk_length, map_length. reflexivity.
Qed.

Fixpoint block_lines (bs : list blockincon) : nat :=
  match bs with [] => 0 | b :: r => S (lines_for (length (vars b))) + block_lines r end.

Lemma blocks_length L s : forall bs bl, mapM (write_block L s) bs = Ok bl -> length (concat bl) = block_lines bs.
Proof.
  induction bs as [|b bs IH]; intros bl H; cbn [mapM] in H.
  - inversion H. reflexivity.
  - destruct (write_block L s b) as [x|e] eqn:E; cbn [bind] in H; [|discriminate].
    destruct (mapM (write_block L s) bs) as [xs|e]; cbn [bind] in H; [|discriminate].
    inversion H. cbn [concat block_lines]. rewrite app_length, (write_block_length _ _ _ _ E), (IH xs eq_refl). reflexivity.
Qed.

Lemma write_tail_length L reset i tl : write_tail L reset i = Ok tl -> length tl = 2.
Proof.
  unfold write_tail. destruct (keeps_timing reset i) as [t|]; intro H.
  - destruct (emit _ _) as [l|e]; cbn [bind] in H; [|discriminate]. inversion H. reflexivity.
  - inversion H. reflexivity.
Qed.

(** the file: one header line, per block one record and ceil(n/4) variable lines, two tail lines *)
Theorem write_length_L L reset i ls : write_L L reset i = Ok ls -> length ls = 1 + block_lines (blocks i) + 2.
Proof.
  unfold write_L. intro H.
  destruct (write_header L reset i) as [h|e]; cbn [bind] in H; [|discriminate].
  destruct (mapM (write_block L (sim i)) (blocks i)) as [bl|e] eqn:E; cbn [bind] in H; [|discriminate].
  destruct (write_tail L reset i) as [tl|e] eqn:T; cbn [bind] in H; [|discriminate].
  inversion H. cbn [length]. rewrite app_length, (blocks_length _ _ _ _ E), (write_tail_length _ _ _ _ T). lia.
Qed.
Theorem write_length reset i ls : write reset i = Ok ls -> length ls = 1 + block_lines (blocks i) + 2.
Proof. unfold write. destruct the_layouts as [L|e]; cbn [bind]; [apply write_length_L|discriminate]. Qed.

(** 1..12 variables take 1..3 lines; no variable, no line *)
Lemma lines_for_bounds n : (n = 0 -> lines_for n = 0) /\ (1 <= n <= 4 -> lines_for n = 1) /\
  (5 <= n <= 8 -> lines_for n = 2) /\ (9 <= n <= 12 -> lines_for n = 3) /\ 4 * lines_for n < n + 4 /\ n <= 4 * lines_for n.
Proof.
  unfold lines_for.
  pose proof (Nat.div_mod (n + 3) 4 ltac:(lia)) as D. pose proof (Nat.mod_upper_bound (n + 3) 4 ltac:(lia)) as M.
  repeat split; intros; lia.
Qed.

(** the reset write and the kept-timing write differ in the first line and the last two only *)
Theorem write_flag_changes_header_and_tail_only_L L i ls1 ls2 :
  write_L L true i = Ok ls1 -> write_L L false i = Ok ls2 ->
  firstn (block_lines (blocks i)) (skipn 1 ls1) = firstn (block_lines (blocks i)) (skipn 1 ls2).
Proof.
  unfold write_L. intros H1 H2.
  destruct (write_header L true i) as [h1|e]; cbn [bind] in H1; [|discriminate].
  destruct (write_header L false i) as [h2|e]; cbn [bind] in H2; [|discriminate].
  destruct (mapM (write_block L (sim i)) (blocks i)) as [bl|e] eqn:E; cbn [bind] in H1, H2; [|discriminate].
  destruct (write_tail L true i) as [t1|e]; cbn [bind] in H1; [|discriminate].
  destruct (write_tail L false i) as [t2|e]; cbn [bind] in H2; [|discriminate].
  inversion H1; inversion H2. cbn [skipn].
  rewrite <- (blocks_length _ _ _ _ E). rewrite !firstn_app, !Nat.sub_diag, !firstn_all. reflexivity.
Qed.
Theorem write_flag_changes_header_and_tail_only i ls1 ls2 :
  write true i = Ok ls1 -> write false i = Ok ls2 ->
  firstn (block_lines (blocks i)) (skipn 1 ls1) = firstn (block_lines (blocks i)) (skipn 1 ls2).
Proof. unfold write. destruct the_layouts as [L|e]; cbn [bind]; [apply write_flag_changes_header_and_tail_only_L|discriminate]. Qed.

(** the hypotheses are met: the TOUGHREACT example of Current.v (two blocks of five variables: 1 + (1+2) + (1+2) + 2
    lines) is written with either flag, and the two files do differ (header and tail) *)
From P Require Import Current.
Example shape_hypotheses_met :
  exists ls1 ls2, write true ex_tr = Ok ls1 /\ write false ex_tr = Ok ls2 /\ block_lines (blocks ex_tr) = 6 /\
                  length ls1 = 9 /\ length ls2 = 9 /\ lines_eqb ls1 ls2 = false.
Proof.
  destruct (write true ex_tr) as [ls1|e] eqn:E1; [|vm_compute in E1; discriminate].
  destruct (write false ex_tr) as [ls2|e] eqn:E2; [|vm_compute in E2; discriminate].
  exists ls1, ls2. split; [reflexivity|]. split; [reflexivity|]. split; [reflexivity|].
  vm_compute in E1. vm_compute in E2. inversion E1; inversion E2. vm_compute. repeat split; reflexivity.
Qed.
