(** C13: typed reference models of mulgrids.fix_blockname / unfix_blockname /
    valid_blockname / padstring (bridged to the code generated from the current source
    in Bridge.v) and the laws of the (A3,I2) naming quirk for every 5-character name. *)
From Coq Require Import Ascii String List Bool Arith ZArith NArith Lia.
From PTBase Require Import Exn PyStr PyNum PyVal.
From Gen Require Import GenPad.
Import ListNotations.
Open Scope char_scope.

(** [name[k]] : IndexError past the end *)
Definition nth_c (k : nat) (s : str) : res ascii :=
  match nth_error s k with Some c => Ok c | None => Raise IndexError end.

Definition fix_name (n : str) : res str :=
  do c2 <- nth_c 2 n;
  if is_digit c2 then
    do c4 <- nth_c 4 n;
    if is_digit c4 then
      do c3 <- nth_c 3 n;
      if ceqb c3 " " then Ok (slice 0 3 n ++ "0" :: slice 4 5 n) else Ok n
    else Ok n
  else Ok n.

Definition unfix_name (n : str) : res str :=
  if isdigit (slice 3 5 n) then
    do z <- py_int (slice 3 5 n);
    Ok (rjust 3 (slice 0 3 n) ++ rjust 2 (z_to_str z))
  else Ok n.

Definition digit_chars : str := s2l "0123456789".
Definition digit_space : str := s2l "0123456789 ".
Definition name_chars : str :=
  s2l "abcdefghijklmnopqrstuvwxyzABCDEFGHIJKLMNOPQRSTUVWXYZ0123456789 !""#$%&'()*+,-./:;<=>?@[\]^_`{|}~".
Definition valid_name (n : str) : res bool :=
  if forallb (fun c => has_c c name_chars) (slice 0 3 n) then
    do c3 <- nth_c 3 n;
    if has_c c3 digit_space then
      do c4 <- nth_c 4 n; Ok (has_c c4 digit_chars)
    else Ok false
  else Ok false.

(** [padstring(s, length = 80)]: the default length is read from the source on every run (Gen/GenPad.v) *)
Definition pad_len : nat := Z.to_nat padstring_default_length.
Definition padstring (s : str) : str := ljust pad_len s.

(** ** five-character names *)
Definition fix5 (n : str) : str :=
  match n with
  | [c0; c1; c2; c3; c4] => if is_digit c2 && is_digit c4 && ceqb c3 " " then [c0; c1; c2; "0"; c4] else n
  | _ => n end.
Definition fmt2 (v : nat) : str := if (v <? 10)%nat then [" "; dchar v] else [dchar (v / 10); dchar (v mod 10)].
Definition unfix5 (n : str) : str :=
  match n with
  | [c0; c1; c2; c3; c4] => if is_digit c3 && is_digit c4 then [c0; c1; c2] ++ fmt2 (10 * dval c3 + dval c4) else n
  | _ => n end.

Ltac digits H := apply is_digit_cases in H; cbn [In] in H;
  repeat match type of H with _ \/ _ => destruct H as [H | H] end; try contradiction; subst.

Lemma fix_name_5 c0 c1 c2 c3 c4 : fix_name [c0; c1; c2; c3; c4] = Ok (fix5 [c0; c1; c2; c3; c4]).
Proof.
  unfold fix_name, nth_c. cbn [nth_error bind fix5].
  destruct (is_digit c2); [|reflexivity]. destruct (is_digit c4); [|reflexivity].
  cbn [andb]. destruct (ceqb c3 " "); reflexivity.
Qed.
Lemma unfix_name_5 c0 c1 c2 c3 c4 : unfix_name [c0; c1; c2; c3; c4] = Ok (unfix5 [c0; c1; c2; c3; c4]).
Proof.
  unfold unfix_name. change (slice 3 5 [c0; c1; c2; c3; c4]) with [c3; c4].
  change (slice 0 3 [c0; c1; c2; c3; c4]) with [c0; c1; c2].
  cbn [isdigit forallb unfix5]. rewrite andb_true_r.
  destruct (is_digit c3) eqn:D3; [|reflexivity]. destruct (is_digit c4) eqn:D4; [|reflexivity].
  cbn [andb]. digits D3; digits D4; vm_compute; reflexivity.
Qed.
Lemma len5 (n : str) : length n = 5%nat -> exists c0 c1 c2 c3 c4, n = [c0; c1; c2; c3; c4].
Proof.
  destruct n as [|c0 [|c1 [|c2 [|c3 [|c4 [|c5 r]]]]]]; cbn; intro H; try discriminate. eauto 6.
Qed.
Lemma fix5_length n : length (fix5 n) = length n.
Proof.
  destruct n as [|c0 [|c1 [|c2 [|c3 [|c4 [|c5 r]]]]]]; try reflexivity.
  cbn [fix5]. destruct (is_digit c2 && is_digit c4 && ceqb c3 " "); reflexivity.
Qed.
Lemma fmt2_length v : (v < 100)%nat -> length (fmt2 v) = 2%nat.
Proof. intros _. unfold fmt2. destruct (v <? 10)%nat; reflexivity. Qed.
Lemma unfix5_length n : length (unfix5 n) = length n.
Proof.
  destruct n as [|c0 [|c1 [|c2 [|c3 [|c4 [|c5 r]]]]]]; try reflexivity.
  cbn [unfix5]. destruct (is_digit c3 && is_digit c4); [|reflexivity].
  unfold fmt2. destruct (_ <? 10)%nat; reflexivity.
Qed.

Lemma space_not_digit : is_digit " " = false. Proof. reflexivity. Qed.
Lemma zero_digit : is_digit "0" = true. Proof. reflexivity. Qed.

Theorem fix5_idem n : fix5 (fix5 n) = fix5 n.
Proof.
  destruct n as [|c0 [|c1 [|c2 [|c3 [|c4 [|c5 r]]]]]]; try reflexivity.
  cbn [fix5].
  destruct (is_digit c2 && is_digit c4 && ceqb c3 " ") eqn:E.
  - apply andb_prop in E as [E E3]. apply andb_prop in E as [E2 E4].
    cbn [fix5]. rewrite E2, E4. reflexivity.
  - cbn [fix5]. rewrite E. reflexivity.
Qed.

(** names as the simulator prints them, (A3,I2): the last two characters are a
    right-justified number without a leading zero *)
Definition printed_A3I2 (n : str) : bool :=
  match n with
  | [_; _; _; c3; c4] => is_digit c4 && (ceqb c3 " " || (is_digit c3 && negb (ceqb c3 "0")))
  | _ => false end.

Theorem unfix_fix_printed n : printed_A3I2 n = true -> unfix5 (fix5 n) = n.
Proof.
  destruct n as [|c0 [|c1 [|c2 [|c3 [|c4 [|c5 r]]]]]]; try discriminate.
  cbn [printed_A3I2]. intro P. apply andb_prop in P as [D4 P].
  cbn [fix5]. rewrite D4.
  destruct (ceqb c3 " ") eqn:S3.
  - apply Ascii.eqb_eq in S3. subst c3.
    destruct (is_digit c2) eqn:D2; cbn [andb].
    + cbn [unfix5]. rewrite zero_digit, D4. cbn [andb app].
      digits D4; reflexivity.
    + cbn [unfix5]. rewrite space_not_digit. reflexivity.
  - cbn [orb] in P. apply andb_prop in P as [D3 NZ].
    rewrite andb_false_r. cbn [unfix5]. rewrite D3, D4. cbn [andb app].
    digits D3; try discriminate NZ; digits D4; reflexivity.
Qed.

Lemma unfix_dd c0 c1 c2 c3 c4 : is_digit c3 = true -> is_digit c4 = true ->
  unfix5 [c0; c1; c2; c3; c4] = [c0; c1; c2; (if ceqb c3 "0" then " " else c3); c4].
Proof.
  intros D3 D4. cbn [unfix5]. rewrite D3, D4. cbn [andb app].
  digits D3; digits D4; vm_compute; reflexivity.
Qed.
Lemma digit_not_space c : is_digit c = true -> ceqb c " " = false.
Proof. intro D. digits D; reflexivity. Qed.

(** whatever is written is in printed form or untouched, so one more read/write cycle
    reproduces the written name: unfix . fix . unfix = unfix *)
Theorem unfix_fix_unfix n : unfix5 (fix5 (unfix5 n)) = unfix5 n.
Proof.
  destruct n as [|c0 [|c1 [|c2 [|c3 [|c4 [|c5 r]]]]]]; try reflexivity.
  destruct (is_digit c3) eqn:D3; destruct (is_digit c4) eqn:D4.
  - rewrite (unfix_dd _ _ _ _ _ D3 D4). apply unfix_fix_printed.
    cbn [printed_A3I2]. rewrite D4. cbn [andb].
    destruct (ceqb c3 "0") eqn:Z; [reflexivity|].
    rewrite D3, Z, (digit_not_space _ D3). reflexivity.
  - cbn [unfix5]. rewrite D3, D4. cbn [andb fix5]. rewrite D4, andb_false_r. cbn [andb unfix5].
    rewrite D3, D4. reflexivity.
  - assert (U : unfix5 [c0; c1; c2; c3; c4] = [c0; c1; c2; c3; c4]) by (cbn [unfix5]; rewrite D3; reflexivity).
    rewrite U. cbn [fix5].
    destruct (is_digit c2 && is_digit c4 && ceqb c3 " ") eqn:E.
    + apply andb_prop in E as [E E3]. apply Ascii.eqb_eq in E3. subst c3.
      apply andb_prop in E as [E2 _].
      pose proof (unfix_fix_printed [c0; c1; c2; " "; c4]) as P. cbn [printed_A3I2 fix5] in P.
      rewrite E2, D4 in P. apply P. reflexivity.
    + exact U.
  - cbn [unfix5]. rewrite D3. cbn [andb fix5]. rewrite D4, andb_false_r. cbn [andb unfix5]. rewrite D3. reflexivity.
Qed.

(** the name an object holds after one write/read cycle *)
Definition cycle (n : str) : str := fix5 (unfix5 n).
Theorem cycle_stabilises n : cycle (cycle n) = cycle n.
Proof. unfold cycle. rewrite unfix_fix_unfix. reflexivity. Qed.
(** the names PyTOUGH itself produces ([block_name] always applies [fix_blockname] to a
    name in printed form) survive a cycle unchanged *)
Theorem cycle_fixed_printed n : printed_A3I2 n = true -> cycle (fix5 n) = fix5 n.
Proof. intro P. unfold cycle. rewrite (unfix_fix_printed _ P). reflexivity. Qed.
(** names whose last two characters are not both digits and that [fix] leaves alone
    (letters in the layer part: naming convention 3) survive too *)
Theorem cycle_nondigit n : unfix5 n = n -> fix5 n = n -> cycle n = n.
Proof. intros U F. unfold cycle. rewrite U. exact F. Qed.

Example cycle_ex1 : cycle (s2l "AB105") = s2l "AB105" /\ unfix5 (s2l "AB105") = s2l "AB1 5".
Proof. split; reflexivity. Qed.
Example cycle_ex2 : cycle (s2l " a110") = s2l " a110" /\ cycle (s2l "abc 7") = s2l "abc 7" /\ cycle (s2l "  aab") = s2l "  aab".
Proof. repeat split; reflexivity. Qed.
(** a name outside that class: a zero-padded number after a letter does not survive *)
Example cycle_ex3 : cycle (s2l "ABC05") = s2l "ABC 5".
Proof. reflexivity. Qed.
