(** C13 -- property theorems only. *)
From Coq Require Import Ascii String List Bool Arith ZArith NArith.
From PTBase Require Import Exn PyStr PyNum PyVal Fmt FixedFormat.
From P Require Import Num Names InconIO Wf.
Import ListNotations.

Theorem names_cycle_stabilises : forall n, cycle (cycle n) = cycle n.
Proof. exact cycle_stabilises. Qed.
Print Assumptions names_cycle_stabilises.
