(** C13 -- property theorems only.
    Model: coq/C13/InconIO.v ([write], [read]: t2incon.write / t2incon.read statement by
    statement over Base/FixedFormat.v), instantiated with the record layouts regenerated
    from t2incon_format_specification ([the_layouts]).  [wf_fits] / [wfb_fits] (Fits.v) and
    [idem_hyp] / [idemb] (Wf.v) are computable booleans.
    - read (write i) = canon i is proved from [wf_fits] alone: structure + "every value
      fits its field" (what a formatted field reads back as is proved in Fields.v).
    - write (canon i) = write i is proved from [wf_fits] and [stable_hyp] (Stable.v), a
      computable guard that excludes exactly: the two recorded defects of the second write
      (long-header sumtim; a lowered precision that rounds into a shorter exponent), more
      than 14 printed decimals, and printed decimal exponents outside [-307, 307] (where the
      exact-rational argument "the double nearest a (q+1)-digit decimal prints the same q+1
      digits" of SciTrip.v / RealIdem.v is not carried out).  No per-field hypothesis is left. *)
From Coq Require Import Ascii String List Bool Arith ZArith NArith.
From PTBase Require Import Exn PyStr PyNum PyVal Fmt FixedFormat.
From Gen Require Import GenTables GenNames GenPad GenRead.
From P Require Import Digits SciTrip Num RealIdem Names InconIO Wf Lines Blocks RoundTrip Idem Bridge Fields Fits Stable Current Shape.
Import ListNotations.

(** finite obligation over the regenerated table: all seven record kinds present, field
    types and column agreement of the two block-record flavours as reader and writer
    assume, 13 decimals for variables and 9 for porosity / permeabilities / times *)
Theorem layouts_current_ok : exists L, the_layouts = Ok L /\ layouts_ok L = true /\ precisions_ok L = true.
Proof. exact the_layouts_ok. Qed.
Print Assumptions layouts_current_ok.

(** one record line (C02 underneath): the fields written with a layout, read with a layout
    that agrees on those columns and may go on over blanks, come back as the canonical
    values followed by absent values *)
Theorem record_line_reads_back : forall wspecs wextra rspecs1 rspecs2 vals rest,
  forallb2 readback_ok wspecs vals = true -> same_cols wspecs rspecs1 = true ->
  no_str rspecs2 = true -> forallb is_space rest = true ->
  exists line, emit (wspecs ++ wextra) vals = Ok (line ++ [newline])%list /\
    parse_m (rspecs1 ++ rspecs2) (line ++ newline :: rest) = (map2 canon_field wspecs vals ++ repeat MNone (length rspecs2))%list.
Proof. exact written_line_reads. Qed.
Print Assumptions record_line_reads_back.

(** what a formatted field reads back as (Fortran read functions applied to the writer's
    text), for every field layout and every value that fits *)
Theorem int_field_reads_back : forall f z s, ft f = Td -> (0 < fw f)%Z -> fmt_m f (MInt z) = Ok s -> readback_ok f (MInt z) = true.
Proof. exact Fields.int_field_reads_back. Qed.
Print Assumptions int_field_reads_back.
Theorem real_field_reads_back : forall f ng m e s, ft f = Te -> (0 < fw f)%Z -> fmt_m f (MNum (PDy ng m e)) = Ok s ->
  (forall q, used_prec f (XReal ng m e) = Some q -> (0 < q)%Z) -> readback_ok f (MNum (PDy ng m e)) = true.
Proof. exact Fields.real_field_reads_back. Qed.
Print Assumptions real_field_reads_back.
Theorem absent_field_reads_back : forall f, ft f <> Ts -> readback_ok f MNone = true.
Proof. exact none_field_reads_back. Qed.
Print Assumptions absent_field_reads_back.
Theorem name_field_reads_back : forall f s, ft f = Ts -> length s = width f -> no_trailing_newline s = true -> readback_ok f (MStr s) = true.
Proof. exact str_field_reads_back. Qed.
Print Assumptions name_field_reads_back.
Theorem fit_implies_readback : forall L nv check reset i, wfb_fits L nv check reset i = true -> wfb L nv check reset i = true.
Proof. exact wfb_fits_wfb. Qed.
Print Assumptions fit_implies_readback.

(** read (write i) = canon i: for every well-formed set -- any number of blocks, any
    number of variables (four per line), optional porosity / permeabilities / nseq-nadd,
    either flavour, timing kept or reset -- and for ANY layouts of the checked shape *)
Theorem incon_read_write_any_layouts : forall L nv check reset i,
  layouts_ok L = true -> wfb_fits L nv check reset i = true ->
  exists ls, write_L L reset i = Ok ls /\ read_L L nv check ls = Ok (canon_L L reset i).
Proof. exact read_write_fits_L. Qed.
Print Assumptions incon_read_write_any_layouts.
(** ... and with the layouts of the current source *)
Theorem incon_read_write : forall nv check reset i, wf_fits nv check reset i = true ->
  exists ls, write reset i = Ok ls /\ read nv check ls = Ok (canon reset i).
Proof. exact read_write_fits. Qed.
Print Assumptions incon_read_write.

(** what [canon] keeps: flavour, number and order of blocks, names through unfix-then-fix,
    nseq / nadd, presence of porosity, permeabilities exactly when the record has them,
    number of variables, timing integers; timing dropped exactly when reset or absent *)
Theorem incon_canon_keeps : forall L reset i, layouts_ok L = true ->
  let j := canon_L L reset i in
  sim j = sim i /\
  Forall2 (block_kept (sim i)) (blocks i) (blocks j) /\
  match timing_ j with
  | None => reset = true \/ timing_ i = None
  | Some u => reset = false /\ exists t, timing_ i = Some t /\ kcyc u = kcyc t /\ iter u = iter t /\ nm u = nm t /\
                is_some (tstart u) = is_some (tstart t) /\ is_some (sumtim u) = is_some (sumtim t)
  end.
Proof. exact canon_keeps. Qed.
Print Assumptions incon_canon_keeps.
Theorem incon_order_and_names : forall L reset i, layouts_ok L = true ->
  map bname (blocks (canon_L L reset i)) = map cycle (map bname (blocks i)).
Proof. exact order_and_names. Qed.
Print Assumptions incon_order_and_names.
(** every real of [canon i] is the double nearest the value rounded to the decimals that were printed *)
Theorem incon_canon_real_is_rounding : forall f ng m e q, ft f = Te -> used_prec f (XReal ng m e) = Some q ->
  canon_field f (MNum (PDy ng m e)) = MNum (nearest (round_dec q ng m e)).
Proof. exact canon_real_is_rounding. Qed.
Print Assumptions incon_canon_real_is_rounding.
Theorem incon_full_precision_when_it_fits : forall f v s,
  fmt_raw f (prec f) v = Ok s -> (length s <= width f)%nat -> used_prec f v = Some (prec f).
Proof. exact used_prec_full. Qed.
Print Assumptions incon_full_precision_when_it_fits.

(** the numerical core of the second write: the double nearest a decimal of p+1 <= 15 digits,
    decimal exponent within [-307, 307], prints with p decimals the same digits and exponent *)
Theorem nearest_double_prints_same_digits : forall p N k ng,
  (0 <= p <= 14)%Z -> (10 ^ p <= N < 10 ^ (p + 1))%Z -> (-307 <= k <= 307)%Z ->
  exists m' e', nearest (Fin ng (Z.to_N N) (k - p)) = PDy ng m' e' /\ (0 < m')%Z /\
                sci p (fst (num_den m' e')) (snd (num_den m' e')) = (N, k).
Proof. exact nearest_trip. Qed.
Print Assumptions nearest_double_prints_same_digits.
(** the boundary of that statement, as a computable check [trip_ok p N k] (nearest double of N * 10^(k-p), printed
    with p decimals, gives (N, k) again): true for every decimal of up to 15 digits with exponent in [-307, 307];
    false for a 16-digit and a 17-digit decimal (2^53 + 1 and its neighbour), false at exponent 308 (9e308
    overflows) and in the subnormal range (15 digits at 1e-320).  Not decided here: exponents -308, -309 *)
Theorem decimal_trip_up_to_15_digits : forall p N k,
  (0 <= p <= 14)%Z -> (10 ^ p <= N < 10 ^ (p + 1))%Z -> (-307 <= k <= 307)%Z -> trip_ok p N k = true.
Proof. exact trip_ok_up_to_15_digits. Qed.
Print Assumptions decimal_trip_up_to_15_digits.
Theorem decimal_trip_16_digits_refuted : (10 ^ 15 <= 9007199254740993 < 10 ^ 16)%Z /\ trip_ok 15 9007199254740993 15 = false.
Proof. exact trip_16_digits_refuted. Qed.
Print Assumptions decimal_trip_16_digits_refuted.
Theorem decimal_trip_17_digits_refuted : (10 ^ 16 <= 90071992547409931 < 10 ^ 17)%Z /\ trip_ok 16 90071992547409931 16 = false.
Proof. exact trip_17_digits_refuted. Qed.
Print Assumptions decimal_trip_17_digits_refuted.
Theorem decimal_trip_exponent_308_refuted : trip_ok 0 9 308 = false.
Proof. exact trip_exponent_308_refuted. Qed.
Print Assumptions decimal_trip_exponent_308_refuted.
Theorem decimal_trip_subnormal_refuted : trip_ok 14 123456789012345 (-320) = false.
Proof. exact trip_subnormal_refuted. Qed.
Print Assumptions decimal_trip_subnormal_refuted.
(** a real that fits and is [stable_ok] is re-written with the same text; so is every other value that fits *)
Theorem field_rewritten_identically : forall f v, fits_ok f v = true -> stable_ok f v = true -> idem_ok f v = true.
Proof. exact stable_idem. Qed.
Print Assumptions field_rewritten_identically.
(** a value printed with the precision of the table is read back as a value printed with that precision
    (the same-precision clause of [stable_ok] can only fail after the precision was lowered) *)
Theorem full_precision_is_kept : forall f ng m e, ft f = Te -> (0 < m)%Z -> used_prec f (XReal ng m e) = Some (prec f) ->
  (0 <= prec f <= 14)%Z -> (-307 <= snd (sci (prec f) (fst (num_den m e)) (snd (num_den m e))) <= 307)%Z ->
  exists m' e', canon_field f (MNum (PDy ng m e)) = MNum (PDy ng m' e') /\ used_prec f (XReal ng m' e') = Some (prec f).
Proof. exact Stable.full_precision_is_kept. Qed.
Print Assumptions full_precision_is_kept.

(** second write: write (canon i) = write i, byte for byte *)
Theorem incon_write_idem_any_layouts : forall L nv check reset i,
  layouts_ok L = true -> wfb_fits L nv check reset i = true -> stableb L reset i = true ->
  write_L L reset (canon_L L reset i) = write_L L reset i.
Proof. exact write_idem_stable_L. Qed.
Print Assumptions incon_write_idem_any_layouts.
Theorem incon_write_idem : forall nv check reset i, wf_fits nv check reset i = true -> stable_hyp reset i = true ->
  write reset (canon reset i) = write reset i.
Proof. exact write_idem_stable. Qed.
Print Assumptions incon_write_idem.
(** the property statement: write, read back, write again -- the same lines *)
Theorem incon_second_write_identical : forall nv check reset i, wf_fits nv check reset i = true -> stable_hyp reset i = true ->
  exists ls j, write reset i = Ok ls /\ read nv check ls = Ok j /\ write reset j = Ok ls.
Proof. exact second_write_identical_stable. Qed.
Print Assumptions incon_second_write_identical.

(** reading into a used object ([inc.read(filename)]): nothing of the object read into reaches the
    result except its flavour; with a TOUGH2 (or fresh) object it is [read] *)
Theorem incon_read_into_used_tough2_object : forall old nv check ls, sim old = TOUGH2 -> read_used old nv check ls = read nv check ls.
Proof. exact read_used_tough2_is_read. Qed.
Print Assumptions incon_read_into_used_tough2_object.
Theorem incon_read_into_used_object_once_flavour_is_reset : forall old nv check ls, read_resets_flavour = true -> read_used old nv check ls = read nv check ls.
Proof. exact read_used_is_read_once_flavour_is_reset. Qed.
Print Assumptions incon_read_into_used_object_once_flavour_is_reset.
Theorem incon_read_into_used_object_flavour_only : forall old1 old2 nv check ls, sim old1 = sim old2 ->
  read_used old1 nv check ls = read_used old2 nv check ls.
Proof. exact read_used_depends_on_flavour_only. Qed.
Print Assumptions incon_read_into_used_object_flavour_only.

(** writing has no effect on the object: the model's [write] returns lines only (the object after a
    write IS the object; the implementation's object is compared with it after two writes in the
    correspondence), so no write depends on the writes before it, in either order of [reset] *)
Theorem incon_write_history_irrelevant : forall flags r i lss, write_all flags i = Ok lss ->
  bind (write_all flags i) (fun _ => write r i) = write r i.
Proof. exact write_history_irrelevant. Qed.
Print Assumptions incon_write_history_irrelevant.

(** the hypotheses are met (TOUGHREACT with permeabilities, 5 variables on 2 lines, a negative
    3-digit-exponent value, nseq/nadd, absent porosity, a digit-blank-digit name, timing kept;
    TOUGH2 without blocks; TOUGH2 with timing reset or kept, num_variables not given) *)
Theorem hypotheses_satisfiable_toughreact : wf_fits (Some 5) true false ex_tr = true /\ idem_hyp false ex_tr = true /\ stable_hyp false ex_tr = true.
Proof. exact ex_tr_wf. Qed.
Print Assumptions hypotheses_satisfiable_toughreact.
Theorem hypotheses_satisfiable_tough2 :
  wf_fits None true true ex_empty = true /\ stable_hyp true ex_empty = true /\
  wf_fits None false true ex_t2 = true /\ stable_hyp true ex_t2 = true /\ wf_fits (Some 1) false false ex_t2 = true /\
  stable_hyp false ex_t2 = true.
Proof. exact ex_t2_wf. Qed.
Print Assumptions hypotheses_satisfiable_tough2.

(** block names through the (A3,I2) quirk, for every five-character name *)
Theorem names_cycle_stabilises : forall n, cycle (cycle n) = cycle n.
Proof. exact cycle_stabilises. Qed.
Print Assumptions names_cycle_stabilises.
Theorem names_unfix_fix_printed : forall n, printed_A3I2 n = true -> unfix5 (fix5 n) = n.
Proof. exact unfix_fix_printed. Qed.
Print Assumptions names_unfix_fix_printed.
Theorem names_written_form_is_stable : forall n, unfix5 (fix5 (unfix5 n)) = unfix5 n.
Proof. exact unfix_fix_unfix. Qed.
Print Assumptions names_written_form_is_stable.
(** names PyTOUGH produces (fix of a printed name) and names fix / unfix leave alone survive a cycle unchanged *)
Theorem names_roundtrip_fixed_printed : forall n, printed_A3I2 n = true -> cycle (fix5 n) = fix5 n.
Proof. exact cycle_fixed_printed. Qed.
Print Assumptions names_roundtrip_fixed_printed.
Theorem names_roundtrip_untouched : forall n, unfix5 n = n -> fix5 n = n -> cycle n = n.
Proof. exact cycle_nondigit. Qed.
Print Assumptions names_roundtrip_untouched.
(** the functions generated from the current mulgrids.py are these models *)
Theorem gen_fix_blockname_is_model : forall c0 c1 c2 c3 c4,
  gen_fix_blockname (VStr [c0; c1; c2; c3; c4]) = Ok (VStr (fix5 [c0; c1; c2; c3; c4])).
Proof. exact gen_fix_blockname_spec. Qed.
Print Assumptions gen_fix_blockname_is_model.
Theorem gen_unfix_blockname_is_model : forall c0 c1 c2 c3 c4,
  gen_unfix_blockname (VStr [c0; c1; c2; c3; c4]) = Ok (VStr (unfix5 [c0; c1; c2; c3; c4])).
Proof. exact gen_unfix_blockname_spec. Qed.
Print Assumptions gen_unfix_blockname_is_model.
Theorem gen_valid_blockname_is_model : forall c0 c1 c2 c3 c4,
  gen_valid_blockname (VStr [c0; c1; c2; c3; c4]) = bind (valid_name [c0; c1; c2; c3; c4]) (fun b => Ok (VBool b)).
Proof. exact gen_valid_blockname_spec. Qed.
Print Assumptions gen_valid_blockname_is_model.
Theorem gen_padstring_is_model : forall s, (0 <= padstring_default_length)%Z ->
  gen_padstring (VStr s) (VInt padstring_default_length) = Ok (VStr (padstring s)).
Proof. exact gen_padstring_spec. Qed.
Print Assumptions gen_padstring_is_model.

(** the four recorded defects of the current code (known_findings.txt), as theorems about the
    faithful model: the unguarded statements are false *)
Theorem flavour_roundtrip_refuted :
  exists i ls j, write false i = Ok ls /\ read (Some 2) true ls = Ok j /\
                 sim i = TOUGHREACT /\ sim j = TOUGH2 /\ timing_kcyc i = Some 11100%Z /\ timing_kcyc j = Some 1110%Z.
Proof. exact Current.flavour_roundtrip_refuted. Qed.
Print Assumptions flavour_roundtrip_refuted.
Theorem second_write_refuted :
  exists i ls j ls2, wf_fits (Some 2) true false i = true /\ write false i = Ok ls /\ read (Some 2) true ls = Ok j /\
                     write false j = Ok ls2 /\ lines_eqb ls ls2 = false /\ lines_eqb (skipn 1 ls) (skipn 1 ls2) = true.
Proof. exact Current.second_write_refuted. Qed.
Print Assumptions second_write_refuted.
Theorem lowered_precision_rewrite_refuted :
  exists i ls j ls2, wf_fits (Some 2) true true i = true /\ stable_hyp true i = false /\ write true i = Ok ls /\
                     read (Some 2) true ls = Ok j /\ write true j = Ok ls2 /\ lines_eqb ls ls2 = false.
Proof. exact Current.lowered_precision_rewrite_refuted. Qed.
Print Assumptions lowered_precision_rewrite_refuted.
Theorem read_into_used_object_refuted : read_resets_flavour = false ->
  exists old i ls j u, write false i = Ok ls /\ read (Some 2) true ls = Ok j /\ read_used old (Some 2) true ls = Ok u /\
                       sim j = TOUGH2 /\ sim u = TOUGHREACT /\ timing_kcyc j = Some 11100%Z /\ timing_kcyc u = Some 111004%Z.
Proof. exact Current.read_into_used_object_refuted. Qed.
Print Assumptions read_into_used_object_refuted.

(** shape of the written file and what the file does not depend on -- for every object, no hypothesis on
    the values.  A write that resets never looks at the timing of the object; it is the write (either flag)
    of the object without timing; without timing the flag is irrelevant *)
Theorem incon_reset_write_ignores_timing : forall i t, write true (with_timing i t) = write true i.
Proof. exact reset_write_ignores_timing. Qed.
Print Assumptions incon_reset_write_ignores_timing.
Theorem incon_reset_write_is_write_without_timing : forall r i, write true i = write r (with_timing i None).
Proof. exact reset_write_is_write_without_timing. Qed.
Print Assumptions incon_reset_write_is_write_without_timing.
Theorem incon_write_flag_irrelevant_without_timing : forall r1 r2 i, timing_ i = None -> write r1 i = write r2 i.
Proof. exact no_timing_flag_irrelevant. Qed.
Print Assumptions incon_write_flag_irrelevant_without_timing.
(** the reader skips the first line whatever it holds (fresh object, or read into a used one) *)
Theorem incon_read_skips_header_line : forall nv check h1 h2 r, read nv check (h1 :: r) = read nv check (h2 :: r).
Proof. exact read_skips_header. Qed.
Print Assumptions incon_read_skips_header_line.
Theorem incon_read_used_skips_header_line : forall old nv check h1 h2 r,
  read_used old nv check (h1 :: r) = read_used old nv check (h2 :: r).
Proof. exact read_used_skips_header. Qed.
Print Assumptions incon_read_used_skips_header_line.
(** the file has one header line, per block one record line and ceil(n/4) lines for its n variables, two tail
    lines ('+++' and timing, or two blank lines) -- any layouts, then the current ones *)
Theorem incon_file_line_count_any_layouts : forall L reset i ls, write_L L reset i = Ok ls ->
  length ls = (1 + block_lines (blocks i) + 2)%nat.
Proof. exact write_length_L. Qed.
Print Assumptions incon_file_line_count_any_layouts.
Theorem incon_file_line_count : forall reset i ls, write reset i = Ok ls -> length ls = (1 + block_lines (blocks i) + 2)%nat.
Proof. exact write_length. Qed.
Print Assumptions incon_file_line_count.
(** 1..4 / 5..8 / 9..12 variables take 1 / 2 / 3 lines, none takes none; in general the least k with n <= 4k *)
Theorem incon_variable_lines : forall n, ((n = 0 -> lines_for n = 0) /\ (1 <= n <= 4 -> lines_for n = 1) /\
  (5 <= n <= 8 -> lines_for n = 2) /\ (9 <= n <= 12 -> lines_for n = 3) /\ 4 * lines_for n < n + 4 /\ n <= 4 * lines_for n)%nat.
Proof. exact lines_for_bounds. Qed.
Print Assumptions incon_variable_lines.
(** the two flags give files that agree on every block line: only the header and the two tail lines can differ *)
Theorem incon_write_flag_changes_header_and_tail_only : forall i ls1 ls2, write true i = Ok ls1 -> write false i = Ok ls2 ->
  firstn (block_lines (blocks i)) (skipn 1 ls1) = firstn (block_lines (blocks i)) (skipn 1 ls2).
Proof. exact write_flag_changes_header_and_tail_only. Qed.
Print Assumptions incon_write_flag_changes_header_and_tail_only.
Theorem hypotheses_satisfiable_shape :
  exists ls1 ls2, write true ex_tr = Ok ls1 /\ write false ex_tr = Ok ls2 /\ block_lines (blocks ex_tr) = 6%nat /\
                  length ls1 = 9%nat /\ length ls2 = 9%nat /\ lines_eqb ls1 ls2 = false.
Proof. exact shape_hypotheses_met. Qed.
Print Assumptions hypotheses_satisfiable_shape.
