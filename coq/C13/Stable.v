(** C13 -- the second write without the per-field hypothesis [idem_ok]: a real field is
    re-written with the same text (RealIdem.v) whenever it is [stable_ok]:
    at most 14 decimals are printed, the printed decimal exponent lies in [-307, 307], and
    the value read back is printed with the same number of decimals (it always is when the
    text fits at the precision of the table; the one exception, a lowered precision that
    rounds into a shorter exponent, is a recorded defect of the code).  [stableb] collects
    this for a whole object, with the header clause (the other recorded defect). *)
From Coq Require Import Ascii String List Bool Arith ZArith NArith Lia QArith.
From PTBase Require Import Exn PyStr PyNum PyVal Fmt FixedFormat.
From PTModel Require Import Fortran.
From P Require Import Digits SciTrip Num RealIdem Names InconIO Wf Lines Fields Fits.
Import ListNotations.
Open Scope Z_scope.

Lemma ndig_unique N p : 0 <= p -> 10 ^ p <= N < 10 ^ (p + 1) -> ndig N = p + 1.
Proof.
  intros Hp [L U]. assert (N0 : 0 < N) by (assert (0 < 10 ^ p) by (apply Z.pow_pos_nonneg; lia); lia).
  pose proof (ndig_spec N N0) as [A B]. pose proof (ndig_pos N) as P.
  destruct (Z.lt_trichotomy (ndig N) (p + 1)) as [Lt|[Eq|Gt]]; [exfalso|exact Eq|exfalso].
  - assert (10 ^ ndig N <= 10 ^ p) by (apply Z.pow_le_mono_r; lia). lia.
  - assert (10 ^ (p + 1) <= 10 ^ (ndig N - 1)) by (apply Z.pow_le_mono_r; lia). lia.
Qed.

(** the precision the writer uses, and the text *)
Lemma fit_prec_loop f v : forall n q, fit_prec f v n = Some q -> exists s, fit_loop f v n = Ok s /\ fmt_raw f q v = Ok s.
Proof.
  induction n as [|n IH]; cbn [fit_loop fit_prec]; intros q H; [discriminate|].
  destruct (fmt_raw f (Z.of_nat n) v) as [t|] eqn:E; [|discriminate].
  destruct (length t <=? width f)%nat; [|apply IH; exact H]. injection H as <-. eauto.
Qed.
Lemma used_fmt f ng m e q : ft f = Te -> used_prec f (XReal ng m e) = Some q ->
  fmt_m f (MNum (PDy ng m e)) = Ok (fmt_e (fw f) q ng m e).
Proof.
  intros T U. unfold fmt_m, value_of. cbn [bind]. unfold fmt_field. rewrite T. unfold used_prec in U.
  assert (R : forall q, fmt_raw f q (XReal ng m e) = Ok (fmt_e (fw f) q ng m e)) by (intro q'; unfold fmt_raw; rewrite T; reflexivity).
  rewrite R in *. cbn [bind]. destruct (length (fmt_e (fw f) (prec f) ng m e) <=? width f)%nat.
  - injection U as <-. reflexivity.
  - cbn [is_real_ty]. destruct (fit_prec_loop _ _ _ _ U) as [s [F E]]. rewrite F. rewrite R in E. symmetry. exact E.
Qed.

(** the text of ['%w.qe'] is a function of the digits and the exponent [sci] returns *)
Lemma fmt_e_same q ng m e m' e' : m <> 0 -> m' <> 0 ->
  sci q (fst (num_den m' e')) (snd (num_den m' e')) = sci q (fst (num_den m e)) (snd (num_den m e)) ->
  forall w, fmt_e w q ng m' e' = fmt_e w q ng m e.
Proof.
  intros Hm Hm' S w. unfold fmt_e, fmt_e_body.
  replace (m =? 0) with false by (symmetry; apply Z.eqb_neq; exact Hm).
  replace (m' =? 0) with false by (symmetry; apply Z.eqb_neq; exact Hm').
  destruct (num_den m e) as [n d]. destruct (num_den m' e') as [n' d']. cbn [fst snd] in S. rewrite S. reflexivity.
Qed.

(** THE field theorem: the re-read double is formatted, with q decimals, as the original *)
Theorem real_text_stable f ng m e q : ft f = Te -> 0 < m -> used_prec f (XReal ng m e) = Some q -> 0 <= q <= 14 ->
  -307 <= snd (sci q (fst (num_den m e)) (snd (num_den m e))) <= 307 ->
  exists m' e', canon_field f (MNum (PDy ng m e)) = MNum (PDy ng m' e') /\ 0 < m' /\
                forall w, fmt_e w q ng m' e' = fmt_e w q ng m e.
Proof.
  intros T Hm U Hq Hk. unfold canon_field. rewrite T, U. unfold round_dec.
  replace (m =? 0) with false by (symmetry; apply Z.eqb_neq; lia).
  destruct (SciTrip.num_den_pos m e ltac:(lia)) as [_ Pd]. pose proof (num_den_pos_strict m e Hm) as Pn.
  destruct (num_den m e) as [num den] eqn:ND. cbn [fst snd] in *.
  destruct (SciTrip.sci_spec q num den (proj1 Hq) Pn Pd) as [HN _]. cbv zeta in HN.
  destruct (sci q num den) as [N k] eqn:S. cbn [fst snd] in *.
  rewrite (ndig_unique N q (proj1 Hq) HN). replace (k - (q + 1 - 1)) with (k - q) by lia.
  destruct (nearest_trip q N k ng Hq HN Hk) as [m' [e' [E [M' S']]]].
  exists m', e'. split; [rewrite E; reflexivity|]. split; [exact M'|].
  apply fmt_e_same; [lia|lia|]. rewrite ND. cbn [fst snd]. rewrite S', S. reflexivity.
Qed.

(** ** the decidable guard *)
Definition stable_ok (f : fspec) (v : mval) : bool :=
  match v with
  | MNum (PDy ng m e) =>
      match used_prec f (XReal ng m e), canon_field f v with
      | Some q, MNum (PDy ng' m' e') =>
          (0 <=? m) && (0 <=? q) && (q <=? 14) &&
          (if m =? 0 then true
           else let k := snd (sci q (fst (num_den m e)) (snd (num_den m e))) in (-307 <=? k) && (k <=? 307)) &&
          match used_prec f (XReal ng' m' e') with Some q' => q' =? q | None => false end
      | _, _ => false
      end
  | _ => true
  end.

Lemma nearest_zero' ng e10 : nearest (Fin ng 0 e10) = PDy ng 0 0.
Proof. apply nearest_zero. Qed.

Theorem stable_idem f v : fits_ok f v = true -> stable_ok f v = true -> idem_ok f v = true.
Proof.
  intros F S. unfold idem_ok.
  destruct v as [|z|[ng m e| |ng]|s]; cbn [fits_ok stable_ok] in *; try discriminate.
  - unfold canon_field, fmt_m, value_of. cbn [bind]. unfold fmt_field. cbn [res_str_eqb]. apply str_eqb_refl.
  - (* integer *)
    assert (C : canon_field f (MInt z) = MInt z) by (unfold canon_field; destruct (ft f); reflexivity). rewrite C.
    apply andb_prop in F as [_ F]. destruct (fmt_m f (MInt z)); [cbn; apply str_eqb_refl|discriminate].
  - (* real *)
    apply andb_prop in F as [F _]. apply andb_prop in F as [F Fo]. apply andb_prop in F as [T W]. apply fty_eqb_eq in T.
    destruct (used_prec f (XReal ng m e)) as [q|] eqn:U; [|discriminate].
    destruct (canon_field f (MNum (PDy ng m e))) as [| |[ng' m' e'| |]|] eqn:C; try discriminate.
    apply andb_prop in S as [S SP]. apply andb_prop in S as [S SK]. apply andb_prop in S as [S Q14]. apply andb_prop in S as [M0 Q0].
    apply Z.leb_le in M0, Q0, Q14.
    destruct (used_prec f (XReal ng' m' e')) as [q'|] eqn:U'; [|discriminate]. apply Z.eqb_eq in SP. subst q'.
    rewrite (used_fmt f ng m e q T U), (used_fmt f ng' m' e' q T U'). cbn [res_str_eqb].
    destruct (m =? 0) eqn:MZ.
    + apply Z.eqb_eq in MZ. subst m. unfold canon_field in C. rewrite T, U in C. unfold round_dec in C. cbn [Z.eqb] in C.
      rewrite nearest_zero in C. injection C as <- <- <-. unfold fmt_e, fmt_e_body. cbn [Z.eqb]. apply str_eqb_refl.
    + apply Z.eqb_neq in MZ. apply andb_prop in SK as [K1 K2]. apply Z.leb_le in K1, K2.
      destruct (real_text_stable f ng m e q T ltac:(lia) U ltac:(lia) ltac:(lia)) as [m2 [e2 [C2 [_ E2]]]].
      rewrite C in C2. injection C2 as -> -> ->. rewrite E2. apply str_eqb_refl.
  - (* name *)
    assert (C : canon_field f (MStr s) = MStr s) by (unfold canon_field; destruct (ft f); reflexivity). rewrite C.
    apply andb_prop in F as [F _]. apply andb_prop in F as [T Len]. apply fty_eqb_eq in T. apply Nat.eqb_eq in Len.
    unfold fmt_m, value_of. cbn [bind]. unfold fmt_field. rewrite T. unfold fmt_raw. rewrite T. cbn [bind].
    assert (P : fmt_str (fw f) s = s).
    { unfold fmt_str, pad, width in *. destruct (fw f <? 0) eqn:E.
      - unfold ljust. apply Z.ltb_lt in E. replace (Z.to_nat (- fw f) - length s)%nat with 0%nat by lia. apply app_nil_r.
      - unfold rjust. apply Z.ltb_ge in E. replace (Z.to_nat (fw f) - length s)%nat with 0%nat by lia. reflexivity. }
    rewrite P, Len, Nat.leb_refl. cbn. apply str_eqb_refl.
Qed.

(** a value written with the precision of the table is read back as a value written with that precision *)
Theorem full_precision_is_kept f ng m e : ft f = Te -> 0 < m -> used_prec f (XReal ng m e) = Some (prec f) -> 0 <= prec f <= 14 ->
  -307 <= snd (sci (prec f) (fst (num_den m e)) (snd (num_den m e))) <= 307 ->
  exists m' e', canon_field f (MNum (PDy ng m e)) = MNum (PDy ng m' e') /\ used_prec f (XReal ng m' e') = Some (prec f).
Proof.
  intros T Hm U Hq Hk. destruct (real_text_stable f ng m e (prec f) T Hm U Hq Hk) as [m' [e' [C [_ E]]]].
  exists m', e'. split; [exact C|]. unfold used_prec in *.
  assert (R : forall g mm ee, fmt_raw f (prec f) (XReal g mm ee) = Ok (fmt_e (fw f) (prec f) g mm ee)) by (intros; unfold fmt_raw; rewrite T; reflexivity).
  rewrite R in *. rewrite E. destruct (length (fmt_e (fw f) (prec f) ng m e) <=? width f)%nat eqn:L; [reflexivity|].
  exfalso. assert (X : forall n, fit_prec f (XReal ng m e) n = Some (prec f) -> (prec f < Z.of_nat n)).
  { induction n as [|n IH]; cbn [fit_prec]; [discriminate|]. rewrite (R ng m e) || idtac.
    destruct (fmt_raw f (Z.of_nat n) (XReal ng m e)) as [t|]; [|discriminate].
    destruct (length t <=? width f)%nat; [intro H; injection H as H; lia|intro H; specialize (IH H); lia]. }
  specialize (X _ U). lia.
Qed.

(** ** lines and objects *)
Definition line_stable (specs : list fspec) (vals : list mval) : bool :=
  forallb2 stable_ok (firstn (length vals) specs) vals.
Lemma forallb2_and {A B} (p q r : A -> B -> bool) : (forall a b, p a b = true -> q a b = true -> r a b = true) ->
  forall a b, forallb2 p a b = true -> forallb2 q a b = true -> forallb2 r a b = true.
Proof.
  intro I. induction a as [|x a IH]; destruct b as [|y b]; cbn; intros H1 H2; try discriminate; [reflexivity|].
  apply andb_prop in H1 as [A1 B1]. apply andb_prop in H2 as [A2 B2]. rewrite (I _ _ A1 A2), (IH _ B1 B2). reflexivity.
Qed.
Lemma line_stable_idem specs vals : line_fits specs vals = true -> line_stable specs vals = true -> line_idem specs vals = true.
Proof. apply forallb2_and. exact stable_idem. Qed.

Definition block_stable (L : layouts) (s : simk) (b : blockincon) : bool :=
  match unfix_name (bname b) with
  | Ok u => line_stable (hdr_specs L s b) (hdr_vals s u b) && forallb (line_stable (L_i2 L)) (chunk 4 (map on (vars b)))
  | Raise _ => false
  end.
(** every real of the object is [stable_ok]; the long header (written only when timing is kept)
    shows the same 12.6e text for the re-read sumtim *)
Definition stableb (L : layouts) (reset : bool) (i : incon) : bool :=
  forallb (block_stable L (sim i)) (blocks i) &&
  res_eqb (write_header L reset (canon_L L reset i)) (write_header L reset i) &&
  match keeps_timing reset i with
  | None => true
  | Some t => line_stable (tm_specs L (sim i)) (map (tget t) (tm_names L (sim i)))
  end.

Lemma forallb_and {A} (p q r : A -> bool) l : (forall a, p a = true -> q a = true -> r a = true) ->
  forallb p l = true -> forallb q l = true -> forallb r l = true.
Proof.
  intro I. induction l as [|a l IH]; cbn; [auto|]. intros H1 H2.
  apply andb_prop in H1 as [A1 B1]. apply andb_prop in H2 as [A2 B2]. rewrite (I _ A1 A2), (IH B1 B2). reflexivity.
Qed.
Lemma block_stable_idem L onv check s b : block_fits L onv check s b = true -> block_stable L s b = true -> block_idem L s b = true.
Proof.
  unfold block_fits, block_stable, block_idem. destruct (unfix_name (bname b)) as [u|]; [|auto]. intros F S.
  apply andb_prop in F as [F Fv]. apply andb_prop in F as [F _]. apply andb_prop in F as [F _]. apply andb_prop in F as [_ Fh].
  apply andb_prop in S as [Sh Sv]. rewrite (line_stable_idem _ _ Fh Sh). cbn [andb].
  unfold vars_fits in Fv. apply andb_prop in Fv as [_ Fv].
  exact (forallb_and _ _ _ _ (line_stable_idem (L_i2 L)) Fv Sv).
Qed.
Theorem stable_idemb L onv check reset i : wfb_fits L onv check reset i = true -> stableb L reset i = true -> idemb L reset i = true.
Proof.
  unfold wfb_fits, stableb, idemb. intros W S.
  apply andb_prop in W as [W Wt]. apply andb_prop in W as [W _]. apply andb_prop in W as [W _]. apply andb_prop in W as [Wb _].
  apply andb_prop in S as [S St]. apply andb_prop in S as [Sb Sh].
  rewrite (forallb_and _ _ _ _ (block_stable_idem L onv check (sim i)) Wb Sb), Sh. cbn [andb].
  unfold tail_fits in Wt. destruct (keeps_timing reset i); [|reflexivity].
  apply andb_prop in Wt as [Wl _]. exact (line_stable_idem _ _ Wl St).
Qed.
