(** C13: the naming helpers generated from the current mulgrids.py (Gen/GenNames.v:
    fix_blockname, unfix_blockname, valid_blockname, padstring) equal the typed models
    of Names.v that the file model uses, for every five-character name. *)
From Coq Require Import Ascii String List Bool Arith ZArith NArith Lia.
From PTBase Require Import Exn PyStr PyNum PyVal.
From Gen Require Import GenNames GenPad.
From P Require Import Names.
Import ListNotations.
Open Scope char_scope.

Section Five.
Variables c0 c1 c2 c3 c4 : ascii.
Let nm := VStr [c0; c1; c2; c3; c4].
Lemma gi2 : py_getitem nm (VInt 2) = Ok (VStr [c2]). Proof. reflexivity. Qed.
Lemma gi3 : py_getitem nm (VInt 3) = Ok (VStr [c3]). Proof. reflexivity. Qed.
Lemma gi4 : py_getitem nm (VInt 4) = Ok (VStr [c4]). Proof. reflexivity. Qed.
Lemma sl03 : py_slice nm (VInt 0) (VInt 3) = Ok (VStr [c0; c1; c2]). Proof. reflexivity. Qed.
Lemma sl45 : py_slice nm (VInt 4) (VInt 5) = Ok (VStr [c4]). Proof. reflexivity. Qed.
Lemma sl35 : py_slice nm (VInt 3) (VInt 5) = Ok (VStr [c3; c4]). Proof. reflexivity. Qed.
End Five.
Lemma isdigit1 c : m_isdigit (VStr [c]) = Ok (VBool (is_digit c)).
Proof. cbn [m_isdigit as_str bind isdigit forallb]. rewrite andb_true_r. reflexivity. Qed.
Lemma isdigit2 c d : m_isdigit (VStr [c; d]) = Ok (VBool (is_digit c && is_digit d)).
Proof. cbn [m_isdigit as_str bind isdigit forallb]. rewrite andb_true_r. reflexivity. Qed.
Lemma eqb_blank c : py_eqb (VStr [c]) (vstr " ") = ceqb c " ".
Proof. unfold vstr. cbn [py_eqb s2l list_ascii_of_string str_eqb]. rewrite andb_true_r. reflexivity. Qed.

Theorem gen_fix_blockname_spec c0 c1 c2 c3 c4 :
  gen_fix_blockname (VStr [c0; c1; c2; c3; c4]) = Ok (VStr (fix5 [c0; c1; c2; c3; c4])).
Proof.
  unfold gen_fix_blockname. rewrite gi2, gi3, gi4, sl03, sl45. cbn [bind]. rewrite !isdigit1. cbn [bind truthy].
  cbn [fix5].
  destruct (is_digit c2); cbn [andb bind truthy]; [|reflexivity].
  destruct (is_digit c4); cbn [andb bind truthy]; [|reflexivity].
  rewrite eqb_blank. destruct (ceqb c3 " "); cbn [truthy]; reflexivity.
Qed.

Lemma int_dd c3 c4 : is_digit c3 = true -> is_digit c4 = true ->
  b_int (VStr [c3; c4]) = Ok (VInt (Z.of_nat (10 * dval c3 + dval c4))).
Proof. intros D3 D4. digits D3; digits D4; vm_compute; reflexivity. Qed.
Lemma fmt_d2 v : (v < 100)%nat -> fmt_d 2 (VInt (Z.of_nat v)) = Ok (fmt2 v).
Proof. intro H. do 100 (destruct v as [|v]; [vm_compute; reflexivity|]). lia. Qed.
Lemma fmt_s3 c0 c1 c2 : fmt_s 3 (VStr [c0; c1; c2]) = Ok [c0; c1; c2].
Proof. reflexivity. Qed.
Theorem gen_unfix_blockname_spec c0 c1 c2 c3 c4 :
  gen_unfix_blockname (VStr [c0; c1; c2; c3; c4]) = Ok (VStr (unfix5 [c0; c1; c2; c3; c4])).
Proof.
  unfold gen_unfix_blockname. rewrite sl35, sl03. cbn [bind]. rewrite isdigit2. cbn [bind truthy unfix5].
  destruct (is_digit c3) eqn:D3; cbn [andb]; [|reflexivity].
  destruct (is_digit c4) eqn:D4; cbn [andb]; [|reflexivity].
  rewrite (int_dd _ _ D3 D4). cbn [bind]. rewrite fmt_d2.
  2:{ digits D3; digits D4; vm_compute; lia. }
  rewrite fmt_s3. cbn [fmt_concat bind]. rewrite app_nil_r. reflexivity.
Qed.

(** the typed models with their IndexError paths agree with these on five characters
    (Names.fix_name_5 / unfix_name_5), so: *)
Theorem gen_fix_is_fix_name c0 c1 c2 c3 c4 :
  Ok (VStr (fix5 [c0; c1; c2; c3; c4])) = gen_fix_blockname (VStr [c0; c1; c2; c3; c4]) /\
  fix_name [c0; c1; c2; c3; c4] = Ok (fix5 [c0; c1; c2; c3; c4]).
Proof. split; [symmetry; apply gen_fix_blockname_spec|apply fix_name_5]. Qed.
Theorem gen_unfix_is_unfix_name c0 c1 c2 c3 c4 :
  Ok (VStr (unfix5 [c0; c1; c2; c3; c4])) = gen_unfix_blockname (VStr [c0; c1; c2; c3; c4]) /\
  unfix_name [c0; c1; c2; c3; c4] = Ok (unfix5 [c0; c1; c2; c3; c4]).
Proof. split; [symmetry; apply gen_unfix_blockname_spec|apply unfix_name_5]. Qed.

(** ** valid_blockname *)
Lemma substr1 c : forall s, substr [c] s = has_c c s.
Proof.
  induction s as [|x r IH]; [reflexivity|]. cbn [substr prefix has_c existsb]. rewrite andb_true_r.
  unfold has_c in IH. rewrite IH. reflexivity.
Qed.
Lemma in1 c s : py_in (VStr [c]) (VStr s) = Ok (has_c c s).
Proof. cbn [py_in]. rewrite substr1. reflexivity. Qed.
Lemma chars_eq : ((s2l "abcdefghijklmnopqrstuvwxyzABCDEFGHIJKLMNOPQRSTUVWXYZ" ++ (s2l "0123456789" ++ s2l " ")) ++ s2l "!""#$%&'()*+,-./:;<=>?@[\]^_`{|}~")%list = name_chars.
Proof. reflexivity. Qed.
Lemma ds_eq : (s2l "0123456789" ++ s2l " ")%list = digit_space.
Proof. reflexivity. Qed.

Theorem gen_valid_blockname_spec c0 c1 c2 c3 c4 :
  gen_valid_blockname (VStr [c0; c1; c2; c3; c4]) = do b <- valid_name [c0; c1; c2; c3; c4]; Ok (VBool b).
Proof.
  unfold gen_valid_blockname. unfold vstr. cbn [py_add bind]. rewrite sl03, gi3, gi4. cbn [bind as_list map mapM].
  rewrite chars_eq, ds_eq. rewrite !in1. cbn [bind as_list py_all forallb truthy].
  unfold valid_name, nth_c. change (slice 0 3 [c0; c1; c2; c3; c4]) with [c0; c1; c2]. cbn [forallb nth_error bind].
  change (s2l "0123456789") with digit_chars.
  destruct (has_c c0 name_chars); cbn [andb truthy bind]; [|reflexivity].
  destruct (has_c c1 name_chars); cbn [andb truthy bind]; [|reflexivity].
  destruct (has_c c2 name_chars); cbn [andb truthy bind]; [|reflexivity].
  destruct (has_c c3 digit_space); cbn [andb truthy bind]; reflexivity.
Qed.

(** ** padstring, with the default length of the source *)
Theorem gen_padstring_spec s : (0 <= padstring_default_length)%Z ->
  gen_padstring (VStr s) (VInt padstring_default_length) = Ok (VStr (padstring s)).
Proof. intros _. reflexivity. Qed.
