(** C06 -- proofs: the scan of history() lands on the tables stepping reads (or never returns,
    exactly on the selections of the closed formula); the series returned is the stepping series. *)
From Coq Require Import Ascii String List Bool Arith ZArith NArith Lia ZifyBool.
From PTBase Require Import Exn PyStr PyVal.
From P Require Import ListingHistory HistoryFuel HistorySpec.
Import ListNotations.
Open Scope nat_scope.

(** ** A. the finite part: every sorted result set has at most six tables; all of them, with every
    sublist of the six table names, are run through the scan by [vm_compute] *)
Definition all_kinds : list kind := [KE; KC; KP; KG; KU].
Fixpoint all_upto (n : nat) : list (list kind) :=
  match n with
  | O => [[]]
  | S m => [] :: flat_map (fun l => map (fun k => k :: l) all_kinds) (all_upto m)
  end.
Fixpoint sublists {A} (l : list A) : list (list A) :=
  match l with [] => [[]] | x :: r => map (cons x) (sublists r) ++ sublists r end.

Lemma all_upto_in : forall n ks, length ks <= n -> In ks (all_upto n).
Proof.
  induction n as [|n IH]; intros ks L.
  - destruct ks; [left; reflexivity|cbn in L; lia].
  - destruct ks as [|k r]; [left; reflexivity|]. right. apply in_flat_map. exists r. split.
    + apply IH. cbn in L. lia.
    + apply in_map_iff. exists k. split; [reflexivity|]. destruct k; cbn; tauto.
Qed.

Lemma filter_sublist {A} (f : A -> bool) l : In (filter f l) (sublists l).
Proof.
  induction l as [|a l IH]; cbn [filter sublists]; [left; reflexivity|].
  destruct (f a); apply in_or_app; [left; apply in_map; exact IH|right; exact IH].
Qed.

Lemma index_in_lt l s : forall k, index_in l s = Some k -> k < length l.
Proof.
  induction l as [|x r IH]; intros k; cbn [index_in length]; [discriminate|].
  destruct (str_eqb x s).
  - intro H. inversion H. lia.
  - destruct (index_in r s) as [k'|]; cbn [option_map]; [|discriminate]. intro H. inversion H. specialize (IH k' eq_refl). lia.
Qed.

Lemma inc_from_len : forall ns lo, inc_from lo ns = true -> lo <= 6 -> length ns + lo <= 6.
Proof.
  induction ns as [|n r IH]; intros lo H L; cbn [length]; [lia|].
  cbn [inc_from] in H. destruct (rank n) as [k|] eqn:R; [|discriminate].
  apply andb_prop in H. destruct H as (H1 & H2). apply Nat.leb_le in H1.
  assert (k < 6). { destruct n as [s|]; cbn [rank] in R; [|discriminate]. apply (index_in_lt _ _ _ R). }
  specialize (IH (S k) H2). lia.
Qed.

Lemma tp_names_len : forall ks n, length (tp_names ks n) = length ks.
Proof.
  induction ks as [|k r IH]; intro n; cbn [tp_names]; [reflexivity|].
  destruct (tp_name (Some k) n) as [x n']. cbn [length]. rewrite IH. reflexivity.
Qed.

Lemma names_of_len sm sh ks : length (names_of sm sh ks) = length ks.
Proof.
  destruct sm, sh; cbn [names_of]; try apply map_length; destruct ks as [|k r]; try reflexivity;
    destruct k; cbn [length map]; rewrite ?map_length, ?tp_names_len; reflexivity.
Qed.

Lemma sorted_set_len sm sh ks : sorted_set sm sh ks = true -> length ks <= 6.
Proof.
  unfold sorted_set. destruct ks as [|k r]; [discriminate|]. intro H.
  apply inc_from_len in H; [|lia]. rewrite names_of_len in H. lia.
Qed.

Definition enum_local (sm : sim) (fx : bool) : bool :=
  forallb (fun ks => if sorted_set sm false ks then forallb (check_local sm fx ks) (sublists table_order) else true) (all_upto 6).
Lemma enum_T2 : enum_local T2 false = true /\ enum_local T2 true = true. Proof. split; vm_compute; reflexivity. Qed.
Lemma enum_TP : enum_local TP false = true. Proof. vm_compute. reflexivity. Qed.
Lemma enum_TP_fixed : enum_local TP true = true. Proof. vm_compute. reflexivity. Qed.

Lemma local_ok sm fx ks targets : sm <> AUT -> sorted_set sm false ks = true -> In targets (sublists table_order) ->
  check_local sm fx ks targets = true.
Proof.
  intros NA S I.
  assert (E : enum_local sm fx = true).
  { destruct sm; [contradiction|destruct fx; apply enum_T2|destruct fx; [exact enum_TP_fixed|exact enum_TP]]. }
  unfold enum_local in E. rewrite forallb_forall in E.
  specialize (E ks (all_upto_in 6 ks (sorted_set_len _ _ _ S))). rewrite S in E.
  rewrite forallb_forall in E. exact (E _ I).
Qed.

Definition aut_targets : list (list str) := filter (forallb aut_target) (sublists table_order).
Definition enum_aut_full : bool :=
  forallb (fun ks => if sorted_set AUT false ks then
                       forallb (fun t => if covered_set AUT [] false ks t then check_aut [] false ks t else true) aut_targets
                     else true) (all_upto 6).
Definition enum_aut_short : bool :=
  forallb (fun ks => if sorted_set AUT true ks then forallb (fun t => check_aut ks true ks t) aut_targets else true) (all_upto 6).
Lemma enum_aut_full_ok : enum_aut_full = true. Proof. vm_compute. reflexivity. Qed.
Lemma enum_aut_short_ok : enum_aut_short = true. Proof. vm_compute. reflexivity. Qed.

Lemma in_aut_targets targets : In targets (sublists table_order) -> forallb aut_target targets = true -> In targets aut_targets.
Proof. intros. apply filter_In. split; assumption. Qed.

(** the closed formula the harness uses on the layout of the shipped TOUGH+ listings *)
Definition enum_shipped : bool :=
  forallb (fun t => if covered_set TP [] false tp_layout t then Bool.eqb (tp_hangs tp_layout t) (tp_hangs_shipped t) else true)
          (sublists table_order).
Lemma enum_shipped_ok : enum_shipped = true. Proof. vm_compute. reflexivity. Qed.
Lemma tp_hangs_shipped_layout targets : In targets (sublists table_order) ->
  covered_set TP [] false tp_layout targets = true -> tp_hangs tp_layout targets = tp_hangs_shipped targets.
Proof.
  intros I C. pose proof enum_shipped_ok as E. unfold enum_shipped in E. rewrite forallb_forall in E.
  specialize (E _ I). rewrite C in E. apply eqb_prop. exact E.
Qed.

(** ** B. the scan of one result set is the local scan *)
Definition lift_lands (a : nat) (r : list (str * nat)) : list (str * landing) :=
  map (fun q => (fst q, {| l_pos := a; l_at := (a, snd q) |})) r.

Lemma scan_tables_local F a ks : hsim F <> AUT -> forall targets f last nelt c g,
  scan_tables f F a ks false targets last nelt c g =
  match lscan (hsim F) (hfix F) f ks targets last nelt c with Ok r => Ok (lift_lands a r) | Raise e => Raise e end.
Proof.
  intro NA. induction targets as [|t rest IH]; intros f last nelt c g; cbn [scan_tables lscan]; [reflexivity|].
  cbn [negb orb].
  destruct (hsim F) eqn:S; [contradiction| |].
  - destruct (t2_skip_to_table f ks t last c) as [c'|e]; [|reflexivity].
    rewrite IH. destruct (lscan T2 (hfix F) f ks rest (Some t) _ _) as [r|e]; reflexivity.
  - destruct (tp_skip_to_table (hfix F) f ks t last nelt c) as [[c' n']|e]; [|reflexivity].
    rewrite IH. destruct (lscan TP (hfix F) f ks rest (Some t) _ _) as [r|e]; reflexivity.
Qed.

Lemma filter_all {A} (f : A -> bool) l : (forall x, f x = true) -> filter f l = l.
Proof. intro H. induction l as [|a l IH]; cbn [filter]; [reflexivity|]. rewrite H, IH. reflexivity. Qed.

Lemma set_lands_full F a p targets : pshort p = false ->
  set_lands F a p targets = lift_lands a (expect_lands (hsim F) [] false (pkinds p) targets).
Proof.
  intro S. unfold set_lands, expect_lands, lift_lands, land_at. rewrite S.
  rewrite !filter_all by reflexivity. rewrite map_map. reflexivity.
Qed.

Lemma wf_set_not_aut F p : hsim F <> AUT -> wf_set F p = true -> pshort p = false /\ sorted_set (hsim F) false (pkinds p) = true.
Proof.
  intros NA H. unfold wf_set in H. apply andb_prop in H. destruct H as (H1 & H2).
  destruct (pshort p).
  - destruct (hsim F); [contradiction|discriminate|discriminate].
  - auto.
Qed.

(** TOUGH2 / TOUGH+ : one result set, any fuel from the bound on *)
Lemma scan_set_local F a p targets f : hsim F <> AUT -> wf_set F p = true -> In targets (sublists table_order) ->
  set_bound (pkinds p) <= f ->
  let r := scan_tables f F a (pkinds p) (pshort p) targets None (-1)%Z CStart (GStart a) in
  if covered_set (hsim F) (hshort_types F) (pshort p) (pkinds p) targets && negb (set_hangs (hsim F) (hfix F) (pkinds p) targets)
  then r = Ok (set_lands F a p targets) else r = Raise OutOfFuel.
Proof.
  intros NA W I L. destruct (wf_set_not_aut F p NA W) as (S & So). cbn zeta.
  pose proof (scan_tables_fuel_ok F a (pkinds p) (pshort p) targets None (-1)%Z CStart (GStart a)) as FO.
  rewrite (fuel_ok_stable _ _ FO f L). destruct FO as (_ & _ & FE).
  rewrite S in *. rewrite scan_tables_local in * by exact NA.
  pose proof (local_ok (hsim F) (hfix F) (pkinds p) targets NA So I) as C. unfold check_local in C.
  change (covered_set (hsim F) (hshort_types F) false (pkinds p) targets) with (covered_set (hsim F) [] false (pkinds p) targets).
  destruct (lscan (hsim F) (hfix F) (set_bound (pkinds p)) (pkinds p) targets None (-1)%Z CStart) as [r|e] eqn:E.
  - apply andb_prop in C. destruct C as (C & C3). rewrite C. apply lands_eqb_eq in C3. subst r.
    rewrite set_lands_full by exact S. reflexivity.
  - replace (covered_set (hsim F) [] false (pkinds p) targets && negb (set_hangs (hsim F) (hfix F) (pkinds p) targets)) with false.
    + f_equal. apply (FE (set_bound (pkinds p))). rewrite scan_tables_local by exact NA. rewrite E. reflexivity.
    + destruct (covered_set (hsim F) [] false (pkinds p) targets), (set_hangs (hsim F) (hfix F) (pkinds p) targets); try reflexivity; discriminate.
Qed.

(** AUTOUGH2 *)
Definition g_of (a : nat) (cur : option nat) : gcursor := match cur with None => GStart a | Some j => GAt a j end.

Lemma aut_find_local sets a p tc from j : nth_error sets a = Some p -> find_in_set tc (pkinds p) from = Some j ->
  aut_find tc (pshort p) sets a from = GAt a j.
Proof. intros N E. unfold aut_find. rewrite N, eqb_reflx, E. reflexivity. Qed.

Lemma aut_skip_local f sets sf a p t cur j : nth_error sets a = Some p ->
  (let first := if pshort p then sf else KE in
   let tc := kind_of_name t in
   if kind_eqb tc first then
     match cur with None => match pkinds p with [] => None | _ => Some 0 end | Some j0 => find_in_set tc (pkinds p) (S j0) end
   else match cur with None => find_in_set tc (pkinds p) 1 | Some j0 => find_in_set tc (pkinds p) (S j0) end) = Some j ->
  aut_skip_to_table f sets sf a t (g_of a cur) = Ok (GAt a j).
Proof.
  intros N. cbn zeta. unfold aut_skip_to_table. rewrite N.
  destruct (kind_eqb (kind_of_name t) (if pshort p then sf else KE)); destruct cur as [j0|]; cbn [g_of]; intro E.
  - rewrite (aut_find_local _ _ _ _ _ _ N E). reflexivity.
  - rewrite N. destruct (pkinds p); [discriminate|]. inversion E. reflexivity.
  - rewrite (aut_find_local _ _ _ _ _ _ N E). reflexivity.
  - rewrite (aut_find_local _ _ _ _ _ _ N E). reflexivity.
Qed.

Lemma scan_tables_aut F a p : hsim F = AUT -> nth_error (hsets F) a = Some p -> forall targets cur r f last nelt c,
  aut_lscan (hshort_types F) (pshort p) (pkinds p) targets cur = Some r ->
  scan_tables f F a (pkinds p) (pshort p) targets last nelt c (g_of a cur) = Ok (lift_lands a r).
Proof.
  intros SA N. induction targets as [|t rest IH]; intros cur r f last nelt c; cbn [scan_tables aut_lscan].
  - intro H. inversion H. reflexivity.
  - change (negb (pshort p) || existsb (kind_eqb (kind_of_name t)) (hshort_types F)) with (participates (hshort_types F) (pshort p) t).
    destruct (participates (hshort_types F) (pshort p) t); [|apply IH].
    rewrite SA.
    match goal with |- match ?X with _ => _ end = _ -> _ => destruct X as [j|] eqn:E; [|discriminate] end.
    destruct (aut_lscan (hshort_types F) (pshort p) (pkinds p) rest (Some j)) as [r'|] eqn:E'; [|discriminate].
    intro H. inversion H. subst r.
    rewrite (aut_skip_local f (hsets F) (hd KE (hshort_types F)) a p t cur j N E).
    rewrite (IH (Some j) r' f (Some t) _ c E'). reflexivity.
Qed.

Lemma aut_lscan_full_indep shorts ks : forall targets cur, aut_lscan shorts false ks targets cur = aut_lscan [] false ks targets cur.
Proof.
  induction targets as [|t rest IH]; intro cur; cbn [aut_lscan]; [reflexivity|].
  cbn [participates negb orb].
  destruct (kind_eqb (kind_of_name t) KE); destruct cur;
    match goal with |- match ?X with _ => _ end = _ => destruct X; [rewrite IH|]; reflexivity end.
Qed.

Lemma kinds_eqb_eq a : forall b, kinds_eqb a b = true -> a = b.
Proof.
  induction a as [|x r IH]; intros [|y s]; cbn [kinds_eqb]; try discriminate; [reflexivity|].
  intro H. apply andb_prop in H. destruct H as (H1 & H2). apply kind_eqb_eq in H1. rewrite (IH _ H2). congruence.
Qed.

Lemma scan_set_aut F a p targets f : hsim F = AUT -> nth_error (hsets F) a = Some p -> wf_set F p = true ->
  In targets (sublists table_order) -> forallb aut_target targets = true ->
  covered_set AUT (hshort_types F) (pshort p) (pkinds p) targets = true ->
  scan_tables f F a (pkinds p) (pshort p) targets None (-1)%Z CStart (GStart a) = Ok (set_lands F a p targets).
Proof.
  intros SA N W I AT C. unfold wf_set in W. rewrite SA in W. apply andb_prop in W. destruct W as (So & W).
  pose proof (in_aut_targets _ I AT) as IA.
  assert (X : exists r, aut_lscan (hshort_types F) (pshort p) (pkinds p) targets None = Some r /\
                        lift_lands a r = set_lands F a p targets).
  { destruct (pshort p) eqn:S.
    - cbn [is_aut andb] in W. apply kinds_eqb_eq in W. rewrite <- W in *.
      pose proof enum_aut_short_ok as E. unfold enum_aut_short in E. rewrite forallb_forall in E.
      specialize (E _ (all_upto_in 6 _ (sorted_set_len _ _ _ So))). rewrite So in E. rewrite forallb_forall in E.
      specialize (E _ IA). unfold check_aut in E.
      destruct (aut_lscan (pkinds p) true (pkinds p) targets None) as [r|]; [|discriminate].
      exists r. split; [reflexivity|]. apply lands_eqb_eq in E. subst r.
      unfold set_lands, expect_lands, lift_lands, land_at. rewrite S, SA, <- W, map_map. reflexivity.
    - pose proof enum_aut_full_ok as E. unfold enum_aut_full in E. rewrite forallb_forall in E.
      specialize (E _ (all_upto_in 6 _ (sorted_set_len _ _ _ So))). rewrite So in E. rewrite forallb_forall in E.
      specialize (E _ IA).
      change (covered_set AUT (hshort_types F) false (pkinds p) targets) with (covered_set AUT [] false (pkinds p) targets) in C.
      rewrite C in E. unfold check_aut in E. rewrite aut_lscan_full_indep.
      destruct (aut_lscan [] false (pkinds p) targets None) as [r|]; [|discriminate].
      exists r. split; [reflexivity|]. apply lands_eqb_eq in E. subst r.
      rewrite set_lands_full by exact S. rewrite SA. reflexivity. }
  destruct X as (r & E & L). rewrite <- L.
  apply (scan_tables_aut F a p SA N targets None r f None (-1)%Z CStart E).
Qed.

(** ** C. all result sets *)
Lemma sets_bound_ge p sets : In p sets -> set_bound (pkinds p) <= sets_bound sets.
Proof.
  induction sets as [|q r IH]; cbn [In sets_bound]; [tauto|]. intros [->|H]; [lia|]. specialize (IH H). lia.
Qed.

Lemma nth_error_mid {A} (pre : list A) x r : nth_error (pre ++ x :: r) (length pre) = Some x.
Proof. rewrite nth_error_app2 by lia. rewrite Nat.sub_diag. reflexivity. Qed.

Section File.
  Variable F : hfile.
  Variable short : bool.
  Variable targets : list str.
  Hypothesis WF : wf_file F = true.
  Hypothesis TS : In targets (sublists table_order).
  Hypothesis CV : covers F short targets = true.

  Lemma set_facts p : In p (hsets F) -> wf_set F p = true /\
    (scanned short p = true -> covered_set (hsim F) (hshort_types F) (pshort p) (pkinds p) targets = true) /\
    (hsim F = AUT -> forallb aut_target targets = true).
  Proof.
    intro I. unfold wf_file in WF. rewrite forallb_forall in WF. split; [exact (WF _ I)|].
    unfold covers in CV. apply andb_prop in CV. destruct CV as (C1 & C2). rewrite forallb_forall in C1.
    split.
    - intro S. specialize (C1 _ I). rewrite S in C1. exact C1.
    - intro SA. rewrite SA in C2. exact C2.
  Qed.

  (** one scanned set: the stepping tables, or OutOfFuel when the selection is in the hanging class *)
  Lemma scan_one f pre p r : hsets F = pre ++ p :: r -> fuel_bound F <= f -> scanned short p = true ->
    let x := scan_tables f F (length pre) (pkinds p) (pshort p) targets None (-1)%Z CStart (GStart (length pre)) in
    if set_hangs (hsim F) (hfix F) (pkinds p) targets then x = Raise OutOfFuel else x = Ok (set_lands F (length pre) p targets).
  Proof.
    intros E L S. cbn zeta.
    assert (I : In p (hsets F)) by (rewrite E; apply in_or_app; right; left; reflexivity).
    destruct (set_facts p I) as (W & C & A). specialize (C S).
    assert (Lp : set_bound (pkinds p) <= f) by (pose proof (sets_bound_ge p (hsets F) I); unfold fuel_bound in L; lia).
    destruct (hsim F) eqn:SA.
    - cbn [set_hangs]. apply scan_set_aut; auto. rewrite E. apply nth_error_mid.
    - pose proof (scan_set_local F (length pre) p targets f) as X. rewrite SA in X.
      specialize (X ltac:(discriminate) W TS Lp). cbn zeta in X. rewrite C in X. cbn [set_hangs negb andb] in *. exact X.
    - pose proof (scan_set_local F (length pre) p targets f) as X. rewrite SA in X.
      specialize (X ltac:(discriminate) W TS Lp). cbn zeta in X. rewrite C in X. cbn [andb] in X.
      destruct (set_hangs TP (hfix F) (pkinds p) targets); exact X.
  Qed.

  Lemma scan_sets_raises f sets a e : scan_sets f F short targets sets a = Raise e -> e = OutOfFuel.
  Proof. intro H. destruct (scan_sets_fuel_ok F short targets sets a) as (_ & _ & X). exact (X f e H). Qed.

  Lemma scan_sets_spec f : fuel_bound F <= f -> forall sets pre, hsets F = pre ++ sets ->
    if existsb (fun p => scanned short p && set_hangs (hsim F) (hfix F) (pkinds p) targets) sets
    then scan_sets f F short targets sets (length pre) = Raise OutOfFuel
    else scan_sets f F short targets sets (length pre) = Ok (step_lands F short targets sets (length pre)).
  Proof.
    intro L. induction sets as [|p r IH]; intros pre E; cbn [existsb scan_sets step_lands]; [reflexivity|].
    assert (E' : hsets F = (pre ++ [p]) ++ r) by (rewrite <- app_assoc; exact E).
    specialize (IH (pre ++ [p]) E'). rewrite app_length in IH. cbn [length] in IH. rewrite Nat.add_1_r in IH.
    assert (Q : pshort p && negb short = negb (scanned short p)) by (unfold scanned; rewrite negb_involutive; reflexivity).
    rewrite Q. destruct (scanned short p) eqn:Sc; cbn [negb andb orb app].
    - pose proof (scan_one f pre p r E L Sc) as X. cbn zeta in X.
      destruct (set_hangs (hsim F) (hfix F) (pkinds p) targets); cbn [orb]; rewrite X; [reflexivity|].
      destruct (existsb _ r); rewrite IH; reflexivity.
    - exact IH.
  Qed.

  Lemma scan_sets_file f : fuel_bound F <= f ->
    scan_sets f F short targets (hsets F) 0 =
    if file_hangs F short targets then Raise OutOfFuel else Ok (step_lands F short targets (hsets F) 0).
  Proof.
    intro L. pose proof (scan_sets_spec f L (hsets F) [] eq_refl) as X. cbn [length] in X. unfold file_hangs.
    destruct (existsb _ (hsets F)); exact X.
  Qed.
End File.

(** ** D. one item: its values in the landings of the whole scan are its stepping positions *)
Lemma str_eqb_sym a b : str_eqb a b = str_eqb b a.
Proof. destruct (str_eqb_spec a b), (str_eqb_spec b a); congruence. Qed.

Lemma mem_In t l : mem t l = true <-> In t l.
Proof.
  unfold mem. rewrite existsb_exists. split.
  - intros (x & I & E). apply str_eqb_eq in E. subst. exact I.
  - intro I. exists t. split; [exact I|apply str_eqb_refl].
Qed.

Lemma filter_set_lands F a p tc : forall targets, NoDup targets ->
  filter (fun q => str_eqb (fst q) tc) (set_lands F a p targets) =
  if participates (hshort_types F) (pshort p) tc && mem tc targets then [(tc, land_at F a p tc)] else [].
Proof.
  unfold set_lands. induction targets as [|t r IH]; intro ND; cbn [filter map mem existsb].
  - rewrite andb_false_r. reflexivity.
  - inversion ND as [|x l NI ND']. subst. specialize (IH ND'). fold (mem tc r).
    destruct (str_eqb_spec tc t) as [->|NE].
    + assert (M : mem t r = false).
      { destruct (mem t r) eqn:M; [|reflexivity]. apply mem_In in M. contradiction. }
      rewrite M, andb_false_r in IH. cbn [orb]. rewrite andb_true_r.
      destruct (participates (hshort_types F) (pshort p) t); cbn [map filter fst]; [|exact IH].
      rewrite str_eqb_refl, IH. reflexivity.
    + cbn [orb]. destruct (participates (hshort_types F) (pshort p) t); cbn [map filter fst]; [|exact IH].
      rewrite str_eqb_sym. destruct (str_eqb_spec tc t); [contradiction|]. exact IH.
Qed.

Lemma filter_app' {A} (f : A -> bool) l l' : filter f (l ++ l') = filter f l ++ filter f l'.
Proof. induction l as [|a l IH]; cbn [app filter]; [reflexivity|]. destruct (f a); cbn [app]; rewrite IH; reflexivity. Qed.

Section Item.
  Variable F : hfile.
  Variable short : bool.
  Variable targets : list str.
  Variable c : conv.
  Hypothesis ND : NoDup targets.
  Hypothesis MT : mem (c_table c) targets = true.

  Definition f1 (q : str * landing) : bool := str_eqb (fst q) (c_table c).
  Definition f2 (q : str * landing) : bool :=
    match nth_error (hsets F) (l_pos (snd q)) with
    | Some ps => if pshort ps then (match c_ishort c with Some _ => true | None => false end) else true
    | None => true
    end.

  Lemma item_lands : forall sets pre, hsets F = pre ++ sets ->
    map snd (filter f2 (filter f1 (step_lands F short targets sets (length pre)))) = item_positions F short c sets (length pre).
  Proof.
    induction sets as [|p r IH]; intros pre E; cbn [step_lands item_positions]; [reflexivity|].
    assert (E' : hsets F = (pre ++ [p]) ++ r) by (rewrite <- app_assoc; exact E).
    specialize (IH (pre ++ [p]) E'). rewrite app_length in IH. cbn [length] in IH. rewrite Nat.add_1_r in IH.
    rewrite !filter_app', map_app, IH. f_equal.
    unfold item_reads, scanned. destruct (pshort p) eqn:S; cbn [negb andb].
    - destruct short; cbn [negb andb filter map]; [|reflexivity].
      unfold f1. rewrite filter_set_lands by exact ND. rewrite S, MT, andb_true_r.
      destruct (participates (hshort_types F) true (c_table c)); cbn [andb filter map]; [|reflexivity].
      unfold f2. cbn [snd land_at l_pos]. rewrite E, nth_error_mid, S.
      destruct (c_ishort c); reflexivity.
    - unfold f1. rewrite filter_set_lands by exact ND. rewrite S, MT. cbn [participates negb orb andb filter].
      unfold f2. cbn [snd land_at l_pos]. rewrite E, nth_error_mid, S. reflexivity.
  Qed.

  Lemma item_series_step : item_series F (step_lands F short targets (hsets F) 0) c = stepping_series F short c.
  Proof.
    pose proof (item_lands (hsets F) [] eq_refl) as X. cbn [length] in X.
    unfold item_series, stepping_series. fold f1. fold f2. rewrite <- X, map_length. reflexivity.
  Qed.
End Item.

(** ** E. the call *)
Lemma mapM_in {A B} (f : A -> res B) : forall l rs r, mapM f l = Ok rs -> In r rs -> exists x, In x l /\ f x = Ok r.
Proof.
  induction l as [|a l IH]; intros rs r; cbn [mapM].
  - intro H. inversion H. contradiction.
  - unfold bind. destruct (f a) as [b|] eqn:E; [|discriminate]. destruct (mapM f l) as [bs|]; [|discriminate].
    intro H. inversion H. subst. intros [->|I].
    + exists a. split; [left; reflexivity|exact E].
    + destruct (IH bs r eq_refl I) as (x & Ix & Ex). exists x. split; [right; exact Ix|exact Ex].
Qed.

Lemma convert_table ms it c : convert ms it = Ok (Some c) -> exists m, In m ms /\ m_name m = c_table c.
Proof.
  unfold convert. destruct (spec_name (i_spec it)) as [tn|]; [|discriminate].
  destruct (find_meta ms tn) as [m|] eqn:Fm; [|discriminate].
  apply find_some in Fm. destruct Fm as (I & N). apply str_eqb_eq in N.
  match goal with |- match ?X with _ => _ end = _ -> _ => destruct X as [[i rv]|]; [|discriminate] end.
  match goal with |- match ?X with _ => _ end = _ -> _ => destruct X as [line|]; [|discriminate] end.
  intro H. inversion H. subst c. cbn [c_table]. exists m. auto.
Qed.

Ltac str_neq := let H := fresh in intro H; apply str_eqb_eq in H; vm_compute in H; discriminate.
Lemma table_order_nodup : NoDup table_order.
Proof.
  unfold table_order.
  repeat (constructor; [cbn [In]; intros X; repeat (destruct X as [X|X]; [revert X; str_neq|]); exact X|]).
  constructor.
Qed.

Lemma selected_mem ms sel cs c : wf_metas ms = true -> mapM (convert ms) sel = Ok cs -> In (Some c) cs ->
  mem (c_table c) (selected_tables cs) = true.
Proof.
  intros WM M I. destruct (mapM_in _ _ _ _ M I) as (it & _ & E).
  destruct (convert_table _ _ _ E) as (m & Im & Nm).
  unfold wf_metas in WM. rewrite forallb_forall in WM. specialize (WM _ Im). rewrite Nm in WM.
  apply mem_In. unfold selected_tables. apply filter_In. split; [apply mem_In; exact WM|].
  apply existsb_exists. exists (Some c). split; [exact I|apply str_eqb_refl].
Qed.

Lemma map_ext_in' {A B} (f g : A -> B) l : (forall x, In x l -> f x = g x) -> map f l = map g l.
Proof. intro H. induction l as [|a l IH]; cbn [map]; [reflexivity|]. rewrite H by (left; reflexivity). rewrite IH; [reflexivity|]. intros; apply H; right; assumption. Qed.

(** what the call returns, for every fuel from the bound on *)
Lemma history_spec f F ms sel short s cs : wf_file F = true -> wf_metas ms = true ->
  mapM (convert ms) sel = Ok cs -> covers F short (selected_tables cs) = true -> fuel_bound F <= f ->
  history f F ms sel short s =
  match selected_tables cs with
  | [] => Ok (HNone, s)
  | _ => if file_hangs F short (selected_tables cs) then Raise OutOfFuel
         else Ok (HSeries (map (option_map (stepping_series F short)) cs),
                  {| h_idx := h_idx s; h_time := h_time s; h_step := h_step s; h_tabs := h_tabs s;
                     h_cur := Z.of_nat (length (hsets F)) |})
  end.
Proof.
  intros WF WM M CV L. unfold history. rewrite M.
  set (T := selected_tables cs) in *.
  assert (TS : In T (sublists table_order)) by apply filter_sublist.
  assert (ND : NoDup T) by (apply NoDup_filter; exact table_order_nodup).
  assert (MM : forall c, In (Some c) cs -> mem (c_table c) T = true) by (intros; eapply selected_mem; eauto).
  pose proof (scan_sets_file F short T WF TS CV f L) as X.
  clearbody T. destruct T as [|t ts]; [reflexivity|].
  rewrite X. destruct (file_hangs F short (t :: ts)); [reflexivity|]. f_equal. f_equal. f_equal.
  apply map_ext_in'. intros [c|] I; cbn [option_map]; [|reflexivity]. f_equal.
  apply item_series_step; [exact ND|apply MM; exact I].
Qed.

(** *** equals stepping *)
Lemma eq_stepping f F ms sel short s cs l s' : wf_file F = true -> wf_metas ms = true ->
  mapM (convert ms) sel = Ok cs -> covers F short (selected_tables cs) = true ->
  history f F ms sel short s = Ok (HSeries l, s') ->
  l = map (option_map (stepping_series F short)) cs.
Proof.
  intros WF WM M CV H.
  assert (H' : history (Nat.max f (fuel_bound F)) F ms sel short s = Ok (HSeries l, s'))
    by (apply (history_fuel_mono F ms sel short s f); [lia|exact H]).
  rewrite (history_spec _ F ms sel short s cs WF WM M CV) in H' by lia.
  destruct (selected_tables cs); [discriminate|].
  destruct (file_hangs F short _); [discriminate|]. inversion H'. reflexivity.
Qed.

Lemma stepping_series_values cell F short c :
  series_values cell c (stepping_series F short c) = stepping_values cell F short c.
Proof.
  unfold series_values, stepping_values, stepping_series. cbn [s_at s_sign].
  apply map_ext. intro l. destruct (c_rev c); lia.
Qed.

(** the time array returned with the series is the one of the positions the values were read at *)
Lemma positions_len_full : forall sets a, length (positions true sets a) = length (filter (fun p => negb (pshort p)) sets).
Proof.
  induction sets as [|p r IH]; intro a; cbn [positions filter]; [reflexivity|].
  rewrite app_length, IH. cbn [andb]. destruct (pshort p); reflexivity.
Qed.
Lemma positions_len_all : forall sets a, length (positions false sets a) = length sets.
Proof. induction sets as [|p r IH]; intro a; cbn [positions andb app length]; [reflexivity|]. rewrite IH. reflexivity. Qed.
Lemma filter_len_le {A} (f : A -> bool) l : length (filter f l) <= length l.
Proof. induction l as [|a l IH]; cbn [filter length]; [lia|]. destruct (f a); cbn [length]; lia. Qed.
Lemma positions_no_short : forall sets a, length (filter (fun p => negb (pshort p)) sets) = length sets ->
  positions true sets a = positions false sets a.
Proof.
  induction sets as [|p r IH]; intros a; cbn [positions filter andb]; [reflexivity|].
  pose proof (filter_len_le (fun p => negb (pshort p)) r) as LE.
  destruct (pshort p); cbn [negb length]; intro H; [lia|]. rewrite IH by lia. reflexivity.
Qed.
Lemma item_positions_pos F short c : forall sets a,
  map l_pos (item_positions F short c sets a) =
  positions (negb (short && participates (hshort_types F) true (c_table c) && is_some (c_ishort c))) sets a.
Proof.
  induction sets as [|p r IH]; intro a; cbn [item_positions positions]; [reflexivity|].
  rewrite map_app, IH. f_equal. unfold item_reads.
  destruct (pshort p); [|rewrite andb_false_r; reflexivity].
  destruct (short && participates (hshort_types F) true (c_table c) && is_some (c_ishort c)); reflexivity.
Qed.

Lemma stepping_series_times F short c :
  map l_pos (s_at (stepping_series F short c)) = times_positions F (s_times (stepping_series F short c)).
Proof.
  unfold stepping_series, times_positions. cbn [s_at s_times].
  rewrite item_positions_pos.
  assert (LN : length (item_positions F short c (hsets F) 0) =
               length (positions (negb (short && participates (hshort_types F) true (c_table c) && is_some (c_ishort c))) (hsets F) 0))
    by (rewrite <- item_positions_pos, map_length; reflexivity).
  rewrite LN. unfold nfull.
  destruct (short && participates (hshort_types F) true (c_table c) && is_some (c_ishort c)); cbn [negb].
  - rewrite positions_len_all. destruct (Nat.eqb_spec (length (hsets F)) (length (filter (fun p => negb (pshort p)) (hsets F)))) as [E|E].
    + symmetry. apply positions_no_short. lia.
    + reflexivity.
  - rewrite positions_len_full, Nat.eqb_refl. reflexivity.
Qed.

(** *** a connection named in reverse order *)
Definition conv_flip (c : conv) : conv :=
  {| c_table := c_table c; c_line := c_line c; c_ishort := c_ishort c; c_rev := true; c_col := c_col c |}.

Lemma item_positions_flip F short c : forall sets a, item_positions F short (conv_flip c) sets a = item_positions F short c sets a.
Proof. induction sets as [|p r IH]; intro a; cbn [item_positions]; [reflexivity|]. rewrite IH. reflexivity. Qed.

Lemma stepping_values_flip cell F short c : c_rev c = false ->
  stepping_values cell F short (conv_flip c) = map Z.opp (stepping_values cell F short c).
Proof.
  intro R. unfold stepping_values. rewrite item_positions_flip, map_map, R. reflexivity.
Qed.

Lemma convert_reverse ms it tn m k i :
  spec_name (i_spec it) = Some tn -> find_meta ms tn = Some m -> i_key it = KeyName k ->
  lookup (m_keys m) k = Some i -> lookup (m_keys m) (rev k) = None -> (1 < length k) -> m_rev m = true ->
  let it' := {| i_spec := i_spec it; i_key := KeyName (rev k); i_col := i_col it |} in
  match convert ms it, convert ms it' with
  | Ok (Some c), Ok (Some c') => c_rev c = false /\ c' = conv_flip c
  | Raise e, Raise e' => e = e'
  | _, _ => False
  end.
Proof.
  intros SN FM K L1 L2 LN MR. cbn zeta. unfold convert. cbn [i_spec i_key i_col]. rewrite SN, FM, K, L1, L2, rev_involutive, L1, rev_length, MR.
  replace (1 <? Z.of_nat (length k))%Z with true by (symmetry; apply Z.ltb_lt; lia). cbn [andb].
  match goal with |- match (match ?X with _ => _ end) with _ => _ end => destruct X as [line|e] end.
  - split; reflexivity.
  - reflexivity.
Qed.

(** *** afterwards the reader shows the same index, time, step and tables *)
Lemma restores f F ms sel short s r s' : history f F ms sel short s = Ok (r, s') -> hobserve s' = hobserve s.
Proof.
  unfold history. destruct (mapM (convert ms) sel) as [cs|]; [|discriminate].
  destruct (selected_tables cs).
  - intro H. inversion H. reflexivity.
  - destruct (scan_sets f F short _ (hsets F) 0); [|discriminate]. intro H. inversion H. reflexivity.
Qed.

(** *** termination *)
Lemma terminates f F ms sel short s cs : wf_file F = true -> wf_metas ms = true ->
  mapM (convert ms) sel = Ok cs -> covers F short (selected_tables cs) = true ->
  file_hangs F short (selected_tables cs) = false -> fuel_bound F <= f ->
  exists r s', history f F ms sel short s = Ok (r, s').
Proof.
  intros WF WM M CV NH L. rewrite (history_spec f F ms sel short s cs WF WM M CV L).
  destruct (selected_tables cs); [eauto|]. rewrite NH. eauto.
Qed.

Lemma file_hangs_not_tp F short targets : hsim F <> TP \/ hfix F = true -> file_hangs F short targets = false.
Proof.
  intro N. unfold file_hangs. destruct (existsb _ (hsets F)) eqn:E; [|reflexivity].
  apply existsb_exists in E. destruct E as (p & _ & H). apply andb_prop in H. destruct H as (_ & H).
  unfold set_hangs in H. destruct (hsim F); try discriminate. destruct N as [N|N]; [contradiction|]. rewrite N in H. discriminate.
Qed.

Lemma hangs F ms sel short s cs : wf_file F = true -> wf_metas ms = true ->
  mapM (convert ms) sel = Ok cs -> covers F short (selected_tables cs) = true ->
  file_hangs F short (selected_tables cs) = true ->
  forall f, history f F ms sel short s = Raise OutOfFuel.
Proof.
  intros WF WM M CV FH. apply history_bound_decides.
  rewrite (history_spec _ F ms sel short s cs WF WM M CV (Nat.le_refl _)).
  destruct (selected_tables cs) eqn:E.
  - unfold file_hangs in FH. apply existsb_exists in FH. destruct FH as (p & _ & H). apply andb_prop in H. destruct H as (_ & H).
    unfold set_hangs in H. destruct (hsim F); try discriminate. rewrite andb_false_r in H. discriminate.
  - rewrite FH. reflexivity.
Qed.

(** the witness: a TOUGH+ listing with one result set in the layout of the shipped files,
    selection (primary, row 0) + (second extra element table, row 0) *)
Definition F_tp : hfile := {| hsim := TP; hfix := false; hshort_types := []; hsets := [ {| pshort := false; pkinds := tp_layout |} ] |}.
Definition mk_meta (n : str) : tmeta := {| m_name := n; m_keys := [[1%Z]; [2%Z]]; m_rowline := None; m_rev := false; m_short := [] |}.
Definition ms_tp : list tmeta := map mk_meta [n_element; elem_n 1; n_connection; n_primary; elem_n 2].
Definition sel_loop : list item :=
  [ {| i_spec := s2l "p"; i_key := KeyInt 0; i_col := 0%Z |}; {| i_spec := s2l "e2"; i_key := KeyInt 0; i_col := 0%Z |} ].
Definition s0 : hstate := {| h_idx := 0%Z; h_time := 0%Z; h_step := 0%Z; h_tabs := []; h_cur := 0%Z |}.

Lemma terminates_refuted : exists F ms sel short s cs,
  wf_file F = true /\ wf_metas ms = true /\ mapM (convert ms) sel = Ok cs /\ covers F short (selected_tables cs) = true /\
  forall f, history f F ms sel short s = Raise OutOfFuel.
Proof.
  exists F_tp, ms_tp, sel_loop, true, s0.
  destruct (mapM (convert ms_tp) sel_loop) as [cs|] eqn:M; [|vm_compute in M; discriminate].
  exists cs. assert (WF : wf_file F_tp = true) by (vm_compute; reflexivity).
  assert (WM : wf_metas ms_tp = true) by (vm_compute; reflexivity).
  assert (CV : covers F_tp true (selected_tables cs) = true) by (vm_compute in M; inversion M; subst cs; vm_compute; reflexivity).
  repeat split; try assumption.
  apply (hangs F_tp ms_tp sel_loop true s0 cs WF WM M CV).
  vm_compute in M. inversion M. subst cs. vm_compute. reflexivity.
Qed.

(** the same file, a selection outside the hanging class: the hypotheses of the positive theorems are met *)
Definition sel_fine : list item :=
  [ {| i_spec := s2l "e"; i_key := KeyName [2%Z]; i_col := 0%Z |}; {| i_spec := s2l "e2"; i_key := KeyInt 1; i_col := 3%Z |} ].
Lemma example_tp_fine : exists cs, mapM (convert ms_tp) sel_fine = Ok cs /\ wf_file F_tp = true /\ wf_metas ms_tp = true /\
  covers F_tp true (selected_tables cs) = true /\ file_hangs F_tp true (selected_tables cs) = false /\
  exists l s', history (fuel_bound F_tp) F_tp ms_tp sel_fine true s0 = Ok (HSeries l, s') /\
               map (option_map (fun s => map l_at (s_at s))) l = [Some [(0, 0)]; Some [(0, 4)]].
Proof.
  destruct (mapM (convert ms_tp) sel_fine) as [cs|] eqn:M; [|vm_compute in M; discriminate].
  exists cs. vm_compute in M. inversion M. subst cs. repeat split; try (vm_compute; reflexivity).
  eexists. eexists. split; vm_compute; reflexivity.
Qed.

(** the witness selection of [terminates_refuted] on the same file read by the repaired code *)
Definition F_tp_fixed : hfile := {| hsim := TP; hfix := true; hshort_types := []; hsets := hsets F_tp |}.
Lemma example_tp_fixed : exists cs, mapM (convert ms_tp) sel_loop = Ok cs /\ wf_file F_tp_fixed = true /\
  covers F_tp_fixed true (selected_tables cs) = true /\
  exists l s', history (fuel_bound F_tp_fixed) F_tp_fixed ms_tp sel_loop true s0 = Ok (HSeries l, s') /\
               map (option_map (fun s => map l_at (s_at s))) l = [Some [(0, 3)]; Some [(0, 4)]].
Proof.
  destruct (mapM (convert ms_tp) sel_loop) as [cs|] eqn:M; [|vm_compute in M; discriminate].
  exists cs. vm_compute in M. inversion M. subst cs. repeat split; try (vm_compute; reflexivity).
  eexists. eexists. split; vm_compute; reflexivity.
Qed.

(** an AUTOUGH2 listing with short output between two full result sets; a connection named in reverse *)
Definition F_aut : hfile :=
  {| hsim := AUT; hfix := false; hshort_types := [KE; KG];
     hsets := [ {| pshort := false; pkinds := [KE; KC; KG] |}; {| pshort := true; pkinds := [KE; KG] |};
                {| pshort := false; pkinds := [KE; KC; KG] |} ] |}.
Definition ms_aut : list tmeta :=
  [ {| m_name := n_element; m_keys := [[1%Z]; [2%Z]; [3%Z]]; m_rowline := None; m_rev := false; m_short := [(1%Z, 0%Z)] |};
    {| m_name := n_connection; m_keys := [[1%Z; 2%Z]; [2%Z; 3%Z]]; m_rowline := None; m_rev := true; m_short := [] |};
    {| m_name := n_generation; m_keys := [[3%Z; 7%Z]]; m_rowline := None; m_rev := true; m_short := [(0%Z, 0%Z)] |} ].
Definition sel_aut : list item :=
  [ {| i_spec := s2l "c"; i_key := KeyName [3%Z; 2%Z]; i_col := 1%Z |}; {| i_spec := s2l "e"; i_key := KeyName [2%Z]; i_col := 0%Z |};
    {| i_spec := s2l "g"; i_key := KeyInt 0; i_col := 0%Z |} ].
Lemma example_aut : exists cs, mapM (convert ms_aut) sel_aut = Ok cs /\ wf_file F_aut = true /\ wf_metas ms_aut = true /\
  covers F_aut true (selected_tables cs) = true /\ file_hangs F_aut true (selected_tables cs) = false /\
  exists l s', history (fuel_bound F_aut) F_aut ms_aut sel_aut true s0 = Ok (HSeries l, s') /\
               map (option_map (fun s => (s_sign s, s_times s, map l_at (s_at s)))) l =
               [Some ((-1)%Z, TFull, [(0, 1); (2, 1)]); Some (1%Z, TAll, [(0, 0); (1, 0); (2, 0)]); Some (1%Z, TAll, [(0, 2); (1, 1); (2, 2)])].
Proof.
  destruct (mapM (convert ms_aut) sel_aut) as [cs|] eqn:M; [|vm_compute in M; discriminate].
  exists cs. vm_compute in M. inversion M. subst cs. repeat split; try (vm_compute; reflexivity).
  eexists. eexists. split; vm_compute; reflexivity.
Qed.

Lemma example_reverse : exists tn m k i,
  spec_name (s2l "c") = Some tn /\ find_meta ms_aut tn = Some m /\ lookup (m_keys m) k = Some i /\
  lookup (m_keys m) (rev k) = None /\ 1 < length k /\ m_rev m = true.
Proof. exists n_connection. eexists. exists [2%Z; 3%Z]. eexists. repeat split; try (vm_compute; reflexivity); try (cbn; lia). Qed.
