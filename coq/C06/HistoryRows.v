(** C06 -- WHICH line of a table history() reads for a row, against which line stepping leaves in
    that row.  Input: the table layout = the printed data lines of one table at one result set, in
    file order, each with its physical offset from the first results line (blank lines, repeated
    headers at page breaks and unit lines lie between them), its printed INDEX and its key.

    - setup_table_TOUGH2 (t2listing.py:757-820): rowdict[index] = (count, key), a later line with
      the same index REPLACES an earlier one (TOUGH2_MP prints a connection once per sub-domain);
      rows in increasing index order; row_line[r] = count of row r's line; skiplines.
    - read_table_TOUGH2 (stepping): visits the data lines through skiplines and stores each under
      the row its KEY maps to (dict of row names, last duplicate name wins).
    - history: the items of a table, sorted by line index, are read by counting readline() calls
      from the first results line (index / lineindex arithmetic of t2listing.py:1062-1071). *)
From Coq Require Import List Bool Arith ZArith Lia ZifyBool Permutation.
From P Require Import ListingHistory.
Import ListNotations.
Open Scope nat_scope.

(** one printed data line *)
Record dline := { d_off : nat; d_idx : Z; d_key : list Z }.

(** ** setup_table_TOUGH2 *)
(** rowdict after the scan: the LAST line printed with that index *)
Fixpoint last_with (i : Z) (ds : list dline) (acc : option dline) : option dline :=
  match ds with [] => acc | d :: r => last_with i r (if (d_idx d =? i)%Z then Some d else acc) end.
(** sorted(rowdict.keys()) : insertion into an increasing list without repetition *)
Fixpoint ins (i : Z) (l : list Z) : list Z :=
  match l with
  | [] => [i]
  | x :: r => if (i <? x)%Z then i :: l else if (i =? x)%Z then l else x :: ins i r
  end.
Definition indices (ds : list dline) : list Z := fold_left (fun acc d => ins (d_idx d) acc) ds [].
Definition row_of (ds : list dline) (i : Z) : option dline := last_with i ds None.
Definition row_line (ds : list dline) : list nat :=
  map (fun i => match row_of ds i with Some d => d_off d | None => 0 end) (indices ds).
Definition rows (ds : list dline) : list (list Z) :=
  map (fun i => match row_of ds i with Some d => d_key d | None => [] end) (indices ds).
(** skiplines: lines between consecutive data lines *)
Fixpoint skiplines (ds : list dline) : list nat :=
  match ds with
  | a :: ((b :: _) as r) => (d_off b - d_off a - 1) :: skiplines r
  | _ => []
  end.

(** ** read_table_TOUGH2: the line whose values row r holds after the table has been read *)
Definition lands_in (rs : list (list Z)) (r : nat) (d : dline) : bool :=
  match lookup rs (d_key d) with Some r' => (r' =? Z.of_nat r)%Z | None => false end.
Fixpoint last_sat (p : dline -> bool) (ds : list dline) (acc : option dline) : option dline :=
  match ds with [] => acc | d :: r => last_sat p r (if p d then Some d else acc) end.
Definition stepped_line (ds : list dline) (r : nat) : option dline := last_sat (lands_in (rows ds) r) ds None.
(** the offsets read_table_TOUGH2 visits: readline, then skiplines(skip) *)
Fixpoint visited (o : nat) (sk : list nat) : list nat :=
  match sk with [] => [o] | s :: r => o :: visited (o + 1 + s) r end.

(** ** history: reading the selected lines of one table *)
(** [held] = offset of the line in [line]; [index] as in the code; items = line indices in the order
    they are processed *)
Fixpoint read_items (held index : nat) (items : list nat) : list nat :=
  match items with
  | [] => []
  | li :: r =>
      let held' := if index <? li then held + (li - index - 1) + 1 else held in   (* range(li-index-1) readlines, then one *)
      held' :: read_items held' li r
  end.
Fixpoint insert_sorted (x : nat * nat) (l : list (nat * nat)) : list (nat * nat) :=
  match l with
  | [] => [x]
  | y :: r => if (fst x <? fst y) || ((fst x =? fst y) && (snd x <=? snd y)) then x :: l else y :: insert_sorted x r
  end.
(** tselect.sort(): by line index (then by the rest of the tuple; here the selection index) *)
Definition sort_items (l : list (nat * nat)) : list (nat * nat) := fold_right insert_sorted [] l.

(** ** facts *)
Fixpoint asc (l : list nat) : Prop :=
  match l with a :: ((b :: _) as r) => a <= b /\ asc r | _ => True end.

(** counting readline() calls lands on the line index, for items in increasing order *)
Lemma read_items_sorted : forall items i, asc (i :: items) -> read_items i i items = items.
Proof.
  induction items as [|li r IH]; intros i A; cbn [read_items]; [reflexivity|].
  destruct A as (L & A). destruct (Nat.ltb_spec i li).
  - replace (i + (li - i - 1) + 1) with li by lia. rewrite (IH li A). reflexivity.
  - assert (li = i) by lia. subst li. rewrite (IH i A). reflexivity.
Qed.

Lemma asc_cons a l : asc (a :: l) <-> (match l with b :: _ => a <= b | [] => True end) /\ asc l.
Proof. destruct l; cbn [asc]; tauto. Qed.
Lemma insert_sorted_head x l : match insert_sorted x l with
                               | z :: _ => z = x \/ match l with w :: _ => z = w | [] => False end
                               | [] => False end.
Proof. destruct l as [|y r]; cbn [insert_sorted]; [left; reflexivity|]. destruct (_ || _); [left|right]; reflexivity. Qed.
Lemma insert_sorted_asc x : forall l, asc (map fst l) -> asc (map fst (insert_sorted x l)).
Proof.
  induction l as [|y r IH]; intro A; cbn [insert_sorted map]; [exact I|].
  destruct ((fst x <? fst y) || ((fst x =? fst y) && (snd x <=? snd y))) eqn:C.
  - cbn [map]. apply asc_cons. split; [cbn [map]; lia|exact A].
  - cbn [map] in *. apply asc_cons in A. destruct A as (H & A). apply asc_cons. split; [|exact (IH A)].
    pose proof (insert_sorted_head x r) as Hd. destruct (insert_sorted x r) as [|z t]; [exact I|]. cbn [map].
    destruct Hd as [->|Hd]; [lia|]. destruct r as [|w r']; [contradiction|]. subst z. cbn [map] in H. exact H.
Qed.
Lemma sort_items_asc l : asc (map fst (sort_items l)).
Proof. induction l as [|x l IH]; cbn [sort_items fold_right map]; [exact I|]. apply insert_sorted_asc. exact IH. Qed.

Lemma insert_sorted_perm x : forall l, Permutation (x :: l) (insert_sorted x l).
Proof.
  induction l as [|y r IH]; cbn [insert_sorted]; [apply Permutation_refl|].
  destruct (_ || _); [apply Permutation_refl|]. eapply perm_trans; [apply perm_swap|]. apply perm_skip. exact IH.
Qed.
Lemma sort_items_perm l : Permutation l (sort_items l).
Proof.
  induction l as [|x l IH]; cbn [sort_items fold_right]; [apply perm_nil|].
  eapply perm_trans; [apply perm_skip; exact IH|]. apply insert_sorted_perm.
Qed.

(** every selected item is read from exactly the line its line index names *)
Lemma history_reads_line_index l : read_items 0 0 (map fst (sort_items l)) = map fst (sort_items l).
Proof.
  pose proof (sort_items_asc l) as A. destruct (map fst (sort_items l)) as [|a r] eqn:E; [reflexivity|].
  cbn [read_items]. destruct (Nat.ltb_spec 0 a).
  - replace (0 + (a - 0 - 1) + 1) with a by lia. rewrite (read_items_sorted r a A). reflexivity.
  - assert (a = 0) by lia. subst a. rewrite (read_items_sorted r 0 A). reflexivity.
Qed.
(** the sort is needed: processed in the order given, a later-selected earlier row re-uses the held line *)
Lemma unsorted_reads_wrong_line : read_items 0 0 [5; 2] = [5; 5].
Proof. reflexivity. Qed.

(** [indices]: increasing, without repetition, exactly the printed indices *)
Fixpoint incr (l : list Z) : Prop :=
  match l with a :: ((b :: _) as r) => (a < b)%Z /\ incr r | _ => True end.
Lemma ins_incr i : forall l, incr l -> incr (ins i l) /\ (forall x, In x (ins i l) <-> x = i \/ In x l) /\
                                     (forall h, (match l with a :: _ => (h < a)%Z | [] => True end) -> (h < i)%Z ->
                                                match ins i l with a :: _ => (h < a)%Z | [] => True end).
Proof.
  induction l as [|x r IH]; intro A; cbn [ins].
  - split; [exact I|]. split; [intro y; cbn [In]; intuition congruence|]. intros h _ L. exact L.
  - destruct (Z.ltb_spec i x).
    + split; [cbn [incr]; split; [lia|exact A]|]. split; [intro y; cbn [In]; intuition congruence|]. intros h _ L. exact L.
    + destruct (Z.eqb_spec i x).
      * subst. split; [exact A|]. split; [intro y; cbn [In]; intuition congruence|]. intros h L _. exact L.
      * assert (A' : incr r) by (destruct r; [exact I|cbn [incr] in A; tauto]).
        destruct (IH A') as (I1 & I2 & I3).
        split.
        -- specialize (I3 x). cbn [incr]. destruct (ins i r) eqn:E; [exact I|]. split; [|exact I1].
           apply I3; [destruct r; [exact I|cbn [incr] in A; tauto]|lia].
        -- split; [intro y; cbn [In]; rewrite I2; intuition congruence|]. intros h L _. exact L.
Qed.
Lemma indices_spec ds : incr (indices ds) /\ forall i, In i (indices ds) <-> exists d, In d ds /\ d_idx d = i.
Proof.
  unfold indices.
  assert (G : forall ds acc, incr acc -> incr (fold_left (fun acc d => ins (d_idx d) acc) ds acc) /\
                             forall i, In i (fold_left (fun acc d => ins (d_idx d) acc) ds acc) <-> In i acc \/ exists d, In d ds /\ d_idx d = i).
  { induction ds0 as [|d r IH]; intros acc A; cbn [fold_left].
    - split; [exact A|]. intro i. split; [tauto|]. intros [H|(d & [] & _)]. exact H.
    - destruct (ins_incr (d_idx d) acc A) as (I1 & I2 & _). destruct (IH _ I1) as (J1 & J2). split; [exact J1|].
      intro i. rewrite J2, I2. split.
      + intros [[H|H]|(d' & H1 & H2)]; [right; exists d; split; [left; reflexivity|auto]|left; exact H|right; exists d'; split; [right; exact H1|exact H2]].
      + intros [H|(d' & [H1|H1] & H2)]; [left; right; exact H|subst; left; left; reflexivity|right; exists d'; auto]. }
  destruct (G ds [] I) as (G1 & G2). split; [exact G1|]. intro i. rewrite G2. cbn [In]. tauto.
Qed.

Lemma incr_lt_all : forall l a, incr (a :: l) -> forall x, In x l -> (a < x)%Z.
Proof.
  induction l as [|b r IH]; intros a A x H; [contradiction|].
  cbn [incr] in A. destruct A as (L & A). destruct H as [->|H]; [exact L|]. specialize (IH b A x H). lia.
Qed.
Lemma incr_nodup : forall l, incr l -> NoDup l.
Proof.
  induction l as [|a r IH]; intro A; constructor.
  - intro H. pose proof (incr_lt_all r a A a H). lia.
  - apply IH. destruct r; [exact I|cbn [incr] in A; tauto].
Qed.

Lemma last_sat_acc p : forall ds acc,
  last_sat p ds acc = match last_sat p ds None with Some d => Some d | None => acc end.
Proof.
  induction ds as [|d r IH]; intro acc; cbn [last_sat]; [reflexivity|].
  rewrite (IH (if p d then Some d else acc)), (IH (if p d then Some d else None)).
  destruct (last_sat p r None); [reflexivity|]. destruct (p d); reflexivity.
Qed.
Lemma last_with_sat i : forall ds acc, last_with i ds acc = last_sat (fun d => (d_idx d =? i)%Z) ds acc.
Proof. induction ds as [|d r IH]; intro acc; cbn [last_with last_sat]; [reflexivity|]. apply IH. Qed.
Lemma last_with_spec i ds acc :
  last_with i ds acc = match last_sat (fun d => (d_idx d =? i)%Z) ds None with Some d => Some d | None => acc end.
Proof. rewrite last_with_sat. apply last_sat_acc. Qed.
Lemma last_sat_ext p q : (forall d, p d = q d) -> forall ds acc, last_sat p ds acc = last_sat q ds acc.
Proof. intro H. induction ds as [|d r IH]; intro acc; cbn [last_sat]; [reflexivity|]. rewrite H. apply IH. Qed.
Lemma last_sat_ext_in p q : forall ds acc, (forall d, In d ds -> p d = q d) -> last_sat p ds acc = last_sat q ds acc.
Proof.
  induction ds as [|d r IH]; intros acc H; cbn [last_sat]; [reflexivity|].
  rewrite (H d (or_introl eq_refl)). apply IH. intros; apply H; right; assumption.
Qed.
Lemma last_sat_in p : forall ds acc d, last_sat p ds acc = Some d -> (In d ds /\ p d = true) \/ acc = Some d.
Proof.
  induction ds as [|e r IH]; intros acc d; cbn [last_sat]; [auto|].
  intro H. destruct (IH _ _ H) as [(I1 & P)|E]; [left; split; [right; exact I1|exact P]|].
  destruct (p e) eqn:Pe; [|right; exact E]. inversion E. subst. left. split; [left; reflexivity|exact Pe].
Qed.
Lemma last_sat_some p : forall ds acc, (exists d, In d ds /\ p d = true) -> exists d, last_sat p ds acc = Some d /\ In d ds /\ p d = true.
Proof.
  induction ds as [|e r IH]; intros acc (d & I1 & P); [contradiction|]. cbn [last_sat].
  destruct (existsb p r) eqn:X.
  - apply existsb_exists in X. destruct (IH (if p e then Some e else acc) X) as (d' & E & I' & P'). exists d'. split; [exact E|]. split; [right; exact I'|exact P'].
  - destruct I1 as [->|I1].
    + rewrite P. assert (Y : forall acc', last_sat p r acc' = acc').
      { clear - X. induction r as [|f r IH]; intro acc'; cbn [last_sat]; [reflexivity|]. cbn [existsb] in X. apply orb_false_elim in X. destruct X as (X1 & X2). rewrite X1. apply IH. exact X2. }
      rewrite Y. exists d. split; [reflexivity|]. split; [left; reflexivity|exact P].
    + exfalso. assert (existsb p r = true) by (apply existsb_exists; exists d; auto). congruence.
Qed.

(** [lookup]: dict(zip(rows, range)): the LAST position holding the key *)
Fixpoint last_pos (k : list Z) (ks : list (list Z)) : option nat :=
  match ks with
  | [] => None
  | x :: r => match last_pos k r with Some p => Some (S p) | None => if keys_eqb x k then Some 0 else None end
  end.
Lemma keys_eqb_eq a : forall b, keys_eqb a b = true <-> a = b.
Proof.
  induction a as [|x r IH]; intros [|y s]; cbn [keys_eqb]; split; intro H; try reflexivity; try discriminate.
  - apply andb_prop in H. destruct H as (H1 & H2). apply Z.eqb_eq in H1. apply IH in H2. congruence.
  - inversion H. subst. rewrite Z.eqb_refl. cbn [andb]. apply IH. reflexivity.
Qed.
Lemma lookup_from_spec k : forall ks s acc,
  lookup_from ks k s acc = match last_pos k ks with Some p => Some (s + Z.of_nat p)%Z | None => acc end.
Proof.
  induction ks as [|x r IH]; intros s acc; cbn [lookup_from last_pos]; [reflexivity|].
  rewrite IH. destruct (last_pos k r) as [p|]; [f_equal; lia|].
  destruct (keys_eqb x k); [f_equal; lia|reflexivity].
Qed.
Lemma last_pos_some k : forall ks p, last_pos k ks = Some p -> nth_error ks p = Some k.
Proof.
  induction ks as [|x r IH]; intros p; cbn [last_pos]; [discriminate|].
  destruct (last_pos k r) as [q|] eqn:E.
  - intro H. inversion H. cbn [nth_error]. apply IH. reflexivity.
  - destruct (keys_eqb x k) eqn:K; [|discriminate]. intro H. inversion H. apply keys_eqb_eq in K. subst. reflexivity.
Qed.
Lemma last_pos_exists k : forall ks q, nth_error ks q = Some k -> exists p, last_pos k ks = Some p.
Proof.
  induction ks as [|x r IH]; intros q H; [destruct q; discriminate|]. cbn [last_pos].
  destruct q as [|q]; cbn [nth_error] in H.
  - inversion H. subst. destruct (last_pos k r); [eauto|]. assert (keys_eqb k k = true) by (apply keys_eqb_eq; reflexivity). rewrite H0. eauto.
  - destruct (IH q H) as (p & E). rewrite E. eauto.
Qed.

(** ** the row history() reads is the row stepping shows *)
(** printed copies of one row agree on index and key; different rows differ in both
    (true of every table the reader can address by name at all) *)
Definition wf_keys (ds : list dline) : Prop :=
  forall d d', In d ds -> In d' ds -> (d_idx d = d_idx d' <-> d_key d = d_key d').

Lemma row_of_some ds i : In i (indices ds) -> exists d, row_of ds i = Some d /\ In d ds /\ d_idx d = i.
Proof.
  intro H. apply (proj2 (indices_spec ds)) in H. destruct H as (d & I1 & E).
  unfold row_of. rewrite last_with_spec.
  destruct (last_sat_some (fun d0 => (d_idx d0 =? i)%Z) ds None) as (d' & E' & I' & P').
  - exists d. split; [exact I1|]. apply Z.eqb_eq. exact E.
  - rewrite E'. exists d'. split; [reflexivity|]. split; [exact I'|]. apply Z.eqb_eq. exact P'.
Qed.

Lemma nodup_nth_inj {A} (l : list A) : NoDup l -> forall p q x, nth_error l p = Some x -> nth_error l q = Some x -> p = q.
Proof. intros ND p q x H1 H2. apply (proj1 (NoDup_nth_error l) ND); [apply nth_error_Some; congruence|congruence]. Qed.

Lemma rows_nth ds r i : nth_error (indices ds) r = Some i ->
  exists d, row_of ds i = Some d /\ In d ds /\ d_idx d = i /\ nth_error (rows ds) r = Some (d_key d) /\ nth_error (row_line ds) r = Some (d_off d).
Proof.
  intro H. destruct (row_of_some ds i (nth_error_In _ _ H)) as (d & E & I1 & X). exists d. repeat split; try assumption.
  - unfold rows. rewrite nth_error_map, H. cbn [option_map]. rewrite E. reflexivity.
  - unfold row_line. rewrite nth_error_map, H. cbn [option_map]. rewrite E. reflexivity.
Qed.

Lemma row_eq_stepping ds : wf_keys ds -> forall r i, nth_error (indices ds) r = Some i ->
  exists d, stepped_line ds r = Some d /\ row_of ds i = Some d /\
            nth_error (row_line ds) r = Some (d_off d) /\ nth_error (rows ds) r = Some (d_key d).
Proof.
  intros W r i H. destruct (rows_nth ds r i H) as (d0 & E0 & I0 & X0 & R0 & L0).
  pose proof (incr_nodup _ (proj1 (indices_spec ds))) as ND.
  assert (C : forall d, In d ds -> lands_in (rows ds) r d = (d_idx d =? i)%Z).
  { intros d I1. unfold lands_in, lookup. rewrite lookup_from_spec.
    assert (Ij : In (d_idx d) (indices ds)) by (apply (proj2 (indices_spec ds)); exists d; auto).
    apply In_nth_error in Ij. destruct Ij as (rj & Hj).
    destruct (rows_nth ds rj _ Hj) as (dj & Ej & Idj & Xj & Rj & _).
    assert (Kj : d_key dj = d_key d) by (apply (W dj d Idj I1); exact Xj).
    rewrite Kj in Rj.
    destruct (last_pos_exists _ _ _ Rj) as (p & P). rewrite P.
    pose proof (last_pos_some _ _ _ P) as Np.
    assert (p = rj).
    { assert (Lp : p < length (indices ds)).
      { unfold rows in Np. rewrite nth_error_map in Np. destruct (nth_error (indices ds) p) eqn:Q; [|discriminate]. apply nth_error_Some. congruence. }
      destruct (nth_error (indices ds) p) as [ip|] eqn:Q; [|apply nth_error_None in Q; lia].
      destruct (rows_nth ds p ip Q) as (dp & _ & Idp & Xp & Rp & _). rewrite Rp in Np. inversion Np as [Kp].
      assert (d_idx dp = d_idx d) by (apply (W dp d Idp I1); exact Kp).
      apply (nodup_nth_inj _ ND p rj (d_idx d)); congruence. }
    subst p. replace (0 + Z.of_nat rj)%Z with (Z.of_nat rj) by lia.
    destruct (Z.eqb_spec (d_idx d) i) as [Q|Q].
    - assert (rj = r) by (apply (nodup_nth_inj _ ND rj r i); congruence). subst. apply Z.eqb_refl.
    - apply Z.eqb_neq. intro Y. apply Nat2Z.inj in Y. subst rj. congruence. }
  exists d0. unfold stepped_line. rewrite (last_sat_ext_in _ (fun d => (d_idx d =? i)%Z) ds None C).
  unfold row_of in E0. rewrite last_with_spec in E0.
  destruct (last_sat (fun d => (d_idx d =? i)%Z) ds None) as [d|] eqn:Q; [|discriminate].
  inversion E0. subst d. repeat split; try assumption. unfold row_of. rewrite last_with_spec, Q. reflexivity.
Qed.

(** stepping visits exactly the data lines *)
Fixpoint offs_incr (ds : list dline) : Prop :=
  match ds with a :: ((b :: _) as r) => d_off a < d_off b /\ offs_incr r | _ => True end.
Lemma visited_data_lines : forall ds d, offs_incr (d :: ds) -> visited (d_off d) (skiplines (d :: ds)) = map d_off (d :: ds).
Proof.
  induction ds as [|e r IH]; intros d A; cbn [skiplines visited map]; [reflexivity|].
  destruct A as (L & A). replace (d_off d + 1 + (d_off e - d_off d - 1)) with (d_off e) by lia.
  f_equal. apply (IH e A).
Qed.

(** a concrete table in the manner of TOUGH2_MP: row 2 printed twice (offsets 1 and 5), a page break in between *)
Definition ds_ex : list dline :=
  [ {| d_off := 0; d_idx := 1; d_key := [1; 2] |}; {| d_off := 1; d_idx := 2; d_key := [1; 3] |};
    {| d_off := 4; d_idx := 3; d_key := [2; 3] |}; {| d_off := 5; d_idx := 2; d_key := [1; 3] |} ]%Z.
Lemma ds_ex_facts : wf_keys ds_ex /\ offs_incr ds_ex /\ indices ds_ex = [1; 2; 3]%Z /\ row_line ds_ex = [0; 5; 4] /\
  skiplines ds_ex = [0; 2; 0] /\ option_map d_off (stepped_line ds_ex 1) = Some 5.
Proof.
  split; [|repeat split; try reflexivity; cbn; lia].
  intros d d' H H'. cbn [ds_ex In] in H, H'.
  repeat (destruct H as [<-|H]; [|]); try contradiction; repeat (destruct H' as [<-|H']; [|]); try contradiction;
    cbn [d_idx d_key]; split; intro X; try reflexivity; try discriminate.
Qed.
