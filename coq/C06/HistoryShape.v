(** C06 -- the shape of the result: which selections give None, and that the entry returned for an item
    depends on that item alone (not on the other items, their number or their order). *)
From Coq Require Import Ascii String List Bool Arith ZArith NArith Lia.
From PTBase Require Import Exn PyStr PyVal.
From P Require Import ListingHistory HistoryFuel HistorySpec HistoryProofs.
Import ListNotations.
Open Scope nat_scope.

Lemma mapM_nth {A B} (f : A -> res B) : forall l rs, mapM f l = Ok rs ->
  length rs = length l /\ forall i x, nth_error l i = Some x -> exists r, f x = Ok r /\ nth_error rs i = Some r.
Proof.
  induction l as [|a l IH]; intros rs; cbn [mapM].
  - intro H. inversion H. split; [reflexivity|]. intros [|i] x E; discriminate.
  - unfold bind. destruct (f a) as [b|] eqn:E; [|discriminate]. destruct (mapM f l) as [bs|]; [|discriminate].
    intro H. inversion H. subst. destruct (IH bs eq_refl) as (L & N). split; [cbn; rewrite L; reflexivity|].
    intros [|i] x Ex; cbn in Ex.
    + inversion Ex. subst. exists b. split; [exact E|reflexivity].
    + cbn. apply N. exact Ex.
Qed.

Lemma mapM_all_none {A B} (f : A -> res (option B)) : forall l, (forall x, In x l -> f x = Ok None) ->
  mapM f l = Ok (map (fun _ => None) l).
Proof.
  induction l as [|a l IH]; intro H; cbn [mapM map]; [reflexivity|].
  rewrite (H a) by (left; reflexivity). unfold bind. rewrite IH; [reflexivity|]. intros x I. apply H. right. exact I.
Qed.

Lemma selected_none {A} (l : list A) : selected_tables (map (fun _ => None) l) = [].
Proof.
  unfold selected_tables.
  assert (E : forall t, existsb (fun c : option conv => match c with Some c => str_eqb (c_table c) t | None => false end)
                               (map (fun _ => None) l) = false).
  { intro t. induction l as [|a l IH]; cbn; [reflexivity|exact IH]. }
  induction table_order as [|t r IH]; cbn [filter]; [reflexivity|]. rewrite E. exact IH.
Qed.

(** no valid specification: None is returned at once, whatever the fuel, and the reader is not touched at all *)
Lemma no_valid_item fuel F ms sel short s : (forall it, In it sel -> convert ms it = Ok None) ->
  history fuel F ms sel short s = Ok (HNone, s).
Proof.
  intro H. unfold history. rewrite (mapM_all_none _ _ H). rewrite selected_none. reflexivity.
Qed.

(** conversely None comes back only then (table dictionary keyed by the six table names), with the state untouched *)
Lemma none_only_invalid fuel F ms sel short s s' : wf_metas ms = true ->
  history fuel F ms sel short s = Ok (HNone, s') ->
  s' = s /\ forall it, In it sel -> convert ms it = Ok None.
Proof.
  intros WM. unfold history. destruct (mapM (convert ms) sel) as [cs|] eqn:M; [|discriminate].
  destruct (selected_tables cs) eqn:S.
  - intro H. inversion H. split; [reflexivity|]. intros it I.
    destruct (In_nth_error _ _ I) as (i & Ei). destruct (mapM_nth _ _ _ M) as (_ & N).
    destruct (N _ _ Ei) as (r & Er & En). destruct r as [c|]; [|exact Er]. exfalso.
    apply nth_error_In in En. pose proof (selected_mem _ _ _ _ WM M En) as Q. rewrite S in Q. discriminate.
  - destruct (scan_sets fuel F short _ (hsets F) 0); discriminate.
Qed.

(** the entry returned for the i-th item is determined by that item alone *)
Lemma result_shape f F ms sel short s cs l s' : wf_file F = true -> wf_metas ms = true ->
  mapM (convert ms) sel = Ok cs -> covers F short (selected_tables cs) = true ->
  history f F ms sel short s = Ok (HSeries l, s') ->
  length l = length sel /\
  forall i it, nth_error sel i = Some it ->
    exists oc, convert ms it = Ok oc /\ nth_error l i = Some (option_map (stepping_series F short) oc).
Proof.
  intros WF WM M CV H. rewrite (eq_stepping _ _ _ _ _ _ _ _ _ WF WM M CV H).
  destruct (mapM_nth _ _ _ M) as (L & N). split; [rewrite map_length; exact L|].
  intros i it E. destruct (N _ _ E) as (oc & Eo & En). exists oc. split; [exact Eo|].
  rewrite nth_error_map, En. reflexivity.
Qed.

Lemma item_independent f1 f2 F ms sel1 sel2 short s1 s2 cs1 cs2 l1 l2 s1' s2' i j it :
  wf_file F = true -> wf_metas ms = true ->
  mapM (convert ms) sel1 = Ok cs1 -> covers F short (selected_tables cs1) = true ->
  mapM (convert ms) sel2 = Ok cs2 -> covers F short (selected_tables cs2) = true ->
  history f1 F ms sel1 short s1 = Ok (HSeries l1, s1') ->
  history f2 F ms sel2 short s2 = Ok (HSeries l2, s2') ->
  nth_error sel1 i = Some it -> nth_error sel2 j = Some it ->
  nth_error l1 i = nth_error l2 j.
Proof.
  intros WF WM M1 C1 M2 C2 H1 H2 E1 E2.
  destruct (result_shape _ _ _ _ _ _ _ _ _ WF WM M1 C1 H1) as (_ & N1).
  destruct (result_shape _ _ _ _ _ _ _ _ _ WF WM M2 C2 H2) as (_ & N2).
  destruct (N1 _ _ E1) as (o1 & A1 & B1). destruct (N2 _ _ E2) as (o2 & A2 & B2).
  rewrite A1 in A2. inversion A2. subst. rewrite B1, B2. reflexivity.
Qed.

(** the hypotheses are satisfiable: a table specification that names no table ('x'), a table the listing does not
    have ('p' in the AUTOUGH2 example) and a row name that is in no table -- None, reader untouched, even with no fuel;
    and a one-item selection returning the same entry as that item inside a longer selection *)
Definition sel_invalid : list item :=
  [ {| i_spec := s2l "x"; i_key := KeyInt 0; i_col := 0%Z |}; {| i_spec := s2l "p"; i_key := KeyInt 0; i_col := 0%Z |};
    {| i_spec := s2l "e"; i_key := KeyName [77%Z]; i_col := 0%Z |} ].
Lemma example_invalid : (forall it, In it sel_invalid -> convert ms_aut it = Ok None) /\
  history 0 F_aut ms_aut sel_invalid true s0 = Ok (HNone, s0).
Proof.
  assert (H : forall it, In it sel_invalid -> convert ms_aut it = Ok None).
  { intros it I. cbn [sel_invalid In] in I. destruct I as [<-|[<-|[<-|[]]]]; vm_compute; reflexivity. }
  split; [exact H|apply no_valid_item; exact H].
Qed.
Definition it_e : item := {| i_spec := s2l "e"; i_key := KeyName [2%Z]; i_col := 0%Z |}.
Lemma example_single : exists l1 l3 s1 s3 e,
  history (fuel_bound F_aut) F_aut ms_aut [it_e] true s0 = Ok (HSeries l1, s1) /\
  history (fuel_bound F_aut) F_aut ms_aut sel_aut true s0 = Ok (HSeries l3, s3) /\
  nth_error sel_aut 1 = Some it_e /\ nth_error l1 0 = Some (Some e) /\ nth_error l3 1 = Some (Some e).
Proof.
  destruct (history (fuel_bound F_aut) F_aut ms_aut [it_e] true s0) as [[[|l1] s1]|] eqn:H1; try (vm_compute in H1; discriminate).
  destruct (history (fuel_bound F_aut) F_aut ms_aut sel_aut true s0) as [[[|l3] s3]|] eqn:H3; try (vm_compute in H3; discriminate).
  vm_compute in H1. vm_compute in H3. inversion H1. inversion H3. subst.
  do 5 eexists. repeat split; reflexivity.
Qed.
