(** extraction of the executable history model for the C06 correspondence.
    One case line = one abstract file + a batch of selections:
      hist TAB sim TAB short_types TAB sets TAB metas TAB state TAB fuel TAB sel TAB sel ...
      sim         : A | 2 | P
      short_types : kind letters, e.g. EG
      sets        : terminated by ';', each  s|f followed by the kind letters of its tables (E C P G U)
      metas       : terminated by ';', each  name:rev:rowline:short:keys
                      rowline '-' or ints terminated by ',' ; short pairs a=b terminated by ',' ;
                      keys terminated by '/', block ids inside a key separated by '.'
      state       : index/time/step
      sel         : 0|1 (short) '!' items terminated by ';', each  spec:key:col  with key i<int> | n<id.id>
    Result, per selection, TAB separated:  NONE@state | RAISE <exn> |
      items terminated by ';' ( D | sign:F|A:table:line:landings ) '@' state, landings  pos.a.j  terminated by ',' *)
From Coq Require Import Ascii String List Bool ZArith NArith.
From PTBase Require Import Exn PyStr PyNum PyVal Wire.
From P Require Import ListingHistory.
Import ListNotations.
Open Scope char_scope.

Definition split_term (ch : ascii) (s : str) : list str :=
  match s with [] => [] | _ => removelast (split_c ch s) end.

Definition parse_kind (c : ascii) : kind :=
  match c with "E" => KE | "C" => KC | "P" => KP | "G" => KG | _ => KU end.
Definition parse_set (s : str) : pset :=
  match s with
  | c :: r => {| pshort := ceqb c "s"; pkinds := map parse_kind r |}
  | [] => {| pshort := false; pkinds := [] |}
  end.
Definition parse_ints (s : str) : list Z := map z_of_str (split_term "," s).
Definition parse_pair (s : str) : Z * Z :=
  match split_c "=" s with [a; b] => (z_of_str a, z_of_str b) | _ => (0%Z, 0%Z) end.
Definition parse_keyname (s : str) : list Z := map z_of_str (split_c "." s).
Definition parse_meta (s : str) : tmeta :=
  match split_c ":" s with
  | [n; rv; rl; sh; ks] =>
      {| m_name := n; m_rev := str_eqb rv ["1"];
         m_rowline := match rl with ["-"] => None | _ => Some (parse_ints rl) end;
         m_short := map parse_pair (split_term "," sh);
         m_keys := map parse_keyname (split_term "/" ks) |}
  | _ => {| m_name := []; m_rev := false; m_rowline := None; m_short := []; m_keys := [] |}
  end.
Definition parse_key (s : str) : key :=
  match s with
  | "i" :: r => KeyInt (z_of_str r)
  | "n" :: r => KeyName (parse_keyname r)
  | _ => KeyInt 0
  end.
Definition parse_item (s : str) : item :=
  match split_c ":" s with
  | [sp; k; c] => {| i_spec := sp; i_key := parse_key k; i_col := z_of_str c |}
  | _ => {| i_spec := []; i_key := KeyInt 0; i_col := 0 |}
  end.
Definition parse_state (s : str) : hstate :=
  match split_c "/" s with
  | [i; t; k] => {| h_idx := z_of_str i; h_time := z_of_str t; h_step := z_of_str k; h_tabs := []; h_cur := 0 |}
  | _ => {| h_idx := 0; h_time := 0; h_step := 0; h_tabs := []; h_cur := 0 |}
  end.
Definition parse_sim (s : str) : sim := match s with ["A"] => AUT | ["P"] => TP | _ => T2 end.

Definition show_state (s : hstate) : str :=
  show_z (h_idx s) ++ ["/"] ++ show_z (h_time s) ++ ["/"] ++ show_z (h_step s).
Definition show_landing (l : landing) : str :=
  show_nat (l_pos l) ++ ["."] ++ show_nat (fst (l_at l)) ++ ["."] ++ show_nat (snd (l_at l)) ++ [","].
Definition show_series (c : option conv) (s : option series) : str :=
  match c, s with
  | Some c, Some s =>
      show_z (s_sign s) ++ [":"] ++ (match s_times s with TFull => ["F"] | TAll => ["A"] end) ++ [":"] ++
      c_table c ++ [":"] ++ show_z (c_line c) ++ [":"] ++ concat (map show_landing (s_at s)) ++ [";"]
  | _, _ => ["D"; ";"]
  end.

Definition run_sel (fuel : nat) (F : hfile) (ms : list tmeta) (st : hstate) (q : str) : str :=
  match q with
  | sh :: "!" :: items =>
      let sel := map parse_item (split_term ";" items) in
      match history fuel F ms sel (ceqb sh "1") st with
      | Raise e => s2l "RAISE " ++ show_exn e
      | Ok (HNone, s') => s2l "NONE@" ++ show_state s'
      | Ok (HSeries l, s') =>
          let cs := match mapM (convert ms) sel with Ok cs => cs | Raise _ => [] end in
          concat (map (fun p => show_series (fst p) (snd p)) (combine cs l)) ++ ["@"] ++ show_state s'
      end
  | _ => s2l "BADSEL"
  end.

Definition run_case (line : str) : str :=
  match fields line with
  | k :: sm :: sts :: sets :: metas :: st :: fl :: sels =>
      if str_eqb k (s2l "hist") then
        let F := {| hsim := parse_sim sm; hshort_types := map parse_kind sts; hsets := map parse_set (split_term ";" sets) |} in
        let ms := map parse_meta (split_term ";" metas) in
        let s0 := parse_state st in
        let fuel := nat_of_str fl in
        join [tab] (map (run_sel fuel F ms s0) sels)
      else s2l "BADCASE"
  | _ => s2l "BADCASE"
  end.

Require Extraction.
Require Import ExtrOcamlBasic ExtrOcamlString.
Extraction "Drv.ml" run_case.
