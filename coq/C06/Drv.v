(** extraction of the executable history model for the C06 correspondence.
    One case line = one abstract file + a batch of selections:
      hist TAB sim TAB short_types TAB sets TAB metas TAB state TAB fuel TAB sel TAB sel ...
      sim         : A | 2 | P | Q   (Q = TOUGH+ with the repaired skip_to_table_TOUGHplus)
      short_types : kind letters, e.g. EG
      sets        : terminated by ';', each  s|f followed by the kind letters of its tables (E C P G U)
      metas       : terminated by ';', each  name:rev:rowline:short:keys
                      rowline '-' or ints terminated by ',' ; short pairs a=b terminated by ',' ;
                      keys terminated by '/', block ids inside a key separated by '.'
      state       : index/time/step
      fuel        : a number, or 'B' for the bound [fuel_bound] computed from the sets
      sel         : 0|1 (short) '!' items terminated by ';', each  spec:key:col  with key i<int> | n<id.id>
    Result, per selection, TAB separated:  flags '|' ( NONE@state | RAISE <exn> |
      items terminated by ';' ( D | sign:F|A:table:line:landings ) '@' state ), landings  pos.a.j  terminated by ','
      flags: four 0/1 digits = wf_file, wf_metas, covers, file_hangs (the hypotheses of the theorems of
      Props.v evaluated on this file abstraction and selection) *)
From Coq Require Import Ascii String List Bool ZArith NArith.
From PTBase Require Import Exn PyStr PyNum PyVal Wire.
From P Require Import ListingHistory HistoryFuel HistorySpec HistoryRows LineCells HistoryValues.
Import ListNotations.
Open Scope char_scope.

(** linear-time split (stdlib [rev], which PyStr.split_c uses, is quadratic after extraction, and a
    case line here carries every row name of every table) *)
Fixpoint split_fast_aux (ch : ascii) (cur : str) (s : str) (acc : list str) : list str :=
  match s with
  | [] => rev_append acc [rev_append cur []]
  | c :: r => if ceqb c ch then split_fast_aux ch [] r (rev_append cur [] :: acc) else split_fast_aux ch (c :: cur) r acc
  end.
Definition split_f (ch : ascii) (s : str) : list str := split_fast_aux ch [] s [].
Fixpoint drop_last {A} (l : list A) (acc : list A) : list A :=
  match l with [] => [] | [_] => rev_append acc [] | x :: r => drop_last r (x :: acc) end.
Definition split_term (ch : ascii) (s : str) : list str :=
  match s with [] => [] | _ => drop_last (split_f ch s) [] end.

Definition parse_kind (c : ascii) : kind :=
  match c with "E" => KE | "C" => KC | "P" => KP | "G" => KG | _ => KU end.
Definition parse_set (s : str) : pset :=
  match s with
  | c :: r => {| pshort := ceqb c "s"; pkinds := map parse_kind r |}
  | [] => {| pshort := false; pkinds := [] |}
  end.
Definition parse_ints (s : str) : list Z := map z_of_str (split_term "," s).
Definition parse_pair (s : str) : Z * Z :=
  match split_f "=" s with [a; b] => (z_of_str a, z_of_str b) | _ => (0%Z, 0%Z) end.
Definition parse_keyname (s : str) : list Z := map z_of_str (split_f "." s).
Definition parse_meta (s : str) : tmeta :=
  match split_f ":" s with
  | [n; rv; rl; sh; ks] =>
      {| m_name := n; m_rev := str_eqb rv ["1"];
         m_rowline := match rl with ["-"] => None | _ => Some (parse_ints rl) end;
         m_short := map parse_pair (split_term "," sh);
         m_keys := map parse_keyname (split_term "/" ks) |}
  | _ => {| m_name := []; m_rev := false; m_rowline := None; m_short := []; m_keys := [] |}
  end.
Definition parse_key (s : str) : key :=
  match s with
  | "i" :: r => KeyInt (z_of_str r)
  | "n" :: r => KeyName (parse_keyname r)
  | _ => KeyInt 0
  end.
Definition parse_item (s : str) : item :=
  match split_f ":" s with
  | [sp; k; c] => {| i_spec := sp; i_key := parse_key k; i_col := z_of_str c |}
  | _ => {| i_spec := []; i_key := KeyInt 0; i_col := 0 |}
  end.
Definition parse_state (s : str) : hstate :=
  match split_f "/" s with
  | [i; t; k] => {| h_idx := z_of_str i; h_time := z_of_str t; h_step := z_of_str k; h_tabs := []; h_cur := 0 |}
  | _ => {| h_idx := 0; h_time := 0; h_step := 0; h_tabs := []; h_cur := 0 |}
  end.
Definition parse_sim (s : str) : sim := match s with ["A"] => AUT | ["P"] | ["Q"] => TP | _ => T2 end.

Definition show_state (s : hstate) : str :=
  show_z (h_idx s) ++ ["/"] ++ show_z (h_time s) ++ ["/"] ++ show_z (h_step s).
Definition show_landing (l : landing) : str :=
  show_nat (l_pos l) ++ ["."] ++ show_nat (fst (l_at l)) ++ ["."] ++ show_nat (snd (l_at l)) ++ [","].
Definition show_series (c : option conv) (s : option series) : str :=
  match c, s with
  | Some c, Some s =>
      show_z (s_sign s) ++ [":"] ++ (match s_times s with TFull => ["F"] | TAll => ["A"] end) ++ [":"] ++
      c_table c ++ [":"] ++ show_z (c_line c) ++ [":"] ++ concat (map show_landing (s_at s)) ++ [";"]
  | _, _ => ["D"; ";"]
  end.
Definition bit (b : bool) : ascii := if b then "1" else "0".

Definition run_sel (fuel : nat) (F : hfile) (ms : list tmeta) (st : hstate) (q : str) : str :=
  match q with
  | sh :: "!" :: items =>
      let sel := map parse_item (split_term ";" items) in
      let short := ceqb sh "1" in
      let cs := match mapM (convert ms) sel with Ok cs => cs | Raise _ => [] end in
      let targets := selected_tables cs in
      [bit (wf_file F); bit (wf_metas ms); bit (covers F short targets); bit (file_hangs F short targets); "|"] ++
      match history fuel F ms sel short st with
      | Raise e => s2l "RAISE " ++ show_exn e
      | Ok (HNone, s') => s2l "NONE@" ++ show_state s'
      | Ok (HSeries l, s') =>
          concat (map (fun p => show_series (fst p) (snd p)) (combine cs l)) ++ ["@"] ++ show_state s'
      end
  | _ => s2l "BADSEL"
  end.

(** second case kind:  rows TAB lines   with lines terminated by ';', each  offset,index,key  (key ids separated by '.')
    result:  row_line ints terminated by ','  '|'  row keys terminated by '/'  '|'  skiplines terminated by ',' *)
Definition parse_dline (s : str) : dline :=
  match split_f "," s with
  | [o; i; k] => {| d_off := nat_of_str o; d_idx := z_of_str i; d_key := parse_keyname k |}
  | _ => {| d_off := O; d_idx := 0%Z; d_key := [] |}
  end.
Definition show_key (k : list Z) : str := join ["."] (map show_z k) ++ ["/"].
Definition run_rows (s : str) : str :=
  let ds := map parse_dline (split_term ";" s) in
  concat (map (fun n => show_nat n ++ [","]) (row_line ds)) ++ ["|"] ++
  concat (map show_key (rows ds)) ++ ["|"] ++
  concat (map (fun n => show_nat n ++ [","]) (skiplines ds)).

(** third case kind:  vals TAB ef,ncols,aut TAB v,v,..., TAB lines TAB items
      aut = -1 (TOUGH2 family) or the value start of AUTOUGH2 rows; v = row_format['values'];
      lines = the text from the table's header on, separated by the character 031;
      items terminated by ';', each  lineindex,col,rev
    result: per item, terminated by ';', the value history() computes there (F neg mant e10 | INF neg | NAN | RAISE e) *)
Definition us : ascii := ascii_of_nat 31.
Definition run_vals (fs vs ls its : str) : str :=
  match split_f "," fs with
  | [ef; nc; au] =>
      let f := {| f_ef := nat_of_str ef; f_ncols := nat_of_str nc; f_vals := parse_ints vs;
                  f_aut := match au with "-" :: _ => None | _ => Some (z_of_str au) end |} in
      let lines := split_f us ls in
      concat (map (fun it => match split_f "," it with
                             | [li; co; rv] =>
                                 show_res (match read_cell f lines (nat_of_str li) (nat_of_str co) with
                                           | Ok v => Ok (signed (str_eqb rv ["1"]) v)
                                           | Raise e => Raise e end) ++ [";"]
                             | _ => s2l "BADITEM;" end) (split_term ";" its))
  | _ => s2l "BADFMT"
  end.

Definition run_case (line : str) : str :=
  match split_f tab line with
  | [k; fs; vs; ls; its] => if str_eqb k (s2l "vals") then run_vals fs vs ls its else s2l "BADCASE"
  | [k; s] => if str_eqb k (s2l "rows") then run_rows s else s2l "BADCASE"
  | k :: sm :: sts :: sets :: metas :: st :: fl :: sels =>
      if str_eqb k (s2l "hist") then
        let F := {| hsim := parse_sim sm; hfix := str_eqb sm ["Q"]; hshort_types := map parse_kind sts; hsets := map parse_set (split_term ";" sets) |} in
        let ms := map parse_meta (split_term ";" metas) in
        let s0 := parse_state st in
        let fuel := match fl with ["B"] => fuel_bound F | _ => nat_of_str fl end in
        join [tab] (map (run_sel fuel F ms s0) sels)
      else s2l "BADCASE"
  | _ => s2l "BADCASE"
  end.

Require Extraction.
Require Import ExtrOcamlBasic ExtrOcamlString.
Extraction "Drv.ml" run_case.
