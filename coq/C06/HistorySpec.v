(** C06 -- the reference side: what "visiting every result time in turn and reading that cell from
    the table" means over the file abstraction, the well-formedness conditions under which the
    fast path of history() is claimed to agree with it, and the closed formula for the table
    selections on which the TOUGH+ scan never returns. *)
From Coq Require Import Ascii String List Bool Arith ZArith NArith Lia ZifyBool.
From PTBase Require Import Exn PyStr PyVal.
From P Require Import ListingHistory HistoryFuel.
Import ListNotations.
Open Scope nat_scope.

Definition is_some {A} (o : option A) : bool := match o with Some _ => true | None => false end.
Definition mem (t : str) (l : list str) : bool := existsb (str_eqb t) l.

(** ** the name [read_tables] files each table of a result set under (set_index -> read_tables_X) *)
Definition aut_name (k : kind) : name :=
  match k with KE => Some n_element | KC => Some n_connection | KG => Some n_generation | _ => None end.
(** read_tables_TOUGHplus: further element tables are numbered by a counter *)
Fixpoint tp_names (ks : list kind) (nelt : Z) : list name :=
  match ks with
  | [] => []
  | k :: r => let (n, nelt') := tp_name (Some k) nelt in n :: tp_names r nelt'
  end.
(** the first table of a full result set is read as 'element' without looking at it; the
    conditions below only admit sets whose first table really is an element table *)
Definition names_of (sm : sim) (sh : bool) (ks : list kind) : list name :=
  match sm, sh, ks with
  | AUT, true, _ => map aut_name ks                           (* short output: one keyword per table *)
  | AUT, false, KE :: r => Some n_element :: map aut_name r
  | T2, false, KE :: r => Some n_element :: map t2_name r
  | TP, false, KE :: r => Some n_element :: tp_names r 0
  | _, _, _ => map (fun _ => None) ks
  end.

Fixpoint index_in (l : list str) (s : str) : option nat :=
  match l with [] => None | x :: r => if str_eqb x s then Some 0 else option_map S (index_in r s) end.
Definition rank (n : name) : option nat := match n with Some s => index_in table_order s | None => None end.
(** ranks strictly increasing: the tables of the set are named, distinct, and in the order
    [ordered_selection] assumes (element, element1, connection, primary, element2, generation) *)
Fixpoint inc_from (lo : nat) (ns : list name) : bool :=
  match ns with
  | [] => true
  | n :: r => match rank n with Some k => (lo <=? k) && inc_from (S k) r | None => false end
  end.
Definition sorted_set (sm : sim) (sh : bool) (ks : list kind) : bool :=
  match ks with [] => false | _ => inc_from 0 (names_of sm sh ks) end.        (* a result set prints at least one table *)

Fixpoint index_of (t : str) (ns : list name) : option nat :=
  match ns with [] => None | n :: r => if name_eqb n (Some t) then Some 0 else option_map S (index_of t r) end.
(** the table of result set [ks] that stepping reads as table [t] *)
Definition table_at (sm : sim) (sh : bool) (ks : list kind) (t : str) : option nat := index_of t (names_of sm sh ks).
Definition expect_idx (sm : sim) (sh : bool) (ks : list kind) (t : str) : nat :=
  match table_at sm sh ks t with Some j => j | None => 0 end.

(** at a short-output result set only the table kinds of [short_types] are printed *)
Definition participates (shorts : list kind) (sh : bool) (t : str) : bool :=
  negb sh || existsb (kind_eqb (kind_of_name t)) shorts.

(** ** well-formed file abstractions and selections *)
Fixpoint kinds_eqb (a b : list kind) : bool :=
  match a, b with [], [] => true | x :: r, y :: s => kind_eqb x y && kinds_eqb r s | _, _ => false end.
Definition is_aut (sm : sim) : bool := match sm with AUT => true | _ => false end.

(** a result set: tables named, distinct and in selection order; short output only in AUTOUGH2
    listings, and every short set prints exactly the tables of [short_types] *)
Definition wf_set (F : hfile) (p : pset) : bool :=
  sorted_set (hsim F) (pshort p) (pkinds p) &&
  (if pshort p then is_aut (hsim F) && kinds_eqb (pkinds p) (hshort_types F) else true).
Definition wf_file (F : hfile) : bool := forallb (wf_set F) (hsets F).
(** the reader only creates tables with the six names of [table_order] *)
Definition wf_metas (ms : list tmeta) : bool := forallb (fun m => mem (m_name m) table_order) ms.

Definition aut_target (t : str) : bool := mem t [n_element; n_connection; n_generation].
(** every selected table that is printed at a scanned result set is among the tables read there *)
Definition covered_set (sm : sim) (shorts : list kind) (sh : bool) (ks : list kind) (targets : list str) : bool :=
  forallb (fun t => if participates shorts sh t then is_some (table_at sm sh ks t) else true) targets.
Definition scanned (short : bool) (p : pset) : bool := negb (pshort p && negb short).
Definition covers (F : hfile) (short : bool) (targets : list str) : bool :=
  forallb (fun p => if scanned short p then covered_set (hsim F) (hshort_types F) (pshort p) (pkinds p) targets else true) (hsets F) &&
  (if is_aut (hsim F) then forallb aut_target targets else true).

(** ** TOUGH+: the selections on which the scan of a result set never returns.
    For consecutive selected tables (p, t):
    - p = primary and t is the table printed right after it: after the rows of [primary] the
      '_____' skip consumes the intro line of the next table, [next_table] then takes that table's
      header underline for an intro and returns None, so the table is passed unseen;
    - t = element2 reached from element1 or connection without both element and element1 selected:
      the element-table counter is passed by value and restarts from the number of SELECTED
      element tables, so the table is given the wrong number. *)
Fixpoint tp_hang_pairs (all : list str) (ks : list kind) (prev : option str) (targets : list str) : bool :=
  match targets with
  | [] => false
  | t :: r =>
      (match prev with
       | None => false
       | Some p =>
           (str_eqb p n_primary &&
            match table_at TP false ks p, table_at TP false ks t with Some jp, Some jt => jt =? S jp | _, _ => false end)
           || (str_eqb t (elem_n 2) && (str_eqb p (elem_n 1) || str_eqb p n_connection) &&
               negb (mem n_element all && mem (elem_n 1) all))
       end) || tp_hang_pairs all ks (Some t) r
  end.
Definition tp_hangs (ks : list kind) (targets : list str) : bool := tp_hang_pairs targets ks None targets.

(** the same for the table layout of the shipped TOUGH+ listings
    (element, element1, connection, primary, element2), as the harness classifies a selection *)
Definition tp_layout : list kind := [KE; KE; KC; KP; KE].
Definition tp_hangs_shipped (targets : list str) : bool :=
  mem (elem_n 2) targets &&
  (mem n_primary targets ||
   ((mem (elem_n 1) targets || mem n_connection targets) && negb (mem n_element targets && mem (elem_n 1) targets))).

(** [fx] = the repository has the repaired skip_to_table_TOUGHplus: the class is empty *)
Definition set_hangs (sm : sim) (fx : bool) (ks : list kind) (targets : list str) : bool :=
  match sm with TP => negb fx && tp_hangs ks targets | _ => false end.
Definition file_hangs (F : hfile) (short : bool) (targets : list str) : bool :=
  existsb (fun p => scanned short p && set_hangs (hsim F) (hfix F) (pkinds p) targets) (hsets F).

(** ** stepping: visit every result set in turn; at each one read the selected tables the way
    [set_index] does (the table filed under that name) *)
Definition land_at (F : hfile) (a : nat) (p : pset) (t : str) : landing :=
  {| l_pos := a; l_at := (a, expect_idx (hsim F) (pshort p) (pkinds p) t) |}.
Definition set_lands (F : hfile) (a : nat) (p : pset) (targets : list str) : list (str * landing) :=
  map (fun t => (t, land_at F a p t)) (filter (participates (hshort_types F) (pshort p)) targets).
Fixpoint step_lands (F : hfile) (short : bool) (targets : list str) (sets : list pset) (a : nat) : list (str * landing) :=
  match sets with
  | [] => []
  | p :: r => (if scanned short p then set_lands F a p targets else []) ++ step_lands F short targets r (S a)
  end.

(** per item: a full result set always shows the row; a short one only when short output is asked
    for, the table kind is printed short, and the row is one of the rows printed there *)
Definition item_reads (F : hfile) (short : bool) (c : conv) (p : pset) : bool :=
  if pshort p then short && participates (hshort_types F) true (c_table c) && is_some (c_ishort c) else true.
Fixpoint item_positions (F : hfile) (short : bool) (c : conv) (sets : list pset) (a : nat) : list landing :=
  match sets with
  | [] => []
  | p :: r => (if item_reads F short c p then [land_at F a p (c_table c)] else []) ++ item_positions F short c r (S a)
  end.
Definition stepping_series (F : hfile) (short : bool) (c : conv) : series :=
  let at_ := item_positions F short c (hsets F) 0 in
  {| s_sign := if c_rev c then (-1)%Z else 1%Z;
     s_times := if length at_ =? nfull F then TFull else TAll;
     s_at := at_ |}.

(** values, for an arbitrary content [cell (position, table index) line column] of the file *)
Definition series_values (cell : nat * nat -> Z -> Z -> Z) (c : conv) (s : series) : list Z :=
  map (fun l => (s_sign s * cell (l_at l) (c_line c) (c_col c))%Z) (s_at s).
(** table[key][column] at every result set in turn; a connection found under the reversed name reads negated *)
Definition stepping_values (cell : nat * nat -> Z -> Z -> Z) (F : hfile) (short : bool) (c : conv) : list Z :=
  map (fun l => let v := cell (l_at l) (c_line c) (c_col c) in if c_rev c then (- v)%Z else v)
      (item_positions F short c (hsets F) 0).

(** positions whose times the returned time array holds: [fulltimes] or [times] *)
Fixpoint positions (full_only : bool) (sets : list pset) (a : nat) : list nat :=
  match sets with
  | [] => []
  | p :: r => (if full_only && pshort p then [] else [a]) ++ positions full_only r (S a)
  end.
Definition times_positions (F : hfile) (ta : tarray) : list nat :=
  positions (match ta with TFull => true | TAll => false end) (hsets F) 0.

(** ** the scan of one result set, without the rest of the file *)
(** TOUGH2 / TOUGH+ : the cursor never leaves the set *)
Fixpoint lscan (sm : sim) (fx : bool) (fuel : nat) (ks : list kind) (targets : list str) (last : name) (nelt : Z) (c : cursor)
  : res (list (str * nat)) :=
  match targets with
  | [] => Ok []
  | t :: rest =>
      match (match sm with
             | TP => tp_skip_to_table fx fuel ks t last nelt c
             | _ => match t2_skip_to_table fuel ks t last c with Ok c' => Ok (c', nelt) | Raise e => Raise e end
             end) with
      | Raise e => Raise e
      | Ok (c', n') =>
          let j := match c' with CAt j _ => j | _ => 0 end in
          let nelt2 := match sm with TP => if fx then n' else (if starts_element t then (nelt + 1)%Z else nelt)
                                | _ => if starts_element t then (nelt + 1)%Z else nelt end in
          match lscan sm fx fuel ks rest (Some t) nelt2 (CAt j SR) with
          | Raise e => Raise e
          | Ok r => Ok ((t, j) :: r)
          end
      end
  end.
(** AUTOUGH2: None when a keyword search leaves the set *)
Fixpoint aut_lscan (shorts : list kind) (sh : bool) (ks : list kind) (targets : list str) (cur : option nat)
  : option (list (str * nat)) :=
  match targets with
  | [] => Some []
  | t :: rest =>
      if participates shorts sh t then
        let first := if sh then hd KE shorts else KE in
        let tc := kind_of_name t in
        let found := if kind_eqb tc first then
                       match cur with
                       | None => match ks with [] => None | _ => Some 0 end
                       | Some j => find_in_set tc ks (S j)
                       end
                     else match cur with None => find_in_set tc ks 1 | Some j => find_in_set tc ks (S j) end in
        match found with
        | None => None
        | Some j => match aut_lscan shorts sh ks rest (Some j) with None => None | Some r => Some ((t, j) :: r) end
        end
      else aut_lscan shorts sh ks rest cur
  end.

Fixpoint lands_eqb (a b : list (str * nat)) : bool :=
  match a, b with
  | [], [] => true
  | (s, i) :: r, (t, j) :: u => str_eqb s t && (i =? j) && lands_eqb r u
  | _, _ => false
  end.
Lemma lands_eqb_eq a : forall b, lands_eqb a b = true -> a = b.
Proof.
  induction a as [|[s i] r IH]; intros [|[t j] u]; cbn [lands_eqb]; try discriminate; [reflexivity|].
  intro H. apply andb_prop in H. destruct H as (H & H3). apply andb_prop in H. destruct H as (H1 & H2).
  apply str_eqb_eq in H1. apply Nat.eqb_eq in H2. rewrite (IH _ H3). congruence.
Qed.

(** the expected result of scanning one set *)
Definition expect_lands (sm : sim) (shorts : list kind) (sh : bool) (ks : list kind) (targets : list str) : list (str * nat) :=
  map (fun t => (t, expect_idx sm sh ks t)) (filter (participates shorts sh) targets).

(** TOUGH2 / TOUGH+ set [ks], selected tables [targets]: at the fuel bound the scan returns exactly
    the tables stepping reads, or runs out of fuel -- the latter exactly when a selected table is
    not in the set or (TOUGH+) the selection is in the hanging class *)
Definition check_local (sm : sim) (fx : bool) (ks : list kind) (targets : list str) : bool :=
  match lscan sm fx (set_bound ks) ks targets None (-1)%Z CStart with
  | Ok r => covered_set sm [] false ks targets && negb (set_hangs sm fx ks targets) &&
            lands_eqb r (expect_lands sm [] false ks targets)
  | Raise _ => negb (covered_set sm [] false ks targets) || set_hangs sm fx ks targets
  end.
Definition check_aut (shorts : list kind) (sh : bool) (ks : list kind) (targets : list str) : bool :=
  match aut_lscan shorts sh ks targets None with
  | Some r => lands_eqb r (expect_lands AUT shorts sh ks targets)
  | None => false
  end.
