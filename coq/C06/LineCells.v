(** C06 -- the line level: what read_table_line returns for a printed row.

    COPIED (read-only source: coq/C05/Model.v and coq/C05/Cells.v, the C05 check's proved line
    model) so that the C06 theorems about which line is read can be composed with the decoding of
    that line's cells: [read_table_line_TOUGH2] / [read_table_line_AUTOUGH2] are the
    transcriptions of t2listing.py:924-933, [cells_decode_tail_thm] says that under a layout
    [start, e1, ..., en] every row rendered with the same field widths -- any cell texts -- is read
    cell by cell as [fortran_float] of the cell text.  C05 validates these definitions against the
    real reader on every run of its own check; C06 re-validates them through its values case. *)
From Coq Require Import Ascii String List Bool Arith ZArith NArith Lia.
From PTBase Require Import Exn PyStr PyNum PyVal.
From PTModel Require Import Fortran.
Import ListNotations.
Open Scope char_scope.

Definition zero : pyval := VFloat (Fin false 0 0).
(** [[fortran_float(line[v[i]: v[i+1]]) for i in range(len(v) - 1)] + [0.0] * (num_columns - (len(v) - 1))] *)
Definition read_table_line_TOUGH2 (line : str) (num_columns : nat) (vals : list Z) : list pyval :=
  map (fun ab => fortran_float (pyslice (Some (fst ab)) (Some (snd ab)) line) zero) (combine vals (tl vals))
  ++ repeat zero (Z.to_nat (Z.of_nat num_columns - (Z.of_nat (length vals) - 1))).
(** [[fortran_float(s) for s in line[start:].strip().split()]] *)
Definition read_table_line_AUTOUGH2 (line : str) (start : Z) : list pyval :=
  map (fun s => fortran_float s zero) (split_ws (strip (pyslice (Some start) None line))).

(** ** slicing *)
Lemma pyslice_nat {A} (a b : nat) (s : list A) : pyslice (Some (Z.of_nat a)) (Some (Z.of_nat b)) s = slice a b s.
Proof.
  unfold pyslice, slice, norm_idx.
  replace (Z.of_nat a <? 0)%Z with false by (symmetry; apply Z.ltb_ge; lia).
  replace (Z.of_nat b <? 0)%Z with false by (symmetry; apply Z.ltb_ge; lia).
  rewrite !Nat2Z.id. set (n := length s).
  destruct (le_lt_dec a n) as [La|La].
  - rewrite (Nat.min_l a n) by lia. destruct (le_lt_dec b n) as [Lb|Lb].
    + rewrite (Nat.min_l b n) by lia. reflexivity.
    + rewrite (Nat.min_r b n) by lia. rewrite !firstn_all2; [reflexivity| |]; rewrite skipn_length; fold n; lia.
  - rewrite (Nat.min_r a n) by lia. rewrite !skipn_all2 by (fold n; lia). rewrite !firstn_nil. reflexivity.
Qed.
Lemma slice_mid {A} (p x y : list A) s : length p <= s -> s - length p <= length x ->
  slice s (length p + length x) (p ++ x ++ y) = skipn (s - length p) x.
Proof.
  intros L1 L2. unfold slice. rewrite skipn_app, (skipn_all2 p) by lia. cbn [app].
  rewrite skipn_app. replace (s - length p - length x) with 0 by lia. cbn [skipn].
  rewrite firstn_app, skipn_length. replace (length p + length x - s - (length x - (s - length p))) with 0 by lia.
  cbn [firstn]. rewrite app_nil_r. apply firstn_all2. rewrite skipn_length. lia.
Qed.
Lemma slice_beyond {A} (l : list A) s e : length l <= s -> slice s e l = [].
Proof. intro L. unfold slice. rewrite skipn_all2 by lia. apply firstn_nil. Qed.

(** ** leading blanks do not change what [fortran_float] reads *)
Lemma lstrip_by_spaces p k t : p " " = true -> lstrip_by p (spaces k ++ t) = lstrip_by p t.
Proof. intro H. unfold spaces. induction k; cbn [repeat app lstrip_by]; [reflexivity|]. rewrite H. exact IHk. Qed.
Lemma strip_by_spaces p k t : p " " = true -> strip_by p (spaces k ++ t) = strip_by p t.
Proof. intro H. unfold strip_by. rewrite (lstrip_by_spaces p k t H). reflexivity. Qed.
Lemma ff_spaces k t bv : fortran_float (spaces k ++ t) bv = fortran_float t bv.
Proof.
  unfold fortran_float, py_float_opt, cstrip, strip.
  rewrite (strip_by_spaces is_cspace k t eq_refl), (strip_by_spaces is_space k t eq_refl). reflexivity.
Qed.
Lemma ff_nil : fortran_float [] zero = zero.
Proof. reflexivity. Qed.

(** ** rows *)
Definition cfield := (nat * str)%type.          (* field width, cell text (any text) *)
Definition ccell (c : cfield) : str := rjust (fst c) (snd c).
Definition cfits (c : cfield) : Prop := length (snd c) <= fst c.
Fixpoint cbody (cs : list cfield) : str := match cs with [] => [] | c :: r => ccell c ++ cbody r end.
(** the layout: running sums of the field widths *)
Fixpoint ends_w (e0 : nat) (ws : list nat) : list nat :=
  match ws with [] => [] | w :: r => (e0 + w) :: ends_w (e0 + w) r end.
(** blanks in front of the first number of the row *)
Definition first_lead (cs : list cfield) : nat := match cs with [] => 0 | c :: _ => fst c - length (snd c) end.

Definition cellval (line : str) (xy : nat * nat) : pyval := fortran_float (slice (fst xy) (snd xy) line) zero.

Lemma ccell_length c : cfits c -> length (ccell c) = fst c.
Proof. intro H. unfold ccell. rewrite rjust_length. unfold cfits in H. lia. Qed.

Lemma zeros_beyond line ws : forall e s, length line <= s -> length line <= e ->
  map (cellval line) (combine (s :: ends_w e ws) (ends_w e ws)) = repeat zero (length ws).
Proof.
  induction ws as [|w r IH]; intros e s Ls Le; [reflexivity|].
  cbn [ends_w combine map length repeat]. unfold cellval at 1. cbn [fst snd].
  rewrite (slice_beyond line s _ Ls), ff_nil. f_equal. apply IH; lia.
Qed.

Lemma cells_nat ws : forall cs A s,
  map fst cs = firstn (length cs) ws -> Forall cfits cs ->
  length A <= s -> s <= length A + first_lead cs ->
  map (cellval (A ++ cbody cs)) (combine (s :: ends_w (length A) ws) (ends_w (length A) ws))
  = map (fun c => fortran_float (snd c) zero) cs ++ repeat zero (length ws - length cs).
Proof.
  induction ws as [|w r IH]; intros cs A s Hw Hf L1 L2.
  - destruct cs; [reflexivity|discriminate].
  - destruct cs as [|c cs'].
    + cbn [cbody map app length]. rewrite app_nil_r. rewrite Nat.sub_0_r. apply zeros_beyond; lia.
    + cbn [length firstn map] in Hw. inversion Hw as [[Hw1 Hw2]]. inversion Hf as [|? ? Hc Hf']; subst.
      cbn [ends_w combine map cbody app]. f_equal.
      * unfold cellval. cbn [fst snd]. rewrite <- (ccell_length c Hc) at 1. rewrite slice_mid; [| lia |].
        2:{ rewrite (ccell_length c Hc). cbn [first_lead] in L2. lia. }
        unfold ccell, rjust. cbn [first_lead] in L2. rewrite skipn_app, spaces_length.
        replace (s - length A - (fst c - length (snd c))) with 0 by lia. cbn [skipn].
        replace (skipn (s - length A) (spaces (fst c - length (snd c)))) with (spaces (fst c - length (snd c) - (s - length A))).
        2:{ unfold spaces. generalize (fst c - length (snd c)) (s - length A). intros n d. revert d.
            induction n; intro d; destruct d; cbn [repeat skipn Nat.sub]; try reflexivity. apply IHn. }
        apply ff_spaces.
      * specialize (IH cs' (A ++ ccell c) (length A + fst c) Hw2 Hf').
        rewrite app_length, (ccell_length c Hc) in IH. rewrite <- app_assoc in IH. cbn [length].
        replace (S (length r) - S (length cs')) with (length r - length cs') by lia.
        apply IH; lia.
Qed.

Lemma ends_w_length ws : forall e, length (ends_w e ws) = length ws.
Proof. induction ws as [|w r IH]; intro e; cbn [ends_w length]; [reflexivity|]. rewrite IH. reflexivity. Qed.

(** ** the theorem about the reader of TOUGH2-family rows *)
Theorem cells_decode_thm pre cs ws s0 ncols :
  map fst cs = firstn (length cs) ws -> Forall cfits cs ->
  length pre <= s0 -> s0 <= length pre + first_lead cs ->
  read_table_line_TOUGH2 (pre ++ cbody cs) ncols (Z.of_nat s0 :: map Z.of_nat (ends_w (length pre) ws))
  = map (fun c => fortran_float (snd c) zero) cs
    ++ repeat zero (length ws - length cs) ++ repeat zero (ncols - length ws).
Proof.
  intros Hw Hf L1 L2. unfold read_table_line_TOUGH2. cbn [tl length].
  rewrite map_length.
  rewrite ends_w_length.
  replace (Z.to_nat (Z.of_nat ncols - (Z.of_nat (S (length ws)) - 1))) with (ncols - length ws) by lia.
  rewrite app_assoc. f_equal.
  rewrite <- (cells_nat ws cs pre s0 Hw Hf L1 L2).
  change (Z.of_nat s0 :: map Z.of_nat (ends_w (length pre) ws)) with (map Z.of_nat (s0 :: ends_w (length pre) ws)).
  generalize (s0 :: ends_w (length pre) ws) as xs. generalize (ends_w (length pre) ws) as ys.
  induction ys as [|y ys IH]; intros xs; destruct xs as [|x xs]; cbn [map combine]; try reflexivity.
  rewrite IH. f_equal. cbn [fst snd]. unfold cellval. cbn [fst snd]. rewrite pyslice_nat. reflexivity.
Qed.

(** ** the AUTOUGH2 reader splits on white space: the words after [start] are decoded one by one *)
Theorem autough2_cells line start :
  read_table_line_AUTOUGH2 line start
  = map (fun w => fortran_float w zero) (split_ws (strip (pyslice (Some start) None line))).
Proof. reflexivity. Qed.

(** ** rows with something after the last printed cell

    A printed row is its cells followed by a tail (the line terminator, trailing blanks): when the row
    has a cell for every field of the layout the tail is never looked at; when the row is short
    (blank trailing cells) the tail must be white space, and the fields it reaches read as zero. *)
Definition blank_str (t : str) : Prop := forallb is_space t = true.
Lemma ff_blank_str t : blank_str t -> fortran_float t zero = zero.
Proof.
  intro H. apply ff_blank. unfold strip, strip_by, rstrip_by. rewrite (lstrip_by_all _ _ H). reflexivity.
Qed.
Lemma forallb_firstn {A} (p : A -> bool) k l : forallb p l = true -> forallb p (firstn k l) = true.
Proof. revert k; induction l as [|x l IH]; intros [|k] H; cbn in *; try reflexivity. apply andb_prop in H as [H1 H2]. rewrite H1, IH by exact H2. reflexivity. Qed.
Lemma forallb_skipn {A} (p : A -> bool) k l : forallb p l = true -> forallb p (skipn k l) = true.
Proof. revert k; induction l as [|x l IH]; intros [|k] H; cbn in *; try reflexivity; [exact H|]. apply andb_prop in H as [H1 H2]. apply IH. exact H2. Qed.
Lemma blank_slice_tail (A t : str) s e : blank_str t -> length A <= s -> blank_str (slice s e (A ++ t)).
Proof.
  intros H L. unfold blank_str, slice. rewrite skipn_app, (skipn_all2 A) by lia. cbn [app].
  apply forallb_firstn, forallb_skipn. exact H.
Qed.
Lemma zeros_tail (A t : str) ws : forall e s, blank_str t -> length A <= s -> length A <= e ->
  map (cellval (A ++ t)) (combine (s :: ends_w e ws) (ends_w e ws)) = repeat zero (length ws).
Proof.
  induction ws as [|w r IH]; intros e s Ht Ls Le; [reflexivity|].
  cbn [ends_w combine map length repeat]. unfold cellval at 1. cbn [fst snd].
  rewrite (ff_blank_str _ (blank_slice_tail A t s (e + w) Ht Ls)). f_equal. apply IH; [exact Ht|lia|lia].
Qed.

Lemma cells_nat_tail ws : forall cs A s t,
  map fst cs = firstn (length cs) ws -> Forall cfits cs ->
  length A <= s -> s <= length A + first_lead cs -> (length cs = length ws \/ blank_str t) ->
  map (cellval (A ++ cbody cs ++ t)) (combine (s :: ends_w (length A) ws) (ends_w (length A) ws))
  = map (fun c => fortran_float (snd c) zero) cs ++ repeat zero (length ws - length cs).
Proof.
  induction ws as [|w r IH]; intros cs A s t Hw Hf L1 L2 Ht.
  - destruct cs; [reflexivity|discriminate].
  - destruct cs as [|c cs'].
    + cbn [cbody map app length]. rewrite Nat.sub_0_r. destruct Ht as [Ht|Ht]; [discriminate|]. apply zeros_tail; [exact Ht|lia|lia].
    + cbn [length firstn map] in Hw. inversion Hw as [[Hw1 Hw2]]. inversion Hf as [|? ? Hc Hf']; subst.
      cbn [ends_w combine map cbody app]. f_equal.
      * unfold cellval. cbn [fst snd]. rewrite <- (ccell_length c Hc) at 1. rewrite <- app_assoc. rewrite slice_mid; [| lia |].
        2:{ rewrite (ccell_length c Hc). cbn [first_lead] in L2. lia. }
        unfold ccell, rjust. cbn [first_lead] in L2. rewrite skipn_app, spaces_length.
        replace (s - length A - (fst c - length (snd c))) with 0 by lia. cbn [skipn].
        replace (skipn (s - length A) (spaces (fst c - length (snd c)))) with (spaces (fst c - length (snd c) - (s - length A))).
        2:{ unfold spaces. generalize (fst c - length (snd c)) (s - length A). intros n d. revert d.
            induction n; intro d; destruct d; cbn [repeat skipn Nat.sub]; try reflexivity. apply IHn. }
        apply ff_spaces.
      * specialize (IH cs' (A ++ ccell c) (length A + fst c) t Hw2 Hf').
        rewrite app_length, (ccell_length c Hc) in IH. rewrite <- !app_assoc in IH. rewrite <- app_assoc. cbn [length].
        replace (S (length r) - S (length cs')) with (length r - length cs') by lia.
        apply IH; [lia|lia|]. destruct Ht as [Ht|Ht]; [left; cbn [length] in Ht; lia|right; exact Ht].
Qed.

(** the theorem about the reader of TOUGH2-family rows, with a tail *)
Theorem cells_decode_tail_thm pre cs ws s0 ncols t :
  map fst cs = firstn (length cs) ws -> Forall cfits cs ->
  length pre <= s0 -> s0 <= length pre + first_lead cs -> (length cs = length ws \/ blank_str t) ->
  read_table_line_TOUGH2 (pre ++ cbody cs ++ t) ncols (Z.of_nat s0 :: map Z.of_nat (ends_w (length pre) ws))
  = map (fun c => fortran_float (snd c) zero) cs
    ++ repeat zero (length ws - length cs) ++ repeat zero (ncols - length ws).
Proof.
  intros Hw Hf L1 L2 Ht. unfold read_table_line_TOUGH2. cbn [tl length].
  rewrite map_length.
  rewrite ends_w_length.
  replace (Z.to_nat (Z.of_nat ncols - (Z.of_nat (S (length ws)) - 1))) with (ncols - length ws) by lia.
  rewrite (app_assoc (map (fun c => fortran_float (snd c) zero) cs)). f_equal.
  rewrite <- (cells_nat_tail ws cs pre s0 t Hw Hf L1 L2 Ht).
  change (Z.of_nat s0 :: map Z.of_nat (ends_w (length pre) ws)) with (map Z.of_nat (s0 :: ends_w (length pre) ws)).
  generalize (s0 :: ends_w (length pre) ws) as xs. generalize (ends_w (length pre) ws) as ys.
  induction ys as [|y ys IH]; intros xs; destruct xs as [|x xs]; cbn [map combine]; try reflexivity.
  rewrite IH. f_equal. cbn [fst snd]. unfold cellval. cbn [fst snd]. rewrite pyslice_nat. reflexivity.
Qed.
