(** C06 -- t2listing.history() over a marker abstraction of the listing file.

    A file is abstracted to the list of its result-set positions ([self._pos]: for AUTOUGH2 the
    short-output sets too) and, per position, the sequence of table KINDS in file order, as
    [next_table] classifies them.  The cursor of the scan is a table index plus a sub-position
    (at the header line / inside the rows / after the intro line / after the end marker), which
    is exactly what the marker searches [skipto('@@@@@')], [skipto('_____')], [next_table]
    can tell apart.  Falling off the current result set is the sink [COff]: [next_table]
    returns None there for ever (file offset beyond [_fullpos[index+1]], or EOF where [skipto]
    returns False without advancing), so [while tname != tablename] can only spin.

    Loops of the code are fuel-recursive and return [Raise OutOfFuel] when the fuel is used up.
    t2listing.py:553-589 (skip_to_table_X), 512-551 (next_table_X), 955-1089 (history). *)
From Coq Require Import Ascii String List Bool Arith ZArith NArith Lia ZifyBool.
From PTBase Require Import Exn PyStr PyVal.
Import ListNotations.
Open Scope Z_scope.

Inductive sim := AUT | T2 | TP.                       (* reader family: AUTOUGH2 / TOUGH2 (+MP, TOUGH3, TOUGHREACT) / TOUGH+ *)
Inductive kind := KE | KC | KP | KG | KU.             (* table_type: element / connection / primary / generation / None *)
Definition name := option str.                        (* a table name as the code holds it; None = Python None *)

Definition kind_eqb (a b : kind) : bool :=
  match a, b with KE, KE | KC, KC | KP, KP | KG, KG | KU, KU => true | _, _ => false end.
Lemma kind_eqb_eq a b : kind_eqb a b = true <-> a = b.
Proof. destruct a, b; cbn; split; intro H; try reflexivity; try discriminate. Qed.

Definition name_eqb (a b : name) : bool :=
  match a, b with Some x, Some y => str_eqb x y | None, None => true | _, _ => false end.
Lemma name_eqb_eq a b : name_eqb a b = true <-> a = b.
Proof.
  destruct a, b; cbn; split; intro H; try reflexivity; try discriminate.
  - apply str_eqb_eq in H. congruence.
  - inversion H. apply str_eqb_refl.
Qed.

Definition n_element : str := s2l "element".
Definition n_connection : str := s2l "connection".
Definition n_primary : str := s2l "primary".
Definition n_generation : str := s2l "generation".
Definition elem_n (n : Z) : str := (n_element ++ z_to_str n)%list.          (* 'element' + str(n) *)

(** the fixed table order of [ordered_selection] *)
Definition table_order : list str := [n_element; elem_n 1; n_connection; n_primary; elem_n 2; n_generation].

(** name given to a table of kind k by the TOUGH2 scan (table_type_TOUGH2) *)
Definition t2_name (k : kind) : name :=
  match k with KE => Some n_element | KC => Some n_connection | KP => Some n_primary | KG => Some n_generation | KU => None end.

Definition starts_element (s : str) : bool := prefix n_element s.          (* tname.startswith('element') *)
Definition first_char (s : str) : ascii := match s with c :: _ => upper_c c | [] => " "%char end.
Definition kind_char (k : kind) : ascii := match k with KE => "E" | KC => "C" | KP => "P" | KG => "G" | KU => "?" end%char.

(** ** cursors *)
Inductive sub := SH | SR | SI | SE.          (* at header / in rows / after the '_____' intro line / after the end marker *)
Inductive cursor := CStart | CAt (j : nat) (s : sub) | COff.

Definition kind_at (ks : list kind) (j : nat) : option kind := nth_error ks j.
Definition step_to (ks : list kind) (j : nat) (s : sub) : cursor := if (j <? length ks)%nat then CAt j s else COff.

(** *** TOUGH+ : tables are introduced by a '_____' line, the header is underlined by another
    one, every table except [primary] ends with '@@@@@' ([primary] ends at the next intro line) *)
Fixpoint first_at_marker (ks : list kind) (j : nat) (fuel : nat) : cursor :=     (* first table index >= j that has an '@@@@@' end line *)
  match fuel with
  | O => COff
  | S f => match kind_at ks j with
           | None => COff
           | Some KP => first_at_marker ks (S j) f
           | Some _ => CAt j SE
           end
  end.
Definition tp_skipto_at (ks : list kind) (c : cursor) : cursor :=                (* skipto('@@@@@', 0) *)
  match c with
  | CStart => first_at_marker ks 0 (S (length ks))
  | CAt j SE => first_at_marker ks (S j) (S (length ks))
  | CAt j _ => first_at_marker ks j (S (length ks))
  | COff => COff
  end.
Definition tp_skipto_us (ks : list kind) (c : cursor) : cursor :=                (* skipto('_____', 0) *)
  match c with
  | CStart => step_to ks 0 SR
  | CAt j SH | CAt j SI => CAt j SR              (* the underline below the header *)
  | CAt j SR | CAt j SE => step_to ks (S j) SI   (* the intro line of the next table *)
  | COff => COff
  end.
(** next_table_TOUGHplus: skipto('_____',0); readline(); [beyond the next result set -> None];
    the first three words of the following line go to table_type *)
Definition tp_next_table (ks : list kind) (c : cursor) : cursor * option kind :=
  match tp_skipto_us ks c with
  | CAt j SI => (CAt j SH, kind_at ks j)         (* intro line found, blank skipped, header peeked *)
  | CAt j _ => (CAt j SR, None)                  (* the underline was taken for an intro: a data row is no header *)
  | c' => (c', None)
  end.
Definition tp_name (k : option kind) (nelt : Z) : name * Z :=
  match k with
  | Some KE => (Some (elem_n (nelt + 1)), nelt + 1)      (* nelt_tables += 1; tname += str(nelt_tables) *)
  | Some KC => (Some n_connection, nelt)
  | Some KP => (Some n_primary, nelt)
  | Some KG => (Some n_generation, nelt)
  | _ => (None, nelt)
  end.
(** [fx]: which skip_to_table_TOUGHplus the repository has.  false = the code as found (the caller's
    element-table counter arrives by value and the callee's increments are lost; a '_____' skip
    whenever the current table is primary); true = the repaired one of proposed_fixes/C06-*.diff
    (the counter lives in the reader and survives between calls; no '_____' skip when the rows of
    primary have just been read).  The harness picks the variant the code under test shows. *)
Fixpoint tp_loop (fuel : nat) (ks : list kind) (target : str) (c : cursor) (tn : name) (nelt : Z) (inrows : bool) : res (cursor * Z) :=
  if name_eqb tn (Some target) then Ok (c, nelt) else                           (* while tname != tablename: *)
  match fuel with
  | O => Raise OutOfFuel
  | S f =>
      let c1 := if name_eqb tn (Some n_primary) then (if inrows then c else tp_skipto_us ks c) else tp_skipto_at ks c in
      let (c2, k) := tp_next_table ks c1 in
      let (tn', nelt') := tp_name k nelt in
      tp_loop f ks target c2 tn' nelt' false
  end.
(** returns the cursor and the callee's final counter (which only the repaired code keeps) *)
Definition tp_skip_to_table (fx : bool) (fuel : nat) (ks : list kind) (target : str) (last : name) (nelt : Z) (c : cursor) : res (cursor * Z) :=
  match last with
  | None => tp_loop fuel ks target (step_to ks 0 SH) (Some n_element) 0 false   (* skipto('=====',0); skip_to_nonblank; nelt_tables = 0 *)
  | Some l => tp_loop fuel ks target c (Some l) nelt fx                         (* as found: nelt_tables is the caller's value *)
  end.

(** *** TOUGH2: every table ends with '@@@@@'; later tables are preceded by a KCYC/ITER line *)
Definition t2_skipto_at (ks : list kind) (c : cursor) : cursor :=
  match c with
  | CStart => step_to ks 0 SE
  | CAt j SE => step_to ks (S j) SE
  | CAt j _ => CAt j SE
  | COff => COff
  end.
Definition t2_next_table (ks : list kind) (c : cursor) : cursor * option kind :=
  match c with
  | CStart => (step_to ks 1 SH, kind_at ks 1)
  | CAt j _ => (step_to ks (S j) SH, kind_at ks (S j))
  | COff => (COff, None)
  end.
Fixpoint t2_loop (fuel : nat) (ks : list kind) (target : str) (c : cursor) (tn : name) : res cursor :=
  if name_eqb tn (Some target) then Ok c else
  match fuel with
  | O => Raise OutOfFuel
  | S f =>
      let (c2, k) := t2_next_table ks (t2_skipto_at ks c) in
      t2_loop f ks target c2 (match k with Some k => t2_name k | None => None end)
  end.
Definition t2_skip_to_table (fuel : nat) (ks : list kind) (target : str) (last : name) (c : cursor) : res cursor :=
  match last with
  | None => t2_loop fuel ks target (step_to ks 0 SH) (Some n_element)           (* skipto('@@@@@'); skip_to_nonblank *)
  | Some l => t2_loop fuel ks target c (Some l)
  end.

(** *** AUTOUGH2: keyword-delimited tables; no loop in skip_to_table, but [skipto] runs to EOF when a
    keyword is missing and [skip_to_nonblank] then spins there.  The search crosses result sets, so
    the cursor is global: (position, table index). *)
Record pset := { pshort : bool; pkinds : list kind }.
Inductive gcursor := GStart (a : nat) | GAt (a j : nat) | GOff.

Fixpoint find_in_set (c : kind) (ks : list kind) (j : nat) : option nat :=      (* first index >= j of kind c *)
  match ks with
  | [] => None
  | k :: r => match j with
              | O => if kind_eqb k c then Some 0%nat else option_map S (find_in_set c r 0)
              | S j' => option_map S (find_in_set c r j')
              end
  end.
Fixpoint find_later (c : kind) (sh : bool) (sets : list pset) (a : nat) : gcursor :=   (* in the sets after position a *)
  match sets with
  | [] => GOff
  | p :: r => match (if Bool.eqb (pshort p) sh then find_in_set c (pkinds p) 0 else None) with
              | Some j => GAt a j
              | None => find_later c sh r (S a)
              end
  end.
Definition aut_find (c : kind) (sh : bool) (sets : list pset) (a : nat) (from : nat) : gcursor :=
  match nth_error sets a with
  | None => GOff
  | Some p => match (if Bool.eqb (pshort p) sh then find_in_set c (pkinds p) from else None) with
              | Some j => GAt a j
              | None => find_later c sh (skipn (S a) sets) (S a)
              end
  end.
Fixpoint spin (fuel : nat) : res gcursor :=                (* skip_to_nonblank at EOF: while not readline().strip() *)
  match fuel with O => Raise OutOfFuel | S f => spin f end.
Definition kind_of_name (s : str) : kind :=
  match first_char s with "E"%char => KE | "C"%char => KC | "P"%char => KP | "G"%char => KG | _ => KU end.
(** [ipos] is [self._index] (shortness and first keyword come from there), [c] the actual cursor *)
Definition aut_skip_to_table (fuel : nat) (sets : list pset) (short_first : kind) (ipos : nat) (target : str) (c : gcursor) : res gcursor :=
  let sh := match nth_error sets ipos with Some p => pshort p | None => false end in
  let first := if sh then short_first else KE in
  let tc := kind_of_name target in
  let c' := if kind_eqb tc first then
              match c with GStart a => (match nth_error sets a with Some p => (match pkinds p with [] => GOff | _ => GAt a 0 end) | None => GOff end)
                         | GAt a j => aut_find tc sh sets a (S j)      (* not reachable from history: the first table is selected first *)
                         | GOff => GOff end
            else match c with GStart a => aut_find tc sh sets a 1 | GAt a j => aut_find tc sh sets a (S j) | GOff => GOff end in
  match c' with GOff => spin fuel | _ => Ok c' end.

(** ** the history scan *)
Record hfile := { hsim : sim; hfix : bool; hshort_types : list kind; hsets : list pset }.

(** one landing: position scanned, and where the rows were actually read (position, table index) *)
Record landing := { l_pos : nat; l_at : nat * nat }.

(** the inner [for (tname, tselect, tselect_short) in tableselection] at position [a] *)
Fixpoint scan_tables (fuel : nat) (F : hfile) (a : nat) (ks : list kind) (is_short : bool)
         (targets : list str) (last : name) (nelt : Z) (c : cursor) (g : gcursor) : res (list (str * landing)) :=
  match targets with
  | [] => Ok []
  | t :: rest =>
      let participates := negb is_short || existsb (kind_eqb (kind_of_name t)) (hshort_types F) in
      if participates then
        match hsim F with
        | AUT =>
            match aut_skip_to_table fuel (hsets F) (hd KE (hshort_types F)) a t g with
            | Raise e => Raise e
            | Ok g' =>
                let at_ := match g' with GAt a' j' => (a', j') | _ => (a, 0%nat) end in
                match scan_tables fuel F a ks is_short rest (Some t) (if starts_element t then nelt + 1 else nelt) c g' with
                | Raise e => Raise e
                | Ok r => Ok ((t, {| l_pos := a; l_at := at_ |}) :: r)
                end
            end
        | T2 =>
            match t2_skip_to_table fuel ks t last c with
            | Raise e => Raise e
            | Ok c' =>
                let j := match c' with CAt j _ => j | _ => 0%nat end in
                (* skip_to_results_line; readline ... : now inside the rows *)
                match scan_tables fuel F a ks is_short rest (Some t) (if starts_element t then nelt + 1 else nelt) (CAt j SR) g with
                | Raise e => Raise e
                | Ok r => Ok ((t, {| l_pos := a; l_at := (a, j) |}) :: r)
                end
            end
        | TP =>
            match tp_skip_to_table (hfix F) fuel ks t last nelt c with
            | Raise e => Raise e
            | Ok (c', n') =>
                let j := match c' with CAt j _ => j | _ => 0%nat end in
                (* as found: history's own counter counts the selected element tables; repaired: the reader's counter *)
                let nelt2 := if hfix F then n' else (if starts_element t then nelt + 1 else nelt) in
                match scan_tables fuel F a ks is_short rest (Some t) nelt2 (CAt j SR) g with
                | Raise e => Raise e
                | Ok r => Ok ((t, {| l_pos := a; l_at := (a, j) |}) :: r)
                end
            end
        end
      else scan_tables fuel F a ks is_short rest (Some t) nelt c g           (* last_tname = tname all the same *)
  end.

(** [for ipos, pos in enumerate(self._pos)] *)
Fixpoint scan_sets (fuel : nat) (F : hfile) (short : bool) (targets : list str) (sets : list pset) (a : nat) : res (list (str * landing)) :=
  match sets with
  | [] => Ok []
  | p :: r =>
      if pshort p && negb short then scan_sets fuel F short targets r (S a)
      else match scan_tables fuel F a (pkinds p) (pshort p) targets None (-1) CStart (GStart a) with
           | Raise e => Raise e
           | Ok l => match scan_sets fuel F short targets r (S a) with Raise e => Raise e | Ok l' => Ok (l ++ l') end
           end
  end.

(** ** selections ([ordered_selection]) *)
Inductive key := KeyInt (i : Z) | KeyName (k : list Z).       (* a row given by index, or by (tuple of) block name(s) *)
Record item := { i_spec : str; i_key : key; i_col : Z }.
Record tmeta := { m_name : str; m_keys : list (list Z); m_rowline : option (list Z); m_rev : bool; m_short : list (Z * Z) }.
Record conv := { c_table : str; c_line : Z; c_ishort : option Z; c_rev : bool; c_col : Z }.

Definition spec_name (t : str) : option str :=                 (* tablename_from_specification *)
  match t with
  | [] => None
  | c0 :: _ =>
      let base := match lower_c c0 with
                  | "e"%char => Some n_element | "c"%char => Some n_connection
                  | "g"%char => Some n_generation | "p"%char => Some n_primary | _ => None end in
      match base with
      | None => None
      | Some b => let lc := last t c0 in Some (if is_digit lc then (b ++ [lc])%list else b)
      end
  end.
Fixpoint keys_eqb (a b : list Z) : bool :=
  match a, b with [] , [] => true | x :: r, y :: s => (x =? y) && keys_eqb r s | _, _ => false end.
(** dict([(r,i) for i,r in enumerate(rows)]): the LAST row with that name wins *)
Fixpoint lookup_from (ks : list (list Z)) (k : list Z) (i : Z) (acc : option Z) : option Z :=
  match ks with [] => acc | x :: r => lookup_from r k (i + 1) (if keys_eqb x k then Some i else acc) end.
Definition lookup (ks : list (list Z)) (k : list Z) : option Z := lookup_from ks k 0 None.
Definition find_meta (ms : list tmeta) (n : str) : option tmeta := find (fun m => str_eqb (m_name m) n) ms.
Fixpoint assoc (l : list (Z * Z)) (k : Z) : option Z :=
  match l with [] => None | (a, b) :: r => if a =? k then Some b else assoc r k end.

Definition convert (ms : list tmeta) (it : item) : res (option conv) :=
  match spec_name (i_spec it) with
  | None => Ok None
  | Some tn =>
      match find_meta ms tn with
      | None => Ok None                                           (* if tablename in tables *)
      | Some m =>
          let r := match i_key it with
                   | KeyInt i => Some (i, false)
                   | KeyName k =>
                       match lookup (m_keys m) k with
                       | Some i => Some (i, false)
                       | None => if (1 <? Z.of_nat (length k)) && m_rev m then
                                   match lookup (m_keys m) (rev k) with Some i => Some (i, true) | None => None end
                                 else None
                       end
                   end in
          match r with
          | None => Ok None
          | Some (i, rv) =>
              match (match m_rowline m with
                     | Some ((_ :: _) as rl) => match pyindex i rl with Some l => Ok l | None => Raise IndexError end   (* row_line[index] *)
                     | _ => Ok i end) with
              | Raise e => Raise e
              | Ok line => Ok (Some {| c_table := tn; c_line := line; c_ishort := assoc (m_short m) line; c_rev := rv; c_col := i_col it |})
              end
          end
      end
  end.

Definition selected_tables (cs : list (option conv)) : list str :=
  filter (fun t => existsb (fun c => match c with Some c => str_eqb (c_table c) t | None => false end) cs) table_order.

(** ** history *)
Record hstate := { h_idx : Z; h_time : Z; h_step : Z; h_tabs : list (list Z); h_cur : Z }.
Definition hobserve (s : hstate) := (h_idx s, h_time s, h_step s, h_tabs s).

Inductive tarray := TFull | TAll.                    (* self.fulltimes / self.times *)
Record series := { s_sign : Z; s_times : tarray; s_at : list landing }.
Inductive hresult := HNone | HSeries (l : list (option series)).      (* per selection item; None = item dropped *)

Definition nfull (F : hfile) : nat := length (filter (fun p => negb (pshort p)) (hsets F)).

Definition item_series (F : hfile) (lands : list (str * landing)) (c : conv) : series :=
  let mine := filter (fun p => str_eqb (fst p) (c_table c)) lands in
  (* at a short position only rows that occur in the short table are read *)
  let mine := filter (fun p => match nth_error (hsets F) (l_pos (snd p)) with
                               | Some ps => if pshort ps then (match c_ishort c with Some _ => true | None => false end) else true
                               | None => true end) mine in
  {| s_sign := if c_rev c then -1 else 1;
     s_times := if (length mine =? nfull F)%nat then TFull else TAll;
     s_at := map snd mine |}.

Definition history (fuel : nat) (F : hfile) (ms : list tmeta) (sel : list item) (short : bool) (s : hstate)
  : res (hresult * hstate) :=
  (* old_index = self.index *)
  match mapM (convert ms) sel with
  | Raise e => Raise e
  | Ok cs =>
      let targets := selected_tables cs in
      match targets with
      | [] => Ok (HNone, s)                                           (* return None before rewinding *)
      | _ =>
          match scan_sets fuel F short targets (hsets F) 0 with
          | Raise e => Raise e
          | Ok lands =>
              (* self._index = old_index; _time, _step and the table arrays were never written;
                 the file offset stays where the scan ended *)
              Ok (HSeries (map (option_map (item_series F lands)) cs),
                  {| h_idx := h_idx s; h_time := h_time s; h_step := h_step s; h_tabs := h_tabs s;
                     h_cur := Z.of_nat (length (hsets F)) |})
          end
      end
  end.
