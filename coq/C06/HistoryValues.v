(** C06 -- the VALUE history() returns for an item at one table of one result set, and that it is
    the number printed there.

    After skip_to_table the scan stands at the table's header; history() then runs
      skip_to_results_line(expected_floats)   -- first line with >= expected_floats matches of '\.[0-9]+'
      readline() counting up to the item's line index            (HistoryRows.read_items)
      vals = read_table_line(line, ncols, fmt);  sgn * vals[_col[colname]]        (LineCells)
    [read_cell] is that computation on the text of the file.  For a table that is printed the way
    TOUGH2 prints tables (every data line = key/index prefix of fixed length + right-justified cells
    in the field widths of the layout + a tail) the result is [fortran_float] of the cell text of
    the row's (last) printed line: the number printed in that row and column. *)
From Coq Require Import Ascii String List Bool Arith ZArith NArith Lia.
From PTBase Require Import Exn PyStr PyNum PyVal.
From PTModel Require Import Fortran.
From P Require Import ListingHistory HistoryFuel HistorySpec HistoryProofs HistoryRows LineCells.
Import ListNotations.
Open Scope char_scope.

(** ** the reader's steps *)
(** len(findall('\.[0-9]+', line)): a match starts at a '.', so matches cannot overlap *)
Fixpoint count_dd (s : str) : nat :=
  match s with
  | c :: ((d :: _) as r) => (if ceqb c "." && is_digit d then 1 else 0) + count_dd r
  | _ => 0
  end.
Definition is_results_line (ef : nat) (line : str) : bool := (ef <=? count_dd line)%nat.
(** skip_to_results_line: index of the first results line; None = the end of the file is reached,
    where readline() returns '' for ever and the loop never ends *)
Fixpoint skip_to_results (ef : nat) (lines : list str) : option nat :=
  match lines with
  | [] => None
  | l :: r => if is_results_line ef l then Some O else option_map S (skip_to_results ef r)
  end.

Record tfmt := { f_ef : nat;            (* table_expected_floats *)
                 f_ncols : nat;         (* table.num_columns *)
                 f_vals : list Z;       (* row_format['values'] *)
                 f_aut : option Z }.    (* AUTOUGH2: Some row_format['values'][0] *)
Definition read_row (f : tfmt) (line : str) : list pyval :=
  match f_aut f with
  | Some st => read_table_line_AUTOUGH2 line st
  | None => read_table_line_TOUGH2 line (f_ncols f) (f_vals f)
  end.
(** sgn * value, sgn = -1.0 for a connection found under its reversed name *)
Definition fneg (v : pyval) : pyval :=
  match v with
  | VFloat (Fin n m e) => VFloat (Fin (negb n) m e)
  | VFloat (Inf n) => VFloat (Inf (negb n))
  | v => v
  end.
Definition signed (rev : bool) (v : pyval) : pyval := if rev then fneg v else v.

(** one item at one table: [lines] = the text from the scan position on *)
Definition read_cell (f : tfmt) (lines : list str) (lineindex col : nat) : res pyval :=
  match skip_to_results (f_ef f) lines with
  | None => Raise OutOfFuel
  | Some k => match nth_error (read_row f (nth (k + lineindex) lines [])) col with
              | Some v => Ok v
              | None => Raise IndexError
              end
  end.

(** ** a printed table *)
Record rrow := { r_pre : str; r_cells : list cfield; r_tail : str }.
Definition rtext (r : rrow) : str := r_pre r ++ cbody (r_cells r) ++ r_tail r.
(** prefix length e0, value start s0, field widths ws: the table's row_format *)
Definition wf_rrow (e0 s0 : nat) (ws : list nat) (r : rrow) : Prop :=
  length (r_pre r) = e0 /\ map fst (r_cells r) = firstn (length (r_cells r)) ws /\ Forall cfits (r_cells r) /\
  (e0 <= s0 /\ s0 <= e0 + first_lead (r_cells r))%nat /\ (length (r_cells r) = length ws \/ blank_str (r_tail r)).
Definition fmt_vals (e0 s0 : nat) (ws : list nat) : list Z := Z.of_nat s0 :: map Z.of_nat (ends_w e0 ws).

Lemma read_row_rendered f e0 s0 ws r col c : f_aut f = None -> f_vals f = fmt_vals e0 s0 ws -> wf_rrow e0 s0 ws r ->
  nth_error (r_cells r) col = Some c -> nth_error (read_row f (rtext r)) col = Some (fortran_float (snd c) zero).
Proof.
  intros A V (L & W & Fi & (B1 & B2) & T) N. unfold read_row, rtext. rewrite A, V. unfold fmt_vals. subst e0.
  rewrite (cells_decode_tail_thm (r_pre r) (r_cells r) ws s0 (f_ncols f) (r_tail r) W Fi B1 B2 T).
  rewrite nth_error_app1 by (rewrite map_length; apply (proj1 (nth_error_Some (r_cells r) col)); rewrite N; discriminate).
  rewrite nth_error_map. unfold cfield in *. rewrite N. reflexivity.
Qed.

Lemma skip_to_results_prelude ef prelude l0 rest :
  forallb (fun l => negb (is_results_line ef l)) prelude = true -> is_results_line ef l0 = true ->
  skip_to_results ef (prelude ++ l0 :: rest) = Some (length prelude).
Proof.
  induction prelude as [|p r IH]; intros H H0; cbn [app skip_to_results length].
  - rewrite H0. reflexivity.
  - cbn [forallb] in H. apply andb_prop in H. destruct H as (H1 & H2). apply negb_true_iff in H1. rewrite H1.
    rewrite (IH H2 H0). reflexivity.
Qed.

Lemma nth_app_skip {A} (p l : list A) k d : nth (length p + k) (p ++ l) d = nth k l d.
Proof. rewrite app_nth2 by lia. f_equal. lia. Qed.

(** *** TOUGH2-family tables (TOUGH2, TOUGH2_MP, TOUGH3, TOUGHREACT, TOUGH+) *)
(** [prelude]: header, units, blank lines -- none with expected_floats numbers; [texts]: the lines
    from the first results line on; [ds]: the data lines among them (HistoryRows), each rendered *)
Record t2_table (f : tfmt) (prelude texts : list str) (ds : list dline) (rr : dline -> rrow) : Prop := {
  tt_kind : f_aut f = None;
  tt_fmt : exists e0 s0 ws, f_vals f = fmt_vals e0 s0 ws /\ forall d, In d ds -> wf_rrow e0 s0 ws (rr d);
  tt_prelude : forallb (fun l => negb (is_results_line (f_ef f) l)) prelude = true;
  tt_first : match texts with l0 :: _ => is_results_line (f_ef f) l0 = true | [] => False end;
  tt_lines : forall d, In d ds -> nth_error texts (d_off d) = Some (rtext (rr d));
  tt_keys : wf_keys ds }.

Lemma row_of_in ds i d : row_of ds i = Some d -> In d ds.
Proof.
  unfold row_of. rewrite last_with_spec. destruct (last_sat _ ds None) as [d'|] eqn:E; [|discriminate].
  intro H. inversion H. subst. destruct (last_sat_in _ _ _ _ E) as [(I1 & _)|X]; [exact I1|discriminate].
Qed.

(** the value history() computes for row r, column col = the number printed in that column of the
    line that stepping leaves in row r (the last printed copy of the row) *)
Lemma t2_value_printed f prelude texts ds rr : t2_table f prelude texts ds rr ->
  forall r i, nth_error (indices ds) r = Some i ->
  exists d, stepped_line ds r = Some d /\ In d ds /\ nth_error (row_line ds) r = Some (d_off d) /\
            forall col c, nth_error (r_cells (rr d)) col = Some c ->
              read_cell f (prelude ++ texts) (d_off d) col = Ok (fortran_float (snd c) zero).
Proof.
  intros [K (e0 & s0 & ws & V & W) P Fi L Ky] r i H.
  destruct (row_eq_stepping ds Ky r i H) as (d & S & R & RL & _).
  pose proof (row_of_in _ _ _ R) as I. exists d. repeat split; try assumption.
  intros col c N. unfold read_cell. destruct texts as [|l0 rest]; [contradiction|].
  rewrite (skip_to_results_prelude _ _ _ _ P Fi), nth_app_skip.
  rewrite (nth_error_nth _ _ _ (L d I)).
  rewrite (read_row_rendered f e0 s0 ws (rr d) col c K V (W d I) N). reflexivity.
Qed.

(** *** AUTOUGH2 tables: rows on consecutive lines, cells separated by white space *)
Lemma aut_value_printed f st prelude texts lineindex line words col w :
  f_aut f = Some st -> forallb (fun l => negb (is_results_line (f_ef f) l)) prelude = true ->
  match texts with l0 :: _ => is_results_line (f_ef f) l0 = true | [] => False end ->
  nth_error texts lineindex = Some line -> split_ws (strip (pyslice (Some st) None line)) = words ->
  nth_error words col = Some w ->
  read_cell f (prelude ++ texts) lineindex col = Ok (fortran_float w zero).
Proof.
  intros A P Fi N W C. unfold read_cell. destruct texts as [|l0 rest]; [contradiction|].
  rewrite (skip_to_results_prelude _ _ _ _ P Fi), nth_app_skip, (nth_error_nth _ _ _ N).
  unfold read_row. rewrite A. unfold read_table_line_AUTOUGH2. rewrite W, nth_error_map, C. reflexivity.
Qed.

(** ** the series of an item, computed from the text of the file *)
(** [content (position, table index)] = the table's format and the text from the scan position on *)
Definition hist_values (content : nat * nat -> tfmt * list str) (c : conv) (s : series) : list (res pyval) :=
  map (fun l => match read_cell (fst (content (l_at l))) (snd (content (l_at l))) (Z.to_nat (c_line c)) (Z.to_nat (c_col c)) with
                | Ok v => Ok (signed (s_sign s <? 0)%Z v)
                | Raise e => Raise e
                end) (s_at s).

(** the number printed for the item at a landing: every table the item is read from is a printed
    table in the sense above and the item's line index is the row_line entry of a row *)
Definition printed_at (f : tfmt) (lines : list str) (lineindex col : nat) (txt : str) : Prop :=
  (exists prelude texts ds rr r i d c,
     lines = prelude ++ texts /\ t2_table f prelude texts ds rr /\ nth_error (indices ds) r = Some i /\
     nth_error (row_line ds) r = Some lineindex /\ stepped_line ds r = Some d /\
     nth_error (r_cells (rr d)) col = Some c /\ snd c = txt) \/
  (exists st prelude texts line,
     lines = prelude ++ texts /\ f_aut f = Some st /\
     forallb (fun l => negb (is_results_line (f_ef f) l)) prelude = true /\
     match texts with l0 :: _ => is_results_line (f_ef f) l0 = true | [] => False end /\
     nth_error texts lineindex = Some line /\
     nth_error (split_ws (strip (pyslice (Some st) None line))) col = Some txt).

Lemma printed_at_read f lines lineindex col txt : printed_at f lines lineindex col txt ->
  read_cell f lines lineindex col = Ok (fortran_float txt zero).
Proof.
  intros [(prelude & texts & ds & rr & r & i & d & c & -> & T & H & RL & S & N & <-)|
          (st & prelude & texts & line & -> & A & P & Fi & N & C)].
  - destruct (t2_value_printed f prelude texts ds rr T r i H) as (d' & S' & _ & RL' & V).
    assert (d' = d) by congruence. subst d'. assert (d_off d = lineindex) by congruence. subst lineindex.
    apply (V col c N).
  - apply (aut_value_printed f st prelude texts lineindex line _ col txt A P Fi N eq_refl C).
Qed.

Lemma values_printed (content : nat * nat -> tfmt * list str) (txt : nat * nat -> str) F short c :
  (forall l, In l (item_positions F short c (hsets F) 0) ->
     printed_at (fst (content (l_at l))) (snd (content (l_at l))) (Z.to_nat (c_line c)) (Z.to_nat (c_col c)) (txt (l_at l))) ->
  hist_values content c (stepping_series F short c) =
  map (fun l => Ok (signed (c_rev c) (fortran_float (txt (l_at l)) zero))) (item_positions F short c (hsets F) 0).
Proof.
  intro H. unfold hist_values, stepping_series. cbn [s_at s_sign].
  apply map_ext_in. intros l I. rewrite (printed_at_read _ _ _ _ _ (H l I)). destruct (c_rev c); reflexivity.
Qed.

(** the composition with the line-selection theorem: whenever the call returns, every value of every
    returned series is the printed number (negated for a reversed connection name) *)
Definition item_ok (content : nat * nat -> tfmt * list str) (txt : conv -> nat * nat -> str) (F : hfile) (short : bool)
           (oc : option conv) (os : option series) : Prop :=
  match oc, os with
  | Some c, Some sr =>
      hist_values content c sr =
      map (fun l => Ok (signed (c_rev c) (fortran_float (txt c (l_at l)) zero))) (item_positions F short c (hsets F) 0) /\
      map l_pos (s_at sr) = times_positions F (s_times sr)
  | None, None => True
  | _, _ => False
  end.
Lemma history_values fuel F ms sel short s cs l s' content txt :
  wf_file F = true -> wf_metas ms = true -> mapM (convert ms) sel = Ok cs -> covers F short (selected_tables cs) = true ->
  history fuel F ms sel short s = Ok (HSeries l, s') ->
  (forall c, In (Some c) cs -> forall ld, In ld (item_positions F short c (hsets F) 0) ->
     printed_at (fst (content (l_at ld))) (snd (content (l_at ld))) (Z.to_nat (c_line c)) (Z.to_nat (c_col c)) (txt c (l_at ld))) ->
  Forall2 (item_ok content txt F short) cs l.
Proof.
  intros WF WM M CV H P. rewrite (eq_stepping fuel F ms sel short s cs l s' WF WM M CV H).
  clear H M CV. induction cs as [|oc r IH]; cbn [map]; constructor.
  - destruct oc as [c|]; cbn [option_map item_ok]; [|exact I]. split.
    + apply values_printed. intros ld I. apply (P c (or_introl eq_refl) ld I).
    + apply stepping_series_times.
  - apply IH. intros c I. apply P. right. exact I.
Qed.

(** a concrete printed table: three rows, row 2 printed twice with different numbers, a blank line and
    a repeated header in between; history's value for row 2 / column 2 is the LAST printed number *)
Definition ex_fmt : tfmt := {| f_ef := 2; f_ncols := 2; f_vals := fmt_vals 12 12 [12; 12]; f_aut := None |}.
Definition ex_row (k : string) (a b : string) : rrow :=
  {| r_pre := s2l k; r_cells := [(12, s2l a); (12, s2l b)]%nat; r_tail := [] |}.
Definition ex_prelude : list str := [s2l " ELEM.  INDEX      P           T"; s2l "               (PA)     (DEG-C)"; []].
Definition ex_texts : list str :=
  [rtext (ex_row " A1  1     1" "0.100000E+06" "0.200000E+02"); rtext (ex_row " A1  2     2" "0.110000E+06" "-.210000E+02"); [];
   s2l " ELEM.  INDEX      P           T"; rtext (ex_row " A1  3     3" "0.120000E+06" "0.220000E+02");
   rtext (ex_row " A1  2     2" "0.115000E+06" "-.215000E+02")].
Lemma ex_value : read_cell ex_fmt (ex_prelude ++ ex_texts) 5 1 = Ok (VFloat (Fin true 215000 (-4))) /\
                 row_line ds_ex = [0; 5; 4]%nat.
Proof. split; vm_compute; reflexivity. Qed.
