(** C06 -- which result sets an item is read at and which time array it is paired with, in closed form. *)
From Coq Require Import Ascii String List Bool Arith ZArith NArith Lia.
From PTBase Require Import Exn PyStr PyVal.
From P Require Import ListingHistory HistoryFuel HistorySpec HistoryProofs.
Import ListNotations.
Open Scope nat_scope.

(** the item is one that short-output sets show: short output asked for, its table kind printed short, its row printed there *)
Definition in_short (F : hfile) (short : bool) (c : conv) : bool :=
  short && participates (hshort_types F) true (c_table c) && is_some (c_ishort c).

Lemma item_reads_closed F short c p : item_reads F short c p = if pshort p then in_short F short c else true.
Proof. reflexivity. Qed.

Lemma item_positions_closed F short c : forall sets a,
  map l_pos (item_positions F short c sets a) = positions (negb (in_short F short c)) sets a.
Proof.
  induction sets as [|p r IH]; intro a; cbn [item_positions positions]; [reflexivity|].
  rewrite map_app, IH, item_reads_closed. f_equal.
  destruct (pshort p), (in_short F short c); reflexivity.
Qed.

Lemma item_positions_len_full F short c : in_short F short c = false -> forall sets a,
  length (item_positions F short c sets a) = length (filter (fun p => negb (pshort p)) sets).
Proof.
  intro E. induction sets as [|p r IH]; intro a; cbn [item_positions filter]; [reflexivity|].
  rewrite app_length, IH, item_reads_closed, E. destruct (pshort p); reflexivity.
Qed.

Lemma item_positions_len_all F short c : in_short F short c = true -> forall sets a,
  length (item_positions F short c sets a) = length sets.
Proof.
  intro E. induction sets as [|p r IH]; intro a; cbn [item_positions]; [reflexivity|].
  rewrite app_length, IH, item_reads_closed, E. destruct (pshort p); reflexivity.
Qed.

Lemma filter_len_le {A} (f : A -> bool) : forall l, length (filter f l) <= length l.
Proof. induction l as [|x l IH]; cbn [filter length]; [lia|]. destruct (f x); cbn [length]; lia. Qed.
Lemma full_lt : forall sets, existsb pshort sets = true -> length (filter (fun p => negb (pshort p)) sets) < length sets.
Proof.
  induction sets as [|x l IH]; cbn [existsb filter length]; [discriminate|].
  pose proof (filter_len_le (fun p => negb (pshort p)) l) as LE. destruct (pshort x); cbn [negb orb length]; intro Hx; [|apply IH in Hx]; lia.
Qed.

Lemma times_choice F short c :
  map l_pos (s_at (stepping_series F short c)) = positions (negb (in_short F short c)) (hsets F) 0 /\
  (in_short F short c = false -> s_times (stepping_series F short c) = TFull) /\
  (in_short F short c = true -> existsb pshort (hsets F) = true -> s_times (stepping_series F short c) = TAll).
Proof.
  unfold stepping_series. cbn [s_at s_times]. split; [apply item_positions_closed|]. split; intro E.
  - rewrite (item_positions_len_full F short c E). unfold nfull. rewrite Nat.eqb_refl. reflexivity.
  - intro X. rewrite (item_positions_len_all F short c E). unfold nfull.
    assert (L : length (filter (fun p => negb (pshort p)) (hsets F)) < length (hsets F)).
    { apply full_lt. exact X. }
    destruct (Nat.eqb_spec (length (hsets F)) (length (filter (fun p => negb (pshort p)) (hsets F)))); [lia|reflexivity].
Qed.

(** with short = False every item is read at exactly the full-output result sets and paired with fulltimes *)
Lemma short_false_full F c :
  map l_pos (s_at (stepping_series F false c)) = times_positions F TFull /\ s_times (stepping_series F false c) = TFull.
Proof.
  destruct (times_choice F false c) as (A & B & _). split; [exact A|apply B; reflexivity].
Qed.

(** both cases occur: in the AUTOUGH2 example file (short sets present) the first item of [sel_aut] is a row the short
    output does not print, the second one is *)
Lemma example_times : existsb pshort (hsets F_aut) = true /\ exists c0 c1 c2,
  mapM (convert ms_aut) sel_aut = Ok [Some c0; Some c1; Some c2] /\ in_short F_aut true c0 = false /\ in_short F_aut true c1 = true.
Proof.
  split; [vm_compute; reflexivity|].
  destruct (mapM (convert ms_aut) sel_aut) as [[|[c0|] [|[c1|] [|[c2|] [|? ?]]]]|] eqn:M; try (vm_compute in M; discriminate).
  exists c0, c1, c2. split; [reflexivity|]. vm_compute in M. inversion M. subst. split; vm_compute; reflexivity.
Qed.

(** values and times pair up: an item has exactly as many values as the time array returned with it has entries *)
Lemma values_times_same_length cell F short c :
  length (stepping_values cell F short c) = length (times_positions F (s_times (stepping_series F short c))).
Proof.
  rewrite <- (stepping_series_times F short c). unfold stepping_values, stepping_series. cbn [s_at].
  rewrite !map_length. reflexivity.
Qed.
