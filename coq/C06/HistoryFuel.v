(** C06 -- fuel: every loop of the history model either finishes within an explicit number of
    iterations or has reached a state it can never leave (cursor off the result set, current
    table name None), so running with the bound DECIDES termination.

    [fuel_ok b g]: the fuel-indexed computation [g] (1) keeps an [Ok] result when given more
    fuel, (2) does not depend on the fuel once it is >= b, (3) raises nothing but OutOfFuel. *)
From Coq Require Import Ascii String List Bool Arith ZArith NArith Lia ZifyBool.
From PTBase Require Import Exn PyStr PyVal.
From P Require Import ListingHistory.
Import ListNotations.
Open Scope nat_scope.

Definition fuel_ok {A} (b : nat) (g : nat -> res A) : Prop :=
  (forall f f' r, f <= f' -> g f = Ok r -> g f' = Ok r) /\
  (forall f f', b <= f -> b <= f' -> g f = g f') /\
  (forall f e, g f = Raise e -> e = OutOfFuel).

Lemma fuel_ok_const {A} b (x : A) : fuel_ok b (fun _ => Ok x).
Proof. repeat split; intros; try assumption; try reflexivity; discriminate. Qed.

Lemma fuel_ok_oof {A} b : fuel_ok (A := A) b (fun _ => Raise OutOfFuel).
Proof. repeat split; intros; try assumption; try reflexivity; congruence. Qed.

Lemma fuel_ok_weaken {A} b b' (g : nat -> res A) : b <= b' -> fuel_ok b g -> fuel_ok b' g.
Proof. intros L (M & S & E). repeat split; [exact M| |exact E]. intros; apply S; lia. Qed.

Lemma fuel_ok_ext {A} b (g g' : nat -> res A) : (forall f, g f = g' f) -> fuel_ok b g -> fuel_ok b g'.
Proof.
  intros X (M & S & E). repeat split.
  - intros f f' r L H. rewrite <- X in *. eauto.
  - intros f f' L1 L2. rewrite <- !X. auto.
  - intros f e H. rewrite <- X in H. eauto.
Qed.

Lemma fuel_ok_bind {A B} b (g : nat -> res A) (h : A -> nat -> res B) :
  fuel_ok b g -> (forall x, fuel_ok b (h x)) ->
  fuel_ok b (fun f => match g f with Ok x => h x f | Raise e => Raise e end).
Proof.
  intros (M & S & E) H. repeat split.
  - intros f f' r L. destruct (g f) eqn:G; [|discriminate]. rewrite (M _ _ _ L G).
    intro K. destruct (H a) as (M' & _). eauto.
  - intros f f' L1 L2. rewrite (S f f' L1 L2). destruct (g f'); [|reflexivity].
    destruct (H a) as (_ & S' & _). auto.
  - intros f e. destruct (g f) eqn:G.
    + destruct (H a) as (_ & _ & E'). apply E'.
    + intro K. inversion K. subst. eauto.
Qed.

(** running with the bound decides *)
Lemma fuel_decides {A} b (g : nat -> res A) : fuel_ok b g ->
  forall e, g b = Raise e -> forall f, g f = Raise OutOfFuel.
Proof.
  intros (M & S & E) e Hb f.
  assert (e = OutOfFuel) by eauto. subst e.
  destruct (Nat.le_gt_cases b f) as [L|L].
  - rewrite <- Hb. apply S; lia.
  - destruct (g f) eqn:G.
    + rewrite (M f b a) in Hb; [discriminate|lia|exact G].
    + f_equal. eauto.
Qed.

Lemma fuel_ok_stable {A} b (g : nat -> res A) : fuel_ok b g -> forall f, b <= f -> g f = g b.
Proof. intros (_ & S & _) f L. apply S; lia. Qed.

(** ** a generic fuel loop with a measure and an absorbing set of states *)
Section GenLoop.
  Context {St R : Type} (done : St -> bool) (out : St -> R) (step : St -> St).
  Context (mu : St -> nat) (stuck : St -> Prop).
  Hypothesis stuck_spin : forall s, stuck s -> done s = false /\ stuck (step s).
  Hypothesis progress : forall s, done s = false -> stuck (step s) \/ mu (step s) < mu s.

  Fixpoint gloop (fuel : nat) (s : St) : res R :=
    if done s then Ok (out s) else
    match fuel with O => Raise OutOfFuel | S f => gloop f (step s) end.

  Lemma gloop_eq fuel s : gloop fuel s =
    if done s then Ok (out s) else match fuel with O => Raise OutOfFuel | S f => gloop f (step s) end.
  Proof. destruct fuel; reflexivity. Qed.

  Lemma gloop_mono : forall f f' s r, f <= f' -> gloop f s = Ok r -> gloop f' s = Ok r.
  Proof.
    induction f as [|f IH]; intros f' s r L; rewrite (gloop_eq _ s), (gloop_eq f' s); destruct (done s); auto.
    - discriminate.
    - destruct f' as [|f']; [lia|]. apply IH. lia.
  Qed.

  Lemma gloop_raises : forall f s e, gloop f s = Raise e -> e = OutOfFuel.
  Proof.
    induction f as [|f IH]; intros s e; rewrite gloop_eq; destruct (done s); try discriminate.
    - congruence.
    - apply IH.
  Qed.

  Lemma gloop_stuck : forall f s, stuck s -> gloop f s = Raise OutOfFuel.
  Proof.
    induction f as [|f IH]; intros s H; rewrite gloop_eq; destruct (stuck_spin s H) as (D & N); rewrite D; auto.
  Qed.

  Lemma gloop_stable : forall f f' s, mu s < f -> mu s < f' -> gloop f s = gloop f' s.
  Proof.
    induction f as [|f IH]; intros f' s L1 L2; [lia|].
    destruct f' as [|f']; [lia|].
    rewrite (gloop_eq (S f)), (gloop_eq (S f')). destruct (done s) eqn:D; [reflexivity|].
    destruct (progress s D) as [K|K].
    - rewrite !gloop_stuck by exact K. reflexivity.
    - apply IH; lia.
  Qed.

  Lemma gloop_fuel_ok s b : mu s < b -> fuel_ok b (fun f => gloop f s).
  Proof.
    intro L. repeat split.
    - intros; eapply gloop_mono; eauto.
    - intros; apply gloop_stable; lia.
    - intros; eapply gloop_raises; eauto.
  Qed.
End GenLoop.

(** ** the measure: what of the result set is still ahead of the cursor *)
Definition subw (s : sub) : nat := match s with SH | SI => 1 | SR | SE => 0 end.
Definition rem (ks : list kind) (c : cursor) : nat :=
  match c with CStart => 2 * length ks + 2 | CAt j s => 2 * (length ks - j) + subw s | COff => 0 end.

Lemma step_to_cases ks j s : (j < length ks /\ step_to ks j s = CAt j s) \/ (length ks <= j /\ step_to ks j s = COff).
Proof. unfold step_to. destruct (Nat.ltb_spec j (length ks)); [left|right]; auto. Qed.

Lemma kind_at_off ks j : length ks <= j -> kind_at ks j = None.
Proof. intro. apply nth_error_None. assumption. Qed.

Lemma first_at_marker_cases ks : forall fuel j,
  first_at_marker ks j fuel = COff \/ exists j', first_at_marker ks j fuel = CAt j' SE /\ j <= j' < length ks.
Proof.
  induction fuel as [|f IH]; intro j; cbn [first_at_marker]; [left; reflexivity|].
  destruct (kind_at ks j) as [k|] eqn:K; [|left; reflexivity].
  assert (j < length ks) by (apply nth_error_Some; unfold kind_at in K; congruence).
  destruct k; try (right; exists j; split; [reflexivity|lia]).
  destruct (IH (S j)) as [E|(j' & E & L)]; [left; exact E|right; exists j'; split; [exact E|lia]].
Qed.

(** the marker searches never move the cursor back *)
Lemma t2_skipto_at_le ks c : rem ks (t2_skipto_at ks c) <= rem ks c.
Proof.
  destruct c as [|j s|]; cbn [t2_skipto_at].
  - destruct (step_to_cases ks 0 SE) as [(L & E)|(L & E)]; rewrite E; cbn [rem subw]; lia.
  - destruct s; cbn [rem subw]; try lia.
    destruct (step_to_cases ks (S j) SE) as [(L & E)|(L & E)]; rewrite E; cbn [rem subw]; lia.
  - cbn [rem]. lia.
Qed.
Lemma tp_skipto_us_le ks c : rem ks (tp_skipto_us ks c) <= rem ks c.
Proof.
  destruct c as [|j s|]; cbn [tp_skipto_us].
  - destruct (step_to_cases ks 0 SR) as [(L & E)|(L & E)]; rewrite E; cbn [rem subw]; lia.
  - destruct s; cbn [rem subw]; try lia;
      destruct (step_to_cases ks (S j) SI) as [(L & E)|(L & E)]; rewrite E; cbn [rem subw]; lia.
  - cbn [rem]. lia.
Qed.
Lemma tp_skipto_at_le ks c : rem ks (tp_skipto_at ks c) <= rem ks c.
Proof.
  assert (X : forall j0 m, 2 * (length ks - j0) <= m -> rem ks (first_at_marker ks j0 (S (length ks))) <= m).
  { intros j0 m L. destruct (first_at_marker_cases ks (S (length ks)) j0) as [E|(j' & E & L')]; rewrite E; cbn [rem subw]; lia. }
  destruct c as [|j s|]; cbn [tp_skipto_at].
  - apply X. cbn [rem]. lia.
  - destruct s; cbn [rem subw]; apply X; lia.
  - cbn [rem]. lia.
Qed.

(** [next_table] moves strictly on, or leaves the result set for good (and then names no table) *)
Lemma t2_next_table_lt ks c : let (c2, k) := t2_next_table ks c in (c2 = COff /\ k = None) \/ rem ks c2 < rem ks c.
Proof.
  destruct c as [|j s|]; cbn [t2_next_table].
  - destruct (step_to_cases ks 1 SH) as [(L & E)|(L & E)]; rewrite E; [right; cbn [rem subw]; lia|left; split; [reflexivity|apply kind_at_off; exact L]].
  - destruct (step_to_cases ks (S j) SH) as [(L & E)|(L & E)]; rewrite E; [right; cbn [rem subw]; lia|left; split; [reflexivity|apply kind_at_off; exact L]].
  - left. split; reflexivity.
Qed.
Lemma tp_next_table_lt ks c : let (c2, k) := tp_next_table ks c in (c2 = COff /\ k = None) \/ rem ks c2 < rem ks c.
Proof.
  unfold tp_next_table. destruct c as [|j s|]; cbn [tp_skipto_us].
  - destruct (step_to_cases ks 0 SR) as [(L & E)|(L & E)]; rewrite E; [right; cbn [rem subw]; lia|left; split; reflexivity].
  - destruct s; try (right; cbn [rem subw]; lia);
      destruct (step_to_cases ks (S j) SI) as [(L & E)|(L & E)]; rewrite E; [right; cbn [rem subw]; lia|left; split; reflexivity|right; cbn [rem subw]; lia|left; split; reflexivity].
  - left. split; reflexivity.
Qed.

Definition set_bound (ks : list kind) : nat := 2 * length ks + 3.
Lemma rem_lt_bound ks c : rem ks c < set_bound ks.
Proof. unfold set_bound. destruct c as [|j s|]; cbn [rem]; [lia| |lia]. destruct s; cbn [subw]; lia. Qed.

(** *** TOUGH2 *)
Section T2Loop.
  Variable ks : list kind.
  Variable target : str.
  Definition t2_done (s : cursor * name) := name_eqb (snd s) (Some target).
  Definition t2_step (s : cursor * name) : cursor * name :=
    let (c2, k) := t2_next_table ks (t2_skipto_at ks (fst s)) in
    (c2, match k with Some k => t2_name k | None => None end).
  Definition t2_stuck (s : cursor * name) := s = (COff, None).
  Definition t2_mu (s : cursor * name) := rem ks (fst s).

  Lemma t2_loop_gloop : forall f c tn, t2_loop f ks target c tn = gloop t2_done fst t2_step f (c, tn).
  Proof.
    induction f as [|f IH]; intros c tn; cbn [t2_loop gloop]; unfold t2_done; cbn [snd fst];
      destruct (name_eqb tn (Some target)); try reflexivity.
    unfold t2_step. cbn [fst]. destruct (t2_next_table ks (t2_skipto_at ks c)) as [c2 k]. apply IH.
  Qed.

  Lemma t2_stuck_spin s : t2_stuck s -> t2_done s = false /\ t2_stuck (t2_step s).
  Proof. intro H. rewrite H. split; reflexivity. Qed.

  Lemma t2_progress s : t2_done s = false -> t2_stuck (t2_step s) \/ t2_mu (t2_step s) < t2_mu s.
  Proof.
    intros _. destruct s as [c tn]. unfold t2_stuck, t2_mu, t2_step. cbn [fst].
    pose proof (t2_skipto_at_le ks c) as L1. pose proof (t2_next_table_lt ks (t2_skipto_at ks c)) as L2.
    destruct (t2_next_table ks (t2_skipto_at ks c)) as [c2 k]. destruct L2 as [(-> & ->)|L2]; [left; reflexivity|right; cbn [fst]; lia].
  Qed.

  Lemma t2_loop_fuel_ok c tn : fuel_ok (set_bound ks) (fun f => t2_loop f ks target c tn).
  Proof.
    eapply fuel_ok_ext; [intro f; symmetry; apply t2_loop_gloop|].
    apply gloop_fuel_ok with (mu := t2_mu) (stuck := t2_stuck).
    - apply t2_stuck_spin.
    - apply t2_progress.
    - unfold t2_mu. cbn [fst]. apply rem_lt_bound.
  Qed.
End T2Loop.

Lemma t2_skip_fuel_ok ks target last c : fuel_ok (set_bound ks) (fun f => t2_skip_to_table f ks target last c).
Proof. unfold t2_skip_to_table. destruct last; apply t2_loop_fuel_ok. Qed.

(** *** TOUGH+ (both variants) *)
Section TPLoop.
  Variable ks : list kind.
  Variable target : str.
  Definition tpst : Type := cursor * name * Z * bool.
  Definition tp_done (s : tpst) := let '(c, tn, nelt, ir) := s in name_eqb tn (Some target).
  Definition tp_step (s : tpst) : tpst :=
    let '(c, tn, nelt, ir) := s in
    let c1 := if name_eqb tn (Some n_primary) then (if ir then c else tp_skipto_us ks c) else tp_skipto_at ks c in
    let (c2, k) := tp_next_table ks c1 in
    let (tn', nelt') := tp_name k nelt in (c2, tn', nelt', false).
  Definition tp_out (s : tpst) : cursor * Z := let '(c, tn, nelt, ir) := s in (c, nelt).
  Definition tp_stuck (s : tpst) := let '(c, tn, nelt, ir) := s in c = COff /\ tn = None.
  Definition tp_mu (s : tpst) := let '(c, tn, nelt, ir) := s in rem ks c.

  Lemma tp_loop_gloop : forall f c tn nelt ir, tp_loop f ks target c tn nelt ir = gloop tp_done tp_out tp_step f (c, tn, nelt, ir).
  Proof.
    induction f as [|f IH]; intros c tn nelt ir; cbn [tp_loop gloop tp_done tp_out];
      destruct (name_eqb tn (Some target)); try reflexivity.
    cbn [tp_step].
    destruct (tp_next_table ks (if name_eqb tn (Some n_primary) then if ir then c else tp_skipto_us ks c else tp_skipto_at ks c)) as [c2 k].
    destruct (tp_name k nelt) as [tn' nelt']. apply IH.
  Qed.

  Lemma tp_stuck_spin s : tp_stuck s -> tp_done s = false /\ tp_stuck (tp_step s).
  Proof. destruct s as [[[c tn] nelt] ir]. cbn [tp_stuck]. intros (-> & ->). split; [reflexivity|]. cbn. split; reflexivity. Qed.

  Lemma tp_progress s : tp_done s = false -> tp_stuck (tp_step s) \/ tp_mu (tp_step s) < tp_mu s.
  Proof.
    intros _. destruct s as [[[c tn] nelt] ir]. cbn [tp_step tp_mu].
    set (c1 := if name_eqb tn (Some n_primary) then if ir then c else tp_skipto_us ks c else tp_skipto_at ks c).
    assert (L1 : rem ks c1 <= rem ks c).
    { unfold c1. destruct (name_eqb tn (Some n_primary)); [destruct ir; [lia|apply tp_skipto_us_le]|apply tp_skipto_at_le]. }
    pose proof (tp_next_table_lt ks c1) as L2. destruct (tp_next_table ks c1) as [c2 k].
    destruct L2 as [(-> & ->)|L2].
    - left. cbn. split; reflexivity.
    - right. destruct (tp_name k nelt). cbn [tp_mu]. lia.
  Qed.

  Lemma tp_loop_fuel_ok c tn nelt ir : fuel_ok (set_bound ks) (fun f => tp_loop f ks target c tn nelt ir).
  Proof.
    eapply fuel_ok_ext; [intro f; symmetry; apply tp_loop_gloop|].
    apply gloop_fuel_ok with (mu := tp_mu) (stuck := tp_stuck).
    - apply tp_stuck_spin.
    - apply tp_progress.
    - cbn [tp_mu]. apply rem_lt_bound.
  Qed.
End TPLoop.

Lemma tp_skip_fuel_ok fx ks target last nelt c : fuel_ok (set_bound ks) (fun f => tp_skip_to_table fx f ks target last nelt c).
Proof. unfold tp_skip_to_table. destruct last; apply tp_loop_fuel_ok. Qed.

(** *** AUTOUGH2: no loop in skip_to_table; a missing keyword ends in [skip_to_nonblank] spinning at EOF *)
Lemma spin_oof : forall f, spin f = Raise OutOfFuel.
Proof. induction f; cbn [spin]; auto. Qed.

Lemma aut_skip_fuel_ok b sets sf ipos target c : fuel_ok b (fun f => aut_skip_to_table f sets sf ipos target c).
Proof.
  unfold aut_skip_to_table.
  match goal with |- fuel_ok _ (fun f => match ?X with _ => _ end) => destruct X end.
  - apply fuel_ok_const.
  - apply fuel_ok_const.
  - eapply fuel_ok_ext; [intro f; symmetry; apply spin_oof|apply fuel_ok_oof].
Qed.

(** ** the scan of one result set, of all result sets, and the call *)
Fixpoint sets_bound (sets : list pset) : nat :=
  match sets with [] => 0 | p :: r => Nat.max (set_bound (pkinds p)) (sets_bound r) end.
(** the explicit fuel bound of a file: 2 n + 3 for the largest number n of tables in a result set *)
Definition fuel_bound (F : hfile) : nat := sets_bound (hsets F).

Lemma scan_tables_fuel_ok F a ks sh : forall targets last nelt c g,
  fuel_ok (set_bound ks) (fun f => scan_tables f F a ks sh targets last nelt c g).
Proof.
  induction targets as [|t rest IH]; intros last nelt c g; cbn [scan_tables]; [apply fuel_ok_const|].
  destruct (negb sh || existsb (kind_eqb (kind_of_name t)) (hshort_types F)); [|apply IH].
  destruct (hsim F) eqn:S.
  - apply (fuel_ok_bind (set_bound ks) (fun f => aut_skip_to_table f (hsets F) (hd KE (hshort_types F)) a t g)
            (fun g' f => match scan_tables f F a ks sh rest (Some t) (if starts_element t then (nelt + 1)%Z else nelt) c g' with
                         | Raise e => Raise e
                         | Ok r => Ok ((t, {| l_pos := a; l_at := match g' with GAt a' j' => (a', j') | _ => (a, 0) end |}) :: r) end)).
    + apply aut_skip_fuel_ok.
    + intro g'. apply (fuel_ok_bind (set_bound ks) _ (fun r _ => Ok ((t, {| l_pos := a; l_at := match g' with GAt a' j' => (a', j') | _ => (a, 0) end |}) :: r))).
      * apply IH.
      * intro r. apply fuel_ok_const.
  - apply (fuel_ok_bind (set_bound ks) (fun f => t2_skip_to_table f ks t last c)
            (fun c' f => match scan_tables f F a ks sh rest (Some t) (if starts_element t then (nelt + 1)%Z else nelt) (CAt (match c' with CAt j _ => j | _ => 0 end) SR) g with
                         | Raise e => Raise e
                         | Ok r => Ok ((t, {| l_pos := a; l_at := (a, match c' with CAt j _ => j | _ => 0 end) |}) :: r) end)).
    + apply t2_skip_fuel_ok.
    + intro c'. apply (fuel_ok_bind (set_bound ks) _ (fun r _ => Ok ((t, {| l_pos := a; l_at := (a, match c' with CAt j _ => j | _ => 0 end) |}) :: r))).
      * apply IH.
      * intro r. apply fuel_ok_const.
  - apply (fuel_ok_bind (set_bound ks) (fun f => tp_skip_to_table (hfix F) f ks t last nelt c)
            (fun x f => let (c', n') := x in
                        match scan_tables f F a ks sh rest (Some t) (if hfix F then n' else if starts_element t then (nelt + 1)%Z else nelt) (CAt (match c' with CAt j _ => j | _ => 0 end) SR) g with
                        | Raise e => Raise e
                        | Ok r => Ok ((t, {| l_pos := a; l_at := (a, match c' with CAt j _ => j | _ => 0 end) |}) :: r) end)).
    + apply tp_skip_fuel_ok.
    + intros [c' n']. apply (fuel_ok_bind (set_bound ks) _ (fun r _ => Ok ((t, {| l_pos := a; l_at := (a, match c' with CAt j _ => j | _ => 0 end) |}) :: r))).
      * apply IH.
      * intro r. apply fuel_ok_const.
Qed.

Lemma scan_sets_fuel_ok F short targets : forall sets a,
  fuel_ok (sets_bound sets) (fun f => scan_sets f F short targets sets a).
Proof.
  induction sets as [|p r IH]; intro a; cbn [scan_sets sets_bound]; [apply fuel_ok_const|].
  destruct (pshort p && negb short).
  - eapply fuel_ok_weaken; [|apply IH]. lia.
  - apply (fuel_ok_bind _ (fun f => scan_tables f F a (pkinds p) (pshort p) targets None (-1)%Z CStart (GStart a))
             (fun l f => match scan_sets f F short targets r (S a) with Raise e => Raise e | Ok l' => Ok (l ++ l')%list end)).
    + eapply fuel_ok_weaken; [|apply scan_tables_fuel_ok]. lia.
    + intro l. apply (fuel_ok_bind _ _ (fun l' _ => Ok (l ++ l')%list)).
      * eapply fuel_ok_weaken; [|apply IH]. lia.
      * intro. apply fuel_ok_const.
Qed.

(** the three fuel facts about the whole call; exceptions other than OutOfFuel come from
    [ordered_selection] (row_line[index] out of range) and do not depend on the fuel *)
Lemma history_fuel_mono F ms sel short s : forall f f' r, f <= f' ->
  history f F ms sel short s = Ok r -> history f' F ms sel short s = Ok r.
Proof.
  intros f f' r L. unfold history. destruct (mapM (convert ms) sel) as [cs|e]; [|discriminate].
  destruct (selected_tables cs) as [|t ts]; [auto|].
  destruct (scan_sets_fuel_ok F short (t :: ts) (hsets F) 0) as (M & _).
  destruct (scan_sets f F short (t :: ts) (hsets F) 0) eqn:E; [|discriminate].
  rewrite (M _ _ _ L E). auto.
Qed.

Lemma history_fuel_stable F ms sel short s : forall f f', fuel_bound F <= f -> fuel_bound F <= f' ->
  history f F ms sel short s = history f' F ms sel short s.
Proof.
  intros f f' L1 L2. unfold history. destruct (mapM (convert ms) sel) as [cs|e]; [|reflexivity].
  destruct (selected_tables cs) as [|t ts]; [reflexivity|].
  destruct (scan_sets_fuel_ok F short (t :: ts) (hsets F) 0) as (_ & S & _).
  rewrite (S f f' L1 L2). reflexivity.
Qed.

Lemma history_bound_decides F ms sel short s :
  history (fuel_bound F) F ms sel short s = Raise OutOfFuel ->
  forall f, history f F ms sel short s = Raise OutOfFuel.
Proof.
  unfold history. destruct (mapM (convert ms) sel) as [cs|e]; [|auto].
  destruct (selected_tables cs) as [|t ts]; [discriminate|].
  intros H f.
  pose proof (fuel_decides _ _ (scan_sets_fuel_ok F short (t :: ts) (hsets F) 0)) as D.
  unfold fuel_bound in H.
  destruct (scan_sets (sets_bound (hsets F)) F short (t :: ts) (hsets F) 0) eqn:E; [discriminate|].
  rewrite (D _ eq_refl f). reflexivity.
Qed.

Lemma fuel_bound_decides F ms sel short s :
  (forall f f', fuel_bound F <= f -> fuel_bound F <= f' -> history f F ms sel short s = history f' F ms sel short s) /\
  (forall f f' r, f <= f' -> history f F ms sel short s = Ok r -> history f' F ms sel short s = Ok r) /\
  (history (fuel_bound F) F ms sel short s = Raise OutOfFuel -> forall f, history f F ms sel short s = Raise OutOfFuel).
Proof.
  split; [exact (history_fuel_stable F ms sel short s)|].
  split; [exact (history_fuel_mono F ms sel short s)|exact (history_bound_decides F ms sel short s)].
Qed.
