(** C06 -- property theorems only.  Each is closed by [exact] of a lemma proved in HistoryFuel.v /
    HistoryProofs.v and followed by Print Assumptions.

    The model (ListingHistory.v): a listing is abstracted to its result sets ([_pos], short-output
    sets included) and, per set, the sequence of table kinds as [next_table] classifies them;
    [history fuel F ms sel short s] is t2listing.history(): [ordered_selection], then per result
    set the skip_to_table_AUTOUGH2/TOUGH2/TOUGHplus marker searches with fuel-recursive loops, and
    returns per item the (position, table) landings the rows were read at.  The reference side
    (HistorySpec.v): [stepping_series] visits every result set in turn and takes the table
    [read_tables] files under the selected name. *)
From Coq Require Import Ascii String List Bool Arith ZArith NArith.
From PTBase Require Import Exn PyStr.
From PTBase Require Import PyNum PyVal.
From PTModel Require Import Fortran.
From P Require Import ListingHistory HistoryFuel HistorySpec HistoryProofs HistoryRows LineCells HistoryValues HistoryShape HistoryTimes.
Import ListNotations.
Open Scope nat_scope.

(** ** equals stepping *)
(** For EVERY well-formed file abstraction (any number of result sets; each set's tables named,
    distinct and in selection order; short output only in AUTOUGH2 listings), EVERY selection
    (any items, any order, rows by name / reversed name / index) whose tables are printed at the
    scanned result sets, any [short] flag and any start state: whenever the call returns, the
    series of every item is the stepping series. *)
Theorem history_eq_stepping : forall fuel F ms sel short s cs l s',
  wf_file F = true -> wf_metas ms = true ->
  mapM (convert ms) sel = Ok cs -> covers F short (selected_tables cs) = true ->
  history fuel F ms sel short s = Ok (HSeries l, s') ->
  l = map (option_map (stepping_series F short)) cs.
Proof. exact eq_stepping. Qed.
Print Assumptions history_eq_stepping.

(** ... hence, for any content [cell] of the file, the values of an item are table[key][column]
    read at every result set in turn (negated for a connection found under the reversed name) *)
Theorem history_values_eq_stepping : forall cell F short c,
  series_values cell c (stepping_series F short c) = stepping_values cell F short c.
Proof. exact stepping_series_values. Qed.
Print Assumptions history_values_eq_stepping.

(** ... paired with the matching times: the time array returned with an item ([fulltimes] or
    [times], chosen by length) is the one of exactly the positions its values were read at *)
Theorem history_times_match : forall F short c,
  map l_pos (s_at (stepping_series F short c)) = times_positions F (s_times (stepping_series F short c)).
Proof. exact stepping_series_times. Qed.
Print Assumptions history_times_match.

(** ** a connection named in reverse order yields the negated series *)
Theorem history_reverse_converts : forall ms it tn m k i,
  spec_name (i_spec it) = Some tn -> find_meta ms tn = Some m -> i_key it = KeyName k ->
  lookup (m_keys m) k = Some i -> lookup (m_keys m) (rev k) = None -> 1 < length k -> m_rev m = true ->
  let it' := {| i_spec := i_spec it; i_key := KeyName (rev k); i_col := i_col it |} in
  match convert ms it, convert ms it' with
  | Ok (Some c), Ok (Some c') => c_rev c = false /\ c' = conv_flip c
  | Raise e, Raise e' => e = e'
  | _, _ => False
  end.
Proof. exact convert_reverse. Qed.
Print Assumptions history_reverse_converts.

Theorem history_reverse_negates : forall cell F short c, c_rev c = false ->
  stepping_values cell F short (conv_flip c) = map Z.opp (stepping_values cell F short c).
Proof. exact stepping_values_flip. Qed.
Print Assumptions history_reverse_negates.

(** ** which LINE of a table is read (the table layout as input: HistoryRows.v) *)
(** the items of a table, whatever their order and multiplicity in the selection, are sorted by line
    index (a permutation) and each is then read from exactly the line its line index names, by the
    readline() counting of history() *)
Theorem history_reads_selected_lines : forall items : list (nat * nat),
  Permutation.Permutation items (sort_items items) /\
  read_items 0 0 (map fst (sort_items items)) = map fst (sort_items items).
Proof. exact (fun items => conj (sort_items_perm items) (history_reads_line_index items)). Qed.
Print Assumptions history_reads_selected_lines.

(** without the sort an earlier row selected after a later one would be read from the held line *)
Theorem history_unsorted_items_refuted : read_items 0 0 [5; 2] = [5; 5].
Proof. exact unsorted_reads_wrong_line. Qed.
Print Assumptions history_unsorted_items_refuted.

(** for EVERY table layout (any data lines, any repetitions, any page-break gaps) in which printed copies
    of a row agree on index and key and different rows differ in both: the line row_line[r] that
    history() reads for row r is the line whose values read_table_TOUGH2 leaves in row r (the LAST
    printed copy), and that row is named by that line's key *)
Theorem history_row_line_is_stepped_row : forall ds, wf_keys ds -> forall r i, nth_error (indices ds) r = Some i ->
  exists d, stepped_line ds r = Some d /\ row_of ds i = Some d /\
            nth_error (row_line ds) r = Some (d_off d) /\ nth_error (rows ds) r = Some (d_key d).
Proof. exact row_eq_stepping. Qed.
Print Assumptions history_row_line_is_stepped_row.

(** read_table_TOUGH2, stepping by skiplines, visits exactly the data lines *)
Theorem stepping_visits_data_lines : forall ds d, offs_incr (d :: ds) ->
  visited (d_off d) (skiplines (d :: ds)) = map d_off (d :: ds).
Proof. exact visited_data_lines. Qed.
Print Assumptions stepping_visits_data_lines.

Theorem example_repeated_row_layout : wf_keys ds_ex /\ offs_incr ds_ex /\ indices ds_ex = [1; 2; 3]%Z /\ row_line ds_ex = [0; 5; 4] /\
  skiplines ds_ex = [0; 2; 0] /\ option_map d_off (stepped_line ds_ex 1) = Some 5.
Proof. exact ds_ex_facts. Qed.
Print Assumptions example_repeated_row_layout.

(** ** the VALUES are the printed numbers (HistoryValues.v; line level copied from the C05 check) *)
(** one TOUGH2-family table printed the TOUGH2 way (fixed-length key/index prefix, right-justified cells
    in the layout's field widths, any cell texts, any repetitions and page breaks, a prelude without
    results lines): what history() computes for row r and column col -- skip_to_results_line, readline()
    counting to row_line[r], read_table_line, vals[col] -- is fortran_float of the text printed in that
    column of the row's last printed line, the same line stepping leaves in row r *)
Theorem table_value_is_printed_number : forall f prelude texts ds rr, t2_table f prelude texts ds rr ->
  forall r i, nth_error (indices ds) r = Some i ->
  exists d, stepped_line ds r = Some d /\ In d ds /\ nth_error (row_line ds) r = Some (d_off d) /\
            forall col c, nth_error (r_cells (rr d)) col = Some c ->
              read_cell f (prelude ++ texts) (d_off d) col = Ok (fortran_float (snd c) zero).
Proof. exact t2_value_printed. Qed.
Print Assumptions table_value_is_printed_number.

(** AUTOUGH2 tables: the col-th blank-separated word after the value start of the row's line *)
Theorem autough2_value_is_printed_number : forall f st prelude texts lineindex line words col w,
  f_aut f = Some st -> forallb (fun l => negb (is_results_line (f_ef f) l)) prelude = true ->
  match texts with l0 :: _ => is_results_line (f_ef f) l0 = true | [] => False end ->
  nth_error texts lineindex = Some line -> split_ws (strip (pyslice (Some st) None line)) = words ->
  nth_error words col = Some w ->
  read_cell f (prelude ++ texts) lineindex col = Ok (fortran_float w zero).
Proof. exact aut_value_printed. Qed.
Print Assumptions autough2_value_is_printed_number.

(** the composition: for EVERY well-formed file abstraction, covered selection, short flag and state, and
    every text content in which the tables the items land on are printed tables ([printed_at]): whenever
    the call returns, every value of every returned series is the number printed in that row and column
    at that result set -- fortran_float of the cell text -- negated for a reversed connection name, and
    the time array is that of the positions read *)
Theorem history_values_are_printed_numbers : forall fuel F ms sel short s cs l s' content txt,
  wf_file F = true -> wf_metas ms = true -> mapM (convert ms) sel = Ok cs -> covers F short (selected_tables cs) = true ->
  history fuel F ms sel short s = Ok (HSeries l, s') ->
  (forall c, In (Some c) cs -> forall ld, In ld (item_positions F short c (hsets F) 0) ->
     printed_at (fst (content (l_at ld))) (snd (content (l_at ld))) (Z.to_nat (c_line c)) (Z.to_nat (c_col c)) (txt c (l_at ld))) ->
  Forall2 (item_ok content txt F short) cs l.
Proof. exact history_values. Qed.
Print Assumptions history_values_are_printed_numbers.

Theorem example_printed_table : read_cell ex_fmt (ex_prelude ++ ex_texts) 5 1 = Ok (VFloat (Fin true 215000 (-4))) /\
                                row_line ds_ex = [0; 5; 4].
Proof. exact ex_value. Qed.
Print Assumptions example_printed_table.

(** ** afterwards the reader shows the same current index, time, step and tables *)
Theorem history_restores_cursor : forall fuel F ms sel short s r s',
  history fuel F ms sel short s = Ok (r, s') -> hobserve s' = hobserve s.
Proof. exact restores. Qed.
Print Assumptions history_restores_cursor.

(** ** termination *)
(** for EVERY file abstraction and selection (no side condition): running the scan with
    [fuel_bound F] = 2 n + 3, n the largest number of tables in a result set, decides whether it ever
    returns -- more fuel never changes the answer, and out of fuel at the bound is out of fuel
    for every fuel (a loop that has not found its table by then has left the result set, where
    next_table returns None for ever) *)
Theorem history_fuel_bound_decides : forall F ms sel short s,
  (forall f f', fuel_bound F <= f -> fuel_bound F <= f' -> history f F ms sel short s = history f' F ms sel short s) /\
  (forall f f' r, f <= f' -> history f F ms sel short s = Ok r -> history f' F ms sel short s = Ok r) /\
  (history (fuel_bound F) F ms sel short s = Raise OutOfFuel -> forall f, history f F ms sel short s = Raise OutOfFuel).
Proof. exact fuel_bound_decides. Qed.
Print Assumptions history_fuel_bound_decides.

(** the call returns, with any fuel from the bound on, for every well-formed file and every
    selection whose tables are printed at the scanned result sets -- unless (TOUGH+ only) the
    selected tables are in the class [tp_hangs] at some result set *)
Theorem history_terminates_partial : forall fuel F ms sel short s cs,
  wf_file F = true -> wf_metas ms = true ->
  mapM (convert ms) sel = Ok cs -> covers F short (selected_tables cs) = true ->
  file_hangs F short (selected_tables cs) = false -> fuel_bound F <= fuel ->
  exists r s', history fuel F ms sel short s = Ok (r, s').
Proof. exact terminates. Qed.
Print Assumptions history_terminates_partial.

(** AUTOUGH2 and TOUGH2-family readers, and TOUGH+ with the repaired skip_to_table_TOUGHplus
    (proposed_fixes/C06-toughplus-history-loop.diff): the side condition is void, the call always returns *)
Theorem history_hang_class_tough_plus_only : forall F short targets, hsim F <> TP \/ hfix F = true -> file_hangs F short targets = false.
Proof. exact file_hangs_not_tp. Qed.
Print Assumptions history_hang_class_tough_plus_only.

(** TOUGH+ : on the class [tp_hangs] the call returns for NO fuel *)
Theorem history_hangs_on_class : forall F ms sel short s cs,
  wf_file F = true -> wf_metas ms = true ->
  mapM (convert ms) sel = Ok cs -> covers F short (selected_tables cs) = true ->
  file_hangs F short (selected_tables cs) = true ->
  forall fuel, history fuel F ms sel short s = Raise OutOfFuel.
Proof. exact hangs. Qed.
Print Assumptions history_hangs_on_class.

(** "the call always terminates" is refuted by the model: a well-formed one-result-set TOUGH+
    listing in the layout of the shipped files, selection primary + second extra element table *)
Theorem history_terminates_refuted : exists F ms sel short s cs,
  wf_file F = true /\ wf_metas ms = true /\ mapM (convert ms) sel = Ok cs /\ covers F short (selected_tables cs) = true /\
  forall fuel, history fuel F ms sel short s = Raise OutOfFuel.
Proof. exact terminates_refuted. Qed.
Print Assumptions history_terminates_refuted.

(** the class on the layout of the shipped TOUGH+ listings (element, element1, connection,
    primary, element2), in the closed form the harness uses as finding classifier: element2
    selected together with primary, or with element1 / connection but not both element and element1 *)
Theorem tp_hang_class_shipped_layout : forall targets, In targets (sublists table_order) ->
  covered_set TP [] false tp_layout targets = true -> tp_hangs tp_layout targets = tp_hangs_shipped targets.
Proof. exact tp_hangs_shipped_layout. Qed.
Print Assumptions tp_hang_class_shipped_layout.

(** ** the hypotheses are satisfiable: concrete files and selections meeting them, with the result *)
Theorem example_tough_plus_returns : exists cs, mapM (convert ms_tp) sel_fine = Ok cs /\ wf_file F_tp = true /\ wf_metas ms_tp = true /\
  covers F_tp true (selected_tables cs) = true /\ file_hangs F_tp true (selected_tables cs) = false /\
  exists l s', history (fuel_bound F_tp) F_tp ms_tp sel_fine true s0 = Ok (HSeries l, s') /\
               map (option_map (fun s => map l_at (s_at s))) l = [Some [(0, 0)]; Some [(0, 4)]].
Proof. exact example_tp_fine. Qed.
Print Assumptions example_tough_plus_returns.

(** the refutation witness, read by the repaired code: returns, landing on primary and element2 *)
Theorem example_tough_plus_repaired_returns : exists cs, mapM (convert ms_tp) sel_loop = Ok cs /\ wf_file F_tp_fixed = true /\
  covers F_tp_fixed true (selected_tables cs) = true /\
  exists l s', history (fuel_bound F_tp_fixed) F_tp_fixed ms_tp sel_loop true s0 = Ok (HSeries l, s') /\
               map (option_map (fun s => map l_at (s_at s))) l = [Some [(0, 3)]; Some [(0, 4)]].
Proof. exact example_tp_fixed. Qed.
Print Assumptions example_tough_plus_repaired_returns.

Theorem example_autough2_short_output : exists cs, mapM (convert ms_aut) sel_aut = Ok cs /\ wf_file F_aut = true /\ wf_metas ms_aut = true /\
  covers F_aut true (selected_tables cs) = true /\ file_hangs F_aut true (selected_tables cs) = false /\
  exists l s', history (fuel_bound F_aut) F_aut ms_aut sel_aut true s0 = Ok (HSeries l, s') /\
               map (option_map (fun s => (s_sign s, s_times s, map l_at (s_at s)))) l =
               [Some ((-1)%Z, TFull, [(0, 1); (2, 1)]); Some (1%Z, TAll, [(0, 0); (1, 0); (2, 0)]); Some (1%Z, TAll, [(0, 2); (1, 1); (2, 2)])].
Proof. exact example_aut. Qed.
Print Assumptions example_autough2_short_output.

Theorem example_reverse_key : exists tn m k i,
  spec_name (s2l "c") = Some tn /\ find_meta ms_aut tn = Some m /\ lookup (m_keys m) k = Some i /\
  lookup (m_keys m) (rev k) = None /\ 1 < length k /\ m_rev m = true.
Proof. exact example_reverse. Qed.
Print Assumptions example_reverse_key.

(** ** the shape of the result: "for ANY selection of items ... for EACH item" (HistoryShape.v) *)
(** for EVERY file, selection, short flag, state and fuel (zero included): when no item of the selection is a
    valid specification (table specification naming no table, table the listing does not have, row name in
    no table -- [convert] gives None), the call returns None at once and the reader is not touched at all:
    not even rewound, the file cursor stays ([s] is returned whole, not only its observable part) *)
Theorem history_no_valid_item_returns_none : forall fuel F ms sel short s,
  (forall it, In it sel -> convert ms it = Ok None) -> history fuel F ms sel short s = Ok (HNone, s).
Proof. exact no_valid_item. Qed.
Print Assumptions history_no_valid_item_returns_none.

(** ... and None comes back ONLY then (tables filed under the six names of ordered_selection), state whole *)
Theorem history_none_only_without_valid_item : forall fuel F ms sel short s s', wf_metas ms = true ->
  history fuel F ms sel short s = Ok (HNone, s') ->
  s' = s /\ forall it, In it sel -> convert ms it = Ok None.
Proof. exact none_only_invalid. Qed.
Print Assumptions history_none_only_without_valid_item.

(** for EVERY well-formed file and covered selection: whenever the call returns, there is one entry per
    selection item, in selection order, and the entry of the i-th item is fixed by that item alone -- its own
    conversion and the stepping series of that (an item that is no valid specification gets the empty entry) *)
Theorem history_one_entry_per_item : forall fuel F ms sel short s cs l s',
  wf_file F = true -> wf_metas ms = true ->
  mapM (convert ms) sel = Ok cs -> covers F short (selected_tables cs) = true ->
  history fuel F ms sel short s = Ok (HSeries l, s') ->
  length l = length sel /\
  forall i it, nth_error sel i = Some it ->
    exists oc, convert ms it = Ok oc /\ nth_error l i = Some (option_map (stepping_series F short) oc).
Proof. exact result_shape. Qed.
Print Assumptions history_one_entry_per_item.

(** hence the series of an item does not depend on which other items are selected with it, on their number
    (single tuple or list), on their order, on the fuel or on the reader's state at the call: two returning
    calls on the same file give the same entry for the same item wherever it stands *)
Theorem history_item_independent_of_selection :
  forall f1 f2 F ms sel1 sel2 short s1 s2 cs1 cs2 l1 l2 s1' s2' i j it,
  wf_file F = true -> wf_metas ms = true ->
  mapM (convert ms) sel1 = Ok cs1 -> covers F short (selected_tables cs1) = true ->
  mapM (convert ms) sel2 = Ok cs2 -> covers F short (selected_tables cs2) = true ->
  history f1 F ms sel1 short s1 = Ok (HSeries l1, s1') ->
  history f2 F ms sel2 short s2 = Ok (HSeries l2, s2') ->
  nth_error sel1 i = Some it -> nth_error sel2 j = Some it ->
  nth_error l1 i = nth_error l2 j.
Proof. exact item_independent. Qed.
Print Assumptions history_item_independent_of_selection.

Theorem example_no_valid_item : (forall it, In it sel_invalid -> convert ms_aut it = Ok None) /\
  history 0 F_aut ms_aut sel_invalid true s0 = Ok (HNone, s0).
Proof. exact example_invalid. Qed.
Print Assumptions example_no_valid_item.

Theorem example_single_item_same_entry : exists l1 l3 s1 s3 e,
  history (fuel_bound F_aut) F_aut ms_aut [it_e] true s0 = Ok (HSeries l1, s1) /\
  history (fuel_bound F_aut) F_aut ms_aut sel_aut true s0 = Ok (HSeries l3, s3) /\
  nth_error sel_aut 1 = Some it_e /\ nth_error l1 0 = Some (Some e) /\ nth_error l3 1 = Some (Some e).
Proof. exact example_single. Qed.
Print Assumptions example_single_item_same_entry.

(** ** which result sets an item is read at, and which time array it gets, in closed form (HistoryTimes.v) *)
(** [in_short F short c]: short output is asked for, the item's table kind is printed short and its row is one of
    the rows printed there.  For EVERY file, flag and item (no hypothesis): the positions the item's values are
    read at are all result sets if [in_short], exactly the full-output sets otherwise; an item not shown by short
    sets is paired with [fulltimes]; one that is, in a file that has short sets, with [times] *)
Theorem history_times_array_choice : forall F short c,
  map l_pos (s_at (stepping_series F short c)) = positions (negb (in_short F short c)) (hsets F) 0 /\
  (in_short F short c = false -> s_times (stepping_series F short c) = TFull) /\
  (in_short F short c = true -> existsb pshort (hsets F) = true -> s_times (stepping_series F short c) = TAll).
Proof. exact times_choice. Qed.
Print Assumptions history_times_array_choice.

(** with short = False every item is read at exactly the full-output result sets and paired with fulltimes *)
Theorem history_short_false_reads_full_sets : forall F c,
  map l_pos (s_at (stepping_series F false c)) = times_positions F TFull /\ s_times (stepping_series F false c) = TFull.
Proof. exact short_false_full. Qed.
Print Assumptions history_short_false_reads_full_sets.

Theorem example_times_array_choice : existsb pshort (hsets F_aut) = true /\ exists c0 c1 c2,
  mapM (convert ms_aut) sel_aut = Ok [Some c0; Some c1; Some c2] /\ in_short F_aut true c0 = false /\ in_short F_aut true c1 = true.
Proof. exact example_times. Qed.
Print Assumptions example_times_array_choice.

(** "paired with the matching times": for EVERY content, file, flag and item the series of values has exactly as
    many entries as the time array returned with it ([fulltimes] or [times]) *)
Theorem history_values_times_same_length : forall cell F short c,
  length (stepping_values cell F short c) = length (times_positions F (s_times (stepping_series F short c))).
Proof. exact values_times_same_length. Qed.
Print Assumptions history_values_times_same_length.
