(** C01 -- the hypotheses of the second write with a MESH file as one boolean, and objects that meet it. *)
From Coq Require Import Ascii String List Bool Arith ZArith NArith Lia.
From PTBase Require Import Exn PyStr PyNum PyVal Fmt FixedFormat.
From Gen Require Import GenTables GenSections.
From P Require Import Comb Obj Fields Idem Sections SectionsB Rec Prog SecMesh T2DataIO Whole IdemSec IdemSecB IdemMeshm IdemWhole RealStable IdemMesh Example IdemEx.
Import ListNotations.
Open Scope string_scope.

Definition idem_mesh_hyps (strict : bool) (d : t2d) (ks : list string) : bool :=
  let d2 := reread d ks in let X := mesh_state d d2 in
  match write_files (mk_wcfg 1 None None) d with
  | Ok _ =>
      strs_eqb (update_sections d) (sections d) && strs_eqb (main_secs d) (map s2l ks) &&
      match xprec d with [] => true | _ => false end && chain_ok d ks (start_state d) &&
      forallb (wf_block T0 (rocks d2)) (blocks d) && forallb (wf_conn T0 (canon_blocks T0 (blocks d))) (conns d) &&
      idem_mesh_ok d ks && strs_eqb (update_sections X) (sections X) &&
      forallb (item_ok strict) (prog_file d ks) && forallb (item_ok strict) (mesh_prog d)
  | Raise _ => false
  end.
Theorem write_idem_meshfile_checked strict d ks : idem_mesh_hyps strict d ks = true ->
  exists d' fs d'' fs' m m', write_files (mk_wcfg 1 None None) d = Ok (d', fs) /\
    write_files (mk_wcfg 1 None None) (mesh_state d (reread d ks)) = Ok (d'', fs') /\ Forall2 lpad (f_main fs) (f_main fs') /\
    f_mesh fs = Some m /\ f_mesh fs' = Some m' /\ Forall2 lpad m m' /\ f_pdat fs' = None.
Proof.
  unfold idem_mesh_hyps. cbv zeta. destruct (write_files (mk_wcfg 1 None None) d) as [[d' fs]|] eqn:W; [|discriminate]. intro H.
  apply andb_prop in H as [H S2]. apply andb_prop in H as [H S1]. apply andb_prop in H as [H USX]. apply andb_prop in H as [H ID].
  apply andb_prop in H as [H WC]. apply andb_prop in H as [H WB]. apply andb_prop in H as [H CH]. apply andb_prop in H as [H XP].
  apply andb_prop in H as [US SK]. apply strs_eqb_eq in US, SK, USX.
  assert (XP' : xprec d = []) by (destruct (xprec d); [reflexivity|discriminate]).
  assert (T1 : Forall (istable T0) (prog_file d ks)) by (rewrite forallb_forall in S1; apply Forall_forall; intros it I; apply (item_ok_spec strict); apply S1; exact I).
  assert (T2 : Forall (istable T0) (mesh_prog d)) by (rewrite forallb_forall in S2; apply Forall_forall; intros it I; apply (item_ok_spec strict); apply S2; exact I).
  destruct (write_idem_meshfile d ks d' fs W US SK XP' CH WB WC ID USX T1 T2) as [d'' [fs' [m [m' R]]]].
  exists d', fs, d'', fs', m, m'. split; [reflexivity|exact R].
Qed.
(** ... and of the byte-for-byte part *)
Definition idem_mesh_hyps2 (strict : bool) (d : t2d) (ks : list string) : bool :=
  let X := mesh_state d (reread d ks) in let X2 := reread X ks in let Y := mesh_state X X2 in
  idem_mesh_hyps strict d ks && chain_ok X ks (start_state X) &&
  forallb (wf_block T0 (rocks X2)) (blocks X) && forallb (wf_conn T0 (canon_blocks T0 (blocks X))) (conns X) &&
  idem_mesh_ok X ks && strs_eqb (update_sections Y) (sections Y).
Theorem write_fixpoint_meshfile_checked strict d ks : idem_mesh_hyps2 strict d ks = true ->
  let X := mesh_state d (reread d ks) in let Y := mesh_state X (reread X ks) in
  exists d'' fs' d3 fs'', write_files (mk_wcfg 1 None None) X = Ok (d'', fs') /\ write_files (mk_wcfg 1 None None) Y = Ok (d3, fs'') /\
    f_main fs'' = f_main fs' /\ f_mesh fs'' = f_mesh fs' /\ f_pdat fs'' = f_pdat fs'.
Proof.
  unfold idem_mesh_hyps2. cbv zeta. intro H. apply andb_prop in H as [H USY]. apply andb_prop in H as [H IDX]. apply andb_prop in H as [H WCX].
  apply andb_prop in H as [H WBX]. apply andb_prop in H as [H CHX]. apply strs_eqb_eq in USY.
  unfold idem_mesh_hyps in H. cbv zeta in H. destruct (write_files (mk_wcfg 1 None None) d) as [[d' fs]|] eqn:W; [|discriminate].
  apply andb_prop in H as [H S2]. apply andb_prop in H as [H S1]. apply andb_prop in H as [H USX]. apply andb_prop in H as [H ID].
  apply andb_prop in H as [H WC]. apply andb_prop in H as [H WB]. apply andb_prop in H as [H CH]. apply andb_prop in H as [H XP].
  apply andb_prop in H as [US SK]. apply strs_eqb_eq in US, SK, USX.
  assert (XP' : xprec d = []) by (destruct (xprec d); [reflexivity|discriminate]).
  assert (T1 : Forall (istable T0) (prog_file d ks)) by (rewrite forallb_forall in S1; apply Forall_forall; intros it I; apply (item_ok_spec strict); apply S1; exact I).
  assert (T2 : Forall (istable T0) (mesh_prog d)) by (rewrite forallb_forall in S2; apply Forall_forall; intros it I; apply (item_ok_spec strict); apply S2; exact I).
  exact (write_fixpoint_meshfile d ks d' fs W US SK XP' CH WB WC ID USX T1 T2 CHX WBX WCX IDX USY).
Qed.
Example example_tough2_mesh_idem : idem_mesh_hyps2 true (drop_short example_tough2) (no_mesh example_tough2_order) = true.
Proof. vm_compute. reflexivity. Qed.
Example example_autough2_mesh_idem : idem_mesh_hyps2 true (drop_short example_autough2) (no_mesh example_autough2_order) = true.
Proof. vm_compute. reflexivity. Qed.
Lemma idem_mesh_hyps2_1 strict d ks : idem_mesh_hyps2 strict d ks = true -> idem_mesh_hyps strict d ks = true.
Proof. unfold idem_mesh_hyps2. cbv zeta. intro H. do 5 (apply andb_prop in H as [H _]). exact H. Qed.
