(** C01 -- the hypotheses of the second write with the binary pair as one boolean, and objects that meet it. *)
From Coq Require Import Ascii String List Bool Arith ZArith NArith Lia.
From PTBase Require Import Exn PyStr PyNum PyVal Fmt FixedFormat.
From Gen Require Import GenTables GenSections.
From P Require Import Comb Obj Fields Idem Sections SectionsB Rec Prog SecMesh T2DataIO Whole IdemSec IdemSecB IdemMeshm IdemWhole RealStable IdemMesh Bin IdemBin Example IdemEx BinEx.
Import ListNotations.
Open Scope string_scope.

Definition idem_bin_hyps (strict : bool) (d : t2d) (ks : list string) : bool :=
  match write_files (mk_wcfg 2 None None) d, write_bin d with
  | Ok _, Ok _ =>
      strs_eqb (update_sections d) (sections d) && strs_eqb (main_secs d) (map s2l ks) &&
      match xprec d with [] => true | _ => false end && chain_ok d ks (start_state d) &&
      idem_bin_ok d ks && forallb (item_ok strict) (prog_file d ks)
  | _, _ => false
  end.
Theorem write_idem_binary_checked strict d ks : idem_bin_hyps strict d ks = true ->
  exists d' fs RA RB d'' fs', write_files (mk_wcfg 2 None None) d = Ok (d', fs) /\ write_bin d = Ok (RA, RB) /\
    write_files (mk_wcfg 2 None None) (bin_state d (reread d ks)) = Ok (d'', fs') /\ Forall2 lpad (f_main fs) (f_main fs') /\
    f_mesh fs' = None /\ f_pdat fs' = None /\ write_bin (bin_state d (reread d ks)) = Ok (RA, RB).
Proof.
  unfold idem_bin_hyps. destruct (write_files (mk_wcfg 2 None None) d) as [[d' fs]|] eqn:W; [|discriminate].
  destruct (write_bin d) as [[RA RB]|] eqn:WB; [|discriminate]. intro H.
  apply andb_prop in H as [H S1]. apply andb_prop in H as [H ID]. apply andb_prop in H as [H CH]. apply andb_prop in H as [H XP].
  apply andb_prop in H as [US SK]. apply strs_eqb_eq in US, SK.
  assert (XP' : xprec d = []) by (destruct (xprec d); [reflexivity|discriminate]).
  assert (T1 : Forall (istable T0) (prog_file d ks)) by (rewrite forallb_forall in S1; apply Forall_forall; intros it I; apply (item_ok_spec strict); apply S1; exact I).
  destruct (write_idem_binary d ks d' fs RA RB W WB US SK XP' CH ID T1) as [d'' [fs' R]].
  exists d', fs, RA, RB, d'', fs'. split; [reflexivity|]. split; [reflexivity|exact R].
Qed.
(** ... and of the byte-for-byte part *)
Definition idem_bin_hyps2 (strict : bool) (d : t2d) (ks : list string) : bool :=
  let X := bin_state d (reread d ks) in
  idem_bin_hyps strict d ks && chain_ok X ks (start_state X) && idem_bin_ok X ks.
Theorem write_fixpoint_binary_checked strict d ks : idem_bin_hyps2 strict d ks = true ->
  let X := bin_state d (reread d ks) in let Y := bin_state X (reread X ks) in
  exists RA RB d'' fs' d3 fs'', write_bin d = Ok (RA, RB) /\
    write_files (mk_wcfg 2 None None) X = Ok (d'', fs') /\ write_files (mk_wcfg 2 None None) Y = Ok (d3, fs'') /\
    fs'' = fs' /\ write_bin X = Ok (RA, RB) /\ write_bin Y = Ok (RA, RB).
Proof.
  unfold idem_bin_hyps2. cbv zeta. intro H. apply andb_prop in H as [H IDX]. apply andb_prop in H as [H CHX].
  unfold idem_bin_hyps in H. destruct (write_files (mk_wcfg 2 None None) d) as [[d' fs]|] eqn:W; [|discriminate].
  destruct (write_bin d) as [[RA RB]|] eqn:WB; [|discriminate].
  apply andb_prop in H as [H S1]. apply andb_prop in H as [H ID]. apply andb_prop in H as [H CH]. apply andb_prop in H as [H XP].
  apply andb_prop in H as [US SK]. apply strs_eqb_eq in US, SK.
  assert (XP' : xprec d = []) by (destruct (xprec d); [reflexivity|discriminate]).
  assert (T1 : Forall (istable T0) (prog_file d ks)) by (rewrite forallb_forall in S1; apply Forall_forall; intros it I; apply (item_ok_spec strict); apply S1; exact I).
  destruct (write_fixpoint_binary d ks d' fs RA RB W WB US SK XP' CH ID T1 CHX IDX) as [d'' [fs' [d3 [fs'' R]]]].
  exists RA, RB, d'', fs', d3, fs''. split; [reflexivity|exact R].
Qed.
Example example_tough2_bin_idem : idem_bin_hyps2 true (with_centres (drop_short example_tough2)) (no_mesh example_tough2_order) = true.
Proof. vm_compute. reflexivity. Qed.
Example example_autough2_bin_idem : idem_bin_hyps2 true (with_centres (drop_short example_autough2)) (no_mesh example_autough2_order) = true.
Proof. vm_compute. reflexivity. Qed.
