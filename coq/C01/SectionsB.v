(** C01 -- stage B sections (SELEC, DIFFU, INDOM, FOFT/COFT/GOFT, SHORT, MESHMAKER). *)
From Coq Require Import Ascii String List Bool Arith ZArith NArith Lia.
From PTBase Require Import Exn PyStr PyNum PyVal Fmt FixedFormat.
From P Require Import Comb Obj Sections.
Import ListNotations.
Open Scope string_scope.

Section WithTable.
Variable T : table.
(** methods outside the model raise (the harness never sends such sections to the model) *)
End WithTable.
Definition write_methodB (T : table) (d : t2d) (m : string) : res file := Raise PlainException.
Definition read_methodB (T : table) (d : t2d) (m : string) (line : str) (ls : file) : res (t2d * file) := Raise PlainException.
