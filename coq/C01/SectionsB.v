(** C01 -- stage B sections (SELEC, DIFFU, INDOM, FOFT/COFT/GOFT, SHORT, MESHMAKER), statement
    by statement after t2data.py. *)
From Coq Require Import Ascii String List Bool Arith ZArith NArith Lia.
From PTBase Require Import Exn PyStr PyNum PyVal Fmt FixedFormat.
From Gen Require Import GenSections.
From P Require Import Comb Obj Sections.
Import ListNotations.
Open Scope string_scope.

(** [l[0:n]] for an int n *)
Definition take_z (n : value) (l : list value) : res (list value) :=
  match n with XInt z => Ok (pyslice (Some 0%Z) (Some z) l) | _ => Raise TypeError end.
Definition v_nat (n : value) : res nat := match n with XInt z => Ok (Z.to_nat z) | _ => Raise TypeError end.
Definition v_eq0 (v : value) : bool :=
  match v with XInt z => (z =? 0)%Z | XReal _ m _ => (m =? 0)%Z | _ => false end.

Section WithTable.
Variable T : table.
Notation sp := (sp T).
Notation nm := (nm T).

(** ** SELEC *)
Definition write_selection (d : t2d) : res file :=
  match selection d with
  | None => Ok []
  | Some (ints, floats) =>
      do l1 <- wline T "selec1" ints;
      do n <- v_nat (vnth ints 0);
      do ch <- write_chunks (sp "selec2") (chunk_of "write_selection") n floats;
      Ok (kw "SELEC" :: l1 :: ch)
  end.
Definition read_selection (d : t2d) (ls : file) : res (t2d * file) :=
  let (l1, r1) := readline ls in
  let ints := pline T "selec1" l1 in
  do n <- v_nat (vnth ints 0);
  let (fl, r2) := read_chunks_all (sp "selec2") n r1 in
  Ok (set_selection d (Some (ints, fl)), r2).

(** ** DIFFU *)
Definition write_diffusion (d : t2d) : res file :=
  match diffusion d with
  | [] => Ok []
  | cs => do ls <- mapM (fun c => wline T "diffusion" c) cs; Ok (kw "DIFFU" :: ls)
  end.
Fixpoint read_diffs (n : nat) (np : Z) (ls : file) : list (list value) * file :=
  match n with
  | O => ([], ls)
  | S n' => let (l, r) := readline ls in
            let (rest, r') := read_diffs n' np r in
            (pyslice (Some 0%Z) (Some np) (pline T "diffusion" l) :: rest, r')
  end.
Definition read_diffusion (d : t2d) (ls : file) : res (t2d * file) :=
  match dget (multi d) "num_components", dget (multi d) "num_phases" with
  | Some nc, Some np =>
      do n <- v_nat nc;
      match np with
      | XInt z => let (cs, r) := read_diffs n z ls in Ok (set_diffusion d (diffusion d +++ cs), r)
      | XNone => match n with O => Ok (d, ls) | _ => Raise TypeError end
      | _ => match n with O => Ok (d, ls) | _ => Raise TypeError end
      end
  | _, _ => Ok (d, ls)
  end.

(** ** INDOM *)
Definition write_indom (d : t2d) : res file :=
  match indom d with
  | [] => Ok []
  | items =>
      do recs <- write_list (fun ri => do l <- wline T "indom2" (snd ri); Ok [fst ri +++ [nl]; l]) items;
      Ok (kw "INDOM" :: concat recs +++ [[nl]])
  end.
Definition read_indom1 (acc : list (str * list value)) (line : str) (r : file) : res (list (str * list value) * file) :=
  let (l2, r2) := readline r in
  Ok (add_named same_key acc (slice 0 5 line, trim_nones (pline T "indom2" l2)), r2).
Definition read_indom (d : t2d) (ls : file) : res (t2d * file) :=
  do ar <- loop _ (fun l => l) blank read_indom1 (S (length ls)) (rev (indom d)) ls;
  Ok (set_indom d (rev (fst ar)), snd ar).

(** ** FOFT, COFT, GOFT *)
Definition name_line (n : str) : str := unfix_blockname n +++ [nl].
Definition pair_line (p : str * str) : str := unfix_blockname (fst p) +++ unfix_blockname (snd p) +++ [nl].
Definition write_names (key : string) (l : list str) : res file :=
  match l with [] => Ok [] | _ => Ok (kw key :: map name_line l +++ [[nl]]) end.
Definition write_hist_block (d : t2d) : res file := write_names "FOFT" (hist_block d).
Definition write_hist_gen (d : t2d) : res file := write_names "GOFT" (hist_gen d).
Definition write_hist_conn (d : t2d) : res file :=
  match hist_conn d with [] => Ok [] | l => Ok (kw "COFT" :: map pair_line l +++ [[nl]]) end.
Definition has_conn (cs : list conn) (p : str * str) : bool :=
  existsb (fun c => str_eqb (c_b1 c) (fst p) && str_eqb (c_b2 c) (snd p)) cs.
(** names until a blank line; kept if [keep] (the grid is empty, or it has the block) *)
Definition read_name1 (keep : str -> bool) (acc : list str) (line : str) (r : file) : res (list str * file) :=
  do n <- fix_blockname (slice 0 5 line);
  Ok (if keep n then n :: acc else acc, r).
Definition read_pair1 (keep : str * str -> bool) (acc : list (str * str)) (line : str) (r : file) : res (list (str * str) * file) :=
  do a <- fix_blockname (slice 0 5 line);
  do b <- fix_blockname (slice 5 10 line);
  Ok (if keep (a, b) then (a, b) :: acc else acc, r).
Definition no_grid (d : t2d) : bool := match blocks d with [] => true | _ => false end.
Definition read_hist_block (d : t2d) (ls : file) : res (t2d * file) :=
  do ar <- loop _ (fun l => l) blank (read_name1 (fun n => no_grid d || has_block (blocks d) n)) (S (length ls)) [] ls;
  Ok (set_hist_block d (rev (fst ar)), snd ar).
Definition read_hist_gen (d : t2d) (ls : file) : res (t2d * file) :=
  do ar <- loop _ (fun l => l) blank (read_name1 (fun n => no_grid d || has_block (blocks d) n)) (S (length ls)) [] ls;
  Ok (set_hist_gen d (rev (fst ar)), snd ar).
Definition read_hist_conn (d : t2d) (ls : file) : res (t2d * file) :=
  do ar <- loop _ (fun l => l) blank (read_pair1 (fun p => no_grid d || has_conn (conns d) p)) (S (length ls)) [] ls;
  Ok (set_hist_conn d (rev (fst ar)), snd ar).

(** ** SHORT *)
Definition write_short (d : t2d) : res file :=
  match short d with
  | None => Ok []
  | Some s =>
      do f <- match sh_freq s with
              | Some v => if v_truthy v then
                            match v with XInt z => Ok (fmt_int 2 z) | _ => Raise TypeError end
                          else Ok []
              | None => Ok [] end;
      Ok ((s2l "SHORT" +++ f +++ [nl])
          :: (match sh_block s with Some l => kw "ELEME" :: map name_line l | None => [] end)
          +++ (match sh_conn s with Some l => kw "CONNE" :: map pair_line l | None => [] end)
          +++ (match sh_gen s with Some l => kw "GENER" :: map pair_line l | None => [] end)
          +++ [[nl]])
  end.
Definition short_kws : list str := [s2l "ELEME"; s2l "CONNE"; s2l "GENER"].
Definition is_short_kw (line : str) : bool := existsb (str_eqb (slice 0 5 line)) short_kws.
(** the sub-readers: items until a blank line or a sub-keyword line, which is returned *)
Fixpoint short_items {X} (item : str -> res (option X)) (fuel : nat) (acc : list X) (ls : file) : res (list X * str * file) :=
  match fuel with
  | O => Raise OutOfFuel
  | S f => let (l, r) := readline ls in
           if blank l then Ok (rev acc, l, r)
           else if is_short_kw l then Ok (rev acc, l, r)
           else do x <- item l; short_items item f (match x with Some y => y :: acc | None => acc end) r
  end.
Definition has_gen (gs : list gen) (p : str * str) : bool :=
  existsb (fun g => str_eqb (g_block g) (fst p) && str_eqb (g_name g) (snd p)) gs.
Definition short_block_item (d : t2d) (l : str) : res (option str) :=
  do n <- fix_blockname (slice 0 5 l); Ok (if has_block (blocks d) n then Some n else None).
Definition short_pair_item (keep : str * str -> bool) (l : str) : res (option (str * str)) :=
  do a <- fix_blockname (slice 0 5 l); do b <- fix_blockname (slice 5 10 l); Ok (if keep (a, b) then Some (a, b) else None).
Fixpoint short_loop (d : t2d) (fuel : nat) (s : shortrec) (line : str) (ls : file) : res (shortrec * file) :=
  match fuel with
  | O => Raise OutOfFuel
  | S f =>
      if blank line then Ok (s, ls)
      else
        let k := slice 0 5 line in
        if str_eqb k (s2l "ELEME") then
          do x <- short_items (short_block_item d) (S (length ls)) [] ls;
          let '(items, l', r) := x in short_loop d f (mk_short (sh_freq s) (Some items) (sh_conn s) (sh_gen s)) l' r
        else if str_eqb k (s2l "CONNE") then
          do x <- short_items (short_pair_item (has_conn (conns d))) (S (length ls)) [] ls;
          let '(items, l', r) := x in short_loop d f (mk_short (sh_freq s) (sh_block s) (Some items) (sh_gen s)) l' r
        else if str_eqb k (s2l "GENER") then
          do x <- short_items (short_pair_item (has_gen (gens d))) (S (length ls)) [] ls;
          let '(items, l', r) := x in short_loop d f (mk_short (sh_freq s) (sh_block s) (sh_conn s) (Some items)) l' r
        else Raise KeyError
  end.
Definition read_short (d : t2d) (header : str) (ls : file) : res (t2d * file) :=
  let s0 := match short d with Some s => s | None => mk_short None None None None end in
  let s1 := mk_short (Some (vnth (pline T "short" header) 1)) (sh_block s0) (sh_conn s0) (sh_gen s0) in
  let (l, r) := readline ls in
  do x <- short_loop d (S (length ls)) s1 l r;
  Ok (set_short d (Some (fst x)), snd x).

(** ** MESHMAKER *)
Definition write_rz2d_sub (x : str * dict * list value) : res file :=
  let '(stype, dct, l) := x in
  let head := upper stype +++ [nl] in
  if str_eqb stype (s2l "radii") then
    let n := length l in
    do l1 <- wline T "radii1" [XInt (Z.of_nat n)];
    do ch <- write_chunks (sp "radii2") (chunk_of "write_meshmaker_rz2d") (nlines_z (Z.of_nat (chunk_of "write_meshmaker_rz2d")) (Z.of_nat n)) l;
    Ok (head :: l1 :: ch)
  else if str_eqb stype (s2l "equid") then do l1 <- wline T "equid" (dict_vals dct (nm "equid")); Ok [head; l1]
  else if str_eqb stype (s2l "logar") then do l1 <- wline T "logar" (dict_vals dct (nm "logar")); Ok [head; l1]
  else if str_eqb stype (s2l "layer") then
    let n := length l in
    do l1 <- wline T "layer1" [XInt (Z.of_nat n)];
    do ch <- write_chunks (sp "layer2") (chunk_of "write_meshmaker_rz2d") (nlines_z (Z.of_nat (chunk_of "write_meshmaker_rz2d")) (Z.of_nat n)) l;
    Ok (head :: l1 :: ch)
  else Ok [head].
Definition write_xyz_sub (x : dict * list value) : res file :=
  let (dct, deli) := x in
  do l1 <- wline T "xyz2" (dict_vals dct (nm "xyz2"));
  match dget dct "del" with
  | None => Raise KeyError
  | Some dl =>
      if v_eq0 dl then
        match dget dct "no" with
        | None => Raise KeyError
        | Some no =>
            do n <- ceil_div no (chunk_of "write_meshmaker_xyz");
            do k <- match no with XInt z => Ok (Z.to_nat z) | _ => Raise TypeError end;
            do ch <- write_chunks (sp "xyz3") (chunk_of "write_meshmaker_xyz") n (firstn k deli);
            Ok (l1 :: ch)
        end
      else Ok [l1]
  end.
Definition write_mm (m : mmsec) : res file :=
  match m with
  | MMrz2d subs => do ls <- mapM write_rz2d_sub subs; Ok (kw "RZ2D" :: concat ls)
  | MMxyz deg subs =>
      do l1 <- wline T "xyz1" [deg];
      do ls <- mapM write_xyz_sub subs;
      Ok (kw "XYZ" :: l1 :: concat ls +++ [[nl]])
  | MMminc dct spacing vol =>
      do l1 <- wline T "minc" [XStr (s2l "PART "); dgetv dct "type"; XStr []; dgetv dct "dual"];
      let n := length vol in
      do l2 <- wline T "part1" ([dgetv dct "num_continua"; XInt (Z.of_nat n); dgetv dct "where"] +++ spacing);
      do ch <- write_chunks (sp "part2") (chunk_of "write_meshmaker_minc") (nlines_z (Z.of_nat (chunk_of "write_meshmaker_minc")) (Z.of_nat n)) vol;
      Ok (kw "MINC" :: l1 :: l2 :: ch)
  end.
Definition write_meshmaker (d : t2d) : res file :=
  match meshmaker d with
  | [] => Ok []
  | ms => do ls <- mapM write_mm ms; Ok (kw "MESHMAKER" :: concat ls +++ [[nl]])
  end.

Fixpoint read_rz2d (fuel : nat) (acc : list (str * dict * list value)) (ls : file) : res (list (str * dict * list value) * file) :=
  match fuel with
  | O => Raise OutOfFuel
  | S f =>
      let (line, r) := readline ls in
      let keyword := strip (slice 0 5 line) in
      if str_eqb keyword (s2l "RADII") then
        let (l1, r1) := readline r in
        do n <- ceil_div (vnth (pline T "radii1" l1) 0) (chunk_of "read_meshmaker_rz2d");
        let (vs, r2) := read_chunks (sp "radii2") n r1 in
        read_rz2d f ((lower keyword, [], vs) :: acc) r2
      else if str_eqb keyword (s2l "EQUID") then
        let (l1, r1) := readline r in
        let dct := dict_update [] (nm "equid") (pline T "equid" l1) in
        read_rz2d f (match dct with [] => acc | _ => (lower keyword, dct, []) :: acc end) r1
      else if str_eqb keyword (s2l "LOGAR") then
        let (l1, r1) := readline r in
        let dct := dict_update [] (nm "logar") (pline T "logar" l1) in
        read_rz2d f (match dct with [] => acc | _ => (lower keyword, dct, []) :: acc end) r1
      else if str_eqb keyword (s2l "LAYER") then
        let (l1, r1) := readline r in
        let nl_ := vnth (pline T "layer1" l1) 0 in
        do n <- ceil_div nl_ (chunk_of "read_meshmaker_rz2d");
        let (vs, r2) := read_chunks_all (sp "layer2") n r1 in
        do lay <- take_z nl_ vs;
        Ok (rev ((lower keyword, [], lay) :: acc), r2)
      else read_rz2d f acc r
  end.
Fixpoint read_xyz (fuel : nat) (acc : list (dict * list value)) (ls : file) : res (list (dict * list value) * file) :=
  match fuel with
  | O => Raise OutOfFuel
  | S f =>
      let (line, r) := readline ls in
      if blank line then Ok (rev acc, r)
      else
        let v := pline T "xyz2" line in
        let dct : dict := [("ntype", vnth v 0); ("no", vnth v 2); ("del", vnth v 3)] in
        if v_eq0 (vnth v 3) then
          do n <- ceil_div (vnth v 2) (chunk_of "read_meshmaker_xyz");
          let (vs, r2) := read_chunks_all (sp "xyz3") n r in
          do deli <- take_z (vnth v 2) vs;
          read_xyz f ((dct, deli) :: acc) r2
        else read_xyz f ((dct, []) :: acc) r
  end.
Definition read_minc (ls : file) : res (option mmsec * file) :=
  let (l0, r) := readline ls in
  let line := strip l0 in
  if str_eqb (strip (slice 0 5 line)) (s2l "PART") then
    let v := pline T "minc" line in
    let (l1, r1) := readline r in
    let v1 := pline T "part1" l1 in
    do n <- ceil_div (vnth v1 1) (chunk_of "read_meshmaker_minc");
    let (vs, r2) := read_chunks_all (sp "part2") n r1 in
    do vol <- take_z (vnth v1 1) vs;
    Ok (Some (MMminc [("type", vnth v 1); ("dual", vnth v 3); ("num_continua", vnth v1 0); ("where", vnth v1 2)] (skipn 3 v1) vol), r2)
  else Ok (None, r).
Fixpoint read_mm_loop (fuel : nat) (acc : list mmsec) (ls : file) : res (list mmsec * file) :=
  match fuel with
  | O => Raise OutOfFuel
  | S f =>
      let (line, r) := readline ls in
      if blank line then Ok (rev acc, r)
      else
        let keyword := strip (slice 0 5 line) in
        if str_eqb keyword (s2l "RZ2D") then
          do x <- read_rz2d (S (length r)) [] r; read_mm_loop f (MMrz2d (fst x) :: acc) (snd x)
        else if str_eqb keyword (s2l "XYZ") then
          let (l1, r1) := readline r in
          let deg := vnth (pline T "xyz1" l1) 0 in
          do x <- read_xyz (S (length r1)) [] r1; read_mm_loop f (MMxyz deg (fst x) :: acc) (snd x)
        else if str_eqb keyword (s2l "MINC") then
          do x <- read_minc r;
          read_mm_loop f (match fst x with Some m => m :: acc | None => acc end) (snd x)
        else read_mm_loop f acc r
  end.
Definition read_meshmaker (d : t2d) (ls : file) : res (t2d * file) :=
  do x <- read_mm_loop (S (length ls)) [] ls;
  Ok (set_meshmaker d (meshmaker d +++ fst x), snd x).

End WithTable.
