(** C01 -- the grid in the binary pair MESHA / MESHB (write_binary_meshfiles,
    read_binary_meshfiles).  A file is a list of Fortran records; a record is a list of
    4-byte integers, of doubles or of 8-byte names.  The byte layout of a record stays
    abstract: [pack] / [unpack] with the law [unpack_pack] (what struct.pack / struct.unpack
    and the record markers of fortran_unformatted_file do) are parameters of the section. *)
From Coq Require Import Ascii String List Bool Arith ZArith NArith Lia.
From PTBase Require Import Exn PyStr PyNum PyVal Fmt FixedFormat.
From Gen Require Import GenTables GenSections.
From P Require Import Comb Obj Fields Sections SectionsB Rec SecRocks SecMesh SecGener SecMisc SecParam SecHist SecSel SecShort SecMeshm T2DataIO Whole.
Import ListNotations.
Open Scope string_scope.

Inductive brec := BI (l : list Z) | BD (l : list value) | BS (l : list str).
Inductive bfmt := FI (n : nat) | FD (n : nat) | FS (n : nat).
Definition fmt_of (r : brec) : bfmt :=
  match r with BI l => FI (length l) | BD l => FD (length l) | BS l => FS (length l) end.

(** ** numbers in an 'f8' column: None is nan, an int its double; nan_to_num *)
Definition v_nan : value := XReal false 0 1.
Definition v_zero : value := XReal false 0 0.
Fixpoint pos_tz (p : positive) : nat * positive :=
  match p with xO q => let (n, r) := pos_tz q in (S n, r) | _ => (O, p) end.
Definition int_f8 (z : Z) : res value :=
  match z with
  | Z0 => Ok v_zero
  | Zpos p => if (Z.pos p <? 2 ^ 53)%Z then let (n, r) := pos_tz p in Ok (XReal false (Zpos r) (Z.of_nat n)) else Raise OverflowError
  | Zneg p => if (Z.pos p <? 2 ^ 53)%Z then let (n, r) := pos_tz p in Ok (XReal true (Zpos r) (Z.of_nat n)) else Raise OverflowError
  end.
Definition f8 (v : value) : res value :=
  match v with XReal _ _ _ => Ok v | XInt z => int_f8 z | XNone => Ok v_nan | XStr _ => Raise ValueError end.
Definition nan_to_num (v : value) : value :=
  match v with
  | XReal ng 0 1 => v_zero
  | XReal ng 0 2 => XReal ng (2 ^ 53 - 1) 971
  | _ => v
  end.
Definition nn (r : res value) : res value := do v <- r; Ok (nan_to_num v).
Definition is_f64 (v : value) : bool :=
  match v with XReal _ m e => (0 <=? m)%Z && (m <? 2 ^ 53)%Z && (-1074 <=? e)%Z && (e <=? 971)%Z | _ => false end.
Definition is_i32 (z : Z) : bool := (- 2 ^ 31 <=? z)%Z && (z <? 2 ^ 31)%Z.
Definition brec_ok (r : brec) : bool :=
  match r with
  | BI l => forallb is_i32 l
  | BD l => forallb is_f64 l
  | BS l => forallb (fun s => (length s =? 8)%nat) l
  end.

(** ** write_binary_meshfiles *)
Fixpoint index_last (n : str) (l : list str) (i : nat) (acc : option nat) : option nat :=
  match l with [] => acc | x :: r => index_last n r (S i) (if str_eqb x n then Some i else acc) end.
(** a dict built from enumerate: the last index wins; KeyError for a missing name *)
Definition lookup_idx (n : str) (l : list str) : res Z :=
  match index_last n l 0 None with Some i => Ok (Z.of_nat i) | None => Raise KeyError end.
Definition centre_i (b : block) (i : nat) : res value :=
  match b_centre b with
  | None => Raise TypeError
  | Some l => match nth_error l i with Some v => Ok v | None => Raise IndexError end
  end.
Definition dist_i (c : conn) (i : nat) : res value :=
  match nth_error (c_dist c) i with Some v => Ok v | None => Raise IndexError end.
Definition dir_i4 (v : value) : res Z := match v with XInt z => Ok z | XNone => Raise TypeError | _ => Raise PlainException end.
Definition write_bin (d : t2d) : res (list brec * list brec) :=
  let bs := blocks d in let cs := conns d in
  let nel := Z.of_nat (length bs) in let ncon := Z.of_nat (length cs) in
  let rnames := map r_name (rocks d) in let bnames := map b_name bs in
  do ri <- mapM (fun b => lookup_idx (b_rock b) rnames) bs;
  do vol <- mapM (fun b => f8 (b_volume b)) bs;
  do aht <- mapM (fun b => nn (f8 (b_ahtx b))) bs;
  do pmx <- mapM (fun b => nn (f8 (b_pmx b))) bs;
  do cx <- mapM (fun b => nn (do v <- centre_i b 0; f8 v)) bs;
  do cy <- mapM (fun b => nn (do v <- centre_i b 1; f8 v)) bs;
  do cz <- mapM (fun b => nn (do v <- centre_i b 2; f8 v)) bs;
  do i1 <- mapM (fun c => lookup_idx (c_b1 c) bnames) cs;
  do i2 <- mapM (fun c => lookup_idx (c_b2 c) bnames) cs;
  do d1 <- mapM (fun c => do v <- dist_i c 0; f8 v) cs;
  do d2 <- mapM (fun c => do v <- dist_i c 1; f8 v) cs;
  do dirn <- mapM (fun c => dir_i4 (c_dir c)) cs;
  do area <- mapM (fun c => f8 (c_area c)) cs;
  do beta <- mapM (fun c => f8 (c_dircos c)) cs;
  do sig <- mapM (fun c => nn (f8 (c_sigma c))) cs;
  Ok ([BI [nel]; BD vol; BD aht; BD pmx; BD cx; BD cy; BD cz; BD d1; BD d2; BD area; BD beta; BD sig; BI dirn;
       BS (map (fun c => ljust 8 (c_b1 c)) cs); BS (map (fun c => ljust 8 (c_b2 c)) cs)],
      [BI [ncon; (- nel)%Z]; BS (map (fun b => ljust 8 (b_name b)) bs); BI (map Z.succ ri); BI (map Z.succ i1); BI (map Z.succ i2)]).

(** ** read_binary_meshfiles, on the records *)
Definition gI (l : list brec) (i : nat) : res (list Z) := match nth_error l i with Some (BI x) => Ok x | _ => Raise ValueError end.
Definition gD (l : list brec) (i : nat) : res (list value) := match nth_error l i with Some (BD x) => Ok x | _ => Raise ValueError end.
Definition gS (l : list brec) (i : nat) : res (list str) := match nth_error l i with Some (BS x) => Ok x | _ => Raise ValueError end.
Definition at_index {A} (i : Z) (l : list A) : res A := match pyindex i l with Some x => Ok x | None => Raise IndexError end.
Definition rd_block (rs : list rock) (elem : list str) (rt : list Z) (evol aht pmx gx gy gz : list value) (i : nat) : res block :=
  do name <- fix_blockname (slice 0 5 (nth i elem []));
  do r <- at_index (nth i rt 0%Z - 1) rs;
  Ok (mk_block name XNone XNone (r_name r) (nth i evol XNone) (nth i aht XNone) (nth i pmx XNone)
               (Some [nth i gx XNone; nth i gy XNone; nth i gz XNone])).
Definition rd_conn (bl : list block) (nex1 nex2 isox : list Z) (del1 del2 area beta sig : list value) (i : nat) : res conn :=
  do b1 <- at_index (nth i nex1 0%Z - 1) bl;
  do b2 <- at_index (nth i nex2 0%Z - 1) bl;
  Ok (mk_conn (b_name b1) (b_name b2) XNone XNone XNone (XInt (nth i isox 0%Z)) [nth i del1 XNone; nth i del2 XNone]
              (nth i area XNone) (nth i beta XNone) (nth i sig XNone)).
Definition read_bin (A B : list brec) (d : t2d) : res t2d :=
  do h <- gI A 0; do g <- gI B 0;
  match h, g with
  | [nel], [ncon; nelb] =>
      if (nelb <? 0)%Z then
        if (nel =? - nelb)%Z then
          do evol <- gD A 1; do aht <- gD A 2; do pmx <- gD A 3; do gx <- gD A 4; do gy <- gD A 5; do gz <- gD A 6;
          do del1 <- gD A 7; do del2 <- gD A 8; do area <- gD A 9; do beta <- gD A 10; do sig <- gD A 11; do isox <- gI A 12;
          do elem <- gS B 1; do rt <- gI B 2; do nex1 <- gI B 3; do nex2 <- gI B 4;
          do bl <- mapM (rd_block (rocks d) elem rt evol aht pmx gx gy gz) (seq 0 (Z.to_nat nel));
          let blist := rev (fold_left (add_named same_block) bl []) in
          do cl <- mapM (rd_conn blist nex1 nex2 isox del1 del2 area beta sig) (seq 0 (Z.to_nat ncon));
          Ok (set_conns (set_blocks d blist) (rev (fold_left (add_named same_conn) cl [])))
        else Ok d                          (* the two files disagree: a message, the grid untouched *)
      else Raise PlainException            (* rock types by name (TOUGH2_MP's own files): not modelled *)
  | _, _ => Raise ValueError
  end.

(** ** what the reader builds from the pair written for [d] *)
Definition okv (r : res value) : value := match r with Ok v => v | Raise _ => XNone end.
Definition canon_bblock (b : block) : block :=
  mk_block (b_name b) XNone XNone (b_rock b) (okv (f8 (b_volume b))) (okv (nn (f8 (b_ahtx b)))) (okv (nn (f8 (b_pmx b))))
           (Some [okv (nn (do v <- centre_i b 0; f8 v)); okv (nn (do v <- centre_i b 1; f8 v)); okv (nn (do v <- centre_i b 2; f8 v))]).
Definition canon_bconn (c : conn) : conn :=
  mk_conn (c_b1 c) (c_b2 c) XNone XNone XNone (c_dir c) [okv (do v <- dist_i c 0; f8 v); okv (do v <- dist_i c 1; f8 v)]
          (okv (f8 (c_area c))) (okv (f8 (c_dircos c))) (okv (nn (f8 (c_sigma c)))).
Definition bin_state (d d2 : t2d) : t2d :=
  set_conns (set_blocks d2 (map canon_bblock (blocks d))) (map canon_bconn (conns d)).
Fixpoint strs_eq (a b : list str) : bool :=
  match a, b with [], [] => true | x :: a', y :: b' => str_eqb x y && strs_eq a' b' | _, _ => false end.
Lemma strs_eq_eq a : forall b, strs_eq a b = true -> a = b.
Proof.
  induction a as [|x a IH]; intros [|y b] H; try discriminate; [reflexivity|]. cbn in H. apply andb_prop in H as [H1 H2].
  apply str_eqb_eq in H1. subst. f_equal. apply IH. exact H2.
Qed.
(** the names come back through their 8 bytes; the rock types read from the main file are those of [d];
    block names and connections do not repeat; there is a block *)
Definition name_back (n : str) : bool :=
  match fix_blockname (slice 0 5 (ljust 8 n)) with Ok m => str_eqb m n | Raise _ => false end.
Definition wf_bin (d d2 : t2d) : bool :=
  strs_eq (map r_name (rocks d2)) (map r_name (rocks d)) &&
  forallb (fun b => name_back (b_name b)) (blocks d) &&
  all_distinct same_block (map canon_bblock (blocks d)) && all_distinct same_conn (map canon_bconn (conns d)) &&
  nonempty (blocks d).

(** ** lists column by column *)
Lemma mapM_length {A B} (f : A -> res B) : forall xs ys, mapM f xs = Ok ys -> length ys = length xs.
Proof.
  induction xs as [|x xs IH]; intros ys H; [cbn in H; inv_ok H; reflexivity|].
  apply mapM_cons in H as [a [b [_ [H2 E]]]]. subst ys. cbn. rewrite (IH b H2). reflexivity.
Qed.
Lemma mapM_nth {A B} (f : A -> res B) dx dy : forall xs ys, mapM f xs = Ok ys ->
  forall i, (i < length xs)%nat -> f (nth i xs dx) = Ok (nth i ys dy).
Proof.
  induction xs as [|x xs IH]; intros ys H i L; [cbn in L; lia|].
  apply mapM_cons in H as [a [b [H1 [H2 E]]]]. subst ys. destruct i as [|i]; [exact H1|]. cbn [nth]. apply IH; [exact H2|cbn in L; lia].
Qed.
Lemma mapM_seq_nth {X Y} (G : X -> res Y) (F : nat -> res Y) dx : forall xs s,
  (forall i, (i < length xs)%nat -> F (s + i)%nat = G (nth i xs dx)) -> mapM F (seq s (length xs)) = mapM G xs.
Proof.
  induction xs as [|x xs IH]; intros s H; [reflexivity|]. cbn [length seq mapM].
  pose proof (H 0%nat ltac:(cbn; lia)) as H0. rewrite Nat.add_0_r in H0. cbn [nth] in H0. rewrite H0. rewrite (IH (S s)); [reflexivity|].
  intros i L. replace (S s + i)%nat with (s + S i)%nat by lia. apply (H (S i)). cbn. lia.
Qed.
Lemma mapM_pure {A B} (g : A -> B) xs : mapM (fun x => Ok (g x)) xs = Ok (map g xs).
Proof. induction xs as [|x xs IH]; [reflexivity|]. cbn [mapM map bind]. rewrite IH. reflexivity. Qed.
Lemma nth_map_in {A B} (f : A -> B) l i d d' : (i < length l)%nat -> nth i (map f l) d' = f (nth i l d).
Proof. intro L. rewrite (nth_indep (map f l) d' (f d)) by (rewrite map_length; exact L). apply map_nth. Qed.
Lemma index_last_nth n : forall l i acc j, index_last n l i acc = Some j ->
  acc = Some j \/ ((i <= j)%nat /\ nth_error l (j - i) = Some n).
Proof.
  induction l as [|x l IH]; intros i acc j H; [left; exact H|]. cbn [index_last] in H. apply IH in H as [H|[L H]].
  - destruct (str_eqb x n) eqn:E; [|left; exact H]. inversion H; subst. right. split; [lia|]. rewrite Nat.sub_diag. apply str_eqb_eq in E. subst. reflexivity.
  - right. split; [lia|]. replace (j - i)%nat with (S (j - S i)) by lia. exact H.
Qed.
Lemma lookup_idx_nth n l z : lookup_idx n l = Ok z -> (0 <= z)%Z /\ nth_error l (Z.to_nat z) = Some n.
Proof.
  unfold lookup_idx. destruct (index_last n l 0 None) as [j|] eqn:E; [|discriminate]. intro H. inv_ok H.
  apply index_last_nth in E as [E|[_ E]]; [discriminate|]. rewrite Nat.sub_0_r in E. rewrite Nat2Z.id. split; [lia|exact E].
Qed.
Lemma at_index_succ {A} (l : list A) z x : (0 <= z)%Z -> nth_error l (Z.to_nat z) = Some x -> at_index (Z.succ z - 1) l = Ok x.
Proof.
  intros P H. unfold at_index, pyindex. replace (Z.succ z - 1)%Z with z by lia.
  assert (L : (Z.to_nat z < length l)%nat) by (apply nth_error_Some; congruence).
  destruct (z <? 0)%Z eqn:N; [apply Z.ltb_lt in N; lia|]. rewrite N. cbn [orb].
  destruct (Z.of_nat (length l) <=? z)%Z eqn:M; [apply Z.leb_le in M; lia|]. rewrite H. reflexivity.
Qed.

(** ** the round trip on the records *)
Theorem bin_roundtrip d RA RB d2 : write_bin d = Ok (RA, RB) -> wf_bin d d2 = true -> read_bin RA RB d2 = Ok (bin_state d d2).
Proof.
  intros W WF. unfold wf_bin in WF. apply andb_prop in WF as [WF NE]. apply andb_prop in WF as [WF DC]. apply andb_prop in WF as [WF DB].
  apply andb_prop in WF as [RN NB]. apply strs_eq_eq in RN. rewrite forallb_forall in NB.
  unfold write_bin in W. cbv zeta in W.
  set (bs := blocks d) in *. set (cs := conns d) in *.
  destruct (mapM (fun b => lookup_idx (b_rock b) (map r_name (rocks d))) bs) as [ri|] eqn:Eri; cbn [bind] in W; [|discriminate].
  destruct (mapM (fun b => f8 (b_volume b)) bs) as [vol|] eqn:Evol; cbn [bind] in W; [|discriminate].
  destruct (mapM (fun b => nn (f8 (b_ahtx b))) bs) as [aht|] eqn:Eaht; cbn [bind] in W; [|discriminate].
  destruct (mapM (fun b => nn (f8 (b_pmx b))) bs) as [pmx|] eqn:Epmx; cbn [bind] in W; [|discriminate].
  destruct (mapM (fun b => nn (do v <- centre_i b 0; f8 v)) bs) as [cx|] eqn:Ecx; cbn [bind] in W; [|discriminate].
  destruct (mapM (fun b => nn (do v <- centre_i b 1; f8 v)) bs) as [cy|] eqn:Ecy; cbn [bind] in W; [|discriminate].
  destruct (mapM (fun b => nn (do v <- centre_i b 2; f8 v)) bs) as [cz|] eqn:Ecz; cbn [bind] in W; [|discriminate].
  destruct (mapM (fun c => lookup_idx (c_b1 c) (map b_name bs)) cs) as [i1|] eqn:Ei1; cbn [bind] in W; [|discriminate].
  destruct (mapM (fun c => lookup_idx (c_b2 c) (map b_name bs)) cs) as [i2|] eqn:Ei2; cbn [bind] in W; [|discriminate].
  destruct (mapM (fun c => do v <- dist_i c 0; f8 v) cs) as [d1|] eqn:Ed1; cbn [bind] in W; [|discriminate].
  destruct (mapM (fun c => do v <- dist_i c 1; f8 v) cs) as [dd2|] eqn:Ed2; cbn [bind] in W; [|discriminate].
  destruct (mapM (fun c => dir_i4 (c_dir c)) cs) as [dirn|] eqn:Edir; cbn [bind] in W; [|discriminate].
  destruct (mapM (fun c => f8 (c_area c)) cs) as [area|] eqn:Earea; cbn [bind] in W; [|discriminate].
  destruct (mapM (fun c => f8 (c_dircos c)) cs) as [beta|] eqn:Ebeta; cbn [bind] in W; [|discriminate].
  destruct (mapM (fun c => nn (f8 (c_sigma c))) cs) as [sig|] eqn:Esig; cbn [bind] in W; [|discriminate].
  injection W as EA EB. subst RA RB.
  unfold read_bin. cbn [gI gD gS nth_error bind].
  assert (NP : (0 < length bs)%nat) by (destruct bs; [discriminate NE|cbn; lia]).
  assert (C1 : (- Z.of_nat (length bs) <? 0)%Z = true) by (apply Z.ltb_lt; lia). rewrite C1.
  rewrite Z.opp_involutive, Z.eqb_refl, !Nat2Z.id.
  (* the blocks *)
  set (db := mk_block [] XNone XNone [] XNone XNone XNone None).
  assert (BL : mapM (rd_block (rocks d2) (map (fun b => ljust 8 (b_name b)) bs) (map Z.succ ri) vol aht pmx cx cy cz) (seq 0 (length bs)) =
               Ok (map canon_bblock bs)).
  { rewrite <- (mapM_pure canon_bblock bs). apply (mapM_seq_nth _ _ db). intros i L. cbn [Nat.add]. unfold rd_block.
    rewrite (nth_map_in (fun b => ljust 8 (b_name b)) bs i db []) by exact L.
    assert (IB : In (nth i bs db) bs) by (apply nth_In; exact L).
    specialize (NB _ IB). unfold name_back in NB. destruct (fix_blockname _) as [m|]; [|discriminate]. apply str_eqb_eq in NB. subst m. cbn [bind].
    pose proof (mapM_nth _ db 0%Z _ _ Eri i L) as R. cbn beta in R. apply lookup_idx_nth in R as [RP RNth].
    rewrite (nth_map_in Z.succ ri i 0%Z 0%Z) by (rewrite (mapM_length _ _ _ Eri); exact L).
    rewrite <- RN in RNth. rewrite nth_error_map in RNth. destruct (nth_error (rocks d2) (Z.to_nat (nth i ri 0%Z))) as [r|] eqn:NR; [|discriminate].
    cbn [option_map] in RNth. inversion RNth as [RE]. rewrite (at_index_succ _ _ r RP NR). cbn [bind]. unfold canon_bblock. rewrite RE.
    rewrite (mapM_nth _ db XNone _ _ Evol i L), (mapM_nth _ db XNone _ _ Eaht i L), (mapM_nth _ db XNone _ _ Epmx i L),
            (mapM_nth _ db XNone _ _ Ecx i L), (mapM_nth _ db XNone _ _ Ecy i L), (mapM_nth _ db XNone _ _ Ecz i L). reflexivity. }
  rewrite BL. cbn [bind]. rewrite (fold_add_named_fresh same_block _ DB).
  (* the connections *)
  set (dc := mk_conn [] [] XNone XNone XNone XNone [] XNone XNone XNone).
  assert (CL : mapM (rd_conn (map canon_bblock bs) (map Z.succ i1) (map Z.succ i2) dirn d1 dd2 area beta sig) (seq 0 (length cs)) =
               Ok (map canon_bconn cs)).
  { rewrite <- (mapM_pure canon_bconn cs). apply (mapM_seq_nth _ _ dc). intros i L. cbn [Nat.add]. unfold rd_conn.
    assert (IX : forall (f : conn -> str) ix, mapM (fun c => lookup_idx (f c) (map b_name bs)) cs = Ok ix ->
                 exists b, at_index (nth i (map Z.succ ix) 0%Z - 1) (map canon_bblock bs) = Ok (canon_bblock b) /\ b_name b = f (nth i cs dc)).
    { intros f ix E. pose proof (mapM_nth _ dc 0%Z _ _ E i L) as R. cbn beta in R. apply lookup_idx_nth in R as [RP RNth].
      rewrite (nth_map_in Z.succ ix i 0%Z 0%Z) by (rewrite (mapM_length _ _ _ E); exact L).
      rewrite nth_error_map in RNth. destruct (nth_error bs (Z.to_nat (nth i ix 0%Z))) as [b|] eqn:NBk; [|discriminate].
      cbn [option_map] in RNth. inversion RNth as [RE]. exists b. split; [|reflexivity].
      apply at_index_succ; [exact RP|]. rewrite nth_error_map, NBk. reflexivity. }
    destruct (IX c_b1 i1 Ei1) as [b1 [A1 N1]]. destruct (IX c_b2 i2 Ei2) as [b2 [A2 N2]]. rewrite A1, A2. cbn [bind].
    unfold canon_bconn. cbn [b_name canon_bblock]. rewrite N1, N2.
    pose proof (mapM_nth _ dc 0%Z _ _ Edir i L) as DI. cbn beta in DI.
    assert (DV : XInt (nth i dirn 0%Z) = c_dir (nth i cs dc)).
    { unfold dir_i4 in DI. destruct (c_dir (nth i cs dc)); try discriminate. inv_ok DI. reflexivity. }
    rewrite DV.
    rewrite (mapM_nth _ dc XNone _ _ Ed1 i L), (mapM_nth _ dc XNone _ _ Ed2 i L), (mapM_nth _ dc XNone _ _ Earea i L),
            (mapM_nth _ dc XNone _ _ Ebeta i L), (mapM_nth _ dc XNone _ _ Esig i L). reflexivity. }
  rewrite CL. cbn [bind]. rewrite (fold_add_named_fresh same_conn _ DC). reflexivity.
Qed.

(** ** the same through the bytes of the records *)
Section Bytes.
Variable rbytes : Type.
Variable pack : brec -> rbytes.
Variable unpack : bfmt -> rbytes -> res brec.
Hypothesis unpack_pack : forall r, brec_ok r = true -> unpack (fmt_of r) (pack r) = Ok r.

Fixpoint unpack_all (fs : list bfmt) (rs : list rbytes) : res (list brec) :=
  match fs, rs with
  | [], _ => Ok []
  | f :: fs', r :: rs' => do x <- unpack f r; do xs <- unpack_all fs' rs'; Ok (x :: xs)
  | _ :: _, [] => Raise ValueError
  end.
(** readrec with the formats read_binary_meshfiles asks for: 'i', '2i', then '%dd' % nel ... *)
Definition read_bin_bytes (A B : list rbytes) (d : t2d) : res t2d :=
  match A, B with
  | a0 :: ar, b0 :: br =>
      do h <- unpack (FI 1) a0; do g <- unpack (FI 2) b0;
      match h, g with
      | BI [nel], BI [ncon; nelb] =>
          let n := Z.to_nat nel in let c := Z.to_nat ncon in
          if ((nelb <? 0) && (nel =? - nelb))%Z then
            do ra <- unpack_all (repeat (FD n) 6 ++ repeat (FD c) 5 ++ [FI c])%list ar;
            do rb <- unpack_all [FS n; FI n; FI c; FI c] br;
            read_bin (h :: ra) (g :: rb) d
          else read_bin [h] [g] d
      | _, _ => Raise ValueError
      end
  | _, _ => Raise ValueError
  end.
Theorem bin_bytes_roundtrip d RA RB d2 : write_bin d = Ok (RA, RB) -> wf_bin d d2 = true ->
  forallb brec_ok RA = true -> forallb brec_ok RB = true ->
  read_bin_bytes (map pack RA) (map pack RB) d2 = Ok (bin_state d d2).
Proof.
  intros W WF OA OB. rewrite <- (bin_roundtrip d RA RB d2 W WF).
  assert (NE : nonempty (blocks d) = true) by (unfold wf_bin in WF; apply andb_prop in WF as [_ NE]; exact NE).
  unfold write_bin in W. cbv zeta in W.
  repeat match type of W with bind ?X _ = _ => let E := fresh "E" in destruct X eqn:E; cbn [bind] in W; [|discriminate] end.
  injection W as EA EB. subst RA RB.
  repeat match goal with E : mapM _ _ = Ok _ |- _ => apply mapM_length in E end.
  cbn [forallb] in OA, OB. repeat (apply andb_prop in OA as [? OA]). repeat (apply andb_prop in OB as [? OB]).
  unfold read_bin_bytes. cbn [map].
  assert (NP : (0 < length (blocks d))%nat) by (destruct (blocks d); [discriminate NE|cbn; lia]).
  assert (C1 : (- Z.of_nat (length (blocks d)) <? 0)%Z = true) by (apply Z.ltb_lt; lia).
  Ltac up_one unpack_pack :=
    match goal with
    | |- context [bind (?u _ (?p ?r)) _] =>
        let U := fresh "U" in
        assert (U := unpack_pack r ltac:(assumption)); cbn [fmt_of length] in U; rewrite ?map_length in U;
        repeat match goal with E : length _ = length _ |- _ => rewrite E in U end;
        rewrite U; clear U; cbn [bind]
    end.
  up_one unpack_pack. up_one unpack_pack.
  rewrite C1, Z.opp_involutive, Z.eqb_refl, !Nat2Z.id. cbn [andb repeat app unpack_all].
  do 16 up_one unpack_pack.
  unfold read_bin. cbn [gI gD gS nth_error bind]. reflexivity.
Qed.
End Bytes.

(** ** the whole configuration: main file without ELEME / CONNE, the grid in the pair *)
Lemma write_files_bin_shape d d' fs : write_files (mk_wcfg 2 None None) d = Ok (d', fs) -> update_sections d = sections d -> xprec d = [] ->
  exists all, write_sections T0 write_fn_names d (main_secs d) = Ok all /\
     fs = mk_files ((strip (title d) +++ [nl]) :: all ++ [end_keyword d +++ [nl]])%list None None.
Proof.
  intros W US XP. unfold write_files in W. rewrite US in W. cbn [w_mesh bind] in W.
  assert (X : (if autough2 (set_sections d (sections d)) then write_xp (mk_wcfg 2 None None) (set_sections d (sections d))
               else Ok (set_sections d (sections d), None)) = Ok (set_sections d (sections d), None)).
  { destruct (autough2 _); [|reflexivity]. unfold write_xp. cbn [w_xp w_echo].
    replace (xprec (set_sections d (sections d))) with (xprec d) by (destruct d; reflexivity). rewrite XP. reflexivity. }
  rewrite X in W. cbn [bind] in W.
  replace (xprec (set_sections d (sections d))) with (xprec d) in W by (destruct d; reflexivity). rewrite XP in W.
  replace (sections (set_sections d (sections d))) with (sections d) in W by (destruct d; reflexivity).
  assert (FE : filter (fun k => negb (in_str k mesh_kws) && (negb (in_str k []) || xecho (set_sections d (sections d)))) (sections d) = main_secs d).
  { unfold main_secs. apply filter_ext. intro k. cbn [in_str existsb negb orb]. apply andb_true_r. }
  rewrite FE in W. rewrite write_sections_sections in W.
  destruct (write_sections T0 write_fn_names d (main_secs d)) as [all|]; cbn [bind] in W; [|discriminate].
  inv_ok W. exists all. split; [reflexivity|]. destruct d; reflexivity.
Qed.
(** read(filename, meshfilename = (MESHA, MESHB)): the main file, then the pair when no block was read *)
Definition read_files_bin (fs : files) (A B : list brec) : res t2d :=
  do d2 <- read_files fs; match blocks d2 with [] => read_bin A B d2 | _ => Ok d2 end.
Lemma read_main_no_mesh d ks d' fs :
  write_files (mk_wcfg 2 None None) d = Ok (d', fs) ->
  update_sections d = sections d -> main_secs d = map s2l ks -> xprec d = [] -> is_end (end_keyword d) = true ->
  title_ok d = true -> chain_ok d ks (start_state d) = true -> forallb (fun k => negb (k =? "ELEME")) ks = true ->
  let d2 := set_end_keyword (final d ks (start_state d)) (end_keyword d) in
  read_files fs = Ok d2 /\ blocks d2 = [].
Proof.
  intros W US SK XP EK TI CH NE d2.
  destruct (write_files_bin_shape d d' fs W US XP) as [all [WS EF]]. subst fs. rewrite SK in WS.
  pose proof tables_ok_true as TK. unfold tables_ok in TK.
  apply andb_prop in TK as [TK _]. apply andb_prop in TK as [TK _]. apply andb_prop in TK as [TK _]. apply andb_prop in TK as [TK _]. apply andb_prop in TK as [_ K8]. unfold simul_table_ok in K8. apply andb_prop in K8 as [_ SHT].
  unfold title_ok in TI. apply andb_prop in TI as [NL LT]. apply Nat.leb_le in LT.
  unfold read_files. cbn [f_main f_mesh f_pdat].
  unfold read_title. cbn [readline]. rewrite (line80 "title" _ SHT NL LT). fold (start_state d).
  destruct (loop_sections d (end_keyword d) EK ks (start_state d)
              (2 * length ((strip (title d) +++ [nl]) :: all ++ [end_keyword d +++ [nl]])%list + 2) all WS CH eq_refl) as [A _].
  { pose proof (chain_lines d ks _ all WS CH). cbn [length]. rewrite app_length. lia. }
  match goal with |- bind ?X _ = _ /\ _ => assert (EX : X = Ok d2) by exact A end.
  rewrite EX. cbn [bind].
  assert (XF : xprec d2 = []).
  { unfold d2. replace (xprec (set_end_keyword (final d ks (start_state d)) (end_keyword d))) with (xprec (final d ks (start_state d)))
      by (destruct (final d ks (start_state d)); reflexivity).
    rewrite xprec_final. reflexivity. }
  assert (BF : blocks d2 = []).
  { unfold d2. replace (blocks (set_end_keyword (final d ks (start_state d)) (end_keyword d))) with (blocks (final d ks (start_state d)))
      by (destruct (final d ks (start_state d)); reflexivity).
    rewrite (blocks_final d ks NE). reflexivity. }
  rewrite XF.
  assert (D2 : (if read_reinfers_echo then d2 else d2) = d2) by (destruct read_reinfers_echo; reflexivity).
  rewrite D2. split; [reflexivity|exact BF].
Qed.
Theorem read_write_binary d ks d' fs RA RB :
  write_files (mk_wcfg 2 None None) d = Ok (d', fs) -> write_bin d = Ok (RA, RB) ->
  update_sections d = sections d -> main_secs d = map s2l ks -> xprec d = [] -> is_end (end_keyword d) = true ->
  title_ok d = true -> chain_ok d ks (start_state d) = true -> forallb (fun k => negb (k =? "ELEME")) ks = true ->
  let d2 := set_end_keyword (final d ks (start_state d)) (end_keyword d) in
  wf_bin d d2 = true ->
  read_files_bin fs RA RB = Ok (bin_state d d2).
Proof.
  intros W WB US SK XP EK TI CH NE d2 WF.
  destruct (read_main_no_mesh d ks d' fs W US SK XP EK TI CH NE) as [R BF]. fold d2 in R, BF.
  unfold read_files_bin. rewrite R. cbn [bind]. rewrite BF. apply bin_roundtrip; assumption.
Qed.

Section BytesWhole.
Variable rbytes : Type.
Variable pack : brec -> rbytes.
Variable unpack : bfmt -> rbytes -> res brec.
Hypothesis unpack_pack : forall r, brec_ok r = true -> unpack (fmt_of r) (pack r) = Ok r.
Definition read_files_bin_bytes (fs : files) (A B : list rbytes) : res t2d :=
  do d2 <- read_files fs; match blocks d2 with [] => read_bin_bytes rbytes unpack A B d2 | _ => Ok d2 end.
(** THE round trip with the grid in MESHA / MESHB, through the bytes of the records *)
Theorem read_write_binary_bytes d ks d' fs RA RB :
  write_files (mk_wcfg 2 None None) d = Ok (d', fs) -> write_bin d = Ok (RA, RB) ->
  update_sections d = sections d -> main_secs d = map s2l ks -> xprec d = [] -> is_end (end_keyword d) = true ->
  title_ok d = true -> chain_ok d ks (start_state d) = true -> forallb (fun k => negb (k =? "ELEME")) ks = true ->
  let d2 := set_end_keyword (final d ks (start_state d)) (end_keyword d) in
  wf_bin d d2 = true -> forallb brec_ok RA = true -> forallb brec_ok RB = true ->
  read_files_bin_bytes fs (map pack RA) (map pack RB) = Ok (bin_state d d2).
Proof.
  intros W WB US SK XP EK TI CH NE d2 WF OA OB.
  destruct (read_main_no_mesh d ks d' fs W US SK XP EK TI CH NE) as [R BF]. fold d2 in R, BF.
  unfold read_files_bin_bytes. rewrite R. cbn [bind]. rewrite BF. apply (bin_bytes_roundtrip rbytes pack unpack unpack_pack); assumption.
Qed.
End BytesWhole.
