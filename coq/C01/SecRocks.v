(** C01 -- ROCKS: read_rocktypes (write_rocktypes rs) = the rock types, each field read back
    from its own text; 0 / 1 / 3 continuation lines by nad. *)
From Coq Require Import Ascii String List Bool Arith ZArith NArith Lia.
From PTBase Require Import Exn PyStr PyNum PyVal Fmt FixedFormat.
From Gen Require Import GenSections.
From P Require Import Comb Obj Fields Sections Rec.
Import ListNotations.
Open Scope string_scope.

Definition fspec_eqb (a b : fspec) : bool :=
  (fw a =? fw b)%Z && fty_eqb (ft a) (ft b) &&
  match fp a, fp b with Some x, Some y => (x =? y)%Z | None, None => true | _, _ => false end.
Lemma fspec_eqb_eq a b : fspec_eqb a b = true -> a = b.
Proof.
  destruct a as [w1 p1 t1], b as [w2 p2 t2]. unfold fspec_eqb. cbn [fw fp ft]. intro H.
  apply andb_prop in H as [H H3]. apply andb_prop in H as [H1 H2]. apply Z.eqb_eq in H1. apply fty_eqb_eq in H2. subst.
  destruct p1, p2; try discriminate; [apply Z.eqb_eq in H3; subst|]; reflexivity.
Qed.
Fixpoint specs_eqb (a b : list fspec) : bool :=
  match a, b with [], [] => true | x :: a', y :: b' => fspec_eqb x y && specs_eqb a' b' | _, _ => false end.
Lemma specs_eqb_eq a : forall b, specs_eqb a b = true -> a = b.
Proof.
  induction a as [|x a IH]; intros [|y b] H; cbn in H; try discriminate; [reflexivity|].
  apply andb_prop in H as [H1 H2]. apply fspec_eqb_eq in H1. apply IH in H2. congruence.
Qed.
Definition isSome {A} (o : option A) : bool := match o with Some _ => true | None => false end.

Section WithTable.
Variable T : table.
Notation sp := (sp T).
Notation nm := (nm T).

Definition rocks_table_ok : bool :=
  shape_ok T "rocks1" [Ts; Td; Te; Te; Te; Te; Te; Te; Te] 79 && specs_eqb (sp "rocks1.3") (sp "rocks1.2").

Definition rock_vals1 (r : rock) : list value :=
  [XStr (r_name r); r_nad r; r_density r; r_porosity r] +++ r_perm r +++ [r_cond r; r_spec r].
(** a (type, parameters) line: type, 5 blanks, up to 7 parameters *)
Definition canon_tp (k : string) (o : option (value * list value)) : option (value * list value) :=
  match o with
  | Some (t, p) => let w := cvals (sp k) ([t; XNone] +++ p) in Some (vnth w 0, skipn 2 w)
  | None => None
  end.
Definition nad_level (v : value) : nat :=
  match v with XInt z => if (2 <=? z)%Z then 2 else if (1 <=? z)%Z then 1 else 0 | _ => 0 end.
Definition canon_rock (r : rock) : rock :=
  let v := cvals (sp "rocks1") (rock_vals1 r) in
  let ex := dict_update rock_default_extra (nm "rocks1.1") (cvals (sp "rocks1.1") (dict_vals (r_extra r) (nm "rocks1.1"))) in
  let mk e a b := mk_rock (sval (vnth v 0)) (vnth v 1) (vnth v 2) (vnth v 3) [vnth v 4; vnth v 5; vnth v 6] (vnth v 7) (vnth v 8) e a b in
  match nad_level (r_nad r) with
  | 0 => mk rock_default_extra None None
  | 1 => mk ex None None
  | _ => mk ex (canon_tp "rocks1.2" (r_rp r)) (canon_tp "rocks1.2" (r_cap r))
  end.
Definition wf_rock (r : rock) : bool :=
  match nth_error (sp "rocks1") 0, nth_error (sp "rocks1") 1 with
  | Some f0, Some f1 =>
      fits_str f0 (r_name r) && negb (blank (r_name r)) && (length (r_perm r) =? 3)%nat &&
      match r_nad r with XNone => true | XInt z => fits_int f1 z | _ => false end &&
      (if (2 <=? nad_level (r_nad r))%nat then isSome (r_rp r) && isSome (r_cap r) else true)
  | _, _ => false
  end.
Definition rock_step (acc : list rock) (r : rock) : list rock := add_named same_rock acc (canon_rock r).

Lemma tp_line k t p l : wline T k ([t; XNone] +++ p) = Ok l ->
  let v := pline T k l in Some (vnth v 0, skipn 2 v) = canon_tp k (Some (t, p)).
Proof. intro H. cbn zeta. rewrite (wp T _ _ _ H). reflexivity. Qed.

Theorem rock_roundtrip r ls : rocks_table_ok = true -> write_rock T r = Ok ls -> wf_rock r = true ->
  enc_ok (list rock) padstring blank (read_rock T) rock rock_step (fun _ => True) r ls.
Proof.
  intros TOK W WF. unfold rocks_table_ok in TOK. apply andb_prop in TOK as [SH EQ]. apply specs_eqb_eq in EQ.
  destruct (shape_nth _ _ _ _ 0 Ts SH eq_refl) as [f0 [N0 [T0 _]]].
  destruct (shape_nth _ _ _ _ 1 Td SH eq_refl) as [f1 [N1 [T1 P1]]]. specialize (P1 eq_refl).
  unfold wf_rock in WF. rewrite N0, N1 in WF.
  apply andb_prop in WF as [WF W5]. apply andb_prop in WF as [WF W4]. apply andb_prop in WF as [WF W3].
  apply andb_prop in WF as [W1 W2]. apply negb_true_iff in W2. apply Nat.eqb_eq in W3.
  unfold write_rock in W. fold (rock_vals1 r) in W.
  destruct (wline T "rocks1" (rock_vals1 r)) as [l1|] eqn:L1; cbn [bind] in W; [|discriminate].
  assert (LV : length (rock_vals1 r) = 9%nat) by (unfold rock_vals1; rewrite !app_length, W3; reflexivity).
  assert (LS : length (sp "rocks1") = 9%nat) by (rewrite (shape_length _ _ _ _ SH); reflexivity).
  assert (PAD : padstring l1 = l1).
  { apply (padstring_wline T "rocks1" _ _ L1); [lia|apply (shape_width _ _ _ _ SH)]. }
  assert (NB : blank (padstring l1) = false).
  { destruct (sp "rocks1") as [|g0 gs] eqn:S; [discriminate|]. cbn in N0. inversion N0; subst g0.
    eapply (wline_nonblank T "rocks1" f0 gs (r_name r)); eauto. }
  pose proof (wp T _ _ _ L1) as P.
  (* the nad field reads back as itself *)
  assert (NAD : vnth (cvals (sp "rocks1") (rock_vals1 r)) 1 = r_nad r).
  { rewrite (cvals_nth (sp "rocks1") (rock_vals1 r) 1 f1 (r_nad r) N1 eq_refl).
    destruct (r_nad r) as [|z| |] eqn:E; try discriminate W4.
    - apply cf_int; assumption.
    - apply cf_none. unfold numeric. rewrite T1. reflexivity. }
  (* common shape of the reader's first steps *)
  assert (HEAD : forall acc rest more, read_rock T acc (padstring l1) (more ++ rest)%list =
     (let v := cvals (sp "rocks1") (rock_vals1 r) in
      let nad := r_nad r in
      let rt0 := mk_rock (sval (vnth v 0)) nad (vnth v 2) (vnth v 3) [vnth v 4; vnth v 5; vnth v 6] (vnth v 7) (vnth v 8) rock_default_extra None None in
      let nadn := match nad with XNone => XInt 0 | x => x end in
      do ge1 <- v_ge nadn 1;
      if negb ge1 then Ok (add_named same_rock acc rt0, (more ++ rest)%list) else
      let (l2, r2) := readline (more ++ rest)%list in
      let ex := dict_update rock_default_extra (nm "rocks1.1") (pline T "rocks1.1" l2) in
      do ge2 <- v_ge nadn 2;
      if negb ge2 then Ok (add_named same_rock acc (mk_rock (r_name rt0) nad (r_density rt0) (r_porosity rt0) (r_perm rt0) (r_cond rt0) (r_spec rt0) ex None None), r2) else
      let (l3, r3) := readline r2 in
      let v3 := pline T "rocks1.2" l3 in
      let (l4, r4) := readline r3 in
      let v4 := pline T "rocks1.3" l4 in
      Ok (add_named same_rock acc (mk_rock (r_name rt0) nad (r_density rt0) (r_porosity rt0) (r_perm rt0) (r_cond rt0) (r_spec rt0) ex
                                           (Some (vnth v3 0, skipn 2 v3)) (Some (vnth v4 0, skipn 2 v4))), r4))).
  { intros acc rest more. unfold read_rock. rewrite PAD, P, NAD. reflexivity. }
  destruct (r_nad r) as [|z| |] eqn:E; try discriminate W4.
  - (* nad: an integer *)
    cbn [v_ge bind] in W.
    destruct (1 <=? z)%Z eqn:G1; cbn [negb] in W.
    + destruct (wline T "rocks1.1" (dict_vals (r_extra r) (nm "rocks1.1"))) as [l2|] eqn:L2; cbn [bind] in W; [|discriminate].
      destruct (2 <=? z)%Z eqn:G2; cbn [negb] in W.
      * assert (LV2 : nad_level (XInt z) = 2%nat) by (cbn; rewrite G2; reflexivity).
        rewrite LV2 in W5. cbn in W5. apply andb_prop in W5 as [S1 S2].
        destruct (r_rp r) as [[t1 p1]|] eqn:RP; [|discriminate]. destruct (r_cap r) as [[t2 p2]|] eqn:CP; [|discriminate].
        destruct (wline T "rocks1.2" ([t1; XNone] +++ p1)) as [l3|] eqn:L3; cbn [bind] in W; [|discriminate].
        destruct (wline T "rocks1.2" ([t2; XNone] +++ p2)) as [l4|] eqn:L4; cbn [bind] in W; [|discriminate].
        inv_ok W. split; [exact NB|]. intros acc rest _. split; [|exact I].
        rewrite HEAD. cbn zeta. cbn [v_ge bind]. rewrite G1, G2. cbn [negb app readline].
        rewrite (wp T _ _ _ L2). rewrite (pline_eq T "rocks1.3" "rocks1.2" _ EQ).
        rewrite (wp T _ _ _ L3), (wp T _ _ _ L4).
        unfold rock_step, canon_rock. rewrite E, LV2, RP, CP, NAD. reflexivity.
      * assert (LV1 : nad_level (XInt z) = 1%nat) by (cbn; rewrite G2, G1; reflexivity).
        inv_ok W. split; [exact NB|]. intros acc rest _. split; [|exact I].
        rewrite HEAD. cbn zeta. cbn [v_ge bind]. rewrite G1, G2. cbn [negb app readline].
        rewrite (wp T _ _ _ L2).
        unfold rock_step, canon_rock. rewrite E, LV1, NAD. reflexivity.
    + assert (LV0 : nad_level (XInt z) = 0%nat).
      { cbn. rewrite G1. destruct (2 <=? z)%Z eqn:G2; [apply Z.leb_le in G2; apply Z.leb_gt in G1; lia|reflexivity]. }
      inv_ok W. split; [exact NB|]. intros acc rest _. split; [|exact I].
      rewrite HEAD. cbn zeta. cbn [v_ge bind]. rewrite G1. cbn [negb app].
      unfold rock_step, canon_rock. rewrite E, LV0, NAD. reflexivity.
  - (* nad: None *)
    inv_ok W. split; [exact NB|]. intros acc rest _. split; [|exact I].
    rewrite HEAD. cbn zeta. cbn [v_ge bind]. change (1 <=? 0)%Z with false. cbn [negb app].
    unfold rock_step, canon_rock. rewrite E, NAD. reflexivity.
Qed.

(** the section: keyword line, the rock types, a blank line *)
Definition canon_rocks (rs : list rock) : list rock := rev (fold_left rock_step rs []).
Theorem rocks_roundtrip d body : rocks_table_ok = true -> write_rocks T d = Ok (kw "ROCKS" :: body) ->
  forallb wf_rock (rocks d) = true ->
  forall d0 rest, read_rocks T d0 (body ++ rest)%list = Ok (set_rocks d0 (canon_rocks (rocks d)), rest).
Proof.
  intros TOK W WF d0 rest. unfold write_rocks in W.
  destruct (write_list (write_rock T) (rocks d)) as [recs|] eqn:WL; cbn [bind] in W; [|discriminate].
  inversion W; subst body; clear W.
  assert (F : Forall2 (enc_ok (list rock) padstring blank (read_rock T) rock rock_step (fun _ => True)) (rocks d) recs).
  { apply (write_list_Forall2 _ _ _ _ WL). intros x ls Ix Wx. apply rock_roundtrip; auto.
    rewrite forallb_forall in WF. apply WF. exact Ix. }
  unfold read_rocks. rewrite <- app_assoc. cbn [app].
  destruct (loop_roundtrip (list rock) padstring blank (read_rock T) rock rock_step (fun _ => True)
              (rocks d) recs [nl] rest [] (S (length (concat recs ++ [nl] :: rest)%list)) F eq_refl I) as [L _].
  { pose proof (enc_ok_nonempty _ _ _ _ _ _ _ F). rewrite app_length. lia. }
  match goal with |- bind ?X _ = _ => replace X with (@Ok (list rock * file) (fold_left rock_step (rocks d) [], rest)) end.
  reflexivity.
Qed.
(** with pairwise distinct names nothing is replaced: the list itself, rock by rock *)
Corollary canon_rocks_distinct rs : all_distinct same_rock (map canon_rock rs) = true -> canon_rocks rs = map canon_rock rs.
Proof.
  intro D. unfold canon_rocks.
  assert (E : forall acc, fold_left rock_step rs acc = fold_left (add_named same_rock) (map canon_rock rs) acc).
  { induction rs as [|r rs IH]; intro acc; [reflexivity|]. cbn [fold_left map]. apply IH.
    cbn [map all_distinct] in D. apply andb_prop in D. tauto. }
  rewrite E. apply fold_add_named_fresh. exact D.
Qed.

End WithTable.
