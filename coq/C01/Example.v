(** C01 -- two concrete data objects (one per flavour) that meet every hypothesis of the
    whole-file theorems: 2 rock types (nad 0 and 2), 3 blocks, 2 connections, PARAM with
    two time-step lines and five default initial conditions, MOMOP, START, RPCAP,
    LINEQ / SOLVR, MULTI, TIMES (9 times), SELEC (two lines of reals), DIFFU, MESHMAKER (RZ2D
    with 9 radii, EQUID, LOGAR, LAYER; XYZ with a 9-entry increment list; MINC), a table
    generator with 5 times and enthalpies, SHORT (frequency, blocks, connections,
    generators; right after PARAM, so its header line is the look-ahead line), FOFT, COFT,
    GOFT, INDOM, INCON: all section kinds of the flavour, in a non-standard order.  Generated once from the harness's object
    builder (tools/props/c01_gen.py), checked here by computation. *)
From Coq Require Import Ascii String List Bool Arith ZArith NArith.
From PTBase Require Import Exn PyStr PyNum PyVal Fmt FixedFormat.
From Gen Require Import GenTables GenSections.
From P Require Import Comb Obj Fields Sections SectionsB Rec SecRocks SecMesh SecGener SecMisc SecParam SecHist SecSel SecShort SecMeshm T2DataIO Whole.
Import ListNotations.
Open Scope string_scope.

Definition example_autough2 : t2d :=
(mk_t2d
  (s2l "example problem")
  (s2l "AUTOUGH2.2EW")
  [(mk_rock (s2l "rock1") (XInt (0)) (XReal false (325) (3)) (XReal false (3602879701896397) (-55)) [(XReal false (2535301200456459) (-101)); (XReal false (2535301200456459) (-101)); (XReal false (2535301200456459) (-101))] (XReal false (3) (-1)) (XReal false (225) (2)) [("compressibility", (XReal false (0) (0))); ("expansivity", (XReal false (0) (0))); ("dry_conductivity", (XReal false (0) (0))); ("tortuosity", (XReal false (0) (0)))] None None); (mk_rock (s2l "rock2") (XInt (2)) (XReal false (625) (2)) (XReal false (1) (-2)) [(XReal false (3961408125713217) (-95)); (XReal false (3961408125713217) (-94)); (XReal false (693246421999813) (-94))] (XReal false (1) (1)) (XReal false (125) (3)) [("compressibility", (XReal false (7737125245533627) (-86))); ("expansivity", (XReal false (0) (0))); ("dry_conductivity", (XReal false (3) (-1))); ("tortuosity", (XReal false (0) (0)))] (Some ((XInt (1)), [(XReal false (5404319552844595) (-54)); (XReal false (3602879701896397) (-55)); (XReal false (8106479329266893) (-53)); (XReal false (3152519739159347) (-52))])) (Some ((XInt (1)), [(XReal false (0) (0)); (XReal false (0) (0)); (XReal false (1) (0))])))]
  [(mk_block (s2l "AB105") XNone XNone (s2l "rock1") (XReal false (375) (2)) XNone XNone (Some [(XReal false (5) (1)); (XReal false (5) (2)); (XReal true (71) (-1))])); (mk_block (s2l "AB 12") (XInt (3)) (XInt (1)) (s2l "rock2") (XReal false (1125) (1)) (XReal false (1) (0)) XNone None); (mk_block (s2l "wel 1") XNone XNone (s2l "rock2") (XReal false (2407412430484045) (115)) XNone (XReal false (1) (-1)) None)]
  [(mk_conn (s2l "AB105") (s2l "AB 12") XNone XNone XNone (XInt (3)) [(XReal false (5) (0)); (XReal false (15) (-1))] (XReal false (25) (2)) (XReal true (1) (0)) XNone); (mk_conn (s2l "AB 12") (s2l "wel 1") XNone XNone XNone (XInt (1)) [(XReal false (5) (-1)); (XReal false (4835703278458517) (-82))] (XReal false (25) (-1)) (XReal false (0) (0)) (XReal false (1) (-1)))]
  (mk_params [("max_iterations", (XInt (8))); ("print_level", (XInt (2))); ("max_timesteps", (XInt (500))); ("max_duration", XNone); ("print_interval", XNone); ("_option_str", (XStr (s2l "000000000000000000000000"))); ("diff0", (XReal false (7378697629483821) (-68))); ("texp", XNone); ("tstart", (XReal false (0) (0))); ("tstop", (XReal false (1953125) (9))); ("const_timestep", (XReal true (1) (1))); ("max_timestep", (XReal false (390625) (8))); ("print_block", (XStr (s2l "AB 12"))); ("gravity", (XReal false (5522539043063071) (-49))); ("timestep_reduction", XNone); ("scale", XNone); ("relative_error", (XReal false (5902958103587057) (-69))); ("absolute_error", XNone); ("pivot", XNone); ("upstream_weight", XNone); ("newton_weight", XNone); ("derivative_increment", XNone)] [(1)%Z; (0)%Z; (0)%Z; (0)%Z; (0)%Z; (0)%Z; (0)%Z; (0)%Z; (0)%Z; (0)%Z; (0)%Z; (0)%Z; (0)%Z; (0)%Z; (0)%Z; (3)%Z; (0)%Z; (0)%Z; (0)%Z; (0)%Z; (2)%Z; (0)%Z; (0)%Z; (1)%Z] [(XReal false (1) (0)); (XReal false (5) (1)); (XReal false (25) (2)); (XReal false (125) (3)); (XReal false (625) (4)); (XReal false (3125) (5)); (XReal false (15625) (6)); (XReal false (78125) (7)); (XReal false (390625) (8))] [(XReal false (25325) (2)); (XReal false (5) (2)); (XReal false (1) (-1)); (XReal false (1152921504606847) (-60)); (XReal false (15) (0))])
  [(0)%Z; (1)%Z; (0)%Z; (0)%Z; (0)%Z; (0)%Z; (0)%Z; (0)%Z; (0)%Z; (0)%Z; (0)%Z; (0)%Z; (0)%Z; (0)%Z; (0)%Z; (0)%Z; (0)%Z; (0)%Z; (0)%Z; (0)%Z; (0)%Z]
  true
  false
  (Some ((XInt (3)), [(XReal false (5404319552844595) (-54)); (XReal false (3602879701896397) (-56))]))
  (Some ((XInt (1)), [(XReal false (0) (0)); (XReal false (0) (0)); (XReal false (1) (0))]))
  [("type", (XInt (2))); ("epsilon", (XReal false (6189700196426901) (-89))); ("max_iterations", (XInt (400))); ("gauss", (XInt (1))); ("num_orthog", (XInt (20)))]
  []
  [("num_components", (XInt (2))); ("num_equations", (XInt (3))); ("num_phases", (XInt (2))); ("num_secondary_parameters", (XInt (6))); ("eos", (XStr (s2l "EWAV")))]
  (Some ([("num_times_specified", (XInt (9))); ("num_times", (XInt (9))); ("time_increment", (XReal false (3) (-1)))], [(XReal false (1) (0)); (XReal false (1) (1)); (XReal false (3) (0)); (XReal false (1) (2)); (XReal false (5) (0)); (XReal false (3) (1)); (XReal false (7) (0)); (XReal false (1) (3)); (XReal false (19) (-1))]))
  (Some ([(XInt (2)); (XInt (0)); (XInt (0)); (XInt (1)); XNone; (XInt (5))], [(XReal false (1) (0)); (XReal false (5) (-1)); XNone; (XReal false (1) (2)); (XReal false (5) (0)); (XReal false (3) (1)); (XReal false (7) (0)); (XReal false (1) (3)); (XReal false (9) (0)); (XReal false (21) (-1))]))
  [[(XReal false (5902958103587057) (-69)); (XReal false (4722366482869645) (-71))]; [(XReal false (8854437155380585) (-69)); (XReal false (0) (0))]]
  [(MMrz2d [((s2l "radii"), [], [(XReal false (0) (0)); (XReal false (1) (-1)); (XReal false (1) (0)); (XReal false (1) (1)); (XReal false (1) (2)); (XReal false (1) (3)); (XReal false (1) (4)); (XReal false (1) (5)); (XReal false (1) (6))]); ((s2l "equid"), [("nequ", (XInt (10))); ("dr", (XReal false (5) (-1)))], []); ((s2l "logar"), [("nlog", (XInt (20))); ("rlog", (XReal false (125) (3)))], []); ((s2l "layer"), [], [(XReal false (5) (1)); (XReal false (5) (2)); (XReal false (15) (1))])]); (MMxyz (XReal false (15) (0)) [([("ntype", (XStr (s2l "NX"))); ("no", (XInt (3))); ("del", (XReal false (25) (2)))], []); ([("ntype", (XStr (s2l "NY"))); ("no", (XInt (9))); ("del", (XReal false (0) (0)))], [(XReal false (1) (0)); (XReal false (1) (1)); (XReal false (3) (0)); (XReal false (1) (2)); (XReal false (5) (0)); (XReal false (3) (1)); (XReal false (7) (0)); (XReal false (1) (3)); (XReal false (9) (0))])]); (MMminc [("type", (XStr (s2l "THRED"))); ("dual", (XStr (s2l "MMALL"))); ("num_continua", (XInt (3))); ("where", (XStr (s2l "OUT ")))] [(XReal false (5) (1)); (XReal false (5) (2)); (XReal false (15) (1))] [(XReal false (3602879701896397) (-56)); (XReal false (1) (-2)); (XReal false (3152519739159347) (-52))])]
  [(mk_gen (s2l "AB105") (s2l "wel 1") XNone XNone XNone (XInt (5)) (s2l "MASS") (s2l "E") XNone XNone XNone XNone [(XReal false (0) (0)); (XReal false (125) (3)); (XReal false (125) (4)); (XReal false (375) (3)); (XReal false (125) (5))] [(XReal true (1) (0)); (XReal true (5) (-1)); (XReal true (3) (0)); (XReal true (1) (1)); (XReal false (0) (0))] [(XReal false (15625) (6)); (XReal false (34375) (5)); (XReal false (9375) (7)); (XReal false (40625) (5)); (XReal false (21875) (6))]); (mk_gen (s2l "AB 12") (s2l "inj 2") (XInt (0)) XNone XNone (XInt (1)) (s2l "HEAT") (s2l "") (XReal false (375) (2)) XNone XNone XNone [] [] [])]
  (Some (mk_short (Some (XInt (5))) (Some [(s2l "AB105"); (s2l "wel 1")]) (Some [((s2l "AB 12"), (s2l "wel 1"))]) (Some [((s2l "AB105"), (s2l "wel 1"))])))
  [(s2l "AB 12"); (s2l "wel 1")]
  [((s2l "AB105"), (s2l "AB 12"))]
  [(s2l "AB105")]
  [((s2l "AB 12"), (mk_inc (XReal false (1) (-2)) [(XReal false (3125) (5)); (XReal false (15) (0))] None)); ((s2l "AB105"), (mk_inc XNone [(XReal false (3125) (6)); (XReal false (125) (1)); (XReal false (3602879701896397) (-55))] (Some ((XInt (2)), (XInt (1))))))]
  [((s2l "rock2"), [(XReal false (3125) (5)); (XReal false (5) (2)); (XReal false (1) (-2))]); ((s2l "rock1"), [(XReal false (3125) (6))])]
  [(s2l "SIMUL"); (s2l "ROCKS"); (s2l "MULTI"); (s2l "START"); (s2l "DIFFU"); (s2l "ELEME"); (s2l "CONNE"); (s2l "MESHM"); (s2l "RPCAP"); (s2l "LINEQ"); (s2l "MOMOP"); (s2l "TIMES"); (s2l "SELEC"); (s2l "GENER"); (s2l "PARAM"); (s2l "SHORT"); (s2l "COFT"); (s2l "FOFT"); (s2l "GOFT"); (s2l "INDOM"); (s2l "INCON")]
  (s2l "ENDCY")
  []
  true).
Definition example_autough2_order : list string := ["SIMUL"; "ROCKS"; "MULTI"; "START"; "DIFFU"; "ELEME"; "CONNE"; "MESHM"; "RPCAP"; "LINEQ"; "MOMOP"; "TIMES"; "SELEC"; "GENER"; "PARAM"; "SHORT"; "COFT"; "FOFT"; "GOFT"; "INDOM"; "INCON"].
Definition example_tough2 : t2d :=
(mk_t2d
  (s2l "example problem")
  (s2l "")
  [(mk_rock (s2l "rock1") (XInt (0)) (XReal false (325) (3)) (XReal false (3602879701896397) (-55)) [(XReal false (2535301200456459) (-101)); (XReal false (2535301200456459) (-101)); (XReal false (2535301200456459) (-101))] (XReal false (3) (-1)) (XReal false (225) (2)) [("compressibility", (XReal false (0) (0))); ("expansivity", (XReal false (0) (0))); ("dry_conductivity", (XReal false (0) (0))); ("tortuosity", (XReal false (0) (0)))] None None); (mk_rock (s2l "rock2") (XInt (2)) (XReal false (625) (2)) (XReal false (1) (-2)) [(XReal false (3961408125713217) (-95)); (XReal false (3961408125713217) (-94)); (XReal false (693246421999813) (-94))] (XReal false (1) (1)) (XReal false (125) (3)) [("compressibility", (XReal false (7737125245533627) (-86))); ("expansivity", (XReal false (0) (0))); ("dry_conductivity", (XReal false (3) (-1))); ("tortuosity", (XReal false (0) (0)))] (Some ((XInt (1)), [(XReal false (5404319552844595) (-54)); (XReal false (3602879701896397) (-55)); (XReal false (8106479329266893) (-53)); (XReal false (3152519739159347) (-52))])) (Some ((XInt (1)), [(XReal false (0) (0)); (XReal false (0) (0)); (XReal false (1) (0))])))]
  [(mk_block (s2l "AB105") XNone XNone (s2l "rock1") (XReal false (375) (2)) XNone XNone (Some [(XReal false (5) (1)); (XReal false (5) (2)); (XReal true (71) (-1))])); (mk_block (s2l "AB 12") (XInt (3)) (XInt (1)) (s2l "rock2") (XReal false (1125) (1)) (XReal false (1) (0)) XNone None); (mk_block (s2l "wel 1") XNone XNone (s2l "rock2") (XReal false (2407412430484045) (115)) XNone (XReal false (1) (-1)) None)]
  [(mk_conn (s2l "AB105") (s2l "AB 12") XNone XNone XNone (XInt (3)) [(XReal false (5) (0)); (XReal false (15) (-1))] (XReal false (25) (2)) (XReal true (1) (0)) XNone); (mk_conn (s2l "AB 12") (s2l "wel 1") XNone XNone XNone (XInt (1)) [(XReal false (5) (-1)); (XReal false (4835703278458517) (-82))] (XReal false (25) (-1)) (XReal false (0) (0)) (XReal false (1) (-1)))]
  (mk_params [("max_iterations", (XInt (8))); ("print_level", (XInt (2))); ("max_timesteps", (XInt (500))); ("max_duration", XNone); ("print_interval", XNone); ("_option_str", (XStr (s2l "000000000000000000000000"))); ("diff0", XNone); ("texp", XNone); ("tstart", (XReal false (0) (0))); ("tstop", (XReal false (1953125) (9))); ("const_timestep", (XReal true (1) (1))); ("max_timestep", (XReal false (390625) (8))); ("print_block", (XStr (s2l "AB 12"))); ("gravity", (XReal false (5522539043063071) (-49))); ("timestep_reduction", XNone); ("scale", XNone); ("relative_error", (XReal false (5902958103587057) (-69))); ("absolute_error", XNone); ("pivot", XNone); ("upstream_weight", XNone); ("newton_weight", XNone); ("derivative_increment", XNone)] [(1)%Z; (0)%Z; (0)%Z; (0)%Z; (0)%Z; (0)%Z; (0)%Z; (0)%Z; (0)%Z; (0)%Z; (0)%Z; (0)%Z; (0)%Z; (0)%Z; (0)%Z; (3)%Z; (0)%Z; (0)%Z; (0)%Z; (0)%Z; (2)%Z; (0)%Z; (0)%Z; (1)%Z] [(XReal false (1) (0)); (XReal false (5) (1)); (XReal false (25) (2)); (XReal false (125) (3)); (XReal false (625) (4)); (XReal false (3125) (5)); (XReal false (15625) (6)); (XReal false (78125) (7)); (XReal false (390625) (8))] [(XReal false (25325) (2)); (XReal false (5) (2)); (XReal false (1) (-1)); (XReal false (1152921504606847) (-60)); (XReal false (15) (0))])
  [(0)%Z; (1)%Z; (0)%Z; (0)%Z; (0)%Z; (0)%Z; (0)%Z; (0)%Z; (0)%Z; (0)%Z; (0)%Z; (0)%Z; (0)%Z; (0)%Z; (0)%Z; (0)%Z; (0)%Z; (0)%Z; (0)%Z; (0)%Z; (0)%Z]
  true
  false
  (Some ((XInt (3)), [(XReal false (5404319552844595) (-54)); (XReal false (3602879701896397) (-56))]))
  (Some ((XInt (1)), [(XReal false (0) (0)); (XReal false (0) (0)); (XReal false (1) (0))]))
  []
  [("type", (XInt (5))); ("z_precond", (XStr (s2l "Z1"))); ("o_precond", (XStr (s2l "O0"))); ("relative_max_iterations", (XReal false (3602879701896397) (-55))); ("closure", (XReal false (4722366482869645) (-72)))]
  [("num_components", (XInt (2))); ("num_equations", (XInt (3))); ("num_phases", (XInt (2))); ("num_secondary_parameters", (XInt (6)))]
  (Some ([("num_times_specified", (XInt (9))); ("num_times", (XInt (9))); ("time_increment", (XReal false (3) (-1)))], [(XReal false (1) (0)); (XReal false (1) (1)); (XReal false (3) (0)); (XReal false (1) (2)); (XReal false (5) (0)); (XReal false (3) (1)); (XReal false (7) (0)); (XReal false (1) (3)); (XReal false (19) (-1))]))
  (Some ([(XInt (2)); (XInt (0)); (XInt (0)); (XInt (1)); XNone; (XInt (5))], [(XReal false (1) (0)); (XReal false (5) (-1)); XNone; (XReal false (1) (2)); (XReal false (5) (0)); (XReal false (3) (1)); (XReal false (7) (0)); (XReal false (1) (3)); (XReal false (9) (0)); (XReal false (21) (-1))]))
  [[(XReal false (5902958103587057) (-69)); (XReal false (4722366482869645) (-71))]; [(XReal false (8854437155380585) (-69)); (XReal false (0) (0))]]
  [(MMrz2d [((s2l "radii"), [], [(XReal false (0) (0)); (XReal false (1) (-1)); (XReal false (1) (0)); (XReal false (1) (1)); (XReal false (1) (2)); (XReal false (1) (3)); (XReal false (1) (4)); (XReal false (1) (5)); (XReal false (1) (6))]); ((s2l "equid"), [("nequ", (XInt (10))); ("dr", (XReal false (5) (-1)))], []); ((s2l "logar"), [("nlog", (XInt (20))); ("rlog", (XReal false (125) (3)))], []); ((s2l "layer"), [], [(XReal false (5) (1)); (XReal false (5) (2)); (XReal false (15) (1))])]); (MMxyz (XReal false (15) (0)) [([("ntype", (XStr (s2l "NX"))); ("no", (XInt (3))); ("del", (XReal false (25) (2)))], []); ([("ntype", (XStr (s2l "NY"))); ("no", (XInt (9))); ("del", (XReal false (0) (0)))], [(XReal false (1) (0)); (XReal false (1) (1)); (XReal false (3) (0)); (XReal false (1) (2)); (XReal false (5) (0)); (XReal false (3) (1)); (XReal false (7) (0)); (XReal false (1) (3)); (XReal false (9) (0))])]); (MMminc [("type", (XStr (s2l "THRED"))); ("dual", (XStr (s2l "MMALL"))); ("num_continua", (XInt (3))); ("where", (XStr (s2l "OUT ")))] [(XReal false (5) (1)); (XReal false (5) (2)); (XReal false (15) (1))] [(XReal false (3602879701896397) (-56)); (XReal false (1) (-2)); (XReal false (3152519739159347) (-52))])]
  [(mk_gen (s2l "AB105") (s2l "wel 1") XNone XNone XNone (XInt (5)) (s2l "MASS") (s2l "E") XNone XNone XNone XNone [(XReal false (0) (0)); (XReal false (125) (3)); (XReal false (125) (4)); (XReal false (375) (3)); (XReal false (125) (5))] [(XReal true (1) (0)); (XReal true (5) (-1)); (XReal true (3) (0)); (XReal true (1) (1)); (XReal false (0) (0))] [(XReal false (15625) (6)); (XReal false (34375) (5)); (XReal false (9375) (7)); (XReal false (40625) (5)); (XReal false (21875) (6))]); (mk_gen (s2l "AB 12") (s2l "inj 2") (XInt (0)) XNone XNone (XInt (1)) (s2l "HEAT") (s2l "") (XReal false (375) (2)) XNone XNone XNone [] [] [])]
  (Some (mk_short (Some (XInt (5))) (Some [(s2l "AB105"); (s2l "wel 1")]) (Some [((s2l "AB 12"), (s2l "wel 1"))]) (Some [((s2l "AB105"), (s2l "wel 1"))])))
  [(s2l "AB 12"); (s2l "wel 1")]
  [((s2l "AB105"), (s2l "AB 12"))]
  [(s2l "AB105")]
  [((s2l "AB 12"), (mk_inc (XReal false (1) (-2)) [(XReal false (3125) (5)); (XReal false (15) (0))] None)); ((s2l "AB105"), (mk_inc XNone [(XReal false (3125) (6)); (XReal false (125) (1)); (XReal false (3602879701896397) (-55))] (Some ((XInt (2)), (XInt (1))))))]
  [((s2l "rock2"), [(XReal false (3125) (5)); (XReal false (5) (2)); (XReal false (1) (-2))]); ((s2l "rock1"), [(XReal false (3125) (6))])]
  [(s2l "ROCKS"); (s2l "MULTI"); (s2l "START"); (s2l "DIFFU"); (s2l "ELEME"); (s2l "CONNE"); (s2l "MESHM"); (s2l "RPCAP"); (s2l "SOLVR"); (s2l "MOMOP"); (s2l "TIMES"); (s2l "SELEC"); (s2l "GENER"); (s2l "PARAM"); (s2l "SHORT"); (s2l "COFT"); (s2l "FOFT"); (s2l "GOFT"); (s2l "INDOM"); (s2l "INCON")]
  (s2l "ENDCY")
  []
  true).
Definition example_tough2_order : list string := ["ROCKS"; "MULTI"; "START"; "DIFFU"; "ELEME"; "CONNE"; "MESHM"; "RPCAP"; "SOLVR"; "MOMOP"; "TIMES"; "SELEC"; "GENER"; "PARAM"; "SHORT"; "COFT"; "FOFT"; "GOFT"; "INDOM"; "INCON"].

Definition hyps_ok (d : t2d) (ks : list string) : bool :=
  match write_lines d with
  | Ok _ =>
      vlist_eqb (map XStr (update_sections d)) (map XStr (sections d)) &&
      vlist_eqb (map XStr (sections d)) (map XStr (map s2l ks)) &&
      match xprec d with [] => true | _ => false end &&
      is_end (end_keyword d) && title_ok d && chain_ok d ks (start_state d)
  | Raise _ => false
  end.
Lemma map_XStr_inj a b : map XStr a = map XStr b -> a = b.
Proof.
  revert b. induction a as [|x a IH]; intros [|y b] H; try discriminate; [reflexivity|].
  cbn in H. inversion H. f_equal. apply IH. assumption.
Qed.
Lemma hyps_ok_spec d ks : hyps_ok d ks = true ->
  exists ls, write_lines d = Ok ls /\ update_sections d = sections d /\ sections d = map s2l ks /\ xprec d = [] /\
             is_end (end_keyword d) = true /\ title_ok d = true /\ chain_ok d ks (start_state d) = true.
Proof.
  unfold hyps_ok. destruct (write_lines d) as [ls|]; [|discriminate]. intro H.
  apply andb_prop in H as [H H6]. apply andb_prop in H as [H H5]. apply andb_prop in H as [H H4].
  apply andb_prop in H as [H H3]. apply andb_prop in H as [H1 H2].
  apply vlist_eqb_eq in H1. apply vlist_eqb_eq in H2. apply map_XStr_inj in H1. apply map_XStr_inj in H2.
  exists ls. repeat split; auto. destruct (xprec d); [reflexivity|discriminate].
Qed.
Example example_autough2_ok : hyps_ok example_autough2 example_autough2_order = true.
Proof. vm_compute. reflexivity. Qed.
Example example_tough2_ok : hyps_ok example_tough2 example_tough2_order = true.
Proof. vm_compute. reflexivity. Qed.

(** the same objects written with the mesh in a separate file *)
Definition hyps_mesh_ok (d : t2d) (ks : list string) : bool :=
  match write_files (mk_wcfg 1 None None) d with
  | Ok _ =>
      vlist_eqb (map XStr (update_sections d)) (map XStr (sections d)) &&
      vlist_eqb (map XStr (main_secs d)) (map XStr (map s2l ks)) &&
      match xprec d with [] => true | _ => false end &&
      is_end (end_keyword d) && title_ok d && chain_ok d ks (start_state d) && forallb (fun k => negb (k =? "ELEME")) ks &&
      (let d2 := set_end_keyword (final d ks (start_state d)) (end_keyword d) in
       forallb (wf_block T0 (rocks d2)) (blocks d) && forallb (wf_conn T0 (canon_blocks T0 (blocks d))) (conns d))
  | Raise _ => false
  end.
(* the short-output items are looked up in the grid while reading, so with a separate mesh file there is no SHORT *)
Definition no_mesh (ks : list string) : list string := filter (fun k => negb ((k =? "ELEME") || (k =? "CONNE") || (k =? "SHORT"))) ks.
Definition drop_short (d : t2d) : t2d := set_sections (set_short d None) (filter (fun k => negb (str_eqb k (s2l "SHORT"))) (sections d)).
Example example_autough2_mesh_ok : hyps_mesh_ok (drop_short example_autough2) (no_mesh example_autough2_order) = true.
Proof. vm_compute. reflexivity. Qed.
Example example_tough2_mesh_ok : hyps_mesh_ok (drop_short example_tough2) (no_mesh example_tough2_order) = true.
Proof. vm_compute. reflexivity. Qed.

(** the AUTOUGH2 object written with an extra-precision companion holding all five sections,
    not echoed and echoed *)
From P Require Import Xp.
Definition all_xp : list string := ["ROCKS"; "ELEME"; "CONNE"; "RPCAP"; "GENER"].
Definition hyps_xp_ok (d : t2d) (xs : list string) (b : bool) (ks : list string) : bool :=
  match write_files (mk_wcfg 0 (Some (map s2l xs)) (Some b)) d with
  | Ok _ =>
      vlist_eqb (map XStr (update_sections d)) (map XStr (sections d)) &&
      match xprec d with [] => true | _ => false end && xecho d && autough2 d && match xs with [] => false | _ => true end &&
      vlist_eqb (map XStr (msecs d (map s2l xs) b)) (map XStr (map s2l ("SIMUL" :: ks))) &&
      is_end (end_keyword d) && title_ok d && secwf "SIMUL" d (start_state d) && xchain_ok d xs (simul_state d) &&
      chain_okX d ks (push "SIMUL" (xp_state d xs (simul_state d)))
  | Raise _ => false
  end.
Definition no_xp (ks : list string) : list string :=
  filter (fun k => negb (existsb (String.eqb k) ("SIMUL" :: all_xp))) ks.
Definition no_simul (ks : list string) : list string := filter (fun k => negb (k =? "SIMUL")) ks.
Example example_xp_ok : hyps_xp_ok example_autough2 all_xp false (no_xp example_autough2_order) = true.
Proof. vm_compute. reflexivity. Qed.
Example example_xp_echo_ok : hyps_xp_ok example_autough2 all_xp true (no_simul example_autough2_order) = true.
Proof. vm_compute. reflexivity. Qed.
