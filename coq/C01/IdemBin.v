(** C01 -- the binary pair written from the re-read object: the same records, exactly
    (doubles are carried bit for bit; nan_to_num and the 1-based indices are idempotent). *)
From Coq Require Import Ascii String List Bool Arith ZArith NArith Lia.
From PTBase Require Import Exn PyStr PyNum PyVal Fmt FixedFormat.
From Gen Require Import GenTables GenSections.
From P Require Import Comb Obj Fields Sections SectionsB Rec SecMesh SecMeshm T2DataIO Whole Bin.
Import ListNotations.
Open Scope string_scope.

Lemma f8_real v y : f8 v = Ok y -> exists ng m e, y = XReal ng m e.
Proof.
  destruct v as [s|z|ng m e|]; cbn [f8]; intro H; try discriminate.
  - unfold int_f8 in H. destruct z as [|p|p]; [inv_ok H; unfold v_zero; eauto| |];
      (destruct (Z.pos p <? 2 ^ 53)%Z; [|discriminate]; destruct (pos_tz p) as [n r]; inv_ok H; eauto).
  - inv_ok H. eauto.
  - inv_ok H. unfold v_nan. eauto.
Qed.
Lemma f8_idem v y : f8 v = Ok y -> f8 y = Ok y.
Proof. intro H. destruct (f8_real v y H) as [ng [m [e ->]]]. reflexivity. Qed.
Lemma nan_to_num_real ng m e : exists ng' m' e', nan_to_num (XReal ng m e) = XReal ng' m' e'.
Proof. unfold nan_to_num, v_zero. repeat match goal with |- context [match ?x with _ => _ end] => destruct x end; eauto. Qed.
Lemma nan_to_num_idem v : nan_to_num (nan_to_num v) = nan_to_num v.
Proof.
  destruct v as [s|z|ng m e|]; try reflexivity. unfold nan_to_num at 2.
  repeat match goal with |- context [match ?x with _ => _ end] => destruct x end; reflexivity.
Qed.
Lemma nn_idem r y : nn r = Ok y -> (exists x, r = Ok x /\ exists ng m e, x = XReal ng m e) -> nn (f8 y) = Ok y.
Proof.
  intros H [x [-> [ng [m [e ->]]]]]. unfold nn in H. cbn [bind] in H. remember (nan_to_num (XReal ng m e)) as w eqn:EW. injection H as H. subst y.
  destruct (nan_to_num_real ng m e) as [ng' [m' [e' E]]]. rewrite E in EW. subst w. unfold nn. cbn [f8 bind]. rewrite <- E, nan_to_num_idem. reflexivity.
Qed.
Lemma nn_f8_idem v y : nn (f8 v) = Ok y -> nn (f8 y) = Ok y.
Proof.
  intro H. apply (nn_idem _ _ H). destruct (f8 v) as [x|] eqn:E; [|discriminate]. exists x. split; [reflexivity|]. apply (f8_real v x E).
Qed.
Lemma nn_bind_idem (r : res value) y : nn (do v <- r; f8 v) = Ok y -> nn (f8 y) = Ok y.
Proof.
  intro H. apply (nn_idem _ _ H). destruct r as [v|]; cbn [bind] in *; [|discriminate].
  destruct (f8 v) as [x|] eqn:E; [|discriminate]. exists x. split; [reflexivity|]. apply (f8_real v x E).
Qed.
Lemma bind_f8_idem (r : res value) y : (do v <- r; f8 v) = Ok y -> f8 y = Ok y.
Proof. destruct r as [v|]; cbn [bind]; [|discriminate]. apply f8_idem. Qed.

Lemma mapM_map {A B C} (f : B -> res C) (g : A -> B) xs : mapM f (map g xs) = mapM (fun x => f (g x)) xs.
Proof. induction xs as [|x xs IH]; [reflexivity|]. cbn [map mapM]. rewrite IH. reflexivity. Qed.
Lemma mapM_same {A B} (f g : A -> res B) : forall xs ys, mapM f xs = Ok ys -> (forall x y, f x = Ok y -> g x = Ok y) -> mapM g xs = Ok ys.
Proof.
  induction xs as [|x xs IH]; intros ys H P; [exact H|]. apply mapM_cons in H as [a [b [H1 [H2 E]]]]. subst ys.
  cbn [mapM]. rewrite (P x a H1), (IH b H2 P). reflexivity.
Qed.
Definition okv_spec (r : res value) y : r = Ok y -> okv r = y.
Proof. intro H. rewrite H. reflexivity. Qed.

(** the records written from [bin_state d d2] are the records written from [d] *)
Theorem write_bin_again d d2 RA RB : write_bin d = Ok (RA, RB) -> map r_name (rocks d2) = map r_name (rocks d) ->
  write_bin (bin_state d d2) = Ok (RA, RB).
Proof.
  intros W RN. unfold write_bin in *. cbv zeta in *.
  assert (EB : blocks (bin_state d d2) = map canon_bblock (blocks d)) by (destruct d2; reflexivity).
  assert (EC : conns (bin_state d d2) = map canon_bconn (conns d)) by (destruct d2; reflexivity).
  assert (ER : map r_name (rocks (bin_state d d2)) = map r_name (rocks d)) by (rewrite <- RN; destruct d2; reflexivity).
  rewrite EB, EC, ER, !map_length, !map_map, !mapM_map. cbn [b_name canon_bblock c_b1 c_b2 canon_bconn b_rock c_dir].
  repeat match type of W with
  | bind (mapM ?f ?xs) _ = _ =>
      let E := fresh "E" in let col := fresh "col" in
      destruct (mapM f xs) as [col|] eqn:E; cbn [bind] in W; [|discriminate]; cbn [bind];
      try match goal with |- bind (mapM ?g xs) _ = _ =>
        let G := fresh "G" in
        assert (G : mapM g xs = Ok col);
        [apply (mapM_same f g xs col E); intros x y H; cbn [b_volume b_ahtx b_pmx b_centre canon_bblock c_dist c_area c_dircos c_sigma canon_bconn centre_i dist_i nth_error];
         rewrite ?(okv_spec _ _ H);
         first [exact H | apply (f8_idem _ _ H) | apply (nn_f8_idem _ _ H) | apply (nn_bind_idem _ _ H) | apply (bind_f8_idem _ _ H)]
        | rewrite G; cbn [bind]; clear G]
      end
  end.
  all: try exact W.
Qed.

(** ** the whole second write with the grid in the binary pair: main file up to blanks before the newlines, records exactly *)
From P Require Import Prog IdemSec IdemSecB IdemMeshm IdemWhole IdemMesh.
Lemma write_files_bin_eq X : xprec X = [] ->
  write_files (mk_wcfg 2 None None) X =
  (do all <- write_sections T0 write_fn_names X (filter (fun k => negb (in_str k mesh_kws)) (update_sections X));
   Ok (set_sections X (update_sections X), mk_files ((strip (title X) +++ [nl]) :: all ++ [end_keyword X +++ [nl]])%list None None)).
Proof.
  intros XP. unfold write_files. cbn [w_mesh bind]. generalize (update_sections X). intro u.
  set (X0 := set_sections X u).
  assert (XP0 : xprec X0 = []) by (unfold X0; destruct X; exact XP).
  assert (E : (if autough2 X0 then write_xp (mk_wcfg 2 None None) X0 else Ok (X0, None)) = Ok (X0, None)).
  { destruct (autough2 X0); [|reflexivity]. unfold write_xp. cbn [w_xp w_echo]. rewrite XP0. reflexivity. }
  rewrite E. cbn [bind]. rewrite XP0.
  replace (sections X0) with u by (unfold X0; destruct X; reflexivity).
  assert (FE : filter (fun k => negb (in_str k mesh_kws) && (negb (in_str k []) || xecho X0)) u =
               filter (fun k => negb (in_str k mesh_kws)) u).
  { apply filter_ext. intro k. cbn [in_str existsb negb orb]. apply andb_true_r. }
  rewrite FE. unfold X0. rewrite write_sections_sections.
  destruct (write_sections T0 write_fn_names X _) as [all|]; cbn [bind]; [|reflexivity]. destruct X; reflexivity.
Qed.
Lemma same_for_bin_state k d d2 Y : In k idem_covered -> k <> "ELEME" -> k <> "CONNE" -> same_for k d2 Y -> same_for k (bin_state d d2) Y.
Proof.
  intros IN N1 N2. unfold idem_covered, rec_kinds, rec_kinds2, ident_kinds in IN. cbn [In app] in IN.
  repeat (destruct IN as [IN|IN]; [subst k|]); [..|contradiction]; try congruence;
    unfold same_for; cbn [String.eqb Ascii.eqb Bool.eqb]; intro H; rewrite <- H; destruct d2; reflexivity.
Qed.
Lemma bin_state_facts d d2 : xprec (bin_state d d2) = xprec d2 /\ title (bin_state d d2) = title d2 /\ end_keyword (bin_state d d2) = end_keyword d2.
Proof. unfold bin_state. destruct d2. repeat split; reflexivity. Qed.
Definition idem_bin_ok (d : t2d) (ks : list string) : bool :=
  let d2 := reread d ks in let X := bin_state d d2 in
  idem_chain d ks (start_state d) && all_distinct String.eqb ks && forallb no_mesh_kind ks &&
  Bool.eqb (autough2 X) (autough2 d) && strs_eqb (map b_name (blocks X)) (map b_name (blocks d)) &&
  strs_eqb (filter (fun k => negb (in_str k mesh_kws)) (update_sections X)) (map s2l ks) &&
  strs_eqb (map r_name (rocks d2)) (map r_name (rocks d)).
(** the second write with the binary pair as a program (no hypothesis on the stability of the values) *)
Theorem bin_second_write d ks :
  chain_ok d ks (start_state d) = true -> idem_bin_ok d ks = true ->
  let X := bin_state d (reread d ks) in
  prog_file X ks = map citem0 (prog_file d ks) /\
  write_files (mk_wcfg 2 None None) X = (do ls <- render0 (prog_file X ks); Ok (set_sections X (update_sections X), mk_files ls None None)) /\
  map r_name (rocks (reread d ks)) = map r_name (rocks d).
Proof.
  intros CH ID X. set (d2 := reread d ks) in *.
  unfold idem_bin_ok in ID. cbv zeta in ID. fold d2 in ID. fold X in ID.
  apply andb_prop in ID as [ID RN]. apply andb_prop in ID as [ID MSX]. apply andb_prop in ID as [ID BN]. apply andb_prop in ID as [ID AX].
  apply andb_prop in ID as [ID NM]. apply andb_prop in ID as [ICH ND]. apply all_distinct_nodup in ND. apply Bool.eqb_prop in AX.
  apply strs_eqb_eq in BN, MSX, RN.
  destruct (idem_chain_all d ks _ ICH) as [COV WFW].
  destruct (reread_facts d ks) as [XD [SD ED]]. fold d2 in XD, SD, ED.
  destruct (bin_state_facts d d2) as [XX0 [MT ME]]. fold X in XX0, MT, ME. assert (XX : xprec X = []) by (rewrite XX0; exact XD).
  assert (SAME : forall k, In k ks -> exists pre post, ks = (pre ++ k :: post)%list /\ same_for k X (push k (supd k d (final d pre (start_state d))))).
  { intros k IK. destruct (in_split k ks IK) as [pre0 [post0 E0]].
    assert (IC0 := ICH). rewrite E0 in IC0. apply idem_chain_split in IC0 as [IX _].
    destruct (same_for_final k IX ks d (start_state d) (end_keyword d) ND IK) as [pre [post [E SF]]]. exists pre, post. split; [exact E|].
    rewrite forallb_forall in NM. specialize (NM k IK). unfold no_mesh_kind in NM. apply andb_prop in NM as [K1 K2]. apply negb_true_iff in K1, K2.
    apply same_for_bin_state; [exact IX|intro; subst; discriminate|intro; subst; discriminate|exact SF]. }
  destruct (prog_secs_canon d ks X CH ICH AX BN SAME) as [Q WX].
  assert (PF : prog_file X ks = map citem0 (prog_file d ks)).
  { unfold prog_file. cbn [map citem]. rewrite map_app. cbn [map citem]. rewrite MT, ME, ED.
    destruct (title_final d ks (start_state d)) as [TT _].
    assert (T1 : title d2 = strip (title d)) by (unfold d2, reread; transitivity (title (final d ks (start_state d))); [destruct (final d ks (start_state d)); reflexivity|rewrite TT; reflexivity]).
    rewrite T1. unfold strip at 1. rewrite strip_by_idem. fold (strip (title d)). rewrite Q. reflexivity. }
  split; [exact PF|]. split; [|exact RN].
  rewrite (write_files_bin_eq X XX), MSX, (write_sections_prog X ks COV WX), render_prog_file.
  destruct (render0 (flat_map (prog_sec X) ks)) as [all|]; reflexivity.
Qed.
Lemma idem_bin_chain d ks : idem_bin_ok d ks = true -> idem_chain d ks (start_state d) = true.
Proof. unfold idem_bin_ok. cbv zeta. intro H. do 6 (apply andb_prop in H as [H _]). exact H. Qed.
Lemma bin_first_write d ks d' fs : write_files (mk_wcfg 2 None None) d = Ok (d', fs) ->
  update_sections d = sections d -> main_secs d = map s2l ks -> xprec d = [] -> idem_chain d ks (start_state d) = true ->
  exists ls, render0 (prog_file d ks) = Ok ls /\ fs = mk_files ls None None.
Proof.
  intros W US SK XP ICH. destruct (idem_chain_all d ks _ ICH) as [COV WFW].
  destruct (write_files_bin_shape d d' fs W US XP) as [all [WS EF]]. rewrite SK in WS. rewrite (write_sections_prog d ks COV WFW) in WS.
  exists ((strip (title d) +++ [nl]) :: all ++ [end_keyword d +++ [nl]])%list. split; [rewrite render_prog_file, WS; reflexivity|exact EF].
Qed.
Theorem write_idem_binary d ks d' fs RA RB :
  write_files (mk_wcfg 2 None None) d = Ok (d', fs) -> write_bin d = Ok (RA, RB) ->
  update_sections d = sections d -> main_secs d = map s2l ks -> xprec d = [] ->
  chain_ok d ks (start_state d) = true -> idem_bin_ok d ks = true ->
  Forall (istable T0) (prog_file d ks) ->
  let X := bin_state d (reread d ks) in
  exists d'' fs', write_files (mk_wcfg 2 None None) X = Ok (d'', fs') /\ Forall2 lpad (f_main fs) (f_main fs') /\
    f_mesh fs' = None /\ f_pdat fs' = None /\ write_bin X = Ok (RA, RB).
Proof.
  intros W WB US SK XP CH ID ST1 X.
  destruct (bin_first_write d ks d' fs W US SK XP (idem_bin_chain d ks ID)) as [ls [R1 EF]]. subst fs.
  destruct (render_rewrite T0 _ _ R1 ST1) as [ls' [R1' F1]].
  destruct (bin_second_write d ks CH ID) as [PF [WX RN]]. fold X in PF, WX. rewrite PF, R1' in WX. cbn [bind] in WX.
  eexists _, _. split; [exact WX|]. cbn [f_main f_mesh f_pdat]. repeat split; try assumption. apply write_bin_again; assumption.
Qed.
(** ... and from then on byte for byte (main file) and record for record (the pair) *)
Theorem write_fixpoint_binary d ks d' fs RA RB :
  write_files (mk_wcfg 2 None None) d = Ok (d', fs) -> write_bin d = Ok (RA, RB) ->
  update_sections d = sections d -> main_secs d = map s2l ks -> xprec d = [] ->
  chain_ok d ks (start_state d) = true -> idem_bin_ok d ks = true ->
  Forall (istable T0) (prog_file d ks) ->
  let X := bin_state d (reread d ks) in let Y := bin_state X (reread X ks) in
  chain_ok X ks (start_state X) = true -> idem_bin_ok X ks = true ->
  exists d'' fs' d3 fs'', write_files (mk_wcfg 2 None None) X = Ok (d'', fs') /\ write_files (mk_wcfg 2 None None) Y = Ok (d3, fs'') /\
    fs'' = fs' /\ write_bin X = Ok (RA, RB) /\ write_bin Y = Ok (RA, RB).
Proof.
  intros W WB US SK XP CH ID ST1 X Y CHX IDX.
  destruct (bin_first_write d ks d' fs W US SK XP (idem_bin_chain d ks ID)) as [ls [R1 EF]].
  destruct (render_rewrite T0 _ _ R1 ST1) as [ls' [R1' F1]].
  destruct (bin_second_write d ks CH ID) as [PF [WX RN]]. fold X in PF, WX.
  destruct (bin_second_write X ks CHX IDX) as [PF2 [WY RN2]]. fold Y in PF2, WY.
  rewrite PF, R1' in WX. cbn [bind] in WX.
  rewrite PF2, PF, (render_fixpoint T0 _ _ R1 ST1), R1' in WY. cbn [bind] in WY.
  assert (WBX : write_bin X = Ok (RA, RB)) by (apply write_bin_again; assumption).
  eexists _, _, _, _. split; [exact WX|]. split; [exact WY|]. split; [reflexivity|]. split; [exact WBX|]. apply write_bin_again; assumption.
Qed.
