(** C01 -- record-level lemmas shared by the section proofs: full-width lines are not
    changed by padstring, a line whose first field shows a character is not blank, the
    read-back of the i-th value, monadic inversion tactics. *)
From Coq Require Import Ascii String List Bool Arith ZArith NArith Lia.
From PTBase Require Import Exn PyStr PyNum PyVal Fmt FixedFormat.
From Gen Require Import GenSections.
From P Require Import Comb Obj Fields Sections.
Import ListNotations.
Open Scope string_scope.

Ltac inv_bind H :=
  match type of H with
  | bind ?x _ = Ok _ => let E := fresh "E" in destruct x eqn:E; cbn [bind] in H; [|discriminate H]
  end.
Ltac inv_ok H := match type of H with Ok _ = Ok _ => inversion H; subst; clear H end.

Lemma blank_app a b : blank (a ++ b)%list = blank a && blank b.
Proof. apply forallb_app. Qed.
Lemma blank_cons c s : blank (c :: s) = is_space c && blank s.
Proof. reflexivity. Qed.

Section WithTable.
Variable T : table.
Notation sp := (sp T).
Notation nm := (nm T).

Lemma wline_inv k vals l : wline T k vals = Ok l ->
  exists fs, write_fields (sp k) vals = Ok fs /\ l = (concat fs ++ [nl])%list.
Proof.
  unfold wline, write_values. intro H. destruct (write_fields (specs_of T k) vals) as [fs|e] eqn:E; cbn [bind] in H; [|discriminate].
  inv_ok H. exists fs. split; [exact E|reflexivity].
Qed.
(** a record with a value for every field has the full width of its record kind *)
Lemma wline_length k vals l : wline T k vals = Ok l -> (length (sp k) <= length vals)%nat ->
  length l = S (list_sum (map width (sp k))).
Proof.
  intros H L. destruct (wline_inv _ _ _ H) as [fs [W E]]. subst l.
  destruct (write_fields_widths _ _ _ W) as [_ B].
  rewrite app_length. cbn [length]. rewrite (written_line_length _ _ _ W); [lia|]. rewrite B. lia.
Qed.
Definition rec_width (k : string) : nat := list_sum (map width (sp k)).
Lemma padstring_wline k vals l : wline T k vals = Ok l -> (length (sp k) <= length vals)%nat -> (79 <= rec_width k)%nat ->
  padstring l = l.
Proof. intros H L W. apply padstring_long. rewrite (wline_length _ _ _ H L). unfold rec_width in W. lia. Qed.
(** the first field's text starts the line *)
Lemma wline_head k f0 fs v0 vs l : sp k = f0 :: fs -> wline T k (v0 :: vs) = Ok l ->
  exists s0 rest, fmt_field f0 v0 = Ok s0 /\ l = (s0 ++ rest)%list.
Proof.
  intros S H. destruct (wline_inv _ _ _ H) as [x [W E]]. rewrite S in W. cbn [write_fields] in W.
  destruct (fmt_field f0 v0) as [s0|] eqn:E1; cbn [bind] in W; [|discriminate].
  destruct (write_fields fs vs) as [l0|] eqn:E2; cbn [bind] in W; [|discriminate].
  inv_ok W. exists s0, (concat l0 ++ [nl])%list. split; [reflexivity|].
  cbn [concat]. rewrite <- app_assoc. reflexivity.
Qed.
Lemma wline_nonblank k f0 fs name vs l : sp k = f0 :: fs -> ft f0 = Ts -> fits_str f0 name = true -> blank name = false ->
  wline T k (XStr name :: vs) = Ok l -> blank (padstring l) = false.
Proof.
  intros S Ty F NB H. destruct (wline_head _ _ _ _ _ _ S H) as [s0 [rest [E1 E2]]].
  assert (s0 = name).
  { pose proof (cf_str f0 name Ty F) as C. unfold cf in C. rewrite E1 in C.
    apply andb_prop in F as [L NL]. apply Nat.eqb_eq in L.
    unfold fmt_field in E1. rewrite Ty in E1. unfold fmt_raw in E1. rewrite Ty in E1. cbn [bind] in E1.
    assert (P : fmt_str (fw f0) name = name).
    { unfold fmt_str, pad, width in *. destruct (fw f0 <? 0)%Z eqn:N.
      - unfold ljust. apply Z.ltb_lt in N. replace (Z.to_nat (- fw f0)) with (length name) by lia. rewrite Nat.sub_diag. apply app_nil_r.
      - unfold rjust. apply Z.ltb_ge in N. replace (Z.to_nat (fw f0)) with (length name) by lia. rewrite Nat.sub_diag. reflexivity. }
    rewrite P, L, Nat.leb_refl in E1. inv_ok E1. reflexivity. }
  subst. unfold padstring, ljust. rewrite !blank_app, NB. reflexivity.
Qed.

(** the read-back of the i-th value of a record *)
Lemma cvals_nth specs : forall vals i f v, nth_error specs i = Some f -> nth_error vals i = Some v ->
  vnth (cvals specs vals) i = cf f v.
Proof.
  induction specs as [|f0 fs IH]; intros vals i f v Hs Hv; [destruct i; discriminate|].
  destruct vals as [|v0 vs]; [destruct i; discriminate|]. destruct i as [|i]; cbn in Hs, Hv.
  - inversion Hs; inversion Hv; subst. reflexivity.
  - cbn [cvals]. unfold vnth. cbn [nth]. apply (IH vs i f v Hs Hv).
Qed.
Lemma cvals_skipn specs : forall vals n, (n <= length vals)%nat -> skipn n (cvals specs vals) = cvals (skipn n specs) (skipn n vals).
Proof.
  induction specs as [|f0 fs IH]; intros vals n L.
  - assert (N : forall vs, cvals [] vs = []) by (intros [|? ?]; reflexivity).
    rewrite skipn_nil, !N. apply skipn_nil.
  - destruct n as [|n]; [reflexivity|]. destruct vals as [|v0 vs]; [cbn in L; lia|].
    cbn [cvals skipn]. apply IH. cbn in L. lia.
Qed.

(** read_value_line after write_value_line *)
Lemma dict_line k d l : wline T k (dict_vals d (nm k)) = Ok l -> pline T k l = cvals (sp k) (dict_vals d (nm k)).
Proof. apply wline_pline. Qed.

End WithTable.

(** ** the list-section pattern: keyword line, the records, a blank line *)
Lemma enc_ok_nonempty {A X} prep stop body step Inv xs encs :
  Forall2 (@enc_ok A prep stop body X step Inv) xs encs -> (length xs <= length (concat encs))%nat.
Proof.
  induction 1 as [|x e xs' es H F IH]; [cbn; lia|]. cbn [concat length]. rewrite app_length.
  destruct e; [contradiction|]. cbn [length]. lia.
Qed.
(** replace-on-duplicate insertion never fires when the keys are pairwise distinct *)
Fixpoint all_distinct {X} (same : X -> X -> bool) (xs : list X) : bool :=
  match xs with [] => true | x :: r => negb (existsb (fun y => same y x) r) && all_distinct same r end.
Lemma existsb_false {A} (p : A -> bool) l : existsb p l = false -> forall a, In a l -> p a = false.
Proof.
  intros H a Ia. destruct (p a) eqn:E; [|reflexivity].
  assert (existsb p l = true) by (apply existsb_exists; exists a; auto). congruence.
Qed.
Lemma fold_add_named_distinct {X} (same : X -> X -> bool) (xs : list X) : all_distinct same xs = true ->
  forall acc, (forall y, In y xs -> existsb (same y) acc = false) ->
  fold_left (add_named same) xs acc = (rev xs ++ acc)%list.
Proof.
  induction xs as [|x r IH]; intros D acc F; [reflexivity|].
  cbn [all_distinct] in D. apply andb_prop in D as [D1 D2]. apply negb_true_iff in D1.
  cbn [fold_left]. unfold add_named at 2. rewrite (F x (or_introl eq_refl)).
  rewrite IH; [cbn [rev]; rewrite <- app_assoc; reflexivity|exact D2|].
  intros y Iy. cbn [existsb]. rewrite (existsb_false _ _ D1 y Iy). cbn [orb]. apply F. right. exact Iy.
Qed.
Corollary fold_add_named_fresh {X} (same : X -> X -> bool) (xs : list X) : all_distinct same xs = true ->
  rev (fold_left (add_named same) xs []) = xs.
Proof.
  intro D. rewrite fold_add_named_distinct; [rewrite app_nil_r; apply rev_involutive|exact D|reflexivity].
Qed.
