(** C01 -- record-level lemmas shared by the section proofs: full-width lines are not
    changed by padstring, a line whose first field shows a character is not blank, the
    read-back of the i-th value, monadic inversion tactics. *)
From Coq Require Import Ascii String List Bool Arith ZArith NArith Lia.
From PTBase Require Import Exn PyStr PyNum PyVal Fmt FixedFormat.
From Gen Require Import GenSections.
From P Require Import Comb Obj Fields Sections.
Import ListNotations.
Open Scope string_scope.

Definition is_ok {A} (r : res A) : bool := match r with Ok _ => true | Raise _ => false end.
Ltac inv_bind H :=
  match type of H with
  | bind ?x _ = Ok _ => let E := fresh "E" in destruct x eqn:E; cbn [bind] in H; [|discriminate H]
  end.
Ltac inv_ok H := match type of H with Ok _ = Ok _ => inversion H; subst; clear H end.

Lemma blank_app a b : blank (a ++ b)%list = blank a && blank b.
Proof. apply forallb_app. Qed.
Lemma blank_cons c s : blank (c :: s) = is_space c && blank s.
Proof. reflexivity. Qed.

Section WithTable.
Variable T : table.
Notation sp := (sp T).
Notation nm := (nm T).

Lemma wline_inv k vals l : wline T k vals = Ok l ->
  exists fs, write_fields (sp k) vals = Ok fs /\ l = (concat fs ++ [nl])%list.
Proof.
  unfold wline, write_values. intro H. destruct (write_fields (specs_of T k) vals) as [fs|e] eqn:E; cbn [bind] in H; [|discriminate].
  inv_ok H. exists fs. split; [exact E|reflexivity].
Qed.
(** a record with a value for every field has the full width of its record kind *)
Lemma wline_length k vals l : wline T k vals = Ok l -> (length (sp k) <= length vals)%nat ->
  length l = S (list_sum (map width (sp k))).
Proof.
  intros H L. destruct (wline_inv _ _ _ H) as [fs [W E]]. subst l.
  destruct (write_fields_widths _ _ _ W) as [_ B].
  rewrite app_length. cbn [length]. rewrite (written_line_length _ _ _ W); [lia|]. rewrite B. lia.
Qed.
Definition rec_width (k : string) : nat := list_sum (map width (sp k)).
Lemma padstring_wline k vals l : wline T k vals = Ok l -> (length (sp k) <= length vals)%nat -> (79 <= rec_width k)%nat ->
  padstring l = l.
Proof. intros H L W. apply padstring_long. rewrite (wline_length _ _ _ H L). unfold rec_width in W. lia. Qed.
(** the first field's text starts the line *)
Lemma wline_head k f0 fs v0 vs l : sp k = f0 :: fs -> wline T k (v0 :: vs) = Ok l ->
  exists s0 rest, fmt_field f0 v0 = Ok s0 /\ l = (s0 ++ rest)%list.
Proof.
  intros S H. destruct (wline_inv _ _ _ H) as [x [W E]]. rewrite S in W. cbn [write_fields] in W.
  destruct (fmt_field f0 v0) as [s0|] eqn:E1; cbn [bind] in W; [|discriminate].
  destruct (write_fields fs vs) as [l0|] eqn:E2; cbn [bind] in W; [|discriminate].
  inv_ok W. exists s0, (concat l0 ++ [nl])%list. split; [reflexivity|].
  cbn [concat]. rewrite <- app_assoc. reflexivity.
Qed.
Lemma wline_nonblank k f0 fs name vs l : sp k = f0 :: fs -> ft f0 = Ts -> fits_str f0 name = true -> blank name = false ->
  wline T k (XStr name :: vs) = Ok l -> blank (padstring l) = false.
Proof.
  intros S Ty F NB H. destruct (wline_head _ _ _ _ _ _ S H) as [s0 [rest [E1 E2]]].
  assert (s0 = name).
  { pose proof (cf_str f0 name Ty F) as C. unfold cf in C. rewrite E1 in C.
    apply andb_prop in F as [L NL]. apply Nat.eqb_eq in L.
    unfold fmt_field in E1. rewrite Ty in E1. unfold fmt_raw in E1. rewrite Ty in E1. cbn [bind] in E1.
    assert (P : fmt_str (fw f0) name = name).
    { unfold fmt_str, pad, width in *. destruct (fw f0 <? 0)%Z eqn:N.
      - unfold ljust. apply Z.ltb_lt in N. replace (Z.to_nat (- fw f0)) with (length name) by lia. rewrite Nat.sub_diag. apply app_nil_r.
      - unfold rjust. apply Z.ltb_ge in N. replace (Z.to_nat (fw f0)) with (length name) by lia. rewrite Nat.sub_diag. reflexivity. }
    rewrite P, L, Nat.leb_refl in E1. inv_ok E1. reflexivity. }
  subst. unfold padstring, ljust. rewrite !blank_app, NB. reflexivity.
Qed.

(** the read-back of the i-th value of a record *)
Lemma cvals_nth specs : forall vals i f v, nth_error specs i = Some f -> nth_error vals i = Some v ->
  vnth (cvals specs vals) i = cf f v.
Proof.
  induction specs as [|f0 fs IH]; intros vals i f v Hs Hv; [destruct i; discriminate|].
  destruct vals as [|v0 vs]; [destruct i; discriminate|]. destruct i as [|i]; cbn in Hs, Hv.
  - inversion Hs; inversion Hv; subst. reflexivity.
  - cbn [cvals]. unfold vnth. cbn [nth]. apply (IH vs i f v Hs Hv).
Qed.
Lemma cvals_skipn specs : forall vals n, (n <= length vals)%nat -> skipn n (cvals specs vals) = cvals (skipn n specs) (skipn n vals).
Proof.
  induction specs as [|f0 fs IH]; intros vals n L.
  - assert (N : forall vs, cvals [] vs = []) by (intros [|? ?]; reflexivity).
    rewrite skipn_nil, !N. apply skipn_nil.
  - destruct n as [|n]; [reflexivity|]. destruct vals as [|v0 vs]; [cbn in L; lia|].
    cbn [cvals skipn]. apply IH. cbn in L. lia.
Qed.

(** the record round trip, with the table's record kind looked up *)
Lemma wp k vals s : wline T k vals = Ok s -> pline T k s = cvals (sp k) vals.
Proof. apply wline_pline. Qed.
Lemma pline_eq k k' l : sp k = sp k' -> pline T k l = pline T k' l.
Proof. unfold pline, Sections.sp. intro E. rewrite E. reflexivity. Qed.
(** read_value_line after write_value_line *)
Lemma dict_line k d l : wline T k (dict_vals d (nm k)) = Ok l -> pline T k l = cvals (sp k) (dict_vals d (nm k)).
Proof. apply wline_pline. Qed.

End WithTable.

(** ** the list-section pattern: keyword line, the records, a blank line *)
Lemma enc_ok_nonempty {A X} prep stop body step Inv xs encs :
  Forall2 (@enc_ok A prep stop body X step Inv) xs encs -> (length xs <= length (concat encs))%nat.
Proof.
  induction 1 as [|x e xs' es H F IH]; [cbn; lia|]. cbn [concat length]. rewrite app_length.
  destruct e; [contradiction|]. cbn [length]. lia.
Qed.
(** replace-on-duplicate insertion never fires when the keys are pairwise distinct *)
Fixpoint all_distinct {X} (same : X -> X -> bool) (xs : list X) : bool :=
  match xs with [] => true | x :: r => negb (existsb (fun y => same y x) r) && all_distinct same r end.
Lemma existsb_false {A} (p : A -> bool) l : existsb p l = false -> forall a, In a l -> p a = false.
Proof.
  intros H a Ia. destruct (p a) eqn:E; [|reflexivity].
  assert (existsb p l = true) by (apply existsb_exists; exists a; auto). congruence.
Qed.
Lemma fold_add_named_distinct {X} (same : X -> X -> bool) (xs : list X) : all_distinct same xs = true ->
  forall acc, (forall y, In y xs -> existsb (same y) acc = false) ->
  fold_left (add_named same) xs acc = (rev xs ++ acc)%list.
Proof.
  induction xs as [|x r IH]; intros D acc F; [reflexivity|].
  cbn [all_distinct] in D. apply andb_prop in D as [D1 D2]. apply negb_true_iff in D1.
  cbn [fold_left]. unfold add_named at 2. rewrite (F x (or_introl eq_refl)).
  rewrite IH; [cbn [rev]; rewrite <- app_assoc; reflexivity|exact D2|].
  intros y Iy. cbn [existsb]. rewrite (existsb_false _ _ D1 y Iy). cbn [orb]. apply F. right. exact Iy.
Qed.
Corollary fold_add_named_fresh {X} (same : X -> X -> bool) (xs : list X) : all_distinct same xs = true ->
  rev (fold_left (add_named same) xs []) = xs.
Proof.
  intro D. rewrite fold_add_named_distinct; [rewrite app_nil_r; apply rev_involutive|exact D|reflexivity].
Qed.

(** ** shape of a record kind of a format table (decided by computation on the regenerated table) *)
Fixpoint tys_eqb (a b : list fty) : bool :=
  match a, b with [], [] => true | x :: a', y :: b' => fty_eqb x y && tys_eqb a' b' | _, _ => false end.
Definition int_ok (f : fspec) : bool := negb (fty_eqb (ft f) Td) || (0 <=? fw f)%Z.
Definition shape_ok (T : table) (k : string) (tys : list fty) (minw : nat) : bool :=
  tys_eqb (map ft (sp T k)) tys && forallb int_ok (sp T k) && (minw <=? rec_width T k)%nat.
Lemma fty_eqb_eq a b : fty_eqb a b = true -> a = b.
Proof. destruct a, b; cbn; congruence. Qed.
Lemma tys_eqb_nth a : forall b i ty, tys_eqb a b = true -> nth_error b i = Some ty -> exists x, nth_error a i = Some x /\ x = ty.
Proof.
  induction a as [|x a IH]; intros [|y b] i ty E H; cbn in E; try discriminate; [destruct i; discriminate|].
  apply andb_prop in E as [E1 E2]. apply fty_eqb_eq in E1. destruct i as [|i]; cbn in H |- *.
  - inversion H; subst. eauto.
  - eapply IH; eauto.
Qed.
Lemma shape_nth T k tys w i ty : shape_ok T k tys w = true -> nth_error tys i = Some ty ->
  exists f, nth_error (sp T k) i = Some f /\ ft f = ty /\ (ty = Td -> (0 <= fw f)%Z).
Proof.
  unfold shape_ok. intros H N. apply andb_prop in H as [H _]. apply andb_prop in H as [H1 H2].
  destruct (tys_eqb_nth _ _ _ _ H1 N) as [x [Nx Ex]].
  rewrite nth_error_map in Nx. destruct (nth_error (sp T k) i) as [f|] eqn:F; [|discriminate].
  cbn in Nx. inversion Nx; subst. exists f. split; [reflexivity|split; [reflexivity|]].
  intro Ty. rewrite forallb_forall in H2. specialize (H2 f (nth_error_In _ _ F)). unfold int_ok in H2. rewrite Ty in H2. cbn in H2.
  apply Z.leb_le. exact H2.
Qed.
Lemma shape_width T k tys w : shape_ok T k tys w = true -> (w <= rec_width T k)%nat.
Proof. unfold shape_ok. intro H. apply andb_prop in H as [_ H]. apply Nat.leb_le. exact H. Qed.
Lemma shape_length T k tys w : shape_ok T k tys w = true -> length (sp T k) = length tys.
Proof.
  unfold shape_ok. intro H. apply andb_prop in H as [H _]. apply andb_prop in H as [H _].
  rewrite <- (map_length ft). revert H. generalize (map ft (sp T k)). intro a. revert tys.
  induction a as [|x a IH]; intros [|y b] E; cbn in E; try discriminate; [reflexivity|].
  apply andb_prop in E as [_ E]. cbn. f_equal. apply IH. exact E.
Qed.

(** names of a record kind *)
Fixpoint names_eqb (a b : list string) : bool :=
  match a, b with [], [] => true | x :: a', y :: b' => String.eqb x y && names_eqb a' b' | _, _ => false end.
Lemma names_eqb_eq a : forall b, names_eqb a b = true -> a = b.
Proof.
  induction a as [|x a IH]; intros [|y b] H; cbn in H; try discriminate; [reflexivity|].
  apply andb_prop in H as [H1 H2]. apply String.eqb_eq in H1. apply IH in H2. congruence.
Qed.
(** the list-section pattern: the records, then a line that stops the loop *)
Lemma list_section {A X} prep stop body (step : A -> X -> A) (xs : list X) (recs : list file) (term : str) (rest : file) (a : A) :
  Forall2 (enc_ok A prep stop body X step (fun _ => True)) xs recs -> stop (prep term) = true ->
  loop A prep stop body (S (length (concat recs ++ term :: rest)%list)) a (concat recs ++ term :: rest)%list = Ok (fold_left step xs a, rest).
Proof.
  intros F St.
  destruct (loop_roundtrip A prep stop body X step (fun _ => True) xs recs term rest a (S (length (concat recs ++ term :: rest)%list)) F St I) as [L _].
  { pose proof (enc_ok_nonempty _ _ _ _ _ _ _ F). rewrite app_length. lia. }
  exact L.
Qed.
Lemma prefix_app p a b : (length p <= length a)%nat -> prefix p (a ++ b)%list = prefix p a.
Proof.
  revert a. induction p as [|x p IH]; intros a L; [reflexivity|]. destruct a as [|y a]; [cbn in L; lia|].
  cbn [app prefix]. f_equal. apply IH. cbn in L. lia.
Qed.
(** a name that fills the first field starts the line *)
Lemma fmt_field_str f name : ft f = Ts -> fits_str f name = true -> fmt_field f (XStr name) = Ok name.
Proof.
  intros Ty F. apply andb_prop in F as [L NL]. apply Nat.eqb_eq in L.
  unfold fmt_field. rewrite Ty. unfold fmt_raw. rewrite Ty. cbn [bind].
  assert (P : fmt_str (fw f) name = name).
  { unfold fmt_str, pad, width in *. destruct (fw f <? 0)%Z eqn:N.
    - unfold ljust. apply Z.ltb_lt in N. replace (Z.to_nat (- fw f)) with (length name) by lia. rewrite Nat.sub_diag. apply app_nil_r.
    - unfold rjust. apply Z.ltb_ge in N. replace (Z.to_nat (fw f)) with (length name) by lia. rewrite Nat.sub_diag. reflexivity. }
  rewrite P, L, Nat.leb_refl. reflexivity.
Qed.
Lemma wline_name_head T k f0 fs name vs l : sp T k = f0 :: fs -> ft f0 = Ts -> fits_str f0 name = true ->
  wline T k (XStr name :: vs) = Ok l -> exists rest, l = (name ++ rest)%list.
Proof.
  intros S Ty F H. destruct (wline_head T _ _ _ _ _ _ S H) as [s0 [rest [E1 E2]]].
  rewrite (fmt_field_str _ _ Ty F) in E1. inversion E1; subst. eauto.
Qed.
