(** C01 -- line programs: what a writer writes, as a list of literal lines and of records
    (record kind, values).  Writing the program of the re-read object is writing the program
    of the original with every record's values read back ([citem]); by the record-level
    theorems of Idem.v that is the first file plus trailing blanks, and a fixed point. *)
From Coq Require Import Ascii String List Bool Arith ZArith NArith Lia.
From PTBase Require Import Exn PyStr PyNum PyVal Fmt FixedFormat.
From Gen Require Import GenSections.
From P Require Import Comb Obj Fields Idem Sections Rec.
Import ListNotations.
Open Scope string_scope.

(** [Rec]: the reader keeps a value for every field of the record; [RecK]: the reader keeps as many
    values as were written (it trims the blanks that follow them) *)
Inductive item := Lit (l : str) | Rec (k : string) (vals : list value) | RecK (k : string) (vals : list value).

Section WithTable.
Variable T : table.
Notation sp := (sp T).

Definition render1 (it : item) : res str := match it with Lit l => Ok l | Rec k vals | RecK k vals => wline T k vals end.
Definition render (p : list item) : res file := mapM render1 p.
Definition kept (specs : list fspec) (vals : list value) : list value := firstn (length vals) (cvals specs vals).
Definition citem (it : item) : item :=
  match it with Lit l => Lit l | Rec k vals => Rec k (cvals (sp k) vals) | RecK k vals => RecK k (kept (sp k) vals) end.
Definition istable (it : item) : Prop := match it with Lit _ => True | Rec k vals | RecK k vals => all_stable (sp k) vals end.

Lemma render_app a b : render (a ++ b)%list = (do x <- render a; do y <- render b; Ok (x ++ y)%list).
Proof.
  unfold render. induction a as [|i a IH]; cbn [app mapM bind].
  - destruct (mapM render1 b); reflexivity.
  - destruct (render1 i); cbn [bind]; [|reflexivity]. rewrite IH.
    destruct (mapM render1 a); cbn [bind]; [|reflexivity]. destruct (mapM render1 b); reflexivity.
Qed.
Lemma render_cons i p : render (i :: p) = (do x <- render1 i; do y <- render p; Ok (x :: y)).
Proof. reflexivity. Qed.

(** a line of the second file: the line of the first with blanks before its newline *)
Definition lpad (l l' : str) : Prop :=
  l' = l \/ exists s t, l = (s ++ [nl])%list /\ l' = (s ++ t ++ [nl])%list /\ forallb (fun c => ceqb c " "%char) t = true.
Lemma wline_rewrite k vals l : wline T k vals = Ok l -> all_stable (sp k) vals ->
  exists l', wline T k (cvals (sp k) vals) = Ok l' /\ lpad l l'.
Proof.
  unfold wline. fold (sp k). intros W S. destruct (write_values (sp k) vals) as [s|] eqn:E; cbn [bind] in W; [|discriminate]. inv_ok W.
  destruct (line_rewrite _ _ _ E S) as [t [E2 B]]. rewrite E2. cbn [bind]. eexists. split; [reflexivity|].
  right. exists s, t. repeat split; [rewrite <- app_assoc; reflexivity|exact B].
Qed.
Lemma wline_fixpoint k vals l : wline T k vals = Ok l -> all_stable (sp k) vals ->
  wline T k (cvals (sp k) (cvals (sp k) vals)) = wline T k (cvals (sp k) vals).
Proof.
  unfold wline, write_values. fold (sp k). intros W S.
  destruct (write_fields (sp k) vals) as [fs|] eqn:E; cbn [bind] in W; [|discriminate].
  rewrite (record_rewrite_fixpoint _ _ _ E S). reflexivity.
Qed.

(** a record whose trailing blanks the reader trims: written again it is the same line *)
Lemma write_fields_firstn specs : forall vals l n, write_fields specs vals = Ok l -> write_fields specs (firstn n vals) = Ok (firstn n l).
Proof.
  induction specs as [|f fs IH]; intros vals l n W.
  - cbn in W. inv_ok W. destruct (firstn n vals); destruct n; reflexivity.
  - destruct vals as [|v vs]; [cbn in W; inv_ok W; destruct n; reflexivity|].
    cbn [write_fields] in W. destruct (fmt_field f v) as [s|] eqn:E; cbn [bind] in W; [|discriminate].
    destruct (write_fields fs vs) as [r|] eqn:R; cbn [bind] in W; [|discriminate]. inv_ok W.
    destruct n as [|n]; [reflexivity|]. cbn [firstn write_fields]. rewrite E. cbn [bind]. rewrite (IH vs r n R). reflexivity.
Qed.
Lemma kept_fields specs vals l : write_fields specs vals = Ok l -> all_stable specs vals -> write_fields specs (kept specs vals) = Ok l.
Proof.
  intros W S. unfold kept. rewrite (write_fields_firstn _ _ _ _ (record_rewrite specs vals l W S)).
  destruct (write_fields_widths _ _ _ W) as [_ B]. f_equal.
  destruct (Nat.le_ge_cases (length vals) (length specs)) as [H|H].
  - rewrite Nat.min_r in B by exact H. rewrite <- B, firstn_app, firstn_all, Nat.sub_diag. cbn [firstn]. apply app_nil_r.
  - rewrite Nat.min_l in B by exact H. rewrite B, skipn_all. cbn [blanks_for map]. rewrite app_nil_r. apply firstn_all2. lia.
Qed.
Lemma all_stable_kept specs : forall vals l, write_fields specs vals = Ok l -> all_stable specs vals -> all_stable specs (kept specs vals).
Proof.
  intros vals l W S. unfold kept. pose proof (all_stable_cvals specs vals l W S) as A.
  revert A. generalize (cvals specs vals). generalize (length vals). clear.
  induction specs as [|f fs IH]; intros n c A; [destruct (firstn n c); exact I|].
  destruct c as [|v c]; [destruct n; exact I|]. destruct n as [|n]; [exact I|]. cbn [firstn all_stable] in *. destruct A as [A1 A2].
  split; [exact A1|apply IH; exact A2].
Qed.
Lemma wlineK_rewrite k vals l : wline T k vals = Ok l -> all_stable (sp k) vals -> wline T k (kept (sp k) vals) = Ok l.
Proof.
  unfold wline, write_values. fold (sp k). intros W S. destruct (write_fields (sp k) vals) as [fs|] eqn:E; cbn [bind] in W; [|discriminate].
  rewrite (kept_fields _ _ _ E S). exact W.
Qed.
Lemma wlineK_fixpoint k vals l : wline T k vals = Ok l -> all_stable (sp k) vals ->
  wline T k (kept (sp k) (kept (sp k) vals)) = wline T k (kept (sp k) vals).
Proof.
  intros W S. unfold wline, write_values in *. fold (sp k) in *. destruct (write_fields (sp k) vals) as [fs|] eqn:E; cbn [bind] in W; [|discriminate].
  rewrite (kept_fields _ _ _ (kept_fields _ _ _ E S) (all_stable_kept _ _ _ E S)), (kept_fields _ _ _ E S). reflexivity.
Qed.

Theorem render_rewrite p : forall ls, render p = Ok ls -> Forall istable p ->
  exists ls', render (map citem p) = Ok ls' /\ Forall2 lpad ls ls'.
Proof.
  induction p as [|i p IH]; intros ls W S.
  - cbn in W. inv_ok W. exists []. split; [reflexivity|constructor].
  - rewrite render_cons in W. destruct (render1 i) as [l|] eqn:E; cbn [bind] in W; [|discriminate].
    destruct (render p) as [r|] eqn:R; cbn [bind] in W; [|discriminate]. inv_ok W.
    inversion S as [|? ? S1 S2]; subst. destruct (IH r eq_refl S2) as [r' [R' F]].
    cbn [map]. rewrite render_cons. destruct i as [x|k vals|k vals].
    + cbn [citem render1] in *. inv_ok E. rewrite R'. cbn [bind]. eexists. split; [reflexivity|]. constructor; [left; reflexivity|exact F].
    + cbn [citem render1 istable] in *. destruct (wline_rewrite k vals l E S1) as [l' [E' P]]. rewrite E', R'. cbn [bind].
      eexists. split; [reflexivity|]. constructor; assumption.
    + cbn [citem render1 istable] in *. rewrite (wlineK_rewrite k vals l E S1), R'. cbn [bind].
      eexists. split; [reflexivity|]. constructor; [left; reflexivity|exact F].
Qed.
Theorem render_fixpoint p : forall ls, render p = Ok ls -> Forall istable p ->
  render (map citem (map citem p)) = render (map citem p).
Proof.
  induction p as [|i p IH]; intros ls W S; [reflexivity|].
  rewrite render_cons in W. destruct (render1 i) as [l|] eqn:E; cbn [bind] in W; [|discriminate].
  destruct (render p) as [r|] eqn:R; cbn [bind] in W; [|discriminate]. inv_ok W.
  inversion S as [|? ? S1 S2]; subst. cbn [map]. rewrite !render_cons. rewrite (IH r eq_refl S2).
  destruct i as [x|k vals|k vals]; [reflexivity| |]; cbn [citem render1 istable] in *;
    [rewrite (wline_fixpoint k vals l E S1)|rewrite (wlineK_fixpoint k vals l E S1)]; reflexivity.
Qed.

(** ** building blocks of the writers as programs *)
(** a list written k values per line *)
Fixpoint chunk_items (key : string) (k n : nat) (l : list value) : list item :=
  match n with O => [] | S n' => Rec key (pad_none k (firstn k l)) :: chunk_items key k n' (skipn k l) end.
Lemma write_chunks_render key k : forall n l, write_chunks (sp key) k n l = render (chunk_items key k n l).
Proof.
  induction n as [|n IH]; intro l; [reflexivity|]. cbn [write_chunks chunk_items]. rewrite render_cons. cbn [render1].
  unfold wline. fold (sp key). destruct (write_values (sp key) (pad_none k (firstn k l))); cbn [bind]; [|reflexivity].
  rewrite IH. destruct (render (chunk_items key k n (skipn k l))); reflexivity.
Qed.
(** a list of records, each with its own lines *)
Lemma write_list_render {X} (wr : X -> res file) (px : X -> list item) :
  (forall x, wr x = render (px x)) -> forall xs, (do recs <- write_list wr xs; Ok (concat recs)) = render (flat_map px xs).
Proof.
  intros H. induction xs as [|x xs IH]; [reflexivity|]. cbn [write_list flat_map]. rewrite render_app, <- H, <- IH.
  destruct (wr x); cbn [bind]; [|reflexivity]. destruct (write_list wr xs); reflexivity.
Qed.
Lemma list_section_render {X} (wr : X -> res file) (px : X -> list item) (key : string) :
  (forall x, wr x = render (px x)) -> forall xs,
  (do recs <- write_list wr xs; Ok (kw key :: concat recs +++ [[nl]])) = render (Lit (kw key) :: flat_map px xs ++ [Lit [nl]])%list.
Proof.
  intros H xs. rewrite render_cons. cbn [render1 bind]. rewrite render_app. rewrite <- (write_list_render wr px H xs).
  destruct (write_list wr xs); reflexivity.
Qed.

End WithTable.
