(** C01 -- extraction of the executable model:
      W <mesh> <xp> <echo> <object tokens...>   write an object  -> OK <hex main> <hex mesh|-> <hex pdat|->
      R <hex main> <hex mesh|-> <hex pdat|->    read files       -> OK <object tokens...> *)
From Coq Require Import Ascii String List Bool Arith ZArith NArith.
From PTBase Require Import Exn PyStr PyNum PyVal Fmt FixedFormat Wire.
From Gen Require Import GenTables GenSections.
From P Require Import Comb Obj Sections SectionsB T2DataIO Codec.
Import ListNotations.

Definition decode_obj (toks : list str) : res t2d :=
  match parse_toks toks [] [] with
  | Some (NL [n]) => dt2d n
  | _ => Raise ValueError
  end.
Definition dash : str := s2l "-".
Definition comma : ascii := ","%char.
Definition opt_hex (o : option file) : str := match o with Some ls => app (s2l "=") (hex_lines ls) | None => dash end.
Definition opt_unhex (s : str) : option file :=
  match s with "="%char :: h => Some (unhex_lines [] [] h) | _ => None end.
Definition show_files (r : res (t2d * files)) : str :=
  match r with
  | Ok (_, fs) => app (s2l "OK ") (app (hex_lines (f_main fs)) (tab :: app (opt_hex (f_mesh fs)) (tab :: opt_hex (f_pdat fs))))
  | Raise e => app (s2l "RAISE ") (show_exn e) end.
Definition dec_xp (s : str) : option (list str) :=
  if str_eqb s dash then None
  else match s with "="%char :: r => Some (match r with [] => [] | _ => split_c comma r end) | _ => None end.
Definition dec_echo (s : str) : option bool :=
  if str_eqb s (s2l "1") then Some true else if str_eqb s (s2l "0") then Some false else None.
(** TAB split with [rev_append] ([Wire.fields] reverses with the quadratic stdlib [rev]) *)
Fixpoint split_fast (cur : str) (acc : list str) (s : str) : list str :=
  match s with
  | [] => rev_append acc [rev_append cur []]
  | c :: r => if ceqb c tab then split_fast [] (rev_append cur [] :: acc) r else split_fast (c :: cur) acc r
  end.
Definition run_case (line : str) : str :=
  match split_fast [] [] line with
  | k :: rest =>
      if str_eqb k (s2l "W") then
        match rest with
        | m :: x :: e :: toks =>
            match decode_obj toks with
            | Ok d => show_files (write_files (mk_wcfg (nat_of_str m) (dec_xp x) (dec_echo e)) d)
            | Raise _ => s2l "BADOBJ" end
        | _ => s2l "BADCASE" end
      else if str_eqb k (s2l "R") then
        match rest with
        | [h; m; p] =>
            match read_files (mk_files (unhex_lines [] [] h) (opt_unhex m) (opt_unhex p)) with
            | Ok d => app (s2l "OK") (pr (et2d d) [])
            | Raise e => app (s2l "RAISE ") (show_exn e) end
        | _ => s2l "BADCASE" end
      else s2l "BADCASE"
  | [] => s2l "BADCASE"
  end.

Require Extraction.
Require Import ExtrOcamlBasic ExtrOcamlString.
Extraction "Drv.ml" run_case.
