(** C01 -- extraction of the executable model:
      W <mesh> <xp> <echo> <object tokens...>   write an object  -> OK <hex main> <hex mesh|-> <hex pdat|->
      R <hex main> <hex mesh|-> <hex pdat|->    read files       -> OK <object tokens...>
      B <object tokens...>                      write the MESHA / MESHB records -> OK <record tokens of [A; B]>
      C <hex main> <record tokens of [A; B]>    read main file and the pair     -> OK <object tokens...> *)
From Coq Require Import Ascii String List Bool Arith ZArith NArith.
From PTBase Require Import Exn PyStr PyNum PyVal Fmt FixedFormat Wire.
From Gen Require Import GenTables GenSections.
From P Require Import Comb Obj Fields Sections SectionsB Rec SecRocks SecMesh SecGener SecMisc SecParam T2DataIO Whole IdemWhole Example IdemEx Bin Codec.
Import ListNotations.

Definition decode_obj (toks : list str) : res t2d :=
  match parse_toks toks [] [] with
  | Some (NL [n]) => dt2d n
  | _ => Raise ValueError
  end.
Definition dash : str := s2l "-".
Definition comma : ascii := ","%char.
Definition opt_hex (o : option file) : str := match o with Some ls => app (s2l "=") (hex_lines ls) | None => dash end.
Definition opt_unhex (s : str) : option file :=
  match s with "="%char :: h => Some (unhex_lines [] [] h) | _ => None end.
Definition show_files (r : res (t2d * files)) : str :=
  match r with
  | Ok (_, fs) => app (s2l "OK ") (app (hex_lines (f_main fs)) (tab :: app (opt_hex (f_mesh fs)) (tab :: opt_hex (f_pdat fs))))
  | Raise e => app (s2l "RAISE ") (show_exn e) end.
Definition dec_xp (s : str) : option (list str) :=
  if str_eqb s dash then None
  else match s with "="%char :: r => Some (match r with [] => [] | _ => split_c comma r end) | _ => None end.
Definition dec_echo (s : str) : option bool :=
  if str_eqb s (s2l "1") then Some true else if str_eqb s (s2l "0") then Some false else None.
(** TAB split with [rev_append] ([Wire.fields] reverses with the quadratic stdlib [rev]) *)
Fixpoint split_fast (cur : str) (acc : list str) (s : str) : list str :=
  match s with
  | [] => rev_append acc [rev_append cur []]
  | c :: r => if ceqb c tab then split_fast [] (rev_append cur [] :: acc) r else split_fast (c :: cur) acc r
  end.
(** H: which hypotheses of t2data_read_write_partial the object meets (after update_sections);
   I: write / read / write / read / write in the model: second file = first up to trailing blanks, third = second *)
Definition bit (b : bool) : ascii := if b then "1"%char else "0"%char.
Definition show_hyps (d0 : t2d) : str :=
  let d := set_sections d0 (update_sections d0) in
  let ks := map l2s (sections d) in
  (* the value conditions imply the computed ones (IdemEx.idem_hyps_strict_weaken): the costly test runs once *)
  let st := idem_hyps_strict d ks in
  let h := if st then true else idem_hyps d ks in
  let h1 := if h then true else idem_hyps1 d ks in
  let ok := if h1 then true else hyps_ok d ks in
  [bit (forallb (fun k => existsb (String.eqb k) covered) ks);
   bit (match write_lines d with Ok _ => true | Raise _ => false end);
   bit (match xprec d with [] => true | _ => false end);
   bit (is_end (end_keyword d)); bit (title_ok d); bit (chain_ok d ks (start_state d)); bit ok;
   bit (forallb (fun k => existsb (String.eqb k) idem_covered) ks); bit h1; bit h; bit st].
Definition rstrip_sp (s : str) : str := rstrip_by (fun c => ceqb c " "%char) s.
Definition strip_line (l : str) : str :=
  match rev l with c :: r => if ceqb c nl then rstrip_sp (rev r) +++ [nl] else rstrip_sp l | [] => [] end.
Fixpoint file_eqb (a b : file) : bool :=
  match a, b with [], [] => true | x :: a', y :: b' => str_eqb x y && file_eqb a' b' | _, _ => false end.
Definition show_idem (d : t2d) : str :=
  match write_lines d with
  | Ok l1 => match read_lines l1 with
             | Ok d1 => match write_lines d1 with
                        | Ok l2 => match read_lines l2 with
                                   | Ok d2 => match write_lines d2 with
                                              | Ok l3 => [bit (file_eqb (map strip_line l1) (map strip_line l2)); bit (file_eqb l2 l3)]
                                              | Raise _ => s2l "W3" end
                                   | Raise _ => s2l "R2" end
                        | Raise _ => s2l "W2" end
             | Raise _ => s2l "R1" end
  | Raise _ => s2l "W1" end.
Definition ebrec (r : brec) : node :=
  match r with
  | BI l => NL [estr (s2l "I"); elist ez l]
  | BD l => NL [estr (s2l "D"); evals l]
  | BS l => NL [estr (s2l "S"); elist estr l]
  end.
Definition dbrec (n : node) : res brec :=
  match n with
  | NL [NV (XStr k); x] =>
      if str_eqb k (s2l "I") then do l <- dlist dz x; Ok (BI l)
      else if str_eqb k (s2l "D") then do l <- dvals x; Ok (BD l)
      else if str_eqb k (s2l "S") then do l <- dlist dstr x; Ok (BS l)
      else bad
  | _ => bad
  end.
Definition run_case (line : str) : str :=
  match split_fast [] [] line with
  | k :: rest =>
      if str_eqb k (s2l "W") then
        match rest with
        | m :: x :: e :: toks =>
            match decode_obj toks with
            | Ok d => show_files (write_files (mk_wcfg (nat_of_str m) (dec_xp x) (dec_echo e)) d)
            | Raise _ => s2l "BADOBJ" end
        | _ => s2l "BADCASE" end
      else if str_eqb k (s2l "R") then
        match rest with
        | [h; m; p] =>
            match read_files (mk_files (unhex_lines [] [] h) (opt_unhex m) (opt_unhex p)) with
            | Ok d => app (s2l "OK") (pr (et2d d) [])
            | Raise e => app (s2l "RAISE ") (show_exn e) end
        | _ => s2l "BADCASE" end
      else if str_eqb k (s2l "B") then
        match decode_obj rest with
        | Ok d => match write_bin d with
                  | Ok (a, b) => app (s2l "OK") (pr (NL [elist ebrec a; elist ebrec b]) [])
                  | Raise e => app (s2l "RAISE ") (show_exn e) end
        | Raise _ => s2l "BADOBJ" end
      else if str_eqb k (s2l "C") then
        match rest with
        | h :: toks =>
            match parse_toks toks [] [] with
            | Some (NL [NL [na; nb]]) =>
                match (do a <- dlist dbrec na; do b <- dlist dbrec nb;
                       read_files_bin (mk_files (unhex_lines [] [] h) None None) a b) with
                | Ok d => app (s2l "OK") (pr (et2d d) [])
                | Raise e => app (s2l "RAISE ") (show_exn e) end
            | _ => s2l "BADCASE" end
        | _ => s2l "BADCASE" end
      else if str_eqb k (s2l "H") then
        match decode_obj rest with Ok d => show_hyps d | Raise _ => s2l "BADOBJ" end
      else if str_eqb k (s2l "I") then
        match decode_obj rest with Ok d => show_idem d | Raise _ => s2l "BADOBJ" end
      else s2l "BADCASE"
  | [] => s2l "BADCASE"
  end.

Require Extraction.
Require Import ExtrOcamlBasic ExtrOcamlString.
Extraction "Drv.ml" run_case.
