(** C01 -- extraction of the executable model: W (write an object), R (read a file). *)
From Coq Require Import Ascii String List Bool Arith ZArith NArith.
From PTBase Require Import Exn PyStr PyNum PyVal Fmt FixedFormat Wire.
From Gen Require Import GenTables GenSections.
From P Require Import Comb Obj Sections SectionsB T2DataIO Codec.
Import ListNotations.

Definition decode_obj (toks : list str) : res t2d :=
  match parse_toks toks [] [] with
  | Some (NL [n]) => dt2d n
  | _ => Raise ValueError
  end.
Definition show_file (r : res file) : str :=
  match r with Ok ls => app (s2l "OK ") (hex_lines ls) | Raise e => app (s2l "RAISE ") (show_exn e) end.
Definition tabc : ascii := "009"%char.
Definition run_case (line : str) : str :=
  match line with
  | "W"%char :: t :: rest =>
      match decode_obj (fields rest) with
      | Ok d => show_file (write_lines d)
      | Raise _ => s2l "BADOBJ" end
  | "R"%char :: t :: h =>
      match read_lines (unhex_lines [] [] h) with
      | Ok d => app (s2l "OK") (pr (et2d d) [])
      | Raise e => app (s2l "RAISE ") (show_exn e) end
  | _ => s2l "BADCASE"
  end.

Require Extraction.
Require Import ExtrOcamlBasic ExtrOcamlString.
Extraction "Drv.ml" run_case.
