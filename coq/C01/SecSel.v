(** C01 -- SELEC and DIFFU. *)
From Coq Require Import Ascii String List Bool Arith ZArith NArith Lia.
From PTBase Require Import Exn PyStr PyNum PyVal Fmt FixedFormat.
From Gen Require Import GenSections.
From P Require Import Comb Obj Fields Sections SectionsB Rec SecRocks SecMesh SecGener SecMisc.
Import ListNotations.
Open Scope string_scope.

Section WithTable.
Variable T : table.
Notation sp := (sp T).

(** ** SELEC: 16 integers, then as many lines of 8 reals as the first integer says *)
Definition selec_table_ok : bool :=
  match sp "selec1" with f :: _ => fty_eqb (ft f) Td && (0 <=? fw f)%Z | [] => false end.
Definition canon_selection (x : list value * list value) : list value * list value :=
  (cvals (sp "selec1") (fst x),
   chunk_cells (sp "selec2") (chunk_of "write_selection")
               (match vnth (fst x) 0 with XInt z => Z.to_nat z | _ => O end) (snd x)).
Definition wf_selection (x : list value * list value) : bool :=
  match sp "selec1", fst x with
  | f :: _, XInt z :: _ => fits_int f z
  | _, _ => false
  end.
Theorem selection_roundtrip d x body : selec_table_ok = true -> selection d = Some x ->
  write_selection T d = Ok (kw "SELEC" :: body) -> wf_selection x = true ->
  forall d0 rest, read_selection T d0 (body ++ rest)%list = Ok (set_selection d0 (Some (canon_selection x)), rest).
Proof.
  intros TOK SX W WF d0 rest. destruct x as [ints floats]. unfold selec_table_ok in TOK. unfold wf_selection in WF. cbn [fst] in WF.
  destruct (sp "selec1") as [|f fs] eqn:S; [discriminate|]. apply andb_prop in TOK as [Ty Pw].
  apply fty_eqb_eq in Ty. apply Z.leb_le in Pw.
  destruct ints as [|[|z| |] ints']; try discriminate.
  unfold write_selection in W. rewrite SX in W.
  destruct (wline T "selec1" (XInt z :: ints')) as [l1|] eqn:L1; cbn [bind] in W; [|discriminate].
  cbn [vnth nth v_nat bind] in W.
  destruct (write_chunks (sp "selec2") (chunk_of "write_selection") (Z.to_nat z) floats) as [ch|] eqn:CH; cbn [bind] in W; [|discriminate].
  inv_ok W. unfold read_selection. cbn [app readline]. rewrite (wp T _ _ _ L1). rewrite S.
  cbn [cvals vnth nth]. rewrite (cf_int _ _ Ty Pw WF). cbn [v_nat bind].
  destruct (chunks_roundtrip_cells _ _ _ _ _ rest CH) as [_ A]. rewrite A.
  unfold canon_selection. cbn [fst snd vnth nth]. rewrite S. cbn [cvals]. rewrite (cf_int _ _ Ty Pw WF). reflexivity.
Qed.

(** ** DIFFU: one line per component, the first num_phases values of each *)
Definition canon_diffusion (np : Z) (cs : list (list value)) : list (list value) :=
  map (fun c => pyslice (Some 0%Z) (Some np) (cvals (sp "diffusion") c)) cs.
Lemma read_diffs_lines np : forall cs ls rest, mapM (fun c => wline T "diffusion" c) cs = Ok ls ->
  read_diffs T (length cs) np (ls ++ rest)%list = (canon_diffusion np cs, rest).
Proof.
  induction cs as [|c cs IH]; intros ls rest W.
  - cbn in W. inv_ok W. reflexivity.
  - cbn [mapM] in W. destruct (wline T "diffusion" c) as [l|] eqn:L; cbn [bind] in W; [|discriminate].
    destruct (mapM (fun c0 => wline T "diffusion" c0) cs) as [r|] eqn:R; cbn [bind] in W; [|discriminate]. inv_ok W.
    cbn [length read_diffs app readline]. rewrite (IH r rest eq_refl). rewrite (wp T _ _ _ L). reflexivity.
Qed.
Theorem diffusion_roundtrip d body : write_diffusion T d = Ok (kw "DIFFU" :: body) ->
  forall d0 rest np, dget (multi d0) "num_components" = Some (XInt (Z.of_nat (length (diffusion d)))) ->
  dget (multi d0) "num_phases" = Some (XInt np) -> diffusion d0 = [] ->
  read_diffusion T d0 (body ++ rest)%list = Ok (set_diffusion d0 (canon_diffusion np (diffusion d)), rest).
Proof.
  intros W d0 rest np NC NP E0. unfold write_diffusion in W. destruct (diffusion d) as [|c0 cs] eqn:E; [discriminate|]. rewrite <- E in *.
  destruct (mapM (fun c => wline T "diffusion" c) (diffusion d)) as [ls|] eqn:M; cbn [bind] in W; [|discriminate]. inv_ok W.
  unfold read_diffusion. rewrite NC, NP. cbn [v_nat bind]. rewrite Nat2Z.id.
  rewrite (read_diffs_lines np _ _ rest M). rewrite E0. reflexivity.
Qed.

End WithTable.
