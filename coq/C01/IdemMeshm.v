(** C01 -- the line program of MESHMAKER (P1: the writer renders it).  For this section the
    agreement of the program of the re-read content with the read-back program of the original
    (P2) is not derived from conditions on the values: it is decided by computing both
    ([items_eqb]) and is a hypothesis of the second-file theorems. *)
From Coq Require Import Ascii String List Bool Arith ZArith NArith Lia.
From PTBase Require Import Exn PyStr PyNum PyVal Fmt FixedFormat.
From Gen Require Import GenTables GenSections.
From P Require Import Comb Obj Fields Idem Sections SectionsB Rec Prog SecMeshm IdemSec T2DataIO.
Import ListNotations.
Open Scope string_scope.

(** ** equality of programs, decided *)
Definition item_eqb (a b : item) : bool :=
  match a, b with
  | Lit x, Lit y => str_eqb x y
  | Rec k v, Rec k' v' | RecK k v, RecK k' v' => (k =? k')%string && vlist_eqb v v'
  | _, _ => false
  end.
Lemma item_eqb_eq a b : item_eqb a b = true -> a = b.
Proof.
  destruct a, b; cbn; intro H; try discriminate.
  - apply str_eqb_eq in H. subst. reflexivity.
  - apply andb_prop in H as [H1 H2]. apply String.eqb_eq in H1. apply vlist_eqb_eq in H2. subst. reflexivity.
  - apply andb_prop in H as [H1 H2]. apply String.eqb_eq in H1. apply vlist_eqb_eq in H2. subst. reflexivity.
Qed.
Fixpoint items_eqb (a b : list item) : bool :=
  match a, b with [], [] => true | x :: a', y :: b' => item_eqb x y && items_eqb a' b' | _, _ => false end.
Lemma items_eqb_eq a : forall b, items_eqb a b = true -> a = b.
Proof.
  induction a as [|x a IH]; intros [|y b] H; try discriminate; [reflexivity|]. cbn in H. apply andb_prop in H as [H1 H2].
  apply item_eqb_eq in H1. subst. f_equal. apply IH. exact H2.
Qed.

Section WithTable.
Variable T : table.
Notation sp := (sp T).
Notation nm := (nm T).
Notation render := (render T).

Lemma mapM_concat_render {X} (wr : X -> res file) (px : X -> list item) :
  (forall x, wr x = render (px x)) -> forall xs, (do ls <- mapM wr xs; Ok (concat ls)) = render (flat_map px xs).
Proof.
  intros H. induction xs as [|x xs IH]; [reflexivity|]. cbn [mapM flat_map]. rewrite render_app, <- H, <- IH.
  destruct (wr x); cbn [bind]; [|reflexivity]. destruct (mapM wr xs); reflexivity.
Qed.
Lemma mapM_concat_render_in {X} (wr : X -> res file) (px : X -> list item) xs :
  (forall x, In x xs -> wr x = render (px x)) -> (do ls <- mapM wr xs; Ok (concat ls)) = render (flat_map px xs).
Proof.
  induction xs as [|x xs IH]; intro H; [reflexivity|]. cbn [mapM flat_map]. rewrite render_app, <- (H x (or_introl eq_refl)), <- IH by (intros y I; apply H; right; exact I).
  destruct (wr x); cbn [bind]; [|reflexivity]. destruct (mapM wr xs); reflexivity.
Qed.

(** RZ2D *)
Definition count_items (k1 k2 : string) (l : list value) : list item :=
  Rec k1 [XInt (Z.of_nat (length l))] ::
  chunk_items k2 (chunk_of "write_meshmaker_rz2d") (nlines_z (Z.of_nat (chunk_of "write_meshmaker_rz2d")) (Z.of_nat (length l))) l.
Definition prog_rz_sub (x : str * dict * list value) : list item :=
  let '(stype, dct, l) := x in
  Lit (upper stype +++ [nl]) ::
  (if str_eqb stype (s2l "radii") then count_items "radii1" "radii2" l
   else if str_eqb stype (s2l "equid") then [Rec "equid" (dict_vals dct (nm "equid"))]
   else if str_eqb stype (s2l "logar") then [Rec "logar" (dict_vals dct (nm "logar"))]
   else if str_eqb stype (s2l "layer") then count_items "layer1" "layer2" l
   else []).
Lemma write_rz_sub_prog x : write_rz2d_sub T x = render (prog_rz_sub x).
Proof.
  destruct x as [[stype dct] l]. unfold write_rz2d_sub, prog_rz_sub. rewrite render_cons. cbn [render1 bind].
  assert (CI : forall k1 k2, (do l1 <- wline T k1 [XInt (Z.of_nat (length l))];
                 do ch <- write_chunks (sp k2) (chunk_of "write_meshmaker_rz2d") (nlines_z (Z.of_nat (chunk_of "write_meshmaker_rz2d")) (Z.of_nat (length l))) l;
                 Ok ((upper stype +++ [nl]) :: l1 :: ch)) =
              (do y <- render (count_items k1 k2 l); Ok ((upper stype +++ [nl]) :: y))).
  { intros k1 k2. unfold count_items. rewrite render_cons. cbn [render1]. destruct (wline T k1 _); cbn [bind]; [|reflexivity].
    rewrite write_chunks_render. destruct (Prog.render T (chunk_items k2 _ _ l)); reflexivity. }
  destruct (str_eqb stype (s2l "radii")); [apply CI|].
  destruct (str_eqb stype (s2l "equid")); [unfold Prog.render; cbn [mapM render1]; destruct (wline T "equid" _); reflexivity|].
  destruct (str_eqb stype (s2l "logar")); [unfold Prog.render; cbn [mapM render1]; destruct (wline T "logar" _); reflexivity|].
  destruct (str_eqb stype (s2l "layer")); [apply CI|reflexivity].
Qed.

(** XYZ *)
Definition prog_xyz_sub (x : dict * list value) : list item :=
  let (dct, deli) := x in
  Rec "xyz2" (dict_vals dct (nm "xyz2")) ::
  (if v_eq0 (dgetv dct "del") then
     match dgetv dct "no" with
     | XInt z => chunk_items "xyz3" (chunk_of "write_meshmaker_xyz") (nlines_z (Z.of_nat (chunk_of "write_meshmaker_xyz")) z) (firstn (Z.to_nat z) deli)
     | _ => [] end
   else []).
(** what the writer itself needs: 'del' is there; where it is 0, 'no' is an integer *)
Definition wfw_xyz_sub (x : dict * list value) : bool :=
  match dget (fst x) "del" with
  | Some dl => if v_eq0 dl then match dget (fst x) "no" with Some (XInt _) => true | _ => false end else true
  | None => false
  end.
Lemma write_xyz_sub_prog x : wfw_xyz_sub x = true -> write_xyz_sub T x = render (prog_xyz_sub x).
Proof.
  destruct x as [dct deli]. unfold wfw_xyz_sub, write_xyz_sub, prog_xyz_sub, dgetv. cbn [fst]. intro H.
  rewrite render_cons. cbn [render1]. destruct (wline T "xyz2" _); cbn [bind]; [|reflexivity].
  destruct (dget dct "del") as [dl|]; [|discriminate]. destruct (v_eq0 dl); [|reflexivity].
  destruct (dget dct "no") as [[|z| |]|]; try discriminate. cbn [ceil_div bind]. rewrite write_chunks_render.
  destruct (Prog.render T (chunk_items "xyz3" _ _ _)); reflexivity.
Qed.

(** MINC: the blank third column takes no value *)
Definition minc_vals1' (dct : dict) : list value := [XStr (s2l "PART "); dgetv dct "type"; XNone; dgetv dct "dual"].
Definition prog_mm (m : mmsec) : list item :=
  match m with
  | MMrz2d subs => Lit (kw "RZ2D") :: flat_map prog_rz_sub subs
  | MMxyz deg subs => (Lit (kw "XYZ") :: Rec "xyz1" [deg] :: flat_map prog_xyz_sub subs ++ [Lit [nl]])%list
  | MMminc dct spacing vol =>
      Lit (kw "MINC") :: Rec "minc" (minc_vals1' dct) :: Rec "part1" (minc_vals2 dct spacing (length vol)) ::
      chunk_items "part2" (chunk_of "write_meshmaker_minc") (nlines_z (Z.of_nat (chunk_of "write_meshmaker_minc")) (Z.of_nat (length vol))) vol
  end.
Definition wfw_mm (m : mmsec) : bool :=
  match m with MMxyz _ subs => forallb wfw_xyz_sub subs | _ => true end.
Lemma minc_line dct : shape_ok T "minc" [Ts; Ts; Tx; Ts] 0 = true -> wline T "minc" (minc_vals1 dct) = wline T "minc" (minc_vals1' dct).
Proof.
  intro SH. destruct (shape_nth _ _ _ _ 2 Tx SH eq_refl) as [f2 [N2 [T2 _]]]. pose proof (shape_length _ _ _ _ SH) as L.
  unfold wline, write_values. fold (sp "minc") in *. destruct (sp "minc") as [|g0 [|g1 [|g2 [|g3 [|g4 gs]]]]]; try discriminate L.
  cbn in N2. inversion N2; subst g2. unfold minc_vals1, minc_vals1'. cbn [write_fields].
  assert (E : fmt_field f2 (XStr []) = fmt_field f2 XNone) by (unfold fmt_field; rewrite T2; reflexivity). rewrite E. reflexivity.
Qed.
Lemma write_mm_prog m : shape_ok T "minc" [Ts; Ts; Tx; Ts] 0 = true -> wfw_mm m = true -> write_mm T m = render (prog_mm m).
Proof.
  intros SH W. destruct m as [subs|deg subs|dct spacing vol]; unfold write_mm, prog_mm.
  - rewrite render_cons. cbn [render1 bind]. rewrite <- (mapM_concat_render (write_rz2d_sub T) prog_rz_sub write_rz_sub_prog subs).
    destruct (mapM (write_rz2d_sub T) subs); reflexivity.
  - rewrite !render_cons. cbn [render1 bind]. destruct (wline T "xyz1" [deg]); cbn [bind]; [|reflexivity].
    rewrite render_app. cbn [wfw_mm] in W. rewrite forallb_forall in W.
    rewrite <- (mapM_concat_render_in (write_xyz_sub T) prog_xyz_sub subs) by (intros x I; apply write_xyz_sub_prog; apply W; exact I).
    destruct (mapM (write_xyz_sub T) subs); reflexivity.
  - fold (minc_vals1 dct). fold (minc_vals2 dct spacing (length vol)). rewrite (minc_line dct SH).
    rewrite !render_cons. cbn [render1 bind]. destruct (wline T "minc" _); cbn [bind]; [|reflexivity].
    destruct (wline T "part1" _); cbn [bind]; [|reflexivity]. rewrite write_chunks_render.
    destruct (Prog.render T (chunk_items "part2" _ _ vol)); reflexivity.
Qed.
Definition prog_mms (ms : list mmsec) : list item :=
  match ms with [] => [] | _ => (Lit (kw "MESHMAKER") :: flat_map prog_mm ms ++ [Lit [nl]])%list end.
Lemma write_meshmaker_prog d : shape_ok T "minc" [Ts; Ts; Tx; Ts] 0 = true -> forallb wfw_mm (meshmaker d) = true ->
  write_meshmaker T d = render (prog_mms (meshmaker d)).
Proof.
  intros SH W. unfold write_meshmaker, prog_mms. destruct (meshmaker d) as [|m0 ms] eqn:E; [reflexivity|]. rewrite <- E in *.
  rewrite render_cons. cbn [render1 bind]. rewrite render_app. rewrite forallb_forall in W.
  rewrite <- (mapM_concat_render_in (write_mm T) prog_mm (meshmaker d)) by (intros x I; apply write_mm_prog; [exact SH|apply W; exact I]).
  destruct (mapM (write_mm T) (meshmaker d)); reflexivity.
Qed.
(** the decidable hypothesis of the second MESHMAKER section *)
Definition idem_meshm (ms : list mmsec) : bool :=
  forallb wfw_mm (map (canon_mm T) ms) && items_eqb (prog_mms (map (canon_mm T) ms)) (map (citem T) (prog_mms ms)).

End WithTable.
