(** C01 -- GENER: read_generators (write_generators gs) gives the generators back, with
    their time / rate / enthalpy tables of any length (4 per line), with and without the
    enthalpy column. *)
From Coq Require Import Ascii String List Bool Arith ZArith NArith Lia.
From PTBase Require Import Exn PyStr PyNum PyVal Fmt FixedFormat.
From Gen Require Import GenSections.
From P Require Import Comb Obj Fields Sections Rec SecRocks SecMesh.
Import ListNotations.
Open Scope string_scope.

Section WithTable.
Variable T : table.
Notation sp := (sp T).
Notation nm := (nm T).

(** a record kind that is c copies of one numeric field *)
Definition uniform (k : string) (c : nat) : bool :=
  match sp k with f :: _ => numeric f && specs_eqb (sp k) (repeat f c) | [] => false end.
Definition field0 (k : string) : fspec := hd (Build_fspec 0 None Tx) (sp k).
Lemma uniform_spec k c : uniform k c = true -> sp k = repeat (field0 k) c /\ numeric (field0 k) = true.
Proof.
  unfold uniform, field0. destruct (sp k) as [|f r] eqn:S; [discriminate|]. intro H. apply andb_prop in H as [N E].
  apply specs_eqb_eq in E. cbn [hd]. split; assumption.
Qed.
(** the table read back: every value from its own text; blanks (None) drop out *)
Definition ctab (k : string) (l : list value) : list value := somes (map (cf (field0 k)) l).
Lemma tab_roundtrip k c n l ls rest : uniform k c = true -> (0 < c)%nat -> (length l <= n * c)%nat ->
  write_chunks (sp k) c n l = Ok ls -> read_chunks (sp k) n (ls ++ rest)%list = (ctab k l, rest).
Proof.
  intros U C L W. destruct (uniform_spec _ _ U) as [S N]. rewrite S in *.
  rewrite (chunks_roundtrip _ _ _ _ _ rest C N W). rewrite firstn_all2 by exact L. reflexivity.
Qed.

Definition gener_table_ok : bool :=
  shape_ok T "generator" [Ts; Ts; Td; Td; Td; Td; Tx; Ts; Ts; Te; Te; Te; Te] 0 &&
  names_eqb (nm "generator") ["block"; "name"; "nseq"; "nadd"; "nads"; "ltab"; ""; "type"; "itab"; "gx"; "ex"; "hg"; "fg"] &&
  uniform "generation_times" (chunk_of "write_generator") && uniform "generation_rates" (chunk_of "write_generator") &&
  uniform "generation_enthalpy" (chunk_of "write_generator") &&
  (0 <? chunk_of "write_generator")%nat && (chunk_of "read_generator" =? chunk_of "write_generator")%nat.

Definition gen_vals (g : gen) : list value :=
  [XStr (unfix_blockname (g_block g)); XStr (unfix_blockname (g_name g)); g_nseq g; g_nadd g; g_nads g; g_ltab g; XNone;
   XStr (g_type g); XStr (g_itab g); g_gx g; g_ex g; g_hg g; g_fg g].
Definition canon_gen (g : gen) : gen :=
  let v := cvals (sp "generator") (gen_vals g) in
  mk_gen (g_block g) (g_name g) (vnth v 2) (vnth v 3) (vnth v 4) (g_ltab g) (g_type g) (sval (vnth v 8))
         (vnth v 9) (vnth v 10) (vnth v 11) (vnth v 12)
         (ctab "generation_times" (g_time g)) (ctab "generation_rates" (g_rate g)) (ctab "generation_enthalpy" (g_enth g)).
(** number of table entries: |ltab| if ltab and type != 'DELV', else 1 *)
Definition ntimes (g : gen) : Z :=
  match g_ltab g with
  | XInt z => if negb (z =? 0)%Z && negb (str_eqb (g_type g) (s2l "DELV")) then Z.abs z else 1%Z
  | _ => 1%Z
  end.
Definition nonempty_l {A} (l : list A) : bool := match l with [] => false | _ => true end.
Definition wf_gen (g : gen) : bool :=
  match nth_error (sp "generator") 0, nth_error (sp "generator") 1, nth_error (sp "generator") 5,
        nth_error (sp "generator") 7, nth_error (sp "generator") 8 with
  | Some f0, Some f1, Some f5, Some f7, Some f8 =>
      fits_str f0 (unfix_blockname (g_block g)) && negb (blank (unfix_blockname (g_block g))) && name_ok (g_block g) &&
      fits_str f1 (unfix_blockname (g_name g)) && name_ok (g_name g) &&
      match g_ltab g with XNone => true | XInt z => fits_int f5 z | _ => false end &&
      fits_str f7 (g_type g) &&
      (* the itab column is blank exactly when there is no enthalpy table *)
      Bool.eqb (blank (sval (cf f8 (XStr (g_itab g))))) (negb (nonempty_l (g_enth g))) &&
      (if (1 <? ntimes g)%Z then
         (Z.of_nat (length (g_time g)) =? ntimes g)%Z && (Z.of_nat (length (g_rate g)) =? ntimes g)%Z &&
         (negb (nonempty_l (g_enth g)) || (Z.of_nat (length (g_enth g)) =? ntimes g)%Z)
       else negb (nonempty_l (g_time g)) && negb (nonempty_l (g_rate g)) && negb (nonempty_l (g_enth g)))
  | _, _, _, _, _ => false
  end.
Definition gen_step (acc : list gen) (g : gen) : list gen := canon_gen g :: acc.

Lemma gen_ntimes_spec g : match g_ltab g with XNone | XInt _ => True | _ => False end ->
  gen_ntimes (g_ltab g) (g_type g) = Ok (ntimes g).
Proof.
  unfold gen_ntimes, ntimes. destruct (g_ltab g) as [|z| |]; try contradiction; intros _; cbn [v_truthy andb]; [|reflexivity].
  destruct (negb (z =? 0)%Z && negb (str_eqb (g_type g) (s2l "DELV"))); reflexivity.
Qed.
Lemma nlines_cover {A} c nt (l : list A) : (0 < c)%nat -> Z.of_nat (length l) = nt -> (length l <= nlines_z (Z.of_nat c) nt * c)%nat.
Proof.
  intros C L. pose proof (nlines_enough (Z.of_nat c) nt ltac:(lia)). nia.
Qed.

Theorem gen_roundtrip g ls : gener_table_ok = true -> write_gen T g = Ok ls -> wf_gen g = true ->
  enc_ok (list gen) (fun l => l) blank (read_gen T) gen gen_step (fun _ => True) g ls.
Proof.
  intros TOK W WF. unfold gener_table_ok in TOK.
  apply andb_prop in TOK as [TOK CE]. apply andb_prop in TOK as [TOK CP]. apply andb_prop in TOK as [TOK U3].
  apply andb_prop in TOK as [TOK U2]. apply andb_prop in TOK as [TOK U1]. apply andb_prop in TOK as [SH NM].
  apply Nat.eqb_eq in CE. apply Nat.ltb_lt in CP. apply names_eqb_eq in NM.
  destruct (shape_nth _ _ _ _ 0 Ts SH eq_refl) as [f0 [N0 [T0 _]]].
  destruct (shape_nth _ _ _ _ 1 Ts SH eq_refl) as [f1 [N1 [T1 _]]].
  destruct (shape_nth _ _ _ _ 5 Td SH eq_refl) as [f5 [N5 [T5 P5]]]. specialize (P5 eq_refl).
  destruct (shape_nth _ _ _ _ 7 Ts SH eq_refl) as [f7 [N7 [T7 _]]].
  destruct (shape_nth _ _ _ _ 8 Ts SH eq_refl) as [f8 [N8 [T8 _]]].
  unfold wf_gen in WF. rewrite N0, N1, N5, N7, N8 in WF.
  apply andb_prop in WF as [WF W9]. apply andb_prop in WF as [WF W8]. apply andb_prop in WF as [WF W7].
  apply andb_prop in WF as [WF W6]. apply andb_prop in WF as [WF W5]. apply andb_prop in WF as [WF W4].
  apply andb_prop in WF as [WF W3]. apply andb_prop in WF as [W1 W2]. apply negb_true_iff in W2. apply Bool.eqb_prop in W8.
  assert (LT : match g_ltab g with XNone | XInt _ => True | _ => False end) by (destruct (g_ltab g); try discriminate; exact I).
  unfold write_gen in W.
  assert (DV : dict_vals (gen_dict g) (nm "generator") = gen_vals g) by (rewrite NM; reflexivity).
  rewrite DV in W.
  destruct (wline T "generator" (gen_vals g)) as [l1|] eqn:L1; cbn [bind] in W; [|discriminate].
  rewrite (gen_ntimes_spec g LT) in W. cbn [bind] in W.
  assert (NB : blank l1 = false).
  { destruct (sp "generator") as [|g0 gs] eqn:S; [discriminate|]. cbn in N0. inversion N0; subst g0.
    destruct (wline_name_head T "generator" f0 gs (unfix_blockname (g_block g)) _ l1 S T0 W1 L1) as [rest E].
    rewrite E, blank_app, W2. reflexivity. }
  assert (LTAB : vnth (cvals (sp "generator") (gen_vals g)) 5 = g_ltab g).
  { rewrite (cvals_nth (sp "generator") (gen_vals g) 5 f5 (g_ltab g) N5 eq_refl).
    destruct (g_ltab g) as [|z| |] eqn:E; try discriminate W6.
    - apply cf_int; assumption.
    - apply cf_none. unfold numeric. rewrite T5. reflexivity. }
  (* the reader up to the tables *)
  assert (HEAD : forall acc more, read_gen T acc l1 more =
     (let v := cvals (sp "generator") (gen_vals g) in
      let mk t ra en := mk_gen (g_block g) (g_name g) (vnth v 2) (vnth v 3) (vnth v 4) (g_ltab g) (g_type g) (sval (vnth v 8))
                               (vnth v 9) (vnth v 10) (vnth v 11) (vnth v 12) t ra en in
      if (1 <? ntimes g)%Z then
        let n := nlines_z (Z.of_nat (chunk_of "read_generator")) (ntimes g) in
        let (t, r1) := read_chunks (sp "generation_times") n more in
        let (ra, r2) := read_chunks (sp "generation_rates") n r1 in
        if blank (sval (vnth v 8)) then Ok (mk t ra [] :: acc, r2)
        else let (en, r3) := read_chunks (sp "generation_enthalpy") n r2 in Ok (mk t ra en :: acc, r3)
      else Ok (mk [] [] [] :: acc, more))).
  { intros acc more. unfold read_gen. rewrite (wp T _ _ _ L1).
    rewrite (cvals_nth (sp "generator") (gen_vals g) 0 f0 _ N0 eq_refl), (cf_str _ _ T0 W1).
    rewrite (cvals_nth (sp "generator") (gen_vals g) 1 f1 _ N1 eq_refl), (cf_str _ _ T1 W4).
    rewrite (cvals_nth (sp "generator") (gen_vals g) 7 f7 _ N7 eq_refl), (cf_str _ _ T7 W7).
    cbn [sval]. rewrite (name_ok_fix _ W3), (name_ok_fix _ W5). cbn [bind]. rewrite LTAB.
    rewrite (gen_ntimes_spec g LT). cbn [bind]. reflexivity. }
  assert (I8 : vnth (cvals (sp "generator") (gen_vals g)) 8 = cf f8 (XStr (g_itab g))).
  { apply (cvals_nth (sp "generator") (gen_vals g) 8 f8 _ N8 eq_refl). }
  destruct (1 <? ntimes g)%Z eqn:NT.
  - (* a table generator *)
    apply andb_prop in W9 as [W9 WE]. apply andb_prop in W9 as [WT WR]. apply Z.eqb_eq in WT. apply Z.eqb_eq in WR.
    cbv zeta in W.
    assert (FT : firstn (Z.to_nat (ntimes g)) (g_time g) = g_time g) by (rewrite <- WT, Nat2Z.id; apply firstn_all).
    assert (FR : firstn (Z.to_nat (ntimes g)) (g_rate g) = g_rate g) by (rewrite <- WR, Nat2Z.id; apply firstn_all).
    rewrite FT, FR in W.
    set (c := chunk_of "write_generator") in *.
    set (n := nlines_z (Z.of_nat c) (ntimes g)) in *.
    destruct (write_chunks (sp "generation_times") c n (g_time g)) as [lt|] eqn:CT; cbn [bind] in W; [|discriminate].
    destruct (write_chunks (sp "generation_rates") c n (g_rate g)) as [lr|] eqn:CR; cbn [bind] in W; [|discriminate].
    destruct (g_enth g) as [|e0 en] eqn:EN.
    + cbn [bind] in W. inv_ok W. split; [exact NB|]. intros acc rest _. split; [|exact I].
      rewrite HEAD. cbn zeta. rewrite CE. fold c. fold n. rewrite app_nil_r, <- app_assoc.
      rewrite (tab_roundtrip _ c n _ _ _ U1 CP (nlines_cover c _ _ CP WT) CT).
      rewrite (tab_roundtrip _ c n _ _ _ U2 CP (nlines_cover c _ _ CP WR) CR).
      rewrite I8, W8. cbn [nonempty_l negb]. unfold gen_step, canon_gen. rewrite EN, ?I8. reflexivity.
    + cbn [nonempty_l negb orb] in WE. apply Z.eqb_eq in WE.
      assert (FE : firstn (Z.to_nat (ntimes g)) (e0 :: en) = e0 :: en) by (rewrite <- WE, Nat2Z.id; apply firstn_all).
      rewrite FE in W.
      destruct (write_chunks (sp "generation_enthalpy") c n (e0 :: en)) as [le|] eqn:CN; cbn [bind] in W; [|discriminate].
      inv_ok W. split; [exact NB|]. intros acc rest _. split; [|exact I].
      rewrite HEAD. cbn zeta. rewrite CE. fold c. fold n. rewrite <- !app_assoc.
      rewrite (tab_roundtrip _ c n _ _ _ U1 CP (nlines_cover c _ _ CP WT) CT).
      rewrite (tab_roundtrip _ c n _ _ _ U2 CP (nlines_cover c _ _ CP WR) CR).
      rewrite I8, W8. cbn [nonempty_l negb].
      rewrite (tab_roundtrip _ c n _ _ _ U3 CP (nlines_cover c _ _ CP WE) CN).
      unfold gen_step, canon_gen. rewrite EN, ?I8. reflexivity.
  - (* no table *)
    inv_ok W. split; [exact NB|]. intros acc rest _. split; [|exact I].
    rewrite HEAD. cbn zeta. cbn [app].
    apply andb_prop in W9 as [W9 WE]. apply andb_prop in W9 as [WT WR].
    unfold gen_step, canon_gen. rewrite ?I8.
    destruct (g_time g); [|discriminate]. destruct (g_rate g); [|discriminate]. destruct (g_enth g); [|discriminate]. reflexivity.
Qed.

Definition canon_gens (gs : list gen) : list gen := map canon_gen gs.
Lemma fold_gen_step gs : forall acc, fold_left gen_step gs acc = (rev (map canon_gen gs) ++ acc)%list.
Proof.
  induction gs as [|g gs IH]; intro acc; [reflexivity|]. cbn [fold_left map rev]. rewrite IH. unfold gen_step.
  rewrite <- app_assoc. reflexivity.
Qed.
Theorem gens_roundtrip d body : gener_table_ok = true -> write_gens T d = Ok (kw "GENER" :: body) ->
  forallb wf_gen (gens d) = true ->
  forall d0 rest, read_gens T d0 (body ++ rest)%list = Ok (set_gens d0 (canon_gens (gens d)), rest).
Proof.
  intros TOK W WF d0 rest. unfold write_gens in W. destruct (gens d) as [|g0 gs] eqn:G; [discriminate|]. rewrite <- G in *.
  destruct (write_list (write_gen T) (gens d)) as [recs|] eqn:WL; cbn [bind] in W; [|discriminate].
  inversion W; subst body; clear W.
  assert (F : Forall2 (enc_ok (list gen) (fun l => l) blank (read_gen T) gen gen_step (fun _ => True)) (gens d) recs).
  { apply (write_list_Forall2 _ _ _ _ WL). intros x ls Ix Wx. apply gen_roundtrip; auto.
    rewrite forallb_forall in WF. apply WF. exact Ix. }
  unfold read_gens. rewrite <- app_assoc. cbn [app].
  rewrite (list_section (fun l => l) blank (read_gen T) gen_step (gens d) recs [nl] rest [] F eq_refl).
  cbn [bind fst snd]. rewrite fold_gen_step, app_nil_r, rev_involutive. reflexivity.
Qed.

End WithTable.
