(** C01 -- the read_X / write_X methods of t2data, statement by statement, over a format
    table [T] (the main table or the extra-precision table: the same methods serve both
    parsers).  Writers return the lines they write (keyword line included); readers take
    the lines after the keyword line and return the updated object and what is left. *)
From Coq Require Import Ascii String List Bool Arith ZArith NArith Lia.
From PTBase Require Import Exn PyStr PyNum PyVal Fmt FixedFormat.
From Gen Require Import GenSections.
From P Require Import Comb Obj.
Import ListNotations.
Open Scope string_scope.

(** values per line of a reader / writer method: the constant regenerated from its source
    (0 when the method does not use exactly one such constant: nothing is then proved) *)
Fixpoint clookup (k : string) (l : list (string * list Z)) : option (list Z) :=
  match l with [] => None | (k', v) :: r => if String.eqb k k' then Some v else clookup k r end.
Definition chunk_of (m : string) : nat :=
  match clookup m chunk_consts with Some [k] => Z.to_nat k | _ => O end.

Definition kw (s : string) : str := s2l s +++ [nl].
(** replace-on-duplicate insertion into a list kept in REVERSE order of insertion
    ([t2grid.add_rocktype / add_block / add_connection], dict assignment) *)
Definition add_named {X} (same : X -> X -> bool) (acc : list X) (x : X) : list X :=
  if existsb (same x) acc then map (fun y => if same x y then x else y) acc else x :: acc.
(** [v < 0.0] *)
Definition v_lt0 (v : value) : res bool :=
  match v with XInt a => Ok (a <? 0)%Z | XReal ng m _ => Ok (ng && negb (m =? 0)%Z) | _ => Raise TypeError end.
(** [int(ceil(v / float(k)))] as a loop count; for a float [v] the division is exact when
    [k] is a power of two (the only case modelled) *)
Definition ceil_div (v : value) (k : nat) : res nat :=
  let kz := Z.of_nat k in
  match v with
  | XInt a => Ok (nlines_z kz a)
  | XReal ng m e =>
      let sh := Z.log2 kz in
      if negb (kz =? 2 ^ sh)%Z then Raise TypeError else
      let e' := (e - sh)%Z in
      if ng then Ok O
      else Ok (Z.to_nat (if (0 <=? e')%Z then m * 2 ^ e' else (m + 2 ^ (- e') - 1) / 2 ^ (- e'))%Z)
  | _ => Raise TypeError
  end.

Section WithTable.
Variable T : table.
Definition sp (k : string) := specs_of T k.
Definition nm (k : string) := names_of T k.

(** ** TITLE, SIMUL, START, NOVER *)
Definition write_title (d : t2d) : file := [strip (title d) +++ [nl]].
Definition read_title (d : t2d) (ls : file) : t2d * file :=
  let (l, r) := readline ls in
  (match vnth (pline T "title" l) 0 with XStr s => set_title d s | _ => d end, r).
Definition write_simulator (d : t2d) : res file :=
  Ok (match simulator d with [] => [] | s => [kw "SIMUL"; strip s +++ [nl]] end).
Definition read_simulator (d : t2d) (ls : file) : res (t2d * file) :=
  let (l, r) := readline ls in
  Ok (match vnth (pline T "simulator" l) 0 with XStr s => set_simulator d s | _ => d end, r).
Definition write_start (d : t2d) : res file := Ok (if start d then [kw "START"] else []).
Definition write_noversion (d : t2d) : res file := Ok (if noversion d then [kw "NOVER"] else []).

(** ** ROCKS *)
Definition rock_default_extra : dict :=
  [("compressibility", zero_real); ("expansivity", zero_real); ("dry_conductivity", zero_real); ("tortuosity", zero_real)].
Definition write_rock (r : rock) : res file :=
  do l1 <- wline T "rocks1" ([XStr (r_name r); r_nad r; r_density r; r_porosity r] +++ r_perm r +++ [r_cond r; r_spec r]);
  match r_nad r with
  | XNone => Ok [l1]
  | nad =>
      do ge1 <- v_ge nad 1;
      if negb ge1 then Ok [l1] else
      do l2 <- wline T "rocks1.1" (dict_vals (r_extra r) (nm "rocks1.1"));
      do ge2 <- v_ge nad 2;
      if negb ge2 then Ok [l1; l2] else
      match r_rp r with
      | None => Raise KeyError
      | Some (t1, p1) =>
          do l3 <- wline T "rocks1.2" ([t1; XNone] +++ p1);
          match r_cap r with
          | None => Raise KeyError
          | Some (t2, p2) => do l4 <- wline T "rocks1.2" ([t2; XNone] +++ p2); Ok [l1; l2; l3; l4]
          end
      end
  end.
Definition write_rocks (d : t2d) : res file :=
  do recs <- write_list write_rock (rocks d); Ok (kw "ROCKS" :: concat recs +++ [[nl]]).
Definition same_rock (a b : rock) : bool := str_eqb (r_name a) (r_name b).
Definition read_rock (acc : list rock) (line : str) (r : file) : res (list rock * file) :=
  let v := pline T "rocks1" line in
  let nad := vnth v 1 in
  let rt0 := mk_rock (sval (vnth v 0)) nad (vnth v 2) (vnth v 3) [vnth v 4; vnth v 5; vnth v 6] (vnth v 7) (vnth v 8)
                     rock_default_extra None None in
  let nadn := match nad with XNone => XInt 0 | x => x end in
  do ge1 <- v_ge nadn 1;
  if negb ge1 then Ok (add_named same_rock acc rt0, r) else
  let (l2, r2) := readline r in
  let ex := dict_update rock_default_extra (nm "rocks1.1") (pline T "rocks1.1" l2) in
  do ge2 <- v_ge nadn 2;
  if negb ge2 then Ok (add_named same_rock acc (mk_rock (r_name rt0) nad (r_density rt0) (r_porosity rt0) (r_perm rt0) (r_cond rt0) (r_spec rt0) ex None None), r2) else
  let (l3, r3) := readline r2 in
  let v3 := pline T "rocks1.2" l3 in
  let (l4, r4) := readline r3 in
  let v4 := pline T "rocks1.3" l4 in
  Ok (add_named same_rock acc (mk_rock (r_name rt0) nad (r_density rt0) (r_porosity rt0) (r_perm rt0) (r_cond rt0) (r_spec rt0) ex
                                       (Some (vnth v3 0, skipn 2 v3)) (Some (vnth v4 0, skipn 2 v4))), r4).
Definition read_rocks (d : t2d) (ls : file) : res (t2d * file) :=
  do ar <- loop (list rock) padstring blank read_rock (S (length ls)) [] ls;
  Ok (set_rocks d (rev (fst ar)), snd ar).

(** ** ELEME *)
Definition block_dict (b : block) : dict :=
  [("name", XStr (unfix_blockname (b_name b))); ("nseq", b_nseq b); ("nadd", b_nadd b); ("rocktype", XStr (b_rock b));
   ("volume", b_volume b); ("ahtx", b_ahtx b); ("pmx", b_pmx b)].
Definition write_block (b : block) : res file :=
  do l <- match b_centre b with
          | None => wline T "blocks" (dict_vals (block_dict b) (nm "blocks"))
          | Some c => wline T "blocks" ([XStr (unfix_blockname (b_name b)); b_nseq b; b_nadd b; XStr (b_rock b); b_volume b; b_ahtx b; b_pmx b] +++ c)
          end;
  Ok [l].
Definition write_blocks (d : t2d) : res file :=
  do recs <- write_list write_block (blocks d); Ok (kw "ELEME" :: concat recs +++ [[nl]]).
Definition same_block (a b : block) : bool := str_eqb (b_name a) (b_name b).
(** the rock type a block line names: by name, blank = the first one, else a 1-based index *)
Definition resolve_rock (rs : list rock) (rockname : str) : res str :=
  if existsb (fun r => str_eqb (r_name r) rockname) rs then Ok rockname
  else match rs with
       | r0 :: _ => if blank rockname then Ok (r_name r0) else
                    match py_int_opt rockname with
                    | Some z => match pyindex (z - 1)%Z rs with Some r => Ok (r_name r) | None => Raise PlainException end
                    | None => Raise PlainException
                    end
       | [] => Raise PlainException
       end.
Definition read_block (rs : list rock) (acc : list block) (line : str) (r : file) : res (list block * file) :=
  let v := pline T "blocks" line in
  do name <- fix_blockname (sval (vnth v 0));
  do rk <- resolve_rock rs (sval (vnth v 3));
  let centre := match vnth v 7, vnth v 8, vnth v 9 with
                | XNone, _, _ | _, XNone, _ | _, _, XNone => None
                | x, y, z => Some [x; y; z] end in
  Ok (add_named same_block acc (mk_block name (zero_none (vnth v 1)) (zero_none (vnth v 2)) rk (vnth v 4) (vnth v 5) (vnth v 6) centre), r).
Definition read_blocks (d : t2d) (ls : file) : res (t2d * file) :=
  do ar <- loop (list block) padstring blank (read_block (rocks d)) (S (length ls)) [] ls;
  Ok (set_blocks d (rev (fst ar)), snd ar).

(** ** CONNE *)
Definition write_conn (c : conn) : res file :=
  do l <- wline T "connections" ([XStr (unfix_blockname (c_b1 c)); XStr (unfix_blockname (c_b2 c)); c_nseq c; c_nad1 c; c_nad2 c; c_dir c]
                                   +++ c_dist c +++ [c_area c; c_dircos c; c_sigma c]);
  Ok [l].
Definition write_conns (d : t2d) : res file :=
  do recs <- write_list write_conn (conns d); Ok (kw "CONNE" :: concat recs +++ [[nl]]).
Definition same_conn (a b : conn) : bool := str_eqb (c_b1 a) (c_b1 b) && str_eqb (c_b2 a) (c_b2 b).
Definition has_block (bs : list block) (n : str) : bool := existsb (fun b => str_eqb (b_name b) n) bs.
Definition conn_stop (line : str) : bool := blank line || prefix (s2l "+++") line.
Definition read_conn (bs : list block) (acc : list conn) (line : str) (r : file) : res (list conn * file) :=
  let v := pline T "connections" line in
  do n1 <- fix_blockname (sval (vnth v 0));
  do n2 <- fix_blockname (sval (vnth v 1));
  if negb (has_block bs n1 && has_block bs n2) then Raise KeyError else
  Ok (add_named same_conn acc (mk_conn n1 n2 (zero_none (vnth v 2)) (zero_none (vnth v 3)) (zero_none (vnth v 4)) (vnth v 5)
                                       [vnth v 6; vnth v 7] (vnth v 8) (vnth v 9) (vnth v 10)), r).
Definition read_conns (d : t2d) (ls : file) : res (t2d * file) :=
  do ar <- loop (list conn) padstring conn_stop (read_conn (blocks d)) (S (length ls)) [] ls;
  Ok (set_conns d (rev (fst ar)), snd ar).

(** ** PARAM *)
Definition param_spec (d : t2d) : string := if autough2 d then "param1_autough2" else "param1".
Definition write_timesteps (p : params) : res file :=
  do neg <- v_lt0 (dgetv (p_dict p) "const_timestep");
  if neg then do z <- v_int (dgetv (p_dict p) "const_timestep");
              write_chunks (sp "timestep") (chunk_of "write_timesteps") (Z.to_nat (- z)) (p_timestep p)
  else Ok [].
Definition write_dincons (l : list value) : res file :=
  match l with
  | [] => Ok [[nl]]
  | _ => let k := chunk_of "write_parameters" in
         write_chunks (sp "default_incons") k (nlines_z (Z.of_nat k) (Z.of_nat (length l))) l
  end.
Definition write_param (d : t2d) : res file :=
  let p := param d in
  do pbw <- match dgetv (p_dict p) "print_block" with
            | XNone => Ok XNone | XStr s => Ok (XStr (unfix_blockname s)) | _ => Raise TypeError end;
  let paramw := dset (p_dict p) "print_block" pbw in
  let dict1 := dset (p_dict p) "_option_str" (XStr (concat (map z_to_str (p_option p)))) in
  do l1 <- wline T (param_spec d) (dict_vals dict1 (nm (param_spec d)));
  do l2 <- wline T "param2" (dict_vals paramw (nm "param2"));
  do ts <- write_timesteps p;
  do l3 <- wline T "param3" (dict_vals dict1 (nm "param3"));
  do di <- write_dincons (p_dincons p);
  Ok (kw "PARAM" :: l1 :: l2 :: ts +++ l3 :: di).
(** the look-ahead loop: more default-incons lines until a blank line or a keyword line *)
Fixpoint more_incons (keywords : list str) (fuel : nat) (acc : list value) (ls : file) : res (list value * option str * file) :=
  match fuel with
  | O => Raise OutOfFuel
  | S f => let (l, r) := readline ls in
           let line := padstring l in
           if blank line then Ok (acc, None, r)
           else if existsb (fun k => prefix k line) keywords then Ok (acc, Some line, r)
           else more_incons keywords f (acc +++ trim_nones (pline T "default_incons" line)) r
  end.
Definition digit_of (c : ascii) : res Z := match py_int_opt [c] with Some z => Ok z | None => Raise ValueError end.
Definition read_timesteps (dct : dict) (ls : file) : res (list value * file) :=
  let c := dgetv dct "const_timestep" in
  do neg <- v_lt0 c;
  if neg then do z <- v_int c; Ok (read_chunks (sp "timestep") (Z.to_nat (- z)) ls)
  else Ok ([c], ls).
(** a blank print_block is None; (repaired reader) a 5-character one goes through fix_blockname *)
Definition pb_fix (d2 : dict) : dict :=
  match dgetv d2 "print_block" with
  | XStr s => if blank s then dset d2 "print_block" XNone
              else if read_fixes_print_block && (length s =? 5)%nat then
                match fix_blockname s with Ok n => dset d2 "print_block" (XStr n) | Raise _ => d2 end
              else d2
  | _ => d2 end.
Definition read_param (keywords : list str) (d : t2d) (ls : file) : res (t2d * option str * file) :=
  let p := param d in
  let (l1, r1) := readline ls in
  let d1 := dict_update (p_dict p) (nm (param_spec d)) (pline T (param_spec d) l1) in
  do ostr <- match dgetv d1 "_option_str" with XStr s => Ok s | _ => Raise AttributeError end;
  do opts <- mapM digit_of (replace1 " "%char ["0"%char] (ljust 24 (rstrip ostr)));
  let (l2, r2) := readline r1 in
  let d2 := dict_update d1 (nm "param2") (pline T "param2" l2) in
  let d2' := pb_fix d2 in
  do tr <- read_timesteps d2' r2;
  let (l3, r4) := readline (snd tr) in
  let d3 := dict_update d2' (nm "param3") (pline T "param3" l3) in
  let (l4, r5) := readline r4 in
  let di0 := trim_nones (p_dincons p +++ pline T "default_incons" l4) in
  do m <- more_incons keywords (S (length r5)) di0 r5;
  let '(di, look, r6) := m in
  Ok (set_param d (mk_params d3 opts (fst tr) di), look, r6).

(** ** MOMOP, MULTI, RPCAP, LINEQ, SOLVR *)
Definition write_momop (d : t2d) : res file :=
  do l <- wline T "_more_option_str" [XStr (concat (map z_to_str (momop d)))];
  Ok [kw "MOMOP"; l].
Definition read_momop (d : t2d) (ls : file) : res (t2d * file) :=
  let (l, r) := readline ls in
  match vnth (pline T "_more_option_str" l) 0 with
  | XStr s => do opts <- mapM digit_of (replace1 " "%char ["0"%char] (ljust 21 (rstrip s))); Ok (set_momop d opts, r)
  | _ => Raise AttributeError
  end.
Definition multi_spec (d : t2d) : string := if autough2 d then "multi_autough2" else "multi".
Definition write_multi (d : t2d) : res file :=
  match multi d with
  | [] => Ok []
  | m => do l <- wline T (multi_spec d) (dict_vals m (nm (multi_spec d))); Ok [kw "MULTI"; l]
  end.
Definition read_multi (d : t2d) (ls : file) : res (t2d * file) :=
  let (l, r) := readline ls in
  let m := dict_update (multi d) (nm (multi_spec d)) (pline T (multi_spec d) l) in
  do m' <- match dget m "eos" with
           | Some (XStr s) => Ok (dset m "eos" (XStr (strip s)))
           | Some _ => Raise AttributeError
           | None => Ok m end;
  Ok (set_multi d m', r).
Definition write_rpcap (d : t2d) : res file :=
  match relperm d with
  | None => Ok []
  | Some (t1, p1) =>
      do l1 <- wline T "relative_permeability" ([t1; XNone] +++ p1);
      match capil d with
      | None => Raise KeyError
      | Some (t2, p2) => do l2 <- wline T "capillarity" ([t2; XNone] +++ p2); Ok [kw "RPCAP"; l1; l2]
      end
  end.
Definition read_rpcap (d : t2d) (ls : file) : res (t2d * file) :=
  let (l1, r1) := readline ls in
  let v1 := pline T "relative_permeability" l1 in
  let (l2, r2) := readline r1 in
  let v2 := pline T "capillarity" l2 in
  Ok (set_capil (set_relperm d (Some (vnth v1 0, skipn 2 v1))) (Some (vnth v2 0, skipn 2 v2)), r2).
Definition write_dictsec (key : string) (lt : string) (dct : dict) : res file :=
  match dct with
  | [] => Ok []
  | _ => do l <- wline T lt (dict_vals dct (nm lt)); Ok [kw key; l]
  end.
Definition write_lineq (d : t2d) : res file := write_dictsec "LINEQ" "lineq" (lineq d).
Definition write_solver (d : t2d) : res file := write_dictsec "SOLVR" "solver" (solver d).
Definition read_lineq (d : t2d) (ls : file) : res (t2d * file) :=
  let (l, r) := readline ls in Ok (set_lineq d (dict_update (lineq d) (nm "lineq") (pline T "lineq" l)), r).
Definition read_solver (d : t2d) (ls : file) : res (t2d * file) :=
  let (l, r) := readline ls in Ok (set_solver d (dict_update (solver d) (nm "solver") (pline T "solver" l)), r).

(** ** TIMES *)
Definition write_times (d : t2d) : res file :=
  match otimes d with
  | None => Ok []
  | Some (dt, tl) =>
      do l1 <- wline T "output_times1" (dict_vals dt (nm "output_times1"));
      do n <- ceil_div (dgetv dt "num_times_specified") (chunk_of "write_times");
      do ch <- write_chunks (sp "output_times2") (chunk_of "write_times") n tl;
      Ok (kw "TIMES" :: l1 :: ch)
  end.
Definition read_times (d : t2d) (ls : file) : res (t2d * file) :=
  let (l1, r1) := readline ls in
  let dt0 := match otimes d with Some (x, _) => x | None => [] end in
  let dt := dict_update dt0 (nm "output_times1") (pline T "output_times1" l1) in
  do n <- match dget dt "num_times_specified" with Some v => ceil_div v (chunk_of "read_times") | None => Raise KeyError end;
  let (tl, r2) := read_chunks (sp "output_times2") n r1 in
  Ok (set_otimes d (Some (dt, tl)), r2).

(** ** GENER *)
Definition gen_dict (g : gen) : dict :=
  [("name", XStr (unfix_blockname (g_name g))); ("block", XStr (unfix_blockname (g_block g)));
   ("nseq", g_nseq g); ("nadd", g_nadd g); ("nads", g_nads g); ("type", XStr (g_type g)); ("ltab", g_ltab g);
   ("itab", XStr (g_itab g)); ("gx", g_gx g); ("ex", g_ex g); ("hg", g_hg g); ("fg", g_fg g)].
(** [abs(ltab) if ltab and type != 'DELV' else 1] *)
Definition gen_ntimes (ltab : value) (gtype : str) : res Z :=
  if v_truthy ltab && negb (str_eqb gtype (s2l "DELV")) then
    match ltab with XInt z => Ok (Z.abs z) | _ => Raise TypeError end
  else Ok 1%Z.
Definition write_gen (g : gen) : res file :=
  do l1 <- wline T "generator" (dict_vals (gen_dict g) (nm "generator"));
  do nt <- gen_ntimes (g_ltab g) (g_type g);
  if (1 <? nt)%Z then
    let c := chunk_of "write_generator" in
    let n := nlines_z (Z.of_nat c) nt in
    let k := Z.to_nat nt in
    do t <- write_chunks (sp "generation_times") c n (firstn k (g_time g));
    do r <- write_chunks (sp "generation_rates") c n (firstn k (g_rate g));
    do e <- match g_enth g with [] => Ok [] | en => write_chunks (sp "generation_enthalpy") c n (firstn k en) end;
    Ok (l1 :: t +++ r +++ e)
  else Ok [l1].
Definition write_gens (d : t2d) : res file :=
  match gens d with
  | [] => Ok []
  | gs => do recs <- write_list write_gen gs; Ok (kw "GENER" :: concat recs +++ [[nl]])
  end.
Definition read_gen (acc : list gen) (line : str) (r : file) : res (list gen * file) :=
  let v := pline T "generator" line in
  do block <- fix_blockname (sval (vnth v 0));
  do name <- fix_blockname (sval (vnth v 1));
  let ltab := vnth v 5 in
  let gtype := sval (vnth v 7) in
  let itab := sval (vnth v 8) in
  do nt <- gen_ntimes ltab gtype;
  let mk t ra en := mk_gen block name (vnth v 2) (vnth v 3) (vnth v 4) ltab gtype itab (vnth v 9) (vnth v 10) (vnth v 11) (vnth v 12) t ra en in
  if (1 <? nt)%Z then
    let n := nlines_z (Z.of_nat (chunk_of "read_generator")) nt in
    let (t, r1) := read_chunks (sp "generation_times") n r in
    let (ra, r2) := read_chunks (sp "generation_rates") n r1 in
    if blank itab then Ok (mk t ra [] :: acc, r2)
    else let (en, r3) := read_chunks (sp "generation_enthalpy") n r2 in Ok (mk t ra en :: acc, r3)
  else Ok (mk [] [] [] :: acc, r).
Definition read_gens (d : t2d) (ls : file) : res (t2d * file) :=
  do ar <- loop (list gen) (fun l => l) blank read_gen (S (length ls)) [] ls;
  Ok (set_gens d (rev (fst ar)), snd ar).

(** ** INCON *)
Fixpoint alookup {X} (k : str) (l : list (str * X)) : option X :=
  match l with [] => None | (k', x) :: r => if str_eqb k k' then Some x else alookup k r end.
Definition write_incon1 (name : str) (i : inc) : res file :=
  let nseq := match i_seq i with Some (a, _) => a | None => XNone end in
  let nadd := match i_seq i with Some (_, b) => b | None => XNone end in
  do l1 <- wline T "incon1" [XStr (unfix_blockname name); nseq; nadd; i_por i];
  do l2 <- wline T "incon2" (i_vars i);
  Ok [l1; l2].
(** the incons written: in block order, incons of unknown blocks skipped *)
Definition incon_items (d : t2d) : list (str * inc) :=
  flat_map (fun b => match alookup (b_name b) (incon d) with Some i => [(b_name b, i)] | None => [] end) (blocks d).
Definition write_incons (d : t2d) : res file :=
  match incon d with
  | [] => Ok []
  | _ => do recs <- write_list (fun ni => write_incon1 (fst ni) (snd ni)) (incon_items d);
         Ok (kw "INCON" :: concat recs +++ [[nl]])
  end.
Definition same_key {X} (a b : str * X) : bool := str_eqb (fst a) (fst b).
Definition read_incon1 (acc : list (str * inc)) (line : str) (r : file) : res (list (str * inc) * file) :=
  let v := pline T "incon1" line in
  do name <- fix_blockname (sval (vnth v 0));
  let (l2, r2) := readline r in
  let vars := trim_nones (pline T "incon2" l2) in
  let nseq := zero_none (vnth v 1) in
  let nadd := zero_none (vnth v 2) in
  let i := mk_inc (vnth v 3) vars (match nseq with XNone => None | _ => Some (nseq, nadd) end) in
  Ok (add_named same_key acc (name, i), r2).
Definition read_incons (d : t2d) (ls : file) : res (t2d * file) :=
  do ar <- loop (list (str * inc)) (fun l => l) blank read_incon1 (S (length ls)) (rev (incon d)) ls;
  Ok (set_incon d (rev (fst ar)), snd ar).

End WithTable.
