(** C01 -- SHORT: the header line with its optional frequency, then the ELEME / CONNE / GENER
    sub-lists (each optional, each ended by the next sub-keyword or the blank line), items
    looked up in the grid / generator list while reading. *)
From Coq Require Import Ascii String List Bool Arith ZArith NArith Lia.
From PTBase Require Import Exn PyStr PyNum PyVal Fmt FixedFormat.
From Gen Require Import GenSections.
From P Require Import Comb Obj Fields Sections SectionsB Rec SecRocks SecMesh SecGener SecMisc SecHist.
Import ListNotations.
Open Scope string_scope.

(** ** the sub-list reader: items until a blank line or a sub-keyword line, which it returns *)
Lemma short_items_roundtrip {X} (item : str -> res (option X)) (enc : X -> str) (term : str) (rest : file) :
  blank term = true \/ is_short_kw term = true ->
  forall xs acc fuel,
  (forall x, In x xs -> blank (enc x) = false /\ is_short_kw (enc x) = false /\ item (enc x) = Ok (Some x)) ->
  (length xs < fuel)%nat ->
  short_items item fuel acc (map enc xs ++ term :: rest)%list = Ok ((rev acc ++ xs)%list, term, rest).
Proof.
  intros TM. induction xs as [|x xs IH]; intros acc fuel H F.
  - destruct fuel; [lia|]. cbn [map app short_items readline]. rewrite app_nil_r.
    destruct (blank term) eqn:B; [reflexivity|]. destruct TM as [TM|TM]; [discriminate|]. rewrite TM. reflexivity.
  - destruct fuel; [cbn in F; lia|]. cbn [map app short_items readline].
    destruct (H x (or_introl eq_refl)) as [B [K I]]. rewrite B, K, I. cbn [bind].
    rewrite (IH (x :: acc) fuel); [cbn [rev]; rewrite <- app_assoc; reflexivity| |cbn in F; lia].
    intros y Iy. apply H. right. exact Iy.
Qed.

(** an item line must not look like a sub-keyword line *)
Definition sname_ok (n : str) : bool := hname_ok n && negb (is_short_kw (name_line n)).
Definition spair_ok (p : str * str) : bool := hpair_ok p && negb (is_short_kw (pair_line p)).

Lemma block_item_ok d0 n : sname_ok n = true -> has_block (blocks d0) n = true ->
  blank (name_line n) = false /\ is_short_kw (name_line n) = false /\ short_block_item d0 (name_line n) = Ok (Some n).
Proof.
  intros H K. unfold sname_ok in H. apply andb_prop in H as [H NK]. apply negb_true_iff in NK.
  unfold hname_ok in H. apply andb_prop in H as [H H3]. apply andb_prop in H as [H1 H2].
  apply Nat.eqb_eq in H1. apply negb_true_iff in H2.
  split; [unfold name_line; rewrite blank_app, H2; reflexivity|]. split; [exact NK|].
  unfold short_block_item, name_line. rewrite slice_head5 by exact H1. rewrite (name_ok_fix _ H3). cbn [bind]. rewrite K. reflexivity.
Qed.
Lemma pair_item_ok keep p : spair_ok p = true -> keep p = true ->
  blank (pair_line p) = false /\ is_short_kw (pair_line p) = false /\ short_pair_item keep (pair_line p) = Ok (Some p).
Proof.
  intros H K. unfold spair_ok in H. apply andb_prop in H as [H NK]. apply negb_true_iff in NK.
  destruct p as [a b]. unfold hpair_ok in H. cbn [fst snd] in H. apply andb_prop in H as [Ha Hb].
  unfold hname_ok in Ha, Hb. apply andb_prop in Ha as [Ha A3]. apply andb_prop in Ha as [A1 A2].
  apply andb_prop in Hb as [Hb B3]. apply andb_prop in Hb as [B1 B2].
  apply Nat.eqb_eq in A1. apply Nat.eqb_eq in B1. apply negb_true_iff in A2.
  split; [unfold pair_line; cbn [fst snd]; rewrite blank_app, A2; reflexivity|]. split; [exact NK|].
  unfold short_pair_item, pair_line. cbn [fst snd]. rewrite slice_head5 by exact A1. rewrite slice_second5 by assumption.
  rewrite (name_ok_fix _ A3), (name_ok_fix _ B3). cbn [bind]. rewrite K. reflexivity.
Qed.

(** ** the three optional sub-lists and the closing blank line *)
Definition gen_part (s : shortrec) : file := match sh_gen s with Some l => kw "GENER" :: map pair_line l | None => [] end.
Definition conn_part (s : shortrec) : file := match sh_conn s with Some l => kw "CONNE" :: map pair_line l | None => [] end.
Definition block_part (s : shortrec) : file := match sh_block s with Some l => kw "ELEME" :: map name_line l | None => [] end.
Definition wf_short_lists (d0 : t2d) (s : shortrec) : bool :=
  match sh_block s with Some l => forallb sname_ok l && forallb (has_block (blocks d0)) l | None => true end &&
  match sh_conn s with Some l => forallb spair_ok l && forallb (has_conn (conns d0)) l | None => true end &&
  match sh_gen s with Some l => forallb spair_ok l && forallb (has_gen (gens d0)) l | None => true end.

Lemma is_short_kw_kw k : In k ["ELEME"; "CONNE"; "GENER"] -> is_short_kw (kw k) = true /\ blank (kw k) = false.
Proof. cbn [In]. intros [H|[H|[H|H]]]; try contradiction; subst k; split; reflexivity. Qed.

(** from any state of the loop whose remaining sub-lists are those of [s] *)
Lemma short_loop_gen d0 s acc rest fuel : wf_short_lists d0 s = true -> (length (gen_part s) < fuel)%nat ->
  forall l0 t, (gen_part s ++ [[nl]])%list = l0 :: t ->
  short_loop d0 fuel (mk_short (sh_freq acc) (sh_block acc) (sh_conn acc) None) l0 (t ++ rest)%list
  = Ok (mk_short (sh_freq acc) (sh_block acc) (sh_conn acc) (sh_gen s), rest).
Proof.
  intros WF F l0 t E. unfold gen_part in *. destruct (sh_gen s) as [l|] eqn:G.
  - cbn [app] in E. inversion E; subst l0 t. clear E.
    destruct fuel as [|fuel]; [lia|]. cbn [short_loop]. change (blank (kw "GENER")) with false. cbv iota.
    change (str_eqb (slice 0 5 (kw "GENER")) (s2l "ELEME")) with false.
    change (str_eqb (slice 0 5 (kw "GENER")) (s2l "CONNE")) with false.
    change (str_eqb (slice 0 5 (kw "GENER")) (s2l "GENER")) with true. cbv iota.
    unfold wf_short_lists in WF. rewrite G in WF. apply andb_prop in WF as [_ WG]. apply andb_prop in WG as [W1 W2].
    rewrite <- app_assoc. cbn [app].
    rewrite (short_items_roundtrip (short_pair_item (has_gen (gens d0))) pair_line [nl] rest (or_introl eq_refl) l []).
    + cbn [bind rev app sh_freq sh_block sh_conn sh_gen]. destruct fuel as [|fuel]; [cbn in F; lia|]. cbn [short_loop]. reflexivity.
    + intros x Ix. rewrite forallb_forall in W1, W2. apply pair_item_ok; auto.
    + rewrite app_length, map_length. cbn [length]. lia.
  - cbn [app] in E. inversion E; subst l0 t. destruct fuel as [|fuel]; [lia|]. cbn [short_loop app]. reflexivity.
Qed.
Lemma short_loop_conn d0 s acc rest fuel : wf_short_lists d0 s = true ->
  (length (conn_part s) + length (gen_part s) < fuel)%nat ->
  forall l0 t, (conn_part s ++ gen_part s ++ [[nl]])%list = l0 :: t ->
  short_loop d0 fuel (mk_short (sh_freq acc) (sh_block acc) None None) l0 (t ++ rest)%list
  = Ok (mk_short (sh_freq acc) (sh_block acc) (sh_conn s) (sh_gen s), rest).
Proof.
  intros WF F l0 t E. unfold conn_part in *. destruct (sh_conn s) as [l|] eqn:C.
  - cbn [app] in E. inversion E; subst l0 t. clear E.
    destruct fuel as [|fuel]; [lia|]. cbn [short_loop]. change (blank (kw "CONNE")) with false. cbv iota.
    change (str_eqb (slice 0 5 (kw "CONNE")) (s2l "ELEME")) with false.
    change (str_eqb (slice 0 5 (kw "CONNE")) (s2l "CONNE")) with true. cbv iota.
    assert (WF' := WF). unfold wf_short_lists in WF. rewrite C in WF. apply andb_prop in WF as [WF _]. apply andb_prop in WF as [_ WC]. apply andb_prop in WC as [W1 W2].
    destruct (gen_part s ++ [[nl]])%list as [|g0 gt] eqn:GE; [destruct (gen_part s); discriminate|].
    assert (TG : blank g0 = true \/ is_short_kw g0 = true).
    { unfold gen_part in GE. destruct (sh_gen s); cbn [app] in GE; inversion GE; subst; [right|left]; reflexivity. }
    rewrite <- app_assoc. cbn [app].
    rewrite (short_items_roundtrip (short_pair_item (has_conn (conns d0))) pair_line g0 (gt ++ rest)%list TG l []).
    + cbn [bind rev app].
      apply (short_loop_gen d0 s (mk_short (sh_freq acc) (sh_block acc) (Some l) None) rest fuel WF'); [|exact GE].
      cbn [length] in F. rewrite map_length in F. lia.
    + intros x Ix. rewrite forallb_forall in W1, W2. apply pair_item_ok; auto.
    + rewrite !app_length, map_length. cbn [length]. lia.
  - cbn [app] in E.
    apply (short_loop_gen d0 s (mk_short (sh_freq acc) (sh_block acc) None None) rest fuel WF); [cbn [length] in F; lia|exact E].
Qed.
Lemma short_loop_block d0 s acc rest fuel : wf_short_lists d0 s = true ->
  (length (block_part s) + length (conn_part s) + length (gen_part s) < fuel)%nat ->
  forall l0 t, (block_part s ++ conn_part s ++ gen_part s ++ [[nl]])%list = l0 :: t ->
  short_loop d0 fuel (mk_short (sh_freq acc) None None None) l0 (t ++ rest)%list
  = Ok (mk_short (sh_freq acc) (sh_block s) (sh_conn s) (sh_gen s), rest).
Proof.
  intros WF F l0 t E. unfold block_part in *. destruct (sh_block s) as [l|] eqn:B.
  - cbn [app] in E. inversion E; subst l0 t. clear E.
    destruct fuel as [|fuel]; [lia|]. cbn [short_loop]. change (blank (kw "ELEME")) with false. cbv iota.
    change (str_eqb (slice 0 5 (kw "ELEME")) (s2l "ELEME")) with true. cbv iota.
    assert (WF' := WF). unfold wf_short_lists in WF. rewrite B in WF. apply andb_prop in WF as [WF _]. apply andb_prop in WF as [WB _]. apply andb_prop in WB as [W1 W2].
    destruct (conn_part s ++ gen_part s ++ [[nl]])%list as [|g0 gt] eqn:GE; [destruct (conn_part s); [destruct (gen_part s)|]; discriminate|].
    assert (TG : blank g0 = true \/ is_short_kw g0 = true).
    { unfold conn_part, gen_part in GE. destruct (sh_conn s); cbn [app] in GE; [inversion GE; subst; right; reflexivity|].
      destruct (sh_gen s); cbn [app] in GE; inversion GE; subst; [right|left]; reflexivity. }
    rewrite <- app_assoc. cbn [app].
    rewrite (short_items_roundtrip (short_block_item d0) name_line g0 (gt ++ rest)%list TG l []).
    + cbn [bind rev app].
      apply (short_loop_conn d0 s (mk_short (sh_freq acc) (Some l) None None) rest fuel WF'); [|exact GE].
      cbn [length] in F. rewrite map_length in F. lia.
    + intros x Ix. rewrite forallb_forall in W1, W2. apply block_item_ok; auto.
    + rewrite !app_length, map_length. cbn [length]. lia.
  - cbn [app] in E.
    apply (short_loop_conn d0 s (mk_short (sh_freq acc) None None None) rest fuel WF); [cbn [length] in F; lia|exact E].
Qed.

Section WithTable.
Variable T : table.
Notation sp := (sp T).

(** ** the header line: SHORT, then the frequency in two columns if it is given and not zero *)
Definition short_table_ok : bool :=
  match sp "short" with
  | [f0; f1] => fty_eqb (ft f0) Tx && fty_eqb (ft f1) Td && (width f0 =? 5)%nat && (width f1 =? 2)%nat
  | _ => false end.
Definition freq_text (s : shortrec) : res str :=
  match sh_freq s with
  | Some v => if v_truthy v then match v with XInt z => Ok (fmt_int 2 z) | _ => Raise TypeError end else Ok []
  | None => Ok [] end.
Definition freq_back (s : shortrec) : value :=
  match sh_freq s with Some (XInt z) => if (z =? 0)%Z then XNone else XInt z | _ => XNone end.
Definition wf_freq (s : shortrec) : bool :=
  match sh_freq s with
  | Some (XInt z) => (z =? 0)%Z || (length (z_to_str z) <=? 2)%nat
  | Some XNone | None => true
  | Some _ => false end.
Definition header_of (f : str) : str := (s2l "SHORT" ++ f ++ [nl])%list.

Lemma short_header s f line : short_table_ok = true -> wf_freq s = true -> freq_text s = Ok f ->
  line = header_of f \/ line = padstring (header_of f) ->
  vnth (pline T "short" line) 1 = freq_back s.
Proof.
  intros TOK WF FT LN. unfold short_table_ok in TOK.
  destruct (sp "short") as [|f0 [|f1 [|f2 fs]]] eqn:S; try discriminate.
  apply andb_prop in TOK as [TOK W1]. apply andb_prop in TOK as [TOK W0]. apply andb_prop in TOK as [T0 T1].
  apply fty_eqb_eq in T0. apply fty_eqb_eq in T1. apply Nat.eqb_eq in W0. apply Nat.eqb_eq in W1.
  assert (SL : forall tail, vnth (pline T "short" (s2l "SHORT" ++ tail)%list) 1 = rv2v (default_rf Td (slice 0 2 tail))).
  { intro tail. unfold pline, parse, parse_string, field_slices. fold (sp "short"). rewrite S.
    cbn [map line_spec combine fst snd vnth nth]. rewrite W0, W1, T1. cbn [Nat.add].
    change 5%nat with (length (s2l "SHORT") + 0)%nat at 1. change 7%nat with (length (s2l "SHORT") + 2)%nat.
    rewrite slice_app_skip. reflexivity. }
  assert (PD : forall f', padstring (header_of f') = (s2l "SHORT" ++ (f' ++ [nl]) ++ spaces (80 - length (header_of f')))%list).
  { intro f'. unfold padstring, ljust, header_of. rewrite <- !app_assoc. reflexivity. }
  unfold freq_text, freq_back, wf_freq in *. destruct (sh_freq s) as [v|].
  - destruct v as [x|z| |]; try discriminate.
    + cbn [v_truthy] in FT. destruct (z =? 0)%Z eqn:Z0; cbn [negb] in FT.
      * inv_ok FT. destruct LN as [LN|LN]; subst line; [unfold header_of|rewrite PD]; rewrite SL; reflexivity.
      * inv_ok FT. cbn [orb] in WF. apply Nat.leb_le in WF.
        assert (FL : fmt_int 2 z = (spaces (2 - length (z_to_str z)) ++ z_to_str z)%list) by reflexivity.
        assert (L2 : length (fmt_int 2 z) = 2%nat) by (rewrite FL, app_length, spaces_length; lia).
        assert (SLICE : forall tail, slice 0 2 (fmt_int 2 z ++ tail)%list = fmt_int 2 z).
        { intro tail. unfold slice. cbn [skipn]. rewrite <- L2 at 1. rewrite Nat.sub_0_r, firstn_app, firstn_all, Nat.sub_diag. cbn [firstn]. apply app_nil_r. }
        destruct LN as [LN|LN]; subst line; [unfold header_of|rewrite PD; rewrite <- app_assoc]; rewrite SL, SLICE;
          unfold default_rf; rewrite FL, py_int_printed; reflexivity.
    + cbn [v_truthy] in FT. inv_ok FT. destruct LN as [LN|LN]; subst line; [unfold header_of|rewrite PD]; rewrite SL; reflexivity.
  - inv_ok FT. destruct LN as [LN|LN]; subst line; [unfold header_of|rewrite PD]; rewrite SL; reflexivity.
Qed.

Definition canon_short (s : shortrec) : shortrec := mk_short (Some (freq_back s)) (sh_block s) (sh_conn s) (sh_gen s).
Definition wf_short (d0 : t2d) (s : shortrec) : bool := wf_freq s && wf_short_lists d0 s.

Theorem short_roundtrip d s lines : short_table_ok = true -> short d = Some s -> write_short d = Ok lines ->
  forall d0, short d0 = None -> wf_short d0 s = true ->
  exists f body, lines = header_of f :: body /\
    forall line rest, line = header_of f \/ line = padstring (header_of f) ->
    read_short T d0 line (body ++ rest)%list = Ok (set_short d0 (Some (canon_short s)), rest).
Proof.
  intros TOK SD W d0 S0 WF. unfold wf_short in WF. apply andb_prop in WF as [WFQ WFL].
  unfold write_short in W. rewrite SD in W. fold (freq_text s) in W.
  destruct (freq_text s) as [f|] eqn:FT; cbn [bind] in W; [|discriminate]. inv_ok W.
  fold (block_part s) (conn_part s) (gen_part s). fold (header_of f).
  exists f, (block_part s ++ conn_part s ++ gen_part s ++ [[nl]])%list. split; [reflexivity|].
  intros line rest LN. unfold read_short. rewrite S0. cbn [sh_block sh_conn sh_gen].
  rewrite (short_header s f line TOK WFQ FT LN).
  destruct (block_part s ++ conn_part s ++ gen_part s ++ [[nl]])%list as [|l0 t] eqn:E.
  { destruct (block_part s); [destruct (conn_part s); [destruct (gen_part s)|]|]; discriminate. }
  cbn [app readline].
  pose proof (short_loop_block d0 s (mk_short (Some (freq_back s)) None None None) rest
                (S (length (l0 :: t ++ rest)%list)) WFL) as L.
  cbn [sh_freq] in L. rewrite L with (l0 := l0) (t := t).
  - reflexivity.
  - assert (LE : length (l0 :: t) = (length (block_part s) + length (conn_part s) + length (gen_part s) + 1)%nat).
    { rewrite <- E. rewrite !app_length. cbn [length]. lia. }
    cbn [length] in *. rewrite app_length. lia.
  - exact E.
Qed.

End WithTable.
