(* copied from coq/C02/ReadBack.v (x-C02) for the real-field stability proof of C01 *)
(** C02 -- what CPython's [int()] / [float()] (PyNum.py_int_opt / py_float_opt) return on
    the text that Python's [%wd], [%w.pe], [%w.pf] formatting (Fmt.fmt_int / fmt_e / fmt_f)
    produces: the integer itself, and the printed decimal (mantissa digits, exponent) of a
    real.  Purely about strings: for every width, precision >= 0, sign, mantissa, exponent. *)
From Coq Require Import Ascii String List Bool Arith ZArith NArith Lia.
From PTBase Require Import Exn PyStr PyNum PyVal Fmt FixedFormat.
From PTModel Require Import Fortran FortranNF FortranRender.
From P Require Import RbDigits.
Import ListNotations.
Open Scope char_scope.
Open Scope Z_scope.

(** ** padding is invisible to int() and float() *)
Definition nocsp (s : str) : bool := forallb (fun c => negb (is_cspace c)) s.

Lemma spaces_cspace n : forallb is_cspace (spaces n) = true.
Proof. induction n as [|n IH]; [reflexivity|]. exact IH. Qed.
Lemma pad_form w s : exists a b, pad w s = (spaces a ++ s ++ spaces b)%list.
Proof.
  unfold pad. destruct (w <? 0).
  - exists 0%nat, (Z.to_nat (- w) - length s)%nat. reflexivity.
  - exists (Z.to_nat w - length s)%nat, 0%nat. unfold rjust. cbn [spaces repeat]. rewrite app_nil_r. reflexivity.
Qed.
Lemma cstrip_pad w s : nocsp s = true -> cstrip (pad w s) = s.
Proof.
  intro H. destruct (pad_form w s) as (a & b & ->). unfold cstrip.
  apply strip_by_wrap; [apply spaces_cspace|apply spaces_cspace|exact H].
Qed.
Lemma cstrip_id s : nocsp s = true -> cstrip s = s.
Proof. intro H. unfold cstrip. apply strip_by_nochar. exact H. Qed.
Lemma py_float_opt_pad w s : nocsp s = true -> py_float_opt (pad w s) = py_float_opt s.
Proof. intro H. unfold py_float_opt. rewrite cstrip_pad, cstrip_id by exact H. reflexivity. Qed.
Lemma py_int_opt_pad w s : nocsp s = true -> py_int_opt (pad w s) = py_int_opt s.
Proof. intro H. unfold py_int_opt. rewrite cstrip_pad, cstrip_id by exact H. reflexivity. Qed.

(** characters of printed numbers *)
Definition numch (c : ascii) : bool := is_digit c || ceqb c "." || ceqb c "e" || ceqb c "+" || ceqb c "-".
Lemma numch_nocsp c : numch c = true -> negb (is_cspace c) = true.
Proof. brute c. Qed.
Lemma digit_numch c : is_digit c = true -> numch c = true.
Proof. unfold numch. intros ->. reflexivity. Qed.
Lemma numchs_nocsp s : forallb numch s = true -> nocsp s = true.
Proof. apply forallb_impl. exact numch_nocsp. Qed.
Lemma digits_numchs s : all_digits s = true -> forallb numch s = true.
Proof. apply forallb_impl. exact digit_numch. Qed.
Lemma sgstr_numchs sg : forallb numch (sgstr sg) = true.
Proof. destruct sg as [[|]|]; reflexivity. Qed.

(** ** integers *)
Lemma int_body_digits ng ds : ds <> [] -> all_digits ds = true -> int_body ng ds = Some (signed ng (dvalue 0 ds)).
Proof.
  intros NE A. unfold int_body. rewrite <- (app_nil_r ds) at 1.
  rewrite digitpart_digits by (try assumption; reflexivity). reflexivity.
Qed.
Lemma digits_head ds : ds <> [] -> all_digits ds = true -> exists c r, ds = c :: r /\ is_digit c = true.
Proof. intros NE A. destruct ds as [|c r]; [congruence|]. cbn in A. apply andb_prop in A as [D _]. eauto. Qed.
Lemma sign_digits ds : ds <> [] -> all_digits ds = true -> sign ds = (false, ds).
Proof.
  intros NE A. destruct (digits_head ds NE A) as (c & r & -> & D).
  destruct (digit_facts c D) as (M & P & _). cbn [sign]. rewrite M, P. reflexivity.
Qed.

(** [int('%wd' % z) = z] for every width and every integer *)
Theorem py_int_fmt_int w z : py_int_opt (fmt_int w z) = Some z.
Proof.
  unfold fmt_int. pose proof (all_digits_n_to_str (Z.abs_N z)) as A. pose proof (n_to_str_nonnil (Z.abs_N z)) as NE.
  assert (C : nocsp (z_to_str z) = true).
  { apply numchs_nocsp. rewrite z_to_str_split, forallb_app, (digits_numchs _ A). destruct (z <? 0); reflexivity. }
  rewrite py_int_opt_pad by exact C. unfold py_int_opt. rewrite cstrip_id by exact C.
  rewrite z_to_str_split. destruct (z <? 0) eqn:E.
  - cbn [app sign]. change (ceqb "-" "-") with true. cbv iota. cbn [fst snd].
    rewrite int_body_digits by assumption. rewrite dvalue_n_to_str. unfold signed. f_equal.
    apply Z.ltb_lt in E. rewrite N2Z.inj_abs_N. lia.
  - cbn [app]. rewrite sign_digits by assumption. cbn [fst snd].
    rewrite int_body_digits by assumption. rewrite dvalue_n_to_str. unfold signed. f_equal.
    apply Z.ltb_ge in E. rewrite N2Z.inj_abs_N. lia.
Qed.

(** ** float() on digits with no point *)
Lemma float_body_nodot ng ip tail :
  ip <> [] -> all_digits ip = true -> stops tail = true ->
  match tail with c :: _ => ceqb c "." = false | [] => True end ->
  float_body ng (ip ++ tail) = finish_exp ng (dvalue 0 ip) 0 tail.
Proof.
  intros NE A St Nd. destruct (digits_head ip NE A) as (c & r & E & D).
  assert (Hc : mhead c = true) by (unfold mhead; rewrite D; reflexivity).
  unfold float_body. rewrite E. cbn [app].
  destruct (not_special c (r ++ tail) Hc) as [S1 S2]. rewrite S1, S2.
  change (c :: r ++ tail)%list with ((c :: r) ++ tail)%list. rewrite <- E.
  rewrite digitpart_digits by assumption.
  destruct tail as [|t0 tail']; [reflexivity|]. cbn [float_tail]. rewrite Nd. reflexivity.
Qed.
Lemma py_float_nodot sg ip tail :
  ip <> [] -> all_digits ip = true -> stops tail = true ->
  match tail with c :: _ => ceqb c "." = false | [] => True end -> nocsp tail = true ->
  py_float_opt (sgstr sg ++ ip ++ tail) = finish_exp (isneg sg) (dvalue 0 ip) 0 tail.
Proof.
  intros NE A St Nd Nc. destruct (digits_head ip NE A) as (c & r & E & D).
  assert (Hc : mhead c = true) by (unfold mhead; rewrite D; reflexivity).
  unfold py_float_opt. rewrite cstrip_id.
  - rewrite (sign_sgstr sg (ip ++ tail) c (r ++ tail)); [|rewrite E; reflexivity|exact Hc].
    cbn [fst snd]. apply float_body_nodot; assumption.
  - unfold nocsp. rewrite !forallb_app. fold (nocsp tail). rewrite Nc, (all_digits_nocspace _ A).
    destruct sg as [[|]|]; reflexivity.
Qed.

(** ** pieces of [%e] text *)
Lemma all_digits_zeros n : all_digits (zeros n) = true.
Proof. unfold zeros. induction (Z.to_nat n) as [|k IH]; [reflexivity|]. exact IH. Qed.
Lemma zeros_length n : length (zeros n) = Z.to_nat n.
Proof. apply repeat_length. Qed.
Lemma dvalue_zeros_only n acc : dvalue acc (zeros n) = (acc * 10 ^ N.of_nat (Z.to_nat n))%N.
Proof. unfold zeros. rewrite <- (app_nil_r (repeat "0" (Z.to_nat n))). rewrite dvalue_zeros. reflexivity. Qed.

Lemma two_digits_facts k : 0 <= k ->
  two_digits k <> [] /\ all_digits (two_digits k) = true /\ dvalue 0 (two_digits k) = Z.to_N k.
Proof.
  intro H. unfold two_digits. pose proof (zdigits_all k) as A.
  assert (NE : zdigits k <> []) by apply n_to_str_nonnil.
  assert (V : dvalue 0 (zdigits k) = Z.to_N k) by apply dvalue_n_to_str.
  destruct (length (zdigits k) <? 2)%nat.
  - split; [discriminate|]. split; [exact A|]. exact V.
  - auto.
Qed.

Definition e_mant (p : Z) (ds : str) : str :=
  match ds with c :: rest => if 0 <? p then c :: "." :: rest else [c] | [] => [] end.
Definition e_text (p N k : Z) : str :=
  (e_mant p (zdigits N) ++ ["e"; if k <? 0 then "-" else "+"] ++ two_digits (Z.abs k))%list.
Definition zero_text (p : Z) : str :=
  (("0" :: (if 0 <? p then "." :: zeros p else [])) ++ s2l "e+00")%list.
(** mantissa and exponent that [%e] prints *)
Definition e_parts (p m e : Z) : Z * Z :=
  if m =? 0 then (0, 0) else sci p (fst (num_den m e)) (snd (num_den m e)).

Lemma fmt_e_body_eq p m e :
  fmt_e_body p m e = if m =? 0 then zero_text p else e_text p (fst (e_parts p m e)) (snd (e_parts p m e)).
Proof.
  unfold fmt_e_body, e_parts. destruct (m =? 0); [reflexivity|].
  destruct (num_den m e) as [num den]. cbn [fst snd]. destruct (sci p num den) as [N k]. reflexivity.
Qed.

Lemma ndig_eq N p : 0 <= p -> 10 ^ p <= N < 10 ^ (p + 1) -> ndig N = p + 1.
Proof.
  intros Hp [L U]. assert (0 < 10 ^ p) by (apply Z.pow_pos_nonneg; lia).
  destruct (ndig_spec N ltac:(lia)) as [L' U']. pose proof (ndig_pos N).
  destruct (Z_lt_le_dec (ndig N) (p + 1)) as [G|G].
  - exfalso. assert (10 ^ ndig N <= 10 ^ p) by (apply Z.pow_le_mono_r; lia). lia.
  - destruct (Z_le_gt_dec (ndig N) (p + 1)) as [G'|G']; [lia|exfalso].
    assert (10 ^ (p + 1) <= 10 ^ (ndig N - 1)) by (apply Z.pow_le_mono_r; lia). lia.
Qed.

Lemma isneg_some b : isneg (Some b) = b.
Proof. destruct b; reflexivity. Qed.
Lemma signed_abs k : signed (k <? 0) (Z.to_N (Z.abs k)) = k.
Proof. unfold signed. destruct (k <? 0) eqn:E; [apply Z.ltb_lt in E|apply Z.ltb_ge in E]; rewrite Z2N.id; lia. Qed.

(** float() of the text [%e] prints for mantissa N (p+1 digits) and exponent k *)
Theorem e_text_read sg p N k : 0 <= p -> 10 ^ p <= N < 10 ^ (p + 1) ->
  py_float_opt (sgstr sg ++ e_text p N k) = Some (Fin (isneg sg) (Z.to_N N) (k - p)).
Proof.
  intros Hp B. pose proof (ndig_eq N p Hp B) as ND. unfold ndig in ND.
  pose proof (zdigits_all N) as A. assert (V : dvalue 0 (zdigits N) = Z.to_N N) by apply dvalue_n_to_str.
  destruct (two_digits_facts (Z.abs k) ltac:(lia)) as (NEe & Ae & Ve).
  unfold e_text. destruct (zdigits N) as [|c rest] eqn:Z; [cbn in ND; lia|].
  cbn [length] in ND. assert (LR : Z.of_nat (length rest) = p) by lia.
  pose proof A as A'. cbn in A'. apply andb_prop in A' as [D Ar].
  assert (ES : ["e"; if k <? 0 then "-" else "+"] = "e" :: sgstr (Some (k <? 0))) by (destruct (k <? 0); reflexivity).
  rewrite ES. clear ES.
  cbn [e_mant]. destruct (0 <? p) eqn:P.
  - change (c :: "." :: rest) with (mant [c] rest).
    replace ((mant [c] rest ++ ("e" :: sgstr (Some (k <? 0))) ++ two_digits (Z.abs k))%list)
      with ((mant [c] rest ++ "e" :: sgstr (Some (k <? 0)) ++ two_digits (Z.abs k))%list) by reflexivity.
    rewrite float_letter.
    + cbn [app]. rewrite V, Ve, LR. rewrite isneg_some, signed_abs. reflexivity.
    + split; [cbn; rewrite D; reflexivity|]. split; [exact Ar|]. left. discriminate.
    + split; assumption.
  - apply Z.ltb_ge in P. assert (P0 : p = 0) by lia. rewrite P0 in *. clear P0. destruct rest; [|cbn in LR; lia].
    replace (([c] ++ ("e" :: sgstr (Some (k <? 0))) ++ two_digits (Z.abs k))%list)
      with (([c] ++ "e" :: sgstr (Some (k <? 0)) ++ two_digits (Z.abs k))%list) by reflexivity.
    rewrite py_float_nodot; try reflexivity; try discriminate; try exact A.
    + unfold finish_exp. rewrite exponent_letter by assumption. rewrite V, Ve. rewrite isneg_some, signed_abs.
      cbn [length]. reflexivity.
    + apply numchs_nocsp. cbn [forallb]. rewrite forallb_app, sgstr_numchs, (digits_numchs _ Ae). reflexivity.
Qed.
Lemma e_text_numchs p N k : forallb numch (e_text p N k) = true.
Proof.
  unfold e_text. pose proof (zdigits_all N) as A. destruct (two_digits_facts (Z.abs k) ltac:(lia)) as (_ & Ae & _).
  rewrite !forallb_app, (digits_numchs _ Ae).
  assert (M : forallb numch (e_mant p (zdigits N)) = true).
  { destruct (zdigits N) as [|c rest]; [reflexivity|]. apply digits_numchs in A. cbn in A. apply andb_prop in A as [D R].
    cbn [e_mant]. destruct (0 <? p); cbn [forallb]; rewrite D, ?R; reflexivity. }
  rewrite M. destruct (k <? 0); reflexivity.
Qed.

(** float() of the text printed for zero *)
Theorem zero_text_read sg p : 0 <= p -> py_float_opt (sgstr sg ++ zero_text p) = Some (Fin (isneg sg) 0 (- p)).
Proof.
  intro Hp. unfold zero_text. destruct (0 <? p) eqn:P.
  - change (("0" :: "." :: zeros p) ++ s2l "e+00")%list with (mant ["0"] (zeros p) ++ "e" :: sgstr (Some false) ++ s2l "00")%list.
    rewrite float_letter.
    + cbn [app dvalue]. rewrite dvalue_zeros_only. rewrite zeros_length. rewrite Z2Nat.id by lia.
      cbn [isneg]. f_equal.
    + split; [reflexivity|]. split; [apply all_digits_zeros|]. left. discriminate.
    + split; [discriminate|reflexivity].
  - apply Z.ltb_ge in P. assert (p = 0) by lia. subst p.
    change (["0"] ++ s2l "e+00")%list with (["0"] ++ "e" :: sgstr (Some false) ++ s2l "00")%list.
    rewrite py_float_nodot; try reflexivity; discriminate.
Qed.
Lemma zero_text_numchs p : forallb numch (zero_text p) = true.
Proof.
  unfold zero_text. rewrite forallb_app. cbn [forallb]. destruct (0 <? p); [|reflexivity].
  cbn [forallb]. rewrite (digits_numchs _ (all_digits_zeros p)). reflexivity.
Qed.

(** ** [%f] text *)
Definition f_text (p N : Z) : str :=
  let ip := N / pow10 p in let fp := N mod pow10 p in
  let fs := zdigits fp in
  let fs := (zeros (p - Z.of_nat (length fs)) ++ fs)%list in
  if 0 <? p then (zdigits ip ++ "." :: fs)%list else zdigits ip.
(** the scaled integer that [%f] prints *)
Definition f_parts (p m e : Z) : Z := rhe (fst (num_den m e) * pow10 p) (snd (num_den m e)).
Lemma fmt_f_body_eq p m e : fmt_f_body p m e = f_text p (f_parts p m e).
Proof. unfold fmt_f_body, f_parts, f_text. destruct (num_den m e) as [num den]. reflexivity. Qed.

Theorem f_text_read sg p N : 0 <= p -> 0 <= N ->
  py_float_opt (sgstr sg ++ f_text p N) = Some (Fin (isneg sg) (Z.to_N N) (- p)).
Proof.
  intros Hp HN. unfold f_text, pow10. assert (T : 0 < 10 ^ p) by (apply Z.pow_pos_nonneg; lia).
  set (ip := N / 10 ^ p). set (fp := N mod 10 ^ p).
  assert (Hip : 0 <= ip) by (apply Z.div_pos; lia).
  assert (Hfp : 0 <= fp < 10 ^ p) by (apply Z.mod_pos_bound; lia).
  assert (EN : N = ip * 10 ^ p + fp) by (unfold ip, fp; rewrite Z.mul_comm; apply Z.div_mod; lia).
  destruct (0 <? p) eqn:P.
  - apply Z.ltb_lt in P.
    pose proof (ndig_le fp p Hfp ltac:(lia)) as LF. unfold ndig in LF.
    set (fd := zdigits fp) in *. set (zs := zeros (p - Z.of_nat (length fd))).
    change (zdigits ip ++ "." :: zs ++ fd)%list with (mant (zdigits ip) (zs ++ fd)).
    rewrite float_plain.
    + f_equal. f_equal.
      * rewrite !dvalue_app. unfold zs. rewrite dvalue_zeros_only.
        rewrite (dvalue_shift fd) by apply zdigits_all.
        assert (Vi : dvalue 0 (zdigits ip) = Z.to_N ip) by apply dvalue_n_to_str.
        assert (Vf : dvalue 0 fd = Z.to_N fp) by apply dvalue_n_to_str. rewrite Vi, Vf.
        apply N2Z.inj. rewrite N2Z.inj_add, !N2Z.inj_mul, !N2Z.inj_pow, !nat_N_Z, !Z2N.id by lia.
        change (Z.of_N 10) with 10. rewrite <- Z.mul_assoc, <- Z.pow_add_r by lia.
        rewrite Z2Nat.id by lia. replace (p - Z.of_nat (length fd) + Z.of_nat (length fd)) with p by lia.
        symmetry. exact EN.
      * rewrite app_length. unfold zs. rewrite zeros_length. lia.
    + split; [apply zdigits_all|]. split; [|left; apply n_to_str_nonnil].
      unfold all_digits. rewrite forallb_app. fold (all_digits zs). fold (all_digits fd).
      unfold zs. rewrite all_digits_zeros. apply zdigits_all.
  - apply Z.ltb_ge in P. assert (p = 0) by lia. subst p. change (10 ^ 0) with 1 in *.
    assert (ip = N) by (unfold ip; apply Z.div_1_r). rewrite H.
    rewrite <- (app_nil_r (zdigits N)). rewrite py_float_nodot; try reflexivity.
    + unfold zdigits. rewrite dvalue_n_to_str. reflexivity.
    + apply n_to_str_nonnil.
    + apply zdigits_all.
Qed.
Lemma f_text_numchs p N : forallb numch (f_text p N) = true.
Proof.
  unfold f_text. cbv zeta. destruct (0 <? p).
  - rewrite forallb_app. cbn [forallb]. rewrite forallb_app.
    rewrite (digits_numchs _ (zdigits_all _)), (digits_numchs _ (all_digits_zeros _)), (digits_numchs _ (zdigits_all _)). reflexivity.
  - apply digits_numchs, zdigits_all.
Qed.

(** ** the whole formatted field *)
Definition sg_of (neg : bool) : option bool := if neg then Some true else None.
Lemma sg_of_text (neg : bool) body : (if neg then "-" :: body else body) = (sgstr (sg_of neg) ++ body)%list.
Proof. destruct neg; reflexivity. Qed.
Lemma isneg_sg_of neg : isneg (sg_of neg) = neg.
Proof. destruct neg; reflexivity. Qed.

(** [float('%w.pe' % x)]: the decimal with the printed mantissa digits and exponent *)
Theorem py_float_fmt_e w p neg m e : 0 <= p ->
  (m <> 0 -> 10 ^ p <= fst (e_parts p m e) < 10 ^ (p + 1)) ->
  py_float_opt (fmt_e w p neg m e) = Some (Fin neg (Z.to_N (fst (e_parts p m e))) (snd (e_parts p m e) - p)).
Proof.
  intros Hp B. unfold fmt_e. rewrite sg_of_text, fmt_e_body_eq.
  destruct (m =? 0) eqn:M0.
  - rewrite py_float_opt_pad by (apply numchs_nocsp; rewrite forallb_app, sgstr_numchs, zero_text_numchs; reflexivity).
    rewrite zero_text_read by exact Hp. unfold e_parts. rewrite M0. cbn [fst snd]. rewrite isneg_sg_of. reflexivity.
  - rewrite py_float_opt_pad by (apply numchs_nocsp; rewrite forallb_app, sgstr_numchs, e_text_numchs; reflexivity).
    apply Z.eqb_neq in M0. rewrite e_text_read by (try exact Hp; exact (B M0)). rewrite isneg_sg_of. reflexivity.
Qed.
(** [float('%w.pf' % x)] *)
Theorem py_float_fmt_f w p neg m e : 0 <= p -> 0 <= f_parts p m e ->
  py_float_opt (fmt_f w p neg m e) = Some (Fin neg (Z.to_N (f_parts p m e)) (- p)).
Proof.
  intros Hp HN. unfold fmt_f. rewrite sg_of_text, fmt_f_body_eq.
  rewrite py_float_opt_pad by (apply numchs_nocsp; rewrite forallb_app, sgstr_numchs, f_text_numchs; reflexivity).
  rewrite f_text_read by assumption. rewrite isneg_sg_of. reflexivity.
Qed.

(** ** blanks *)
Lemma cstrip_spaces n : cstrip (spaces n) = [].
Proof.
  unfold cstrip. rewrite <- (app_nil_r (spaces n)). change (@nil ascii) with ([] ++ @nil ascii)%list at 1.
  rewrite (strip_by_wrap is_cspace (spaces n) [] []); [reflexivity|apply spaces_cspace|reflexivity|reflexivity].
Qed.
Lemma py_int_blank n : py_int_opt (spaces n) = None.
Proof. unfold py_int_opt. rewrite cstrip_spaces. reflexivity. Qed.
Lemma py_float_blank n : py_float_opt (spaces n) = None.
Proof. unfold py_float_opt. rewrite cstrip_spaces. reflexivity. Qed.
