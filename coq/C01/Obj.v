(** C01 -- the abstract t2data object (what write() consumes and read() produces), Python
    value helpers, block-name fixing.  Field values are dynamically typed [value]s
    (str / int / exact double / None), as in the Python object. *)
From Coq Require Import Ascii String List Bool Arith ZArith NArith Lia.
From PTBase Require Import Exn PyStr PyNum PyVal Fmt FixedFormat.
From P Require Import Comb.
Import ListNotations.
Open Scope string_scope.
Notation "a +++ b" := (@app _ a b) (at level 60, right associativity).

(** ** Python operations on dynamically typed values *)
Definition v_truthy (v : value) : bool :=
  match v with XNone => false | XInt z => negb (z =? 0)%Z | XReal _ m _ => negb (m =? 0)%Z
             | XStr s => match s with [] => false | _ => true end end.
(** [v == 0] *)
Definition v_is0 (v : value) : bool :=
  match v with XInt z => (z =? 0)%Z | XReal _ m e => (m =? 0)%Z && (e =? 0)%Z | _ => false end.
(** [None if v == 0 else v] *)
Definition zero_none (v : value) : value := if v_is0 v then XNone else v.
(** [v >= z] for an int z, exact *)
Definition v_ge (v : value) (z : Z) : res bool :=
  match v with
  | XInt a => Ok (z <=? a)%Z
  | XReal ng m e =>
      let s := if ng then (- m)%Z else m in
      Ok (if (0 <=? e)%Z then (z <=? s * 2 ^ e)%Z else (z * 2 ^ (- e) <=? s)%Z)
  | _ => Raise TypeError
  end.
(** [int(v)]: truncation towards zero *)
Definition v_int (v : value) : res Z :=
  match v with
  | XInt a => Ok a
  | XReal ng m e =>
      let a := if (0 <=? e)%Z then (m * 2 ^ e)%Z else (m / 2 ^ (- e))%Z in
      Ok (if ng then (- a)%Z else a)
  | _ => Raise TypeError
  end.
Definition value_eqb (a b : value) : bool :=
  match a, b with
  | XStr x, XStr y => str_eqb x y
  | XInt x, XInt y => (x =? y)%Z
  | XReal n1 m1 e1, XReal n2 m2 e2 => Bool.eqb n1 n2 && (m1 =? m2)%Z && (e1 =? e2)%Z
  | XNone, XNone => true
  | _, _ => false
  end.
Lemma value_eqb_eq a b : value_eqb a b = true -> a = b.
Proof.
  destruct a, b; cbn; try discriminate; intro H.
  - apply str_eqb_eq in H. congruence.
  - apply Z.eqb_eq in H. congruence.
  - apply andb_prop in H as [H H3]. apply andb_prop in H as [H1 H2].
    apply Bool.eqb_prop in H1. apply Z.eqb_eq in H2. apply Z.eqb_eq in H3. congruence.
  - reflexivity.
Qed.
Fixpoint vlist_eqb (a b : list value) : bool :=
  match a, b with [], [] => true | x :: a', y :: b' => value_eqb x y && vlist_eqb a' b' | _, _ => false end.
Lemma vlist_eqb_eq a : forall b, vlist_eqb a b = true -> a = b.
Proof.
  induction a as [|x a IH]; destruct b as [|y b]; cbn; try discriminate; [reflexivity|].
  intro H. apply andb_prop in H as [H1 H2]. apply value_eqb_eq in H1. apply IH in H2. congruence.
Qed.
(** [trim_trailing_nones] *)
Fixpoint lstrip_none (l : list value) : list value := match l with XNone :: r => lstrip_none r | _ => l end.
Definition trim_nones (l : list value) : list value := rev (lstrip_none (rev l)).
(** [l[i]] for a read record (None when out of range: the records have fixed length) *)
Definition vnth (l : list value) (i : nat) : value := nth i l XNone.
Definition sval (v : value) : str := match v with XStr s => s | _ => [] end.

(** ** block names: [mulgrids.fix_blockname], [unfix_blockname] *)
Definition idx (s : str) (i : nat) : res ascii := match nth_error s i with Some c => Ok c | None => Raise IndexError end.
Definition fix_blockname (name : str) : res str :=
  do c2 <- idx name 2;
  if negb (is_digit c2) then Ok name else
  do c4 <- idx name 4;
  if negb (is_digit c4) then Ok name else
  do c3 <- idx name 3;
  if ceqb c3 " "%char then Ok (slice 0 3 name +++ "0"%char :: slice 4 5 name) else Ok name.
Definition unfix_blockname (name : str) : str :=
  let t := slice 3 5 name in
  if isdigit t then
    match py_int_opt t with
    | Some z => fmt_str 3 (slice 0 3 name) +++ fmt_int 2 z
    | None => name
    end
  else name.

(** ** the records *)
Record rock := mk_rock {
  r_name : str; r_nad : value; r_density : value; r_porosity : value; r_perm : list value;
  r_cond : value; r_spec : value;
  r_extra : dict;                                   (* the other attributes in __dict__ (rocks1.1) *)
  r_rp : option (value * list value);               (* relative_permeability: {} or type, parameters *)
  r_cap : option (value * list value) }.
Record block := mk_block {
  b_name : str; b_nseq : value; b_nadd : value; b_rock : str; b_volume : value;
  b_ahtx : value; b_pmx : value; b_centre : option (list value) }.
Record conn := mk_conn {
  c_b1 : str; c_b2 : str; c_nseq : value; c_nad1 : value; c_nad2 : value; c_dir : value;
  c_dist : list value; c_area : value; c_dircos : value; c_sigma : value }.
Record gen := mk_gen {
  g_block : str; g_name : str; g_nseq : value; g_nadd : value; g_nads : value; g_ltab : value;
  g_type : str; g_itab : str; g_gx : value; g_ex : value; g_hg : value; g_fg : value;
  g_time : list value; g_rate : list value; g_enth : list value }.
Record params := mk_params {
  p_dict : dict; p_option : list Z; p_timestep : list value; p_dincons : list value }.
(** incon[block] = [porosity, variables] or [porosity, variables, nseq, nadd] *)
Record inc := mk_inc { i_por : value; i_vars : list value; i_seq : option (value * value) }.
Record shortrec := mk_short {
  sh_freq : option value; sh_block : option (list str);
  sh_conn : option (list (str * str)); sh_gen : option (list (str * str)) }.
Inductive mmsec :=
  | MMrz2d (subs : list (str * dict * list value))
  | MMxyz (deg : value) (subs : list (dict * list value))
  | MMminc (d : dict) (spacing vol : list value).

Record t2d := mk_t2d {
  title : str;
  simulator : str;
  rocks : list rock;
  blocks : list block;
  conns : list conn;
  param : params;
  momop : list Z;
  start : bool;
  noversion : bool;
  relperm : option (value * list value);
  capil : option (value * list value);
  lineq : dict;
  solver : dict;
  multi : dict;
  otimes : option (dict * list value);
  selection : option (list value * list value);
  diffusion : list (list value);
  meshmaker : list mmsec;
  gens : list gen;
  short : option shortrec;
  hist_block : list str;
  hist_conn : list (str * str);
  hist_gen : list str;
  incon : list (str * inc);
  indom : list (str * list value);
  sections : list str;
  end_keyword : str;
  xprec : list str;
  xecho : bool }.
Definition set_title (d : t2d) (x : str) : t2d := mk_t2d x (simulator d) (rocks d) (blocks d) (conns d) (param d) (momop d) (start d) (noversion d) (relperm d) (capil d) (lineq d) (solver d) (multi d) (otimes d) (selection d) (diffusion d) (meshmaker d) (gens d) (short d) (hist_block d) (hist_conn d) (hist_gen d) (incon d) (indom d) (sections d) (end_keyword d) (xprec d) (xecho d).
Definition set_simulator (d : t2d) (x : str) : t2d := mk_t2d (title d) x (rocks d) (blocks d) (conns d) (param d) (momop d) (start d) (noversion d) (relperm d) (capil d) (lineq d) (solver d) (multi d) (otimes d) (selection d) (diffusion d) (meshmaker d) (gens d) (short d) (hist_block d) (hist_conn d) (hist_gen d) (incon d) (indom d) (sections d) (end_keyword d) (xprec d) (xecho d).
Definition set_rocks (d : t2d) (x : list rock) : t2d := mk_t2d (title d) (simulator d) x (blocks d) (conns d) (param d) (momop d) (start d) (noversion d) (relperm d) (capil d) (lineq d) (solver d) (multi d) (otimes d) (selection d) (diffusion d) (meshmaker d) (gens d) (short d) (hist_block d) (hist_conn d) (hist_gen d) (incon d) (indom d) (sections d) (end_keyword d) (xprec d) (xecho d).
Definition set_blocks (d : t2d) (x : list block) : t2d := mk_t2d (title d) (simulator d) (rocks d) x (conns d) (param d) (momop d) (start d) (noversion d) (relperm d) (capil d) (lineq d) (solver d) (multi d) (otimes d) (selection d) (diffusion d) (meshmaker d) (gens d) (short d) (hist_block d) (hist_conn d) (hist_gen d) (incon d) (indom d) (sections d) (end_keyword d) (xprec d) (xecho d).
Definition set_conns (d : t2d) (x : list conn) : t2d := mk_t2d (title d) (simulator d) (rocks d) (blocks d) x (param d) (momop d) (start d) (noversion d) (relperm d) (capil d) (lineq d) (solver d) (multi d) (otimes d) (selection d) (diffusion d) (meshmaker d) (gens d) (short d) (hist_block d) (hist_conn d) (hist_gen d) (incon d) (indom d) (sections d) (end_keyword d) (xprec d) (xecho d).
Definition set_param (d : t2d) (x : params) : t2d := mk_t2d (title d) (simulator d) (rocks d) (blocks d) (conns d) x (momop d) (start d) (noversion d) (relperm d) (capil d) (lineq d) (solver d) (multi d) (otimes d) (selection d) (diffusion d) (meshmaker d) (gens d) (short d) (hist_block d) (hist_conn d) (hist_gen d) (incon d) (indom d) (sections d) (end_keyword d) (xprec d) (xecho d).
Definition set_momop (d : t2d) (x : list Z) : t2d := mk_t2d (title d) (simulator d) (rocks d) (blocks d) (conns d) (param d) x (start d) (noversion d) (relperm d) (capil d) (lineq d) (solver d) (multi d) (otimes d) (selection d) (diffusion d) (meshmaker d) (gens d) (short d) (hist_block d) (hist_conn d) (hist_gen d) (incon d) (indom d) (sections d) (end_keyword d) (xprec d) (xecho d).
Definition set_start (d : t2d) (x : bool) : t2d := mk_t2d (title d) (simulator d) (rocks d) (blocks d) (conns d) (param d) (momop d) x (noversion d) (relperm d) (capil d) (lineq d) (solver d) (multi d) (otimes d) (selection d) (diffusion d) (meshmaker d) (gens d) (short d) (hist_block d) (hist_conn d) (hist_gen d) (incon d) (indom d) (sections d) (end_keyword d) (xprec d) (xecho d).
Definition set_noversion (d : t2d) (x : bool) : t2d := mk_t2d (title d) (simulator d) (rocks d) (blocks d) (conns d) (param d) (momop d) (start d) x (relperm d) (capil d) (lineq d) (solver d) (multi d) (otimes d) (selection d) (diffusion d) (meshmaker d) (gens d) (short d) (hist_block d) (hist_conn d) (hist_gen d) (incon d) (indom d) (sections d) (end_keyword d) (xprec d) (xecho d).
Definition set_relperm (d : t2d) (x : option (value * list value)) : t2d := mk_t2d (title d) (simulator d) (rocks d) (blocks d) (conns d) (param d) (momop d) (start d) (noversion d) x (capil d) (lineq d) (solver d) (multi d) (otimes d) (selection d) (diffusion d) (meshmaker d) (gens d) (short d) (hist_block d) (hist_conn d) (hist_gen d) (incon d) (indom d) (sections d) (end_keyword d) (xprec d) (xecho d).
Definition set_capil (d : t2d) (x : option (value * list value)) : t2d := mk_t2d (title d) (simulator d) (rocks d) (blocks d) (conns d) (param d) (momop d) (start d) (noversion d) (relperm d) x (lineq d) (solver d) (multi d) (otimes d) (selection d) (diffusion d) (meshmaker d) (gens d) (short d) (hist_block d) (hist_conn d) (hist_gen d) (incon d) (indom d) (sections d) (end_keyword d) (xprec d) (xecho d).
Definition set_lineq (d : t2d) (x : dict) : t2d := mk_t2d (title d) (simulator d) (rocks d) (blocks d) (conns d) (param d) (momop d) (start d) (noversion d) (relperm d) (capil d) x (solver d) (multi d) (otimes d) (selection d) (diffusion d) (meshmaker d) (gens d) (short d) (hist_block d) (hist_conn d) (hist_gen d) (incon d) (indom d) (sections d) (end_keyword d) (xprec d) (xecho d).
Definition set_solver (d : t2d) (x : dict) : t2d := mk_t2d (title d) (simulator d) (rocks d) (blocks d) (conns d) (param d) (momop d) (start d) (noversion d) (relperm d) (capil d) (lineq d) x (multi d) (otimes d) (selection d) (diffusion d) (meshmaker d) (gens d) (short d) (hist_block d) (hist_conn d) (hist_gen d) (incon d) (indom d) (sections d) (end_keyword d) (xprec d) (xecho d).
Definition set_multi (d : t2d) (x : dict) : t2d := mk_t2d (title d) (simulator d) (rocks d) (blocks d) (conns d) (param d) (momop d) (start d) (noversion d) (relperm d) (capil d) (lineq d) (solver d) x (otimes d) (selection d) (diffusion d) (meshmaker d) (gens d) (short d) (hist_block d) (hist_conn d) (hist_gen d) (incon d) (indom d) (sections d) (end_keyword d) (xprec d) (xecho d).
Definition set_otimes (d : t2d) (x : option (dict * list value)) : t2d := mk_t2d (title d) (simulator d) (rocks d) (blocks d) (conns d) (param d) (momop d) (start d) (noversion d) (relperm d) (capil d) (lineq d) (solver d) (multi d) x (selection d) (diffusion d) (meshmaker d) (gens d) (short d) (hist_block d) (hist_conn d) (hist_gen d) (incon d) (indom d) (sections d) (end_keyword d) (xprec d) (xecho d).
Definition set_selection (d : t2d) (x : option (list value * list value)) : t2d := mk_t2d (title d) (simulator d) (rocks d) (blocks d) (conns d) (param d) (momop d) (start d) (noversion d) (relperm d) (capil d) (lineq d) (solver d) (multi d) (otimes d) x (diffusion d) (meshmaker d) (gens d) (short d) (hist_block d) (hist_conn d) (hist_gen d) (incon d) (indom d) (sections d) (end_keyword d) (xprec d) (xecho d).
Definition set_diffusion (d : t2d) (x : list (list value)) : t2d := mk_t2d (title d) (simulator d) (rocks d) (blocks d) (conns d) (param d) (momop d) (start d) (noversion d) (relperm d) (capil d) (lineq d) (solver d) (multi d) (otimes d) (selection d) x (meshmaker d) (gens d) (short d) (hist_block d) (hist_conn d) (hist_gen d) (incon d) (indom d) (sections d) (end_keyword d) (xprec d) (xecho d).
Definition set_meshmaker (d : t2d) (x : list mmsec) : t2d := mk_t2d (title d) (simulator d) (rocks d) (blocks d) (conns d) (param d) (momop d) (start d) (noversion d) (relperm d) (capil d) (lineq d) (solver d) (multi d) (otimes d) (selection d) (diffusion d) x (gens d) (short d) (hist_block d) (hist_conn d) (hist_gen d) (incon d) (indom d) (sections d) (end_keyword d) (xprec d) (xecho d).
Definition set_gens (d : t2d) (x : list gen) : t2d := mk_t2d (title d) (simulator d) (rocks d) (blocks d) (conns d) (param d) (momop d) (start d) (noversion d) (relperm d) (capil d) (lineq d) (solver d) (multi d) (otimes d) (selection d) (diffusion d) (meshmaker d) x (short d) (hist_block d) (hist_conn d) (hist_gen d) (incon d) (indom d) (sections d) (end_keyword d) (xprec d) (xecho d).
Definition set_short (d : t2d) (x : option shortrec) : t2d := mk_t2d (title d) (simulator d) (rocks d) (blocks d) (conns d) (param d) (momop d) (start d) (noversion d) (relperm d) (capil d) (lineq d) (solver d) (multi d) (otimes d) (selection d) (diffusion d) (meshmaker d) (gens d) x (hist_block d) (hist_conn d) (hist_gen d) (incon d) (indom d) (sections d) (end_keyword d) (xprec d) (xecho d).
Definition set_hist_block (d : t2d) (x : list str) : t2d := mk_t2d (title d) (simulator d) (rocks d) (blocks d) (conns d) (param d) (momop d) (start d) (noversion d) (relperm d) (capil d) (lineq d) (solver d) (multi d) (otimes d) (selection d) (diffusion d) (meshmaker d) (gens d) (short d) x (hist_conn d) (hist_gen d) (incon d) (indom d) (sections d) (end_keyword d) (xprec d) (xecho d).
Definition set_hist_conn (d : t2d) (x : list (str * str)) : t2d := mk_t2d (title d) (simulator d) (rocks d) (blocks d) (conns d) (param d) (momop d) (start d) (noversion d) (relperm d) (capil d) (lineq d) (solver d) (multi d) (otimes d) (selection d) (diffusion d) (meshmaker d) (gens d) (short d) (hist_block d) x (hist_gen d) (incon d) (indom d) (sections d) (end_keyword d) (xprec d) (xecho d).
Definition set_hist_gen (d : t2d) (x : list str) : t2d := mk_t2d (title d) (simulator d) (rocks d) (blocks d) (conns d) (param d) (momop d) (start d) (noversion d) (relperm d) (capil d) (lineq d) (solver d) (multi d) (otimes d) (selection d) (diffusion d) (meshmaker d) (gens d) (short d) (hist_block d) (hist_conn d) x (incon d) (indom d) (sections d) (end_keyword d) (xprec d) (xecho d).
Definition set_incon (d : t2d) (x : list (str * inc)) : t2d := mk_t2d (title d) (simulator d) (rocks d) (blocks d) (conns d) (param d) (momop d) (start d) (noversion d) (relperm d) (capil d) (lineq d) (solver d) (multi d) (otimes d) (selection d) (diffusion d) (meshmaker d) (gens d) (short d) (hist_block d) (hist_conn d) (hist_gen d) x (indom d) (sections d) (end_keyword d) (xprec d) (xecho d).
Definition set_indom (d : t2d) (x : list (str * list value)) : t2d := mk_t2d (title d) (simulator d) (rocks d) (blocks d) (conns d) (param d) (momop d) (start d) (noversion d) (relperm d) (capil d) (lineq d) (solver d) (multi d) (otimes d) (selection d) (diffusion d) (meshmaker d) (gens d) (short d) (hist_block d) (hist_conn d) (hist_gen d) (incon d) x (sections d) (end_keyword d) (xprec d) (xecho d).
Definition set_sections (d : t2d) (x : list str) : t2d := mk_t2d (title d) (simulator d) (rocks d) (blocks d) (conns d) (param d) (momop d) (start d) (noversion d) (relperm d) (capil d) (lineq d) (solver d) (multi d) (otimes d) (selection d) (diffusion d) (meshmaker d) (gens d) (short d) (hist_block d) (hist_conn d) (hist_gen d) (incon d) (indom d) x (end_keyword d) (xprec d) (xecho d).
Definition set_end_keyword (d : t2d) (x : str) : t2d := mk_t2d (title d) (simulator d) (rocks d) (blocks d) (conns d) (param d) (momop d) (start d) (noversion d) (relperm d) (capil d) (lineq d) (solver d) (multi d) (otimes d) (selection d) (diffusion d) (meshmaker d) (gens d) (short d) (hist_block d) (hist_conn d) (hist_gen d) (incon d) (indom d) (sections d) x (xprec d) (xecho d).
Definition set_xprec (d : t2d) (x : list str) : t2d := mk_t2d (title d) (simulator d) (rocks d) (blocks d) (conns d) (param d) (momop d) (start d) (noversion d) (relperm d) (capil d) (lineq d) (solver d) (multi d) (otimes d) (selection d) (diffusion d) (meshmaker d) (gens d) (short d) (hist_block d) (hist_conn d) (hist_gen d) (incon d) (indom d) (sections d) (end_keyword d) x (xecho d).
Definition set_xecho (d : t2d) (x : bool) : t2d := mk_t2d (title d) (simulator d) (rocks d) (blocks d) (conns d) (param d) (momop d) (start d) (noversion d) (relperm d) (capil d) (lineq d) (solver d) (multi d) (otimes d) (selection d) (diffusion d) (meshmaker d) (gens d) (short d) (hist_block d) (hist_conn d) (hist_gen d) (incon d) (indom d) (sections d) (end_keyword d) (xprec d) x.

(** [default_parameters] of a fresh t2data object (the scalar entries) *)
Definition zero_real : value := XReal false 0 0.
Definition default_param_dict : dict :=
  [("max_iterations", XNone); ("print_level", XNone); ("max_timesteps", XNone); ("max_duration", XNone);
   ("print_interval", XNone); ("_option_str", XStr (repeat "0"%char 24)); ("diff0", XNone); ("texp", XNone);
   ("tstart", zero_real); ("tstop", XNone); ("const_timestep", zero_real); ("max_timestep", XNone);
   ("print_block", XNone); ("gravity", zero_real); ("timestep_reduction", XNone); ("scale", XNone);
   ("relative_error", XNone); ("absolute_error", XNone); ("pivot", XNone); ("upstream_weight", XNone);
   ("newton_weight", XNone); ("derivative_increment", XNone)].
Definition default_params : params := mk_params default_param_dict (repeat 0%Z 24) [] [].
(** [t2data()] *)
Definition empty_t2d : t2d :=
  mk_t2d [] [] [] [] [] default_params (repeat 0%Z 21) false false None None [] [] [] None None [] [] [] None [] [] []
         [] [] [] (s2l "ENDCY") [] true.
(** [self.type == 'AUTOUGH2'] *)
Definition autough2 (d : t2d) : bool := match simulator d with [] => false | _ => true end.
