(* copied verbatim from coq/C02/Digits.v (x-C02): number of decimal digits *)
(** C02 -- decimal digit strings: what CPython's digit scanner ([PyNum.digits_tail], via
    [FortranRender.dvalue]) returns on the text Python's [%d] printing produces
    ([n_to_str]/[z_to_str], i.e. the stdlib's [NilZero.string_of_uint (N.to_uint n)]),
    and how long that text is.  Everything here holds for every number, no bound. *)
From Coq Require Import Ascii String List Bool Arith ZArith NArith Lia.
From Coq Require Import DecimalFacts DecimalPos DecimalN DecimalString.
From PTBase Require Import Exn PyStr PyNum PyVal Fmt.
From PTModel Require Import Fortran FortranNF FortranRender.
Import ListNotations.
Open Scope char_scope.
Open Scope N_scope.

(** big-endian value of a stdlib decimal numeral, with accumulator *)
Fixpoint uval (acc : N) (d : Decimal.uint) : N :=
  match d with
  | Decimal.Nil => acc
  | Decimal.D0 l => uval (acc * 10) l
  | Decimal.D1 l => uval (acc * 10 + 1) l
  | Decimal.D2 l => uval (acc * 10 + 2) l
  | Decimal.D3 l => uval (acc * 10 + 3) l
  | Decimal.D4 l => uval (acc * 10 + 4) l
  | Decimal.D5 l => uval (acc * 10 + 5) l
  | Decimal.D6 l => uval (acc * 10 + 6) l
  | Decimal.D7 l => uval (acc * 10 + 7) l
  | Decimal.D8 l => uval (acc * 10 + 8) l
  | Decimal.D9 l => uval (acc * 10 + 9) l
  end.

Definition ustr (d : Decimal.uint) : str := s2l (NilEmpty.string_of_uint d).

Lemma dvalue_ustr d : forall acc, dvalue acc (ustr d) = uval acc d.
Proof.
  unfold ustr.
  induction d as [|d IH|d IH|d IH|d IH|d IH|d IH|d IH|d IH|d IH|d IH]; intro acc;
    cbn [NilEmpty.string_of_uint s2l list_ascii_of_string dvalue uval]; [reflexivity|..];
    rewrite <- IH; f_equal; unfold s2l; try reflexivity.
  change (ndval "0") with 0. lia.
Qed.
Lemma all_digits_ustr d : all_digits (ustr d) = true.
Proof.
  unfold ustr.
  induction d as [|d IH|d IH|d IH|d IH|d IH|d IH|d IH|d IH|d IH|d IH];
    cbn [NilEmpty.string_of_uint s2l list_ascii_of_string]; [reflexivity|..]; exact IH.
Qed.

Lemma uval_pos l : forall a, uval (Npos a) l = Npos (Pos.of_uint_acc l a).
Proof.
  induction l as [|d IH|d IH|d IH|d IH|d IH|d IH|d IH|d IH|d IH|d IH]; intro a;
    cbn [uval Pos.of_uint_acc]; [reflexivity|..]; rewrite <- IH; f_equal; lia.
Qed.
Lemma uval_of_uint d : uval 0 d = N.of_uint d.
Proof.
  unfold N.of_uint.
  induction d as [|d IH|d IH|d IH|d IH|d IH|d IH|d IH|d IH|d IH|d IH];
    cbn [uval Pos.of_uint]; [reflexivity|exact IH|..]; apply uval_pos.
Qed.

(** the text of a natural number: never empty, all digits, and the digit scanner
    returns the number *)
Lemma n_to_str_ustr n : n_to_str n = ustr (N.to_uint n).
Proof.
  unfold n_to_str, ustr, NilZero.string_of_uint.
  destruct (N.to_uint n) eqn:E; try reflexivity.
  exfalso. destruct n as [|p]; [discriminate E|]. exact (Unsigned.to_uint_nonnil p E).
Qed.
Theorem dvalue_n_to_str n : dvalue 0 (n_to_str n) = n.
Proof. rewrite n_to_str_ustr, dvalue_ustr, uval_of_uint. apply DecimalN.Unsigned.of_to. Qed.
Theorem all_digits_n_to_str n : all_digits (n_to_str n) = true.
Proof. rewrite n_to_str_ustr. apply all_digits_ustr. Qed.
Lemma n_to_str_nonnil n : n_to_str n <> [].
Proof.
  rewrite n_to_str_ustr. unfold ustr.
  destruct (N.to_uint n) eqn:E; try (cbn; discriminate).
  exfalso. destruct n as [|p]; [discriminate E|]. exact (Unsigned.to_uint_nonnil p E).
Qed.

(** ** size of a digit string *)
Lemma digit_le9 c : is_digit c = true -> ndval c <= 9.
Proof. brute c. Qed.
Lemma dvalue_shift ds : forall acc, all_digits ds = true ->
  dvalue acc ds = acc * 10 ^ N.of_nat (length ds) + dvalue 0 ds.
Proof.
  induction ds as [|c r IH]; intros acc A.
  - cbn [dvalue length]. change (N.of_nat 0) with 0. rewrite N.pow_0_r. lia.
  - cbn in A. apply andb_prop in A as [D A]. cbn [dvalue length].
    rewrite (IH (acc * 10 + ndval c) A), (IH (0 * 10 + ndval c) A).
    rewrite Nat2N.inj_succ, N.pow_succ_r'. lia.
Qed.
Lemma dvalue_lt ds : all_digits ds = true -> dvalue 0 ds < 10 ^ N.of_nat (length ds).
Proof.
  induction ds as [|c r IH]; intro A.
  - cbn. lia.
  - cbn in A. apply andb_prop in A as [D A]. cbn [dvalue length].
    rewrite (dvalue_shift r _ A). specialize (IH A). pose proof (digit_le9 c D).
    rewrite Nat2N.inj_succ, N.pow_succ_r'. nia.
Qed.
Lemma dvalue_zeros k : forall acc ds, dvalue acc (repeat "0" k ++ ds) = dvalue (acc * 10 ^ N.of_nat k) ds.
Proof.
  induction k as [|k IH]; intros acc ds.
  - cbn [repeat app]. change (N.of_nat 0) with 0. rewrite N.pow_0_r, N.mul_1_r. reflexivity.
  - cbn [repeat app dvalue]. rewrite IH. change (ndval "0") with 0. f_equal.
    rewrite Nat2N.inj_succ, N.pow_succ_r'. lia.
Qed.

(** leading digit of a positive number is not 0 *)
Lemma to_uint_no_lead0 n d' : 0 < n -> N.to_uint n <> Decimal.D0 d'.
Proof.
  intros Hn E.
  pose proof (DecimalN.Unsigned.to_of (N.to_uint n)) as T. rewrite DecimalN.Unsigned.of_to in T.
  unfold Decimal.unorm in T. destruct (Decimal.nzhead (N.to_uint n)) eqn:Z.
  - (* all zeros: the number is 0 *)
    pose proof (DecimalN.Unsigned.of_to n) as O. rewrite T in O. cbn in O. lia.
  - rewrite <- T in Z. rewrite E in Z at 2. exact (nzhead_nonzero _ _ Z).
  - rewrite <- T in Z; rewrite E in Z at 2; exact (nzhead_nonzero _ _ Z).
  - rewrite <- T in Z; rewrite E in Z at 2; exact (nzhead_nonzero _ _ Z).
  - rewrite <- T in Z; rewrite E in Z at 2; exact (nzhead_nonzero _ _ Z).
  - rewrite <- T in Z; rewrite E in Z at 2; exact (nzhead_nonzero _ _ Z).
  - rewrite <- T in Z; rewrite E in Z at 2; exact (nzhead_nonzero _ _ Z).
  - rewrite <- T in Z; rewrite E in Z at 2; exact (nzhead_nonzero _ _ Z).
  - rewrite <- T in Z; rewrite E in Z at 2; exact (nzhead_nonzero _ _ Z).
  - rewrite <- T in Z; rewrite E in Z at 2; exact (nzhead_nonzero _ _ Z).
  - rewrite <- T in Z; rewrite E in Z at 2; exact (nzhead_nonzero _ _ Z).
Qed.
Lemma n_to_str_head n : 0 < n -> exists c r, n_to_str n = c :: r /\ is_digit c = true /\ 1 <= ndval c /\ all_digits r = true.
Proof.
  intro Hn. pose proof (all_digits_n_to_str n) as A. pose proof (to_uint_no_lead0 n) as L. specialize (fun d => L d Hn).
  rewrite n_to_str_ustr in *. unfold ustr in *.
  destruct (N.to_uint n) as [|d|d|d|d|d|d|d|d|d|d] eqn:E;
    cbn [NilEmpty.string_of_uint s2l list_ascii_of_string] in *.
  - destruct n as [|p]; [discriminate E|]. exfalso. exact (Unsigned.to_uint_nonnil p E).
  - exfalso. exact (L d eq_refl).
  - eexists _, _; split; [reflexivity|]. split; [reflexivity|]. split; [vm_compute; discriminate|exact A].
  - eexists _, _; split; [reflexivity|]. split; [reflexivity|]. split; [vm_compute; discriminate|exact A].
  - eexists _, _; split; [reflexivity|]. split; [reflexivity|]. split; [vm_compute; discriminate|exact A].
  - eexists _, _; split; [reflexivity|]. split; [reflexivity|]. split; [vm_compute; discriminate|exact A].
  - eexists _, _; split; [reflexivity|]. split; [reflexivity|]. split; [vm_compute; discriminate|exact A].
  - eexists _, _; split; [reflexivity|]. split; [reflexivity|]. split; [vm_compute; discriminate|exact A].
  - eexists _, _; split; [reflexivity|]. split; [reflexivity|]. split; [vm_compute; discriminate|exact A].
  - eexists _, _; split; [reflexivity|]. split; [reflexivity|]. split; [vm_compute; discriminate|exact A].
  - eexists _, _; split; [reflexivity|]. split; [reflexivity|]. split; [vm_compute; discriminate|exact A].
Qed.

(** the number of digits printed is the decimal length: 10^(len-1) <= n < 10^len *)
Theorem n_to_str_size n : 0 < n ->
  10 ^ (N.of_nat (length (n_to_str n)) - 1) <= n < 10 ^ N.of_nat (length (n_to_str n)).
Proof.
  intro Hn. pose proof (dvalue_n_to_str n) as V. pose proof (dvalue_lt _ (all_digits_n_to_str n)) as U.
  rewrite V in U. split; [|exact U].
  destruct (n_to_str_head n Hn) as (c & r & E & D & C1 & A). rewrite E in V |- *.
  cbn [dvalue length] in V |- *. rewrite (dvalue_shift r _ A) in V.
  rewrite Nat2N.inj_succ. replace (N.succ (N.of_nat (length r)) - 1) with (N.of_nat (length r)) by lia.
  nia.
Qed.
Lemma n_to_str_len_pos n : (1 <= length (n_to_str n))%nat.
Proof. pose proof (n_to_str_nonnil n). destruct (n_to_str n); [congruence|cbn; lia]. Qed.

(** ** [zdigits] / [ndig] of Fmt.v (Z-valued interface) *)
Open Scope Z_scope.
Lemma zdigits_value z : 0 <= z -> Z.of_N (dvalue 0 (zdigits z)) = z.
Proof. intro H. unfold zdigits. rewrite dvalue_n_to_str. lia. Qed.
Lemma zdigits_all z : all_digits (zdigits z) = true.
Proof. apply all_digits_n_to_str. Qed.
Lemma ndig_pos z : 1 <= ndig z.
Proof. unfold ndig, zdigits. pose proof (n_to_str_len_pos (Z.to_N z)). lia. Qed.
Theorem ndig_spec z : 0 < z -> 10 ^ (ndig z - 1) <= z < 10 ^ ndig z.
Proof.
  intro H. unfold ndig, zdigits. pose proof (n_to_str_size (Z.to_N z) ltac:(lia)) as [L U].
  pose proof (n_to_str_len_pos (Z.to_N z)) as P.
  set (k := length (n_to_str (Z.to_N z))) in *.
  apply N2Z.inj_le in L. apply N2Z.inj_lt in U. rewrite N2Z.inj_pow in L, U. rewrite Z2N.id in L, U by lia.
  rewrite N2Z.inj_sub in L by lia. rewrite nat_N_Z in L, U. change (Z.of_N 10) with 10 in *. change (Z.of_N 1) with 1 in *.
  split; assumption.
Qed.
(** a number below 10^p prints with at most p digits (p >= 1) *)
Lemma ndig_le z p : 0 <= z < 10 ^ p -> 1 <= p -> ndig z <= p.
Proof.
  intros [H0 H1] Hp. destruct (Z.eq_dec z 0) as [->|NZ].
  - vm_compute ndig. lia.
  - destruct (ndig_spec z ltac:(lia)) as [L _]. pose proof (ndig_pos z).
    destruct (Z_le_gt_dec (ndig z) p) as [|G]; [assumption|exfalso].
    assert (10 ^ p <= 10 ^ (ndig z - 1)) by (apply Z.pow_le_mono_r; lia). lia.
Qed.

(** ** signed integers *)
Lemma z_to_str_split z : z_to_str z = (if z <? 0 then ["-"] else []) ++ n_to_str (Z.abs_N z).
Proof. destruct z as [|p|p]; reflexivity. Qed.
