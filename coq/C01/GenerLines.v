(** C01 -- GENER, every generator type: the writer emits and the reader consumes table lines
    under ONE condition, [ltab and type != 'DELV'] (gen_ntimes), with no well-formedness
    hypothesis on the generator: how many lines [write_generator] writes; a 'DELV' generator
    (whose ltab counts layers, not table entries) is one line for the writer and one line
    for the reader whatever ltab holds. *)
From Coq Require Import Ascii String List Bool Arith ZArith NArith Lia.
From PTBase Require Import Exn PyStr PyNum PyVal Fmt FixedFormat.
From Gen Require Import GenTables GenSections.
From P Require Import Comb Obj Fields Sections Rec SecGener.
Import ListNotations.
Open Scope string_scope.

Section WithTable.
Variable T : table.

(** lines of one generator: the record line, then (times, rates[, enthalpies]) in
    [nlines] lines each when the table count exceeds 1 *)
Definition gen_nlines (g : gen) (nt : Z) : nat :=
  S (if (1 <? nt)%Z then
       (if nonempty_l (g_enth g) then 3 else 2) * nlines_z (Z.of_nat (chunk_of "write_generator")) nt
     else 0).

Lemma gen_lines_written g ls : write_gen T g = Ok ls ->
  exists nt, gen_ntimes (g_ltab g) (g_type g) = Ok nt /\ length ls = gen_nlines g nt.
Proof.
  unfold write_gen. intro W.
  destruct (wline T "generator" _) as [l1|]; cbn [bind] in W; [|discriminate].
  destruct (gen_ntimes (g_ltab g) (g_type g)) as [nt|]; cbn [bind] in W; [|discriminate].
  exists nt. split; [reflexivity|]. unfold gen_nlines.
  destruct (1 <? nt)%Z.
  - cbv zeta in W.
    set (c := chunk_of "write_generator") in *. set (n := nlines_z (Z.of_nat c) nt) in *.
    destruct (write_chunks (sp T "generation_times") c n _) as [t|] eqn:CT; cbn [bind] in W; [|discriminate].
    destruct (write_chunks (sp T "generation_rates") c n _) as [r|] eqn:CR; cbn [bind] in W; [|discriminate].
    apply write_chunks_length in CT. apply write_chunks_length in CR.
    destruct (g_enth g) as [|e0 en].
    + cbn [bind] in W. injection W as <-. cbn [length nonempty_l]. rewrite !app_length, CT, CR. cbn [length]. lia.
    + destruct (write_chunks (sp T "generation_enthalpy") c n _) as [e|] eqn:CE; cbn [bind] in W; [|discriminate].
      apply write_chunks_length in CE.
      injection W as <-. cbn [length nonempty_l]. rewrite !app_length, CT, CR, CE. lia.
  - injection W as <-. reflexivity.
Qed.

Lemma delv_ntimes ltab gtype : gtype = s2l "DELV" -> gen_ntimes ltab gtype = Ok 1%Z.
Proof.
  intros ->. unfold gen_ntimes. replace (str_eqb (s2l "DELV") (s2l "DELV")) with true by (vm_compute; reflexivity).
  cbn [negb]. rewrite andb_false_r. reflexivity.
Qed.
Lemma no_ltab_ntimes gtype : gen_ntimes XNone gtype = Ok 1%Z /\ gen_ntimes (XInt 0) gtype = Ok 1%Z.
Proof. split; reflexivity. Qed.

(** a 'DELV' generator is written on one line, whatever ltab and the tables hold *)
Lemma delv_one_line_written g ls : g_type g = s2l "DELV" -> write_gen T g = Ok ls -> length ls = 1%nat.
Proof.
  intros D W. destruct (gen_lines_written g ls W) as [nt [N L]].
  rewrite (delv_ntimes _ _ D) in N. injection N as <-. exact L.
Qed.
(** and the reader takes no line after a record line whose type column is 'DELV', whatever
    its ltab column holds: the record comes back with empty tables *)
Lemma delv_one_line_read acc line r gs r' :
  sval (vnth (pline T "generator" line) 7) = s2l "DELV" ->
  read_gen T acc line r = Ok (gs, r') ->
  r' = r /\ exists g, gs = g :: acc /\ g_time g = [] /\ g_rate g = [] /\ g_enth g = [] /\
                      g_ltab g = vnth (pline T "generator" line) 5.
Proof.
  intros D R. unfold read_gen in R.
  destruct (fix_blockname (sval (vnth (pline T "generator" line) 0))) as [b|]; cbn [bind] in R; [|discriminate].
  destruct (fix_blockname (sval (vnth (pline T "generator" line) 1))) as [n|]; cbn [bind] in R; [|discriminate].
  cbv zeta in R. rewrite (delv_ntimes _ _ D) in R. cbn [bind] in R.
  replace (1 <? 1)%Z with false in R by reflexivity.
  injection R as <- <-. split; [reflexivity|]. eexists. split; [reflexivity|]. cbn. repeat split; reflexivity.
Qed.

End WithTable.

(** hypotheses met, on the regenerated main table: a 'DELV' generator with ltab = 3 (three
    layers) and stray tables is one line; that line reads back with ltab 3 and no line
    taken; a 'MASS' generator with a 5-entry table and enthalpies is 1 + 3 * 2 lines *)
Definition delv_gen : gen :=
  mk_gen (s2l "AB105") (s2l "wel 1") XNone XNone XNone (XInt 3) (s2l "DELV") (s2l "") (XReal false 25 (-13)) (XReal false 1 6) (XReal false 5 1) XNone
         [XReal false 0 0; XReal false 1 0; XReal false 2 0] [XReal false 0 0; XReal false 1 0; XReal false 2 0] [].
Definition mass_gen : gen :=
  mk_gen (s2l "AB105") (s2l "wel 1") XNone XNone XNone (XInt 5) (s2l "MASS") (s2l "E") XNone XNone XNone XNone
         [XReal false 0 0; XReal false 125 3; XReal false 125 4; XReal false 375 3; XReal false 125 5]
         [XReal true 1 0; XReal true 5 (-1); XReal true 3 0; XReal true 1 1; XReal false 0 0]
         [XReal false 15625 6; XReal false 34375 5; XReal false 9375 7; XReal false 40625 5; XReal false 21875 6].
Example delv_example :
  exists l1, write_gen t2data_format delv_gen = Ok [l1] /\
    sval (vnth (pline t2data_format "generator" l1) 7) = s2l "DELV" /\
    exists g, read_gen t2data_format [] l1 [s2l "next"] = Ok ([g], [s2l "next"]) /\ g_ltab g = XInt 3.
Proof. eexists. split; [vm_compute; reflexivity|]. split; [vm_compute; reflexivity|]. eexists. split; vm_compute; reflexivity. Qed.
Example mass_example :
  exists ls, write_gen t2data_format mass_gen = Ok ls /\ gen_ntimes (g_ltab mass_gen) (g_type mass_gen) = Ok 5%Z /\
    length ls = 7%nat /\ gen_nlines mass_gen 5 = 7%nat.
Proof. eexists. split; [vm_compute; reflexivity|]. repeat split; vm_compute; reflexivity. Qed.
